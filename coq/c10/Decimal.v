(* Decimal printing of integers (the model of strconv.AppendInt / big.Int.Append, and of the
   transport's own printer) reads back exactly: parse_Z (print_Z z) = Some z for every z. *)
From Coq Require Import List NArith ZArith Lia Bool ZifyN ZifyNat ZifyBool.
From Verif Require Import common.Int64 common.Sexp c10.NumModel.
Import ListNotations.
Open Scope N_scope.

Lemma digit_val_digit d : d < 10 -> digit_val (48 + d) = Some d.
Proof.
  intros H. unfold digit_val.
  assert (E1 : (48 <=? 48 + d) = true) by (apply N.leb_le; lia).
  assert (E2 : (48 + d <=? 57) = true) by (apply N.leb_le; lia).
  rewrite E1, E2. cbn [andb]. f_equal. lia.
Qed.

Lemma print_aux_spec f : forall n acc, n < 10 ^ N.of_nat f ->
  exists ds, print_N_aux f n acc = ds ++ acc /\ (f <> O -> ds <> []) /\
    (forall a rest, dec_aux (ds ++ rest) a = dec_aux rest (a * 10 ^ N.of_nat (length ds) + n)) /\
    (forall c, hd_error ds = Some c -> 48 <= c <= 57).
Proof.
  induction f as [|f IH]; intros n acc Hn.
  - assert (n = 0) as -> by (change (10 ^ N.of_nat 0) with 1 in Hn; lia).
    exists []. split; [reflexivity|]. split; [congruence|]. split.
    + intros a rest. cbn [app length]. change (10 ^ N.of_nat 0) with 1. f_equal. lia.
    + intros c Hc. discriminate.
  - cbn [print_N_aux].
    pose proof (N.div_mod n 10 ltac:(lia)) as E.
    pose proof (N.mod_lt n 10 ltac:(lia)) as Hd.
    destruct (N.eqb_spec (n / 10) 0) as [Hq|Hq].
    + exists [48 + n mod 10]. split; [reflexivity|]. split; [congruence|]. split.
      * intros a rest. cbn [app dec_aux length]. rewrite digit_val_digit by assumption.
        f_equal. change (N.of_nat 1) with 1. rewrite N.pow_1_r. rewrite Hq, N.mul_0_r, N.add_0_l in E. rewrite <- E. reflexivity.
      * intros c Hc. cbn [hd_error] in Hc. assert (c = 48 + n mod 10) as -> by congruence. lia.
    + assert (Hlt : n / 10 < 10 ^ N.of_nat f).
      { apply N.div_lt_upper_bound; [lia|].
        replace (N.of_nat (S f)) with (N.succ (N.of_nat f)) in Hn by lia.
        rewrite N.pow_succ_r' in Hn. lia. }
      destruct (IH (n / 10) ((48 + n mod 10) :: acc) Hlt) as (ds & Hp & Hne & Hdec & Hhd).
      exists (ds ++ [48 + n mod 10]). split.
      { rewrite Hp. rewrite <- app_assoc. reflexivity. }
      split.
      { intros _ C. apply app_eq_nil in C. destruct C as [_ C]. discriminate. }
      split.
      * intros a rest. rewrite <- app_assoc. cbn [app]. rewrite Hdec. cbn [dec_aux].
        rewrite digit_val_digit by assumption. f_equal.
        rewrite app_length. cbn [length].
        replace (N.of_nat (length ds + 1)) with (N.succ (N.of_nat (length ds))) by lia.
        rewrite N.pow_succ_r'. lia.
      * intros c Hc. destruct ds as [|x ds'].
        -- cbn [app hd_error] in Hc. assert (c = 48 + n mod 10) as -> by congruence. lia.
        -- apply Hhd. exact Hc.
Qed.

Lemma size_bound n : n < 10 ^ N.of_nat (S (N.to_nat (N.size n))).
Proof.
  assert (H2 : n < 2 ^ N.size n).
  { destruct n as [|p]; [cbn; lia|]. apply N.size_gt. }
  replace (N.of_nat (S (N.to_nat (N.size n)))) with (N.succ (N.size n)) by lia.
  rewrite N.pow_succ_r'.
  assert (2 ^ N.size n <= 10 ^ N.size n) by (apply N.pow_le_mono_l; lia).
  assert (0 < 10 ^ N.size n) by (apply N.neq_0_lt_0, N.pow_nonzero; lia).
  lia.
Qed.

Lemma parse_print_N n : parse_N (print_N n) = Some n /\
  (forall c, hd_error (print_N n) = Some c -> 48 <= c <= 57) /\ print_N n <> [].
Proof.
  unfold print_N.
  destruct (print_aux_spec (S (N.to_nat (N.size n))) n [] (size_bound n)) as (ds & Hp & Hne & Hdec & Hhd).
  rewrite Hp, app_nil_r. specialize (Hne ltac:(congruence)).
  split; [|split; [exact Hhd|exact Hne]].
  unfold parse_N. destruct ds as [|c r]; [contradiction|].
  specialize (Hdec 0 []). rewrite app_nil_r in Hdec. rewrite Hdec. cbn [dec_aux]. f_equal.
Qed.

Lemma is_minus_print_N n : is_minus (print_N n) = false.
Proof.
  destruct (parse_print_N n) as (_ & Hhd & Hne).
  destruct (print_N n) as [|c r]; [reflexivity|].
  specialize (Hhd c eq_refl). cbn. destruct (N.eqb_spec c 45); [lia|reflexivity].
Qed.

Lemma parse_print_Z z : parse_Z (print_Z z) = Some z.
Proof.
  unfold parse_Z, print_Z. destruct z as [|p|p].
  - rewrite is_minus_print_N. destruct (parse_print_N (Z.to_N 0)) as (H & _). rewrite H. reflexivity.
  - rewrite is_minus_print_N. destruct (parse_print_N (Z.to_N (Zpos p))) as (H & _). rewrite H.
    cbn. reflexivity.
  - cbn [is_minus tl]. rewrite N.eqb_refl.
    destruct (parse_print_N (Npos p)) as (H & _). rewrite H. reflexivity.
Qed.


Definition wfnum' (n : num) : Prop :=
  match n with NInt z => in_int z | NBig _ => True | NLit t => lit_value t <> None end.

Lemma encode_reads_back' n : lit_value (encode_num n) = value n.
Proof. destruct n as [z|z|t]; cbn [encode_num value]; unfold lit_value; try apply parse_print_Z. reflexivity. Qed.
