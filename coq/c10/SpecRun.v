(* C10 specification oracle: exact integer arithmetic on the operand VALUES, independent of the
   translated kernels and of the representation-dispatch model.  Extracted on its own (c10spec) so that it
   judges the implementation even when gen/GenArith.v fails to translate or compile.
   Line forms: see Run.v; (site <name> <op> <a> <b> <impl>) is arithmetic performed at other code sites
   than the binary operators (the `add` builtin, update-assignment operators, reduce, ...). *)
From Coq Require Import List ZArith NArith Bool String.
From Verif Require Import common.Int64 common.Sexp c10.NumRep.
Import ListNotations.
Open Scope Z_scope.

Definition dec_num (e : sexp) : option num :=
  match e with
  | SList [t; Atom v] =>
      if atom_is "i" t then option_map NInt (parse_Z v)
      else if atom_is "b" t then option_map NBig (parse_Z v)
      else if atom_is "l" t then option_map NLit (parse_hexs v)
      else None
  | _ => None
  end.

Definition dec_op (e : sexp) : option op :=
  if atom_is "add" e then Some OAdd else if atom_is "sub" e then Some OSub
  else if atom_is "mul" e then Some OMul else if atom_is "div" e then Some ODiv
  else if atom_is "mod" e then Some OMod else None.

Definition enc_bres (b : bres) : sexp :=
  match b with
  | BNum n => match value n with Some z => SList [A "int"; Atom (print_Z z)] | None => A "badlit" end
  | BFlt l r => SList [A "fdiv"; Atom (print_Z l); Atom (print_Z r)]
  | BZeroDiv => A "zerodiv"
  | BZeroMod => A "zeromod"
  | BBad => A "modelbad"
  end.

(* does the implementation's observed result agree with the model's? *)
Definition agrees (b : bres) (impl : sexp) : bool :=
  match b with
  | BNum n =>
      match value n, dec_num impl with
      | Some z, Some m => match value m with Some z' => z =? z' | None => false end
      | _, _ => false
      end
  | BFlt _ _ => match impl with SList [t; _] => atom_is "f" t | _ => false end
  | BZeroDiv => atom_is "zerodiv" impl
  | BZeroMod => atom_is "zeromod" impl
  | BBad => false
  end.

Definition verdict (b : bres) (impl : sexp) : sexp :=
  if agrees b impl then A "ok" else SList [A "bad"; enc_bres b].

Definition enc_cmp (c : comparison) : Z := match c with Lt => -1 | Eq => 0 | Gt => 1 end.

(* The property's own oracle, independent of the translated kernels and of NumModel's dispatch:
   exact integer arithmetic on the operand VALUES.  Lines wrapped as (spec <line>) are judged by it.
   Used to search for a failing input when a proof or the correspondence breaks. *)
Definition spec_bres (o : op) (l r : Z) : bres :=
  match o with
  | OAdd => BNum (NBig (l + r)) | OSub => BNum (NBig (l - r)) | OMul => BNum (NBig (l * r))
  | ODiv => if r =? 0 then BZeroDiv else if Z.rem l r =? 0 then BNum (NBig (Z.quot l r)) else BFlt l r
  | OMod => if r =? 0 then BZeroMod else BNum (NBig (Z.rem l r))
  end.

Definition vnum (e : sexp) : option Z := match dec_num e with Some n => value n | None => None end.

Definition spec_sexp (e : sexp) : sexp :=
  match e with
  | SList [k; o; a; b; impl] =>
      match dec_op o, vnum a, vnum b with
      | Some o, Some l, Some r => verdict (spec_bres o l r) impl
      | _, _, _ => A "undecodable"
      end
  | SList [k; site; o; a; b; impl] =>
      match dec_op o, vnum a, vnum b with
      | Some o, Some l, Some r => verdict (spec_bres o l r) impl
      | _, _, _ => A "undecodable"
      end
  | SList [k; a; b; Atom impl] =>
      match vnum a, vnum b, parse_Z impl with
      | Some l, Some r, Some i =>
          if enc_cmp (Z.compare l r) =? i then A "ok" else SList [A "bad"; Atom (print_Z (enc_cmp (Z.compare l r)))]
      | _, _, _ => A "undecodable"
      end
  | SList [k; a; impl] =>
      match vnum a with
      | Some z =>
          if atom_is "neg" k then verdict (BNum (NBig (- z))) impl
          else if atom_is "abs" k then verdict (BNum (NBig (Z.abs z))) impl
          else if atom_is "enc" k then
            match impl with
            | Atom h => match parse_hexs h with
                        | Some bs => match parse_Z bs with
                                     | Some z' => if z =? z' then A "ok" else SList [A "bad"; Atom (print_Z z)]
                                     | None => SList [A "bad"; Atom (print_Z z)]
                                     end
                        | None => A "undecodable"
                        end
            | _ => A "undecodable"
            end
          else A "undecodable"
      | None => A "undecodable"
      end
  | _ => A "undecodable"
  end.

Definition spec_line (l : list N) : list N :=
  match parse l with
  | Some e => print (spec_sexp e)
  | None => codes "unparsable"
  end.
