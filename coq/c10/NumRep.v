(* C10: integer operands as Go carries them, and result kinds.  No dependency on generated files, so
   the specification oracle (SpecRun.v) still runs when the translated kernels do not even compile. *)
From Coq Require Import List ZArith NArith Bool.
From Verif Require Import common.Int64 common.Sexp.
Import ListNotations.
Open Scope Z_scope.

Inductive num :=
| NInt (z : Z)            (* int; invariant in_int z *)
| NBig (z : Z)            (* big.Int, any magnitude (may be small) *)
| NLit (t : list N).      (* json.Number holding an integer literal: -?digits *)

Definition lit_value (t : list N) : option Z := parse_Z t.

Definition value (n : num) : option Z :=
  match n with NInt z => Some z | NBig z => Some z | NLit t => lit_value t end.

Inductive bres :=
| BNum (n : num)          (* int or big.Int result *)
| BFlt (l r : Z)          (* float division of the two exact operands *)
| BZeroDiv | BZeroMod
| BBad.                   (* model precondition violated (not an integer literal) *)

Inductive op := OAdd | OSub | OMul | ODiv | OMod.

Definition bvalue (b : bres) : option Z := match b with BNum n => value n | _ => None end.
