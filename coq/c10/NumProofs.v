From Coq Require Import List ZArith NArith Bool Lia.
From Verif Require Import common.Int64 common.Sexp gen.GenArith c10.Arith64 c10.NumModel c10.Decimal.
Import ListNotations.
Open Scope Z_scope.

Definition wfnum (n : num) : Prop :=
  match n with NInt z => in_int z | NBig _ => True | NLit t => lit_value t <> None end.

Definition zop (o : op) (l r : Z) : Z :=
  match o with OAdd => l + r | OSub => l - r | OMul => l * r | ODiv => Z.quot l r | OMod => Z.rem l r end.

Lemma value_exact z : value (match exact z with RInt x => NInt x | RBig x => NBig x | _ => NInt 0 end) = Some z.
Proof. unfold exact. destruct (in_intb z); reflexivity. Qed.

Lemma of_res_exact z : bvalue (of_res (exact z)) = Some z.
Proof. unfold exact. destruct (in_intb z); reflexivity. Qed.

Lemma norm_value a : wfnum a -> exists n, norm a = Some n /\ value n = value a /\
  match n with NInt z => in_int z | NBig _ => True | NLit _ => False end.
Proof.
  destruct a as [z|z|t]; cbn; intros H.
  - exists (NInt z); auto.
  - exists (NBig z); auto.
  - destruct (lit_value t) as [z|] eqn:E; [|contradiction].
    destruct (in_intb z) eqn:Hi.
    + exists (NInt z). split; [reflexivity|]. split; [reflexivity|]. now apply in_intb_spec in Hi.
    + exists (NBig z). split; [reflexivity|]. split; [reflexivity|]. exact I.
Qed.

Lemma int_kernel_exact o l r : in_int l -> in_int r ->
  match o with
  | OAdd | OSub | OMul => bvalue (of_res (int_kernel o l r)) = Some (zop o l r)
  | ODiv => (r = 0 -> of_res (int_kernel o l r) = BZeroDiv) /\
            (r <> 0 -> Z.rem l r = 0 -> bvalue (of_res (int_kernel o l r)) = Some (Z.quot l r)) /\
            (r <> 0 -> Z.rem l r <> 0 -> of_res (int_kernel o l r) = BFlt l r)
  | OMod => (r = 0 -> of_res (int_kernel o l r) = BZeroMod) /\
            (r <> 0 -> bvalue (of_res (int_kernel o l r)) = Some (Z.rem l r))
  end.
Proof.
  intros Hl Hr. destruct o; cbn [int_kernel zop].
  - rewrite add_exact by assumption. apply of_res_exact.
  - rewrite sub_exact by assumption. apply of_res_exact.
  - rewrite mul_exact by assumption. apply of_res_exact.
  - repeat split.
    + intros ->. reflexivity.
    + intros H0 Hrem. rewrite div_exact by assumption. apply of_res_exact.
    + intros H0 Hrem. now rewrite div_inexact by assumption.
  - split.
    + intros ->. reflexivity.
    + intros H0. now rewrite mod_exact by assumption.
Qed.

Lemma big_kernel_exact o l r :
  match o with
  | OAdd | OSub | OMul => bvalue (big_kernel o l r) = Some (zop o l r)
  | ODiv => (r = 0 -> big_kernel o l r = BZeroDiv) /\
            (r <> 0 -> Z.rem l r = 0 -> bvalue (big_kernel o l r) = Some (Z.quot l r)) /\
            (r <> 0 -> Z.rem l r <> 0 -> big_kernel o l r = BFlt l r)
  | OMod => (r = 0 -> big_kernel o l r = BZeroMod) /\
            (r <> 0 -> bvalue (big_kernel o l r) = Some (Z.rem l r))
  end.
Proof.
  destruct o; cbn [big_kernel zop bvalue value]; try reflexivity.
  - repeat split.
    + intros ->. reflexivity.
    + intros H0 Hrem. destruct (Z.eqb_spec r 0); [contradiction|].
      assert (Hm : l mod r = 0).
      { apply Z.rem_divide in Hrem; [|assumption]. apply Z.mod_divide; assumption. }
      rewrite Hm. cbn. f_equal.
      pose proof (Z.quot_rem' l r) as Q. rewrite Hrem in Q.
      pose proof (Z.div_mod l r n) as D. rewrite Hm in D. nia.
    + intros H0 Hrem. destruct (Z.eqb_spec r 0); [contradiction|].
      destruct (Z.eqb_spec (l mod r) 0) as [E|E]; [|reflexivity].
      exfalso. apply Hrem. apply Z.mod_divide in E; [|assumption].
      apply Z.rem_divide; assumption.
  - split.
    + intros ->. reflexivity.
    + intros H0. destruct (Z.eqb_spec r 0); [contradiction|reflexivity].
Qed.

(* The statement of "integer arithmetic is exact in every representation". *)
Definition binop_spec (o : op) (l r : Z) (b : bres) : Prop :=
  match o with
  | OAdd | OSub | OMul => bvalue b = Some (zop o l r)
  | ODiv => (r = 0 -> b = BZeroDiv) /\
            (r <> 0 -> Z.rem l r = 0 -> bvalue b = Some (Z.quot l r)) /\
            (r <> 0 -> Z.rem l r <> 0 -> b = BFlt l r)
  | OMod => (r = 0 -> b = BZeroMod) /\ (r <> 0 -> bvalue b = Some (Z.rem l r))
  end.

Lemma binop_exact o a b l r : wfnum a -> wfnum b -> value a = Some l -> value b = Some r ->
  binop_spec o l r (binop o a b).
Proof.
  intros Wa Wb Va Vb.
  destruct (norm_value a Wa) as (na & Na & Vna & Ka).
  destruct (norm_value b Wb) as (nb & Nb & Vnb & Kb).
  unfold binop. rewrite Na, Nb. rewrite Va in Vna. rewrite Vb in Vnb.
  destruct na as [x|x|?]; [| |contradiction]; destruct nb as [y|y|?]; try contradiction;
    cbn in Vna, Vnb; injection Vna as ->; injection Vnb as ->; unfold binop_spec.
  - pose proof (int_kernel_exact o l r Ka Kb) as H. destruct o; exact H.
  - pose proof (big_kernel_exact o l r) as H. destruct o; exact H.
  - pose proof (big_kernel_exact o l r) as H. destruct o; exact H.
  - pose proof (big_kernel_exact o l r) as H. destruct o; exact H.
Qed.

Lemma cmp_exact a b l r : wfnum a -> wfnum b -> value a = Some l -> value b = Some r ->
  cmp a b = Some (Z.compare l r).
Proof.
  intros Wa Wb Va Vb.
  destruct (norm_value a Wa) as (na & Na & Vna & Ka).
  destruct (norm_value b Wb) as (nb & Nb & Vnb & Kb).
  unfold cmp. rewrite Na, Nb. rewrite Va in Vna. rewrite Vb in Vnb.
  destruct na as [x|x|?]; [| |contradiction]; destruct nb as [y|y|?]; try contradiction;
    cbn in Vna, Vnb; injection Vna as ->; injection Vnb as ->; reflexivity.
Qed.

(* negation and abs; the literal case is textual: stated for canonical literals -?digits *)
(* literals: -?digits.  A literal is canonical when it has at most one leading minus. *)
Definition canon (t : list N) : Prop := is_minus (tl t) = false \/ is_minus t = false.

Lemma neg_exact_lit t z : lit_value t = Some z -> is_minus (tl t) = false ->
  bvalue (neg (NLit t)) = Some (- z).
Proof.
  unfold lit_value, parse_Z. intros H C. unfold neg.
  destruct (is_minus t) eqn:M; cbn [bvalue value]; unfold lit_value, parse_Z.
  - rewrite C. destruct (parse_N (tl t)) as [n|]; [|discriminate].
    cbn in *. injection H as <-. f_equal. lia.
  - cbn [is_minus tl]. rewrite N.eqb_refl.
    destruct (parse_N t) as [n|]; [|discriminate]. cbn in *. injection H as <-. reflexivity.
Qed.

Lemma abs_exact_lit t z : lit_value t = Some z -> is_minus (tl t) = false ->
  bvalue (absn (NLit t)) = Some (Z.abs z).
Proof.
  unfold lit_value, parse_Z. intros H C. unfold absn.
  destruct (is_minus t) eqn:M; cbn [bvalue value]; unfold lit_value, parse_Z.
  - rewrite C. destruct (parse_N (tl t)) as [n|]; [|discriminate].
    cbn in *. injection H as <-. f_equal. lia.
  - rewrite M. destruct (parse_N t) as [n|]; [|discriminate]. cbn in *. injection H as <-.
    f_equal. lia.
Qed.

Lemma neg_exact_int z : in_int z -> bvalue (neg (NInt z)) = Some (- z).
Proof. intros H. cbn. rewrite negate_exact by assumption. apply of_res_exact. Qed.

Lemma neg_exact_big z : bvalue (neg (NBig z)) = Some (- z).
Proof. reflexivity. Qed.

Lemma abs_exact_int z : in_int z -> bvalue (absn (NInt z)) = Some (Z.abs z).
Proof. intros H. cbn. rewrite abs_exact by assumption. apply of_res_exact. Qed.

Lemma abs_exact_big z : bvalue (absn (NBig z)) = Some (Z.abs z).
Proof. reflexivity. Qed.

(* a number that reaches the encoder untouched is printed with the digits it had *)
Lemma literal_verbatim t : encode_num (NLit t) = t.
Proof. reflexivity. Qed.

Lemma encode_reads_back n : wfnum n -> lit_value (encode_num n) = value n.
Proof. intros _. apply encode_reads_back'. Qed.
