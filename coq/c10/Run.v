(* C10 correspondence: one harness line -> verdict.  Line forms (see harness/c10.go):
     (binop <op> <a> <b> <impl>)   (cmp <a> <b> <impl-int>)   (neg <a> <impl>)  (abs <a> <impl>)
     (enc <a> <hex-bytes-printed-by-impl>)
   numbers <a>: (i z) int | (b z) *big.Int | (l hex) json.Number literal
   impl results: (i z) | (b z) | (l hex) | (f bits) | zerodiv | zeromod | (err hex)
   Verdict: "ok" or (bad <what the model expected>). Comparison is by exact integer VALUE
   (the Go representation of a result is not constrained by the property). *)
From Coq Require Import List ZArith NArith Bool String.
From Verif Require Import common.Int64 common.Sexp gen.GenArith c10.NumModel c10.SpecRun.
Import ListNotations.
Open Scope Z_scope.

Definition run_sexp (e : sexp) : sexp :=
  match e with
  | SList [k; site; o; a; b; impl] =>
      if atom_is "site" k then
        match dec_op o, dec_num a, dec_num b with
        | Some o, Some a, Some b => verdict (binop o a b) impl
        | _, _, _ => A "undecodable"
        end
      else A "undecodable"
  | SList [k; o; a; b; impl] =>
      if atom_is "binop" k then
        match dec_op o, dec_num a, dec_num b with
        | Some o, Some a, Some b => verdict (binop o a b) impl
        | _, _, _ => A "undecodable"
        end
      else A "undecodable"
  | SList [k; a; b; Atom impl] =>
      if atom_is "cmp" k then
        match dec_num a, dec_num b, parse_Z impl with
        | Some a, Some b, Some i =>
            match cmp a b with
            | Some c => if enc_cmp c =? i then A "ok" else SList [A "bad"; Atom (print_Z (enc_cmp c))]
            | None => A "modelbad"
            end
        | _, _, _ => A "undecodable"
        end
      else A "undecodable"
  | SList [k; a; impl] =>
      match dec_num a with
      | Some a =>
          if atom_is "neg" k then verdict (neg a) impl
          else if atom_is "abs" k then verdict (absn a) impl
          else if atom_is "enc" k then
            match impl with
            | Atom h => match parse_hexs h with
                        | Some bs => if list_N_eqb bs (encode_num a) then A "ok"
                                     else SList [A "bad"; Atom (print_hexs (encode_num a))]
                        | None => A "undecodable"
                        end
            | _ => A "undecodable"
            end
          else A "undecodable"
      | None => A "undecodable"
      end
  | _ => A "undecodable"
  end.

(* Search: compare the TRANSLATED int kernels with exact arithmetic over all pairs of the given
   in-range values; returns the disagreeing (op l r) triples (first 24).  Candidates are then replayed
   on the implementation by the check. *)
Definition bres_eqv (a b : bres) : bool :=
  match a, b with
  | BNum x, BNum y => match value x, value y with Some u, Some v => u =? v | _, _ => false end
  | BFlt _ _, BFlt _ _ => true
  | BZeroDiv, BZeroDiv => true
  | BZeroMod, BZeroMod => true
  | _, _ => false
  end.
Definition op_name (o : op) : sexp :=
  match o with OAdd => A "add" | OSub => A "sub" | OMul => A "mul" | ODiv => A "div" | OMod => A "mod" end.
Definition search_pairs (vals : list Z) : list sexp :=
  let vs := filter in_intb vals in
  flat_map (fun o => flat_map (fun l => flat_map (fun r =>
    if bres_eqv (of_res (int_kernel o l r)) (spec_bres o l r) then []
    else [SList [op_name o; Atom (print_Z l); Atom (print_Z r)]]) vs) vs) [OAdd; OSub; OMul; ODiv; OMod].
Definition search_unary (vals : list Z) : list sexp :=
  let vs := filter in_intb vals in
  flat_map (fun l =>
    (if bres_eqv (of_res (negate l)) (BNum (NBig (- l))) then [] else [SList [A "neg"; Atom (print_Z l)]]) ++
    (if bres_eqv (of_res (abs_int l)) (BNum (NBig (Z.abs l))) then [] else [SList [A "abs"; Atom (print_Z l)]]) ++
    (if bres_eqv (of_res (length_int l)) (BNum (NBig (Z.abs l))) then [] else [SList [A "abs"; Atom (print_Z l)]])) vs.
Fixpoint atoms_Z (l : list sexp) : list Z :=
  match l with
  | Atom a :: r => match parse_Z a with Some z => z :: atoms_Z r | None => atoms_Z r end
  | _ :: r => atoms_Z r
  | [] => []
  end.

Definition run_line (l : list N) : list N :=
  match parse l with
  | Some (SList (Atom k :: vals)) =>
      if list_N_eqb k (codes "search") then
        print (SList (firstn 24 (search_unary (atoms_Z vals) ++ search_pairs (atoms_Z vals))))
      else match vals with
           | [e] => if list_N_eqb k (codes "spec") then print (spec_sexp e) else print (run_sexp (SList (Atom k :: vals)))
           | _ => print (run_sexp (SList (Atom k :: vals)))
           end
  | Some e => print (run_sexp e)
  | None => codes "unparsable"
  end.
