(* C10: proofs over the TRANSLATED int kernels (gen/GenArith.v is regenerated from operator.go and
   func.go on every run; these proofs are re-checked against it). *)
From Coq Require Import ZArith Lia Bool.
From Verif Require Import common.Int64 gen.GenArith.
Open Scope Z_scope.

(* The exact result expected of an int kernel whose mathematical value is z:
   an int when it fits (nothing is needlessly promoted), the exact big integer otherwise
   (nothing wraps). *)
Definition exact (z : Z) : res := if in_intb z then RInt z else RBig z.

Lemma wrap64_id z : in_int z -> wrap64 z = z.
Proof.
  unfold in_int, wrap64, min_int, max_int. intros H.
  rewrite Z.mod_small by lia. lia.
Qed.

Lemma wrap64_range z : in_int (wrap64 z).
Proof.
  unfold in_int, wrap64, min_int, max_int.
  pose proof (Z.mod_pos_bound (z + 2 ^ 63) (2 ^ 64) ltac:(lia)). lia.
Qed.

Lemma wrap64_eq z : exists k, wrap64 z = z + k * 2 ^ 64.
Proof.
  unfold wrap64. exists (- ((z + 2 ^ 63) / 2 ^ 64)).
  pose proof (Z.div_mod (z + 2 ^ 63) (2 ^ 64) ltac:(lia)). lia.
Qed.

Lemma exact_in z : in_int z -> exact z = RInt z.
Proof. intros H. unfold exact. apply in_intb_spec in H. now rewrite H. Qed.

Lemma exact_out z : ~ in_int z -> exact z = RBig z.
Proof.
  intros H. unfold exact. destruct (in_intb z) eqn:E; [|reflexivity].
  apply in_intb_spec in E. contradiction.
Qed.

Lemma in_int_dec z : in_int z \/ ~ in_int z.
Proof. unfold in_int, min_int, max_int. lia. Qed.

Ltac range := unfold in_int, min_int, max_int in *.

Lemma negate_exact v : in_int v -> negate v = exact (- v).
Proof.
  intros Hv. unfold negate.
  destruct (Z.eqb_spec v min_int) as [->|Hne].
  - rewrite exact_out; [reflexivity|]. range. lia.
  - assert (in_int (- v)) by (range; lia).
    rewrite wrap64_id by assumption. now rewrite exact_in.
Qed.

Lemma add_exact l r : in_int l -> in_int r -> add_int l r = exact (l + r).
Proof.
  intros Hl Hr. unfold add_int. cbv zeta.
  destruct (in_int_dec (l + r)) as [Hin|Hout].
  - rewrite wrap64_id by assumption. rewrite exact_in by assumption.
    replace (Bool.eqb (l + r >=? l) (r >=? 0)) with true; [reflexivity|].
    symmetry. apply Bool.eqb_true_iff.
    destruct (Z.geb_spec (l + r) l), (Z.geb_spec r 0); try reflexivity; lia.
  - rewrite exact_out by assumption.
    destruct (wrap64_eq (l + r)) as [k Hk]. pose proof (wrap64_range (l + r)) as Hw.
    replace (Bool.eqb (wrap64 (l + r) >=? l) (r >=? 0)) with false; [reflexivity|].
    symmetry. apply Bool.eqb_false_iff.
    rewrite Hk in *. range.
    destruct (Z.geb_spec (l + r + k * 2 ^ 64) l), (Z.geb_spec r 0); try discriminate; lia.
Qed.

Lemma sub_exact l r : in_int l -> in_int r -> sub_int l r = exact (l - r).
Proof.
  intros Hl Hr. unfold sub_int. cbv zeta.
  destruct (in_int_dec (l - r)) as [Hin|Hout].
  - rewrite wrap64_id by assumption. rewrite exact_in by assumption.
    replace (Bool.eqb (l - r <=? l) (r >=? 0)) with true; [reflexivity|].
    symmetry. apply Bool.eqb_true_iff.
    destruct (Z.leb_spec (l - r) l), (Z.geb_spec r 0); try reflexivity; lia.
  - rewrite exact_out by assumption.
    destruct (wrap64_eq (l - r)) as [k Hk]. pose proof (wrap64_range (l - r)) as Hw.
    replace (Bool.eqb (wrap64 (l - r) <=? l) (r >=? 0)) with false; [reflexivity|].
    symmetry. apply Bool.eqb_false_iff.
    rewrite Hk in *. range.
    destruct (Z.leb_spec (l - r + k * 2 ^ 64) l), (Z.geb_spec r 0); try discriminate; lia.
Qed.

Lemma quot_small v r : in_int v -> 2 <= Z.abs r -> in_int (Z.quot v r).
Proof.
  intros Hv Hr. range.
  pose proof (Z.quot_rem' v r) as E. pose proof (Z.rem_bound_abs v r ltac:(lia)) as B.
  nia.
Qed.

Lemma mul_exact l r : in_int l -> in_int r -> mul_int l r = exact (l * r).
Proof.
  intros Hl Hr. unfold mul_int. cbv zeta.
  destruct (Z.eqb_spec r (-1)) as [->|Hm1].
  { rewrite negate_exact by assumption. f_equal. lia. }
  destruct (Z.eqb_spec r 0) as [->|H0].
  { cbn [orb]. rewrite Z.mul_0_r. reflexivity. }
  cbn [orb].
  destruct (Z.eq_dec r 1) as [->|H1].
  { rewrite Z.mul_1_r. rewrite (wrap64_id l) by assumption. rewrite Z.quot_1_r.
    rewrite (wrap64_id l) by assumption. rewrite Z.eqb_refl. now rewrite exact_in. }
  assert (Hr2 : 2 <= Z.abs r) by lia.
  pose proof (wrap64_range (l * r)) as Hw.
  rewrite (wrap64_id (Z.quot _ _)) by (apply quot_small; assumption).
  destruct (in_int_dec (l * r)) as [Hin|Hout].
  - rewrite wrap64_id by assumption. rewrite exact_in by assumption.
    rewrite Z.quot_mul by assumption. now rewrite Z.eqb_refl.
  - rewrite exact_out by assumption.
    destruct (wrap64_eq (l * r)) as [k Hk].
    destruct (Z.eqb_spec (Z.quot (wrap64 (l * r)) r) l) as [E|E]; [exfalso|reflexivity].
    pose proof (Z.quot_rem' (wrap64 (l * r)) r) as Q.
    pose proof (Z.rem_bound_abs (wrap64 (l * r)) r ltac:(lia)) as B.
    rewrite E in Q. rewrite Hk in *. range.
    assert (k <> 0) by (intros ->; apply Hout; lia).
    nia.
Qed.

(* division: by zero is an error; when r divides l the result is the exact integer quotient *)
Lemma div_zero l : div_int l 0 = RZeroDiv.
Proof. reflexivity. Qed.

Lemma div_exact l r : in_int l -> in_int r -> r <> 0 -> Z.rem l r = 0 ->
  div_int l r = exact (Z.quot l r).
Proof.
  intros Hl Hr H0 Hrem. unfold div_int.
  destruct (Z.eqb_spec r 0); [contradiction|].
  destruct (Z.eqb_spec r (-1)) as [->|Hm1].
  { rewrite negate_exact by assumption. f_equal.
    pose proof (Z.quot_rem' l (-1)). lia. }
  rewrite Hrem. cbn [Z.eqb].
  assert (in_int (Z.quot l r)).
  { pose proof (Z.quot_rem' l r) as Q. rewrite Hrem in Q. range. nia. }
  rewrite wrap64_id by assumption. now rewrite exact_in.
Qed.

(* when r does not divide l the kernel hands over to float division; it never returns a truncated int *)
Lemma div_inexact l r : in_int l -> in_int r -> r <> 0 -> Z.rem l r <> 0 ->
  div_int l r = RFltDiv l r.
Proof.
  intros Hl Hr H0 Hrem. unfold div_int.
  destruct (Z.eqb_spec r 0); [contradiction|].
  destruct (Z.eqb_spec r (-1)) as [->|Hm1].
  { exfalso. apply Hrem. pose proof (Z.rem_bound_abs l (-1) ltac:(lia)). lia. }
  destruct (Z.eqb_spec (Z.rem l r) 0); [contradiction|reflexivity].
Qed.

Lemma mod_zero l : mod_int l 0 = RZeroMod.
Proof. reflexivity. Qed.

(* modulo: truncated remainder, i.e. the sign of the dividend *)
Lemma mod_exact l r : in_int l -> in_int r -> r <> 0 -> mod_int l r = RInt (Z.rem l r).
Proof.
  intros Hl Hr H0. unfold mod_int.
  destruct (Z.eqb_spec r 0); [contradiction|].
  destruct (Z.eqb_spec r (-1)) as [->|Hm1]; [|reflexivity].
  f_equal. pose proof (Z.rem_bound_abs l (-1) ltac:(lia)). lia.
Qed.

Lemma rem_sign l r : r <> 0 -> 0 <= Z.rem l r * l /\ Z.abs (Z.rem l r) < Z.abs r.
Proof.
  intros H. split.
  - pose proof (Z.rem_sign_mul l r H). lia.
  - pose proof (Z.rem_bound_abs l r H). lia.
Qed.

Lemma abs_exact v : in_int v -> abs_int v = exact (Z.abs v).
Proof.
  intros Hv. unfold abs_int.
  destruct (Z.geb_spec v 0).
  - rewrite Z.abs_eq by lia. now rewrite exact_in.
  - rewrite negate_exact by assumption. f_equal. lia.
Qed.

Lemma length_exact v : in_int v -> length_int v = exact (Z.abs v).
Proof.
  intros Hv. unfold length_int.
  destruct (Z.geb_spec v 0).
  - rewrite Z.abs_eq by lia. now rewrite exact_in.
  - rewrite negate_exact by assumption. f_equal. lia.
Qed.
