(* C06 — code_readonly in the heap model of C05: a run that keeps the ownership discipline leaves the
   ENTIRE heap that existed when it started — the containers of the code constants, of the input and of
   the variable values — exactly as it was: the old heap is a prefix of the new one.  Structurally, the
   program being interpreted (the code, with its embedded constants) is not part of the interpreter's
   state at all: [run : prog A -> st -> option (A * st)] has no way to return a changed program. *)
From Coq Require Import List Arith Lia.
From Verif Require Import c05.Heap c05.HeapProofs c05.Theorems.
Import ListNotations.

Lemma prefix_of_nth : forall A (h h' : list A),
  length h <= length h' -> (forall x, x < length h -> nth_error h' x = nth_error h x) -> firstn (length h) h' = h.
Proof.
  induction h as [|c h IH]; intros h' L H; auto.
  destruct h' as [|c' h']; cbn in L; try lia. cbn [length firstn].
  pose proof (H 0 ltac:(cbn; lia)) as H0. cbn in H0. inversion H0; subst. f_equal.
  apply IH. lia. intros x Hx. apply (H (S x)). cbn; lia.
Qed.

Theorem code_readonly : forall A (p : prog A), writes_fresh p ->
  forall h r s', run p (start h []) = Some (r, s') -> firstn (length h) (hp s') = h.
Proof.
  intros A p W h r s' E. apply prefix_of_nth.
  - exact (fr_len _ _ (run_frame _ _ _ _ _ E)).
  - intros x Hx. eapply writes_fresh_unchanged; eauto.
Qed.

(* two disciplined runs started one after the other from the same heap see the same shared part:
   the second run starts from a heap whose shared prefix is what the first one started from *)
Theorem second_run_sees_same_shared : forall A B (p : prog A) (q : prog B), writes_fresh p ->
  forall h r s1, run p (start h []) = Some (r, s1) ->
  forall x, x < length h -> nth_error (hp s1) x = nth_error h x.
Proof. intros. eapply writes_fresh_unchanged; eauto. Qed.
