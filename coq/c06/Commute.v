(* C06 — disjoint-footprint commutation, proved once for an abstract machine.

   Threads share one store (address -> cell).  A step of a thread is a function of the thread's private
   state and of the store; it returns the new private state and the list of writes it performs.  Each
   thread t has a write region W t.  If
     - every step of t writes only inside W t                                   (ownership discipline),
     - a step of t depends only on addresses outside the write regions of the OTHER threads,
     - the write regions of distinct threads are disjoint,
   then under EVERY schedule each thread ends in exactly the private state it reaches when it runs
   alone, and the final store agrees with its solo store everywhere outside the other threads' regions.

   Instantiated in prose for gojq (docs/C06.md): a thread is one run of a Code; W t is the memory the run
   allocated (allocation = writing into a private, initially unused region); the shared part — input,
   variable values, code constants — is outside every W t exactly when every native keeps the discipline
   `writes ⊆ allocated by this run` (C05).  What is NOT in this model: the Go scheduler's atomicity
   (steps are atomic here), the Go memory model, sync.Map, blocking/deadlock. *)
From Coq Require Import List Arith Bool Lia.
Import ListNotations.

Section Commute.
Variable addr : Type.
Variable cell : Type.
Variable addr_eq_dec : forall a b : addr, {a = b} + {a <> b}.
Variable tid : Type.
Variable tid_eq_dec : forall a b : tid, {a = b} + {a <> b}.
Variable local : Type.

Definition store := addr -> cell.

(* one step: None = the thread has finished (a finished thread stutters) *)
Variable step : tid -> local -> store -> option (local * list (addr * cell)).
(* the write region of each thread, and an invariant of its private state that steps preserve *)
Variable W : tid -> addr -> Prop.
Variable Inv : tid -> local -> Prop.

Definition outside_others (t : tid) (a : addr) : Prop := forall u, u <> t -> ~ W u a.

Hypothesis W_disjoint : forall t u a, t <> u -> W t a -> ~ W u a.
(* ownership: a step of t writes only inside W t, and keeps the invariant *)
Hypothesis step_owns : forall t l s l' ws, Inv t l -> step t l s = Some (l', ws) ->
  Inv t l' /\ Forall (fun w => W t (fst w)) ws.
(* a step of t does not look at the other threads' regions *)
Hypothesis step_frame : forall t l s s', Inv t l ->
  (forall a, outside_others t a -> s a = s' a) -> step t l s = step t l s'.

Definition upd (s : store) (a : addr) (c : cell) : store := fun b => if addr_eq_dec b a then c else s b.
Fixpoint apply_writes (s : store) (ws : list (addr * cell)) : store :=
  match ws with [] => s | (a, c) :: r => apply_writes (upd s a c) r end.

Definition locals := tid -> local.
Definition set_local (ls : locals) (t : tid) (l : local) : locals := fun u => if tid_eq_dec u t then l else ls u.

(* the interleaved machine: the schedule says whose step comes next *)
Definition step_conf (t : tid) (c : locals * store) : locals * store :=
  match step t (fst c t) (snd c) with
  | Some (l', ws) => (set_local (fst c) t l', apply_writes (snd c) ws)
  | None => c
  end.
Fixpoint exec (sched : list tid) (c : locals * store) : locals * store :=
  match sched with [] => c | t :: r => exec r (step_conf t c) end.

(* thread t alone, n steps *)
Fixpoint solo (t : tid) (n : nat) (c : local * store) : local * store :=
  match n with
  | O => c
  | S n' => match step t (fst c) (snd c) with
            | Some (l', ws) => solo t n' (l', apply_writes (snd c) ws)
            | None => solo t n' c
            end
  end.

Lemma apply_writes_outside : forall ws s a, (forall w, In w ws -> fst w <> a) -> apply_writes s ws a = s a.
Proof.
  induction ws as [|[b c] ws IH]; intros s a H; cbn; auto.
  rewrite IH. unfold upd. destruct (addr_eq_dec a b); auto. subst. exfalso. apply (H (b, c)); cbn; auto.
  intros w Hw. apply H. right; auto.
Qed.

Lemma apply_writes_same : forall ws s s' a, s a = s' a -> apply_writes s ws a = apply_writes s' ws a.
Proof.
  induction ws as [|[b c] ws IH]; intros s s' a H; cbn; auto.
  apply IH. unfold upd. destruct (addr_eq_dec a b); auto.
Qed.

Fixpoint count (t : tid) (sched : list tid) : nat :=
  match sched with [] => 0 | u :: r => (if tid_eq_dec u t then 1 else 0) + count t r end.

(* simulation invariant between the interleaved configuration and the solo run of thread t *)
Definition sim (t : tid) (c : locals * store) (d : local * store) : Prop :=
  fst c t = fst d /\ Inv t (fst d) /\ forall a, outside_others t a -> snd c a = snd d a.

Lemma sim_step_self : forall t c d, sim t c d -> sim t (step_conf t c) (solo t 1 d).
Proof.
  intros t [ls s] [l s0] (El & I & A). cbn in *. subst l. unfold step_conf. cbn.
  rewrite (step_frame t (ls t) s s0 I A).
  destruct (step t (ls t) s0) as [[l' ws]|] eqn:E.
  - destruct (step_owns _ _ _ _ _ I E) as [I' Ow]. cbn. unfold sim; cbn. split; [|split]; auto.
    + unfold set_local. destruct (tid_eq_dec t t); congruence.
    + intros a Ha. apply apply_writes_same. auto.
  - unfold sim; cbn. auto.
Qed.

Lemma sim_step_other : forall t u c d, u <> t -> Inv u (fst c u) -> sim t c d -> sim t (step_conf u c) d.
Proof.
  intros t u [ls s] [l s0] Hu Iu (El & I & A). cbn in *. unfold step_conf. cbn.
  destruct (step u (ls u) s) as [[l' ws]|] eqn:E.
  - destruct (step_owns _ _ _ _ _ Iu E) as [I' Ow]. unfold sim; cbn. split; [|split]; auto.
    + unfold set_local. destruct (tid_eq_dec t u); congruence.
    + intros a Ha. rewrite apply_writes_outside; auto.
      intros w Hw Ew. rewrite Forall_forall in Ow. specialize (Ow w Hw). rewrite Ew in Ow. exact (Ha u Hu Ow).
  - unfold sim; cbn; auto.
Qed.

Lemma solo_plus : forall t n m d, solo t (n + m) d = solo t m (solo t n d).
Proof.
  induction n; intros m d; cbn; auto.
  destruct (step t (fst d) (snd d)) as [[l' ws]|]; auto.
Qed.

(* all invariants are kept along any schedule *)
Lemma step_conf_inv : forall u c, (forall t, Inv t (fst c t)) -> forall v, Inv v (fst (step_conf u c) v).
Proof.
  intros u [ls s] H v. unfold step_conf. cbn [fst snd] in *.
  destruct (step u (ls u) s) as [[l' ws]|] eqn:E; cbn [fst]; auto.
  unfold set_local. destruct (tid_eq_dec v u); auto. subst. exact (proj1 (step_owns _ _ _ _ _ (H u) E)).
Qed.
Lemma exec_inv : forall sched c, (forall t, Inv t (fst c t)) -> forall t, Inv t (fst (exec sched c) t).
Proof.
  induction sched as [|u r IH]; intros c H t; cbn; auto.
  apply IH. apply step_conf_inv; auto.
Qed.

Theorem runs_commute : forall sched (ls : locals) (s : store),
  (forall t, Inv t (ls t)) ->
  forall t,
    let final := exec sched (ls, s) in
    let alone := solo t (count t sched) (ls t, s) in
    fst final t = fst alone /\ forall a, outside_others t a -> snd final a = snd alone a.
Proof.
  intros sched ls s H t.
  assert (forall sched c d, (forall u, Inv u (fst c u)) -> sim t c d ->
            sim t (exec sched c) (solo t (count t sched) d)) as G.
  { clear H ls s sched. induction sched as [|u r IH]; intros c d HI Hs; cbn [exec count solo]; auto.
    destruct (tid_eq_dec u t) as [->|Hu].
    - change (1 + count t r) with (S (count t r)).
      replace (solo t (S (count t r)) d) with (solo t (count t r) (solo t 1 d)).
      2:{ rewrite <- solo_plus. auto. }
      apply IH.
      + apply step_conf_inv; auto.
      + apply sim_step_self; auto.
    - cbn [plus]. apply IH.
      + apply step_conf_inv; auto.
      + apply sim_step_other; auto. }
  specialize (G sched (ls, s) (ls t, s) H).
  destruct G as (E & _ & A); [unfold sim; cbn; auto|]. auto.
Qed.

(* in particular what a thread wrote itself is intact: its own region lies outside all other regions *)
Corollary runs_commute_own : forall sched (ls : locals) (s : store),
  (forall t, Inv t (ls t)) ->
  forall t a, W t a ->
    snd (exec sched (ls, s)) a = snd (solo t (count t sched) (ls t, s)) a.
Proof.
  intros sched ls s H t a Wa. apply runs_commute; auto.
  intros u Hu Wu. exact (W_disjoint u t a Hu Wu Wa).
Qed.

End Commute.

(* ---- the hypotheses are satisfiable: two counters, each thread increments its own address ---- *)
Definition ex_addr_of (t : bool) : nat := if t then 0 else 1.
Definition ex_step (t : bool) (l : nat) (s : nat -> nat) : option (nat * list (nat * nat)) :=
  match l with O => None | S l' => Some (l', [(ex_addr_of t, S (s (ex_addr_of t)))]) end.
Definition ex_W (t : bool) (a : nat) : Prop := a = ex_addr_of t.

Lemma ex_owns : forall t l s l' ws, True -> ex_step t l s = Some (l', ws) -> True /\ Forall (fun w => ex_W t (fst w)) ws.
Proof.
  intros t l s l' ws _ E. destruct l; cbn in E; inversion E; subst. split; auto. repeat constructor.
Qed.
Lemma ex_frame : forall t l (s s' : nat -> nat), True ->
  (forall a, outside_others nat bool ex_W t a -> s a = s' a) -> ex_step t l s = ex_step t l s'.
Proof.
  intros t l s s' _ H. destruct l; cbn; auto. rewrite (H (ex_addr_of t)); auto.
  intros u Hu Wu. unfold ex_W in Wu. destruct t, u; cbn in Wu; congruence.
Qed.

