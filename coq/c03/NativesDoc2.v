(* C03 meets_doc, second batch: min, max, add (fold of +). *)
From Coq Require Import List ZArith NArith Bool String Lia.
From Flocq Require Import IEEE754.BinarySingleNaN.
From Verif Require Import common.Sexp common.Int64 c03.JV c03.Core c03.Ops c03.Natives c03.Spec c03.Wf c03.Denote
  c03.CompareDoc c03.OpsDoc c03.NativesDoc c03.NoPanic2.
Import ListNotations.
Open Scope Z_scope.

Section NativesDoc2.
  Variable pf : bytes -> option float.
  Hypothesis pf_bigint : forall z, big_to_float pf z = Z2F z.
  Notation denote := (denote pf).
  Notation agrees := (agrees pf).

  (* the loop of minMaxBy, on values instead of indices *)
  Definition vstep (is_min : bool) (m y : jv) : jv := if Bool.eqb (0 <? compare pf m y) is_min then y else m.
  Lemma min_max_loop_nth is_min rest : forall pre j x,
    nth_error (pre ++ rest) (Z.to_nat j) = Some x -> 0 <= j < llen pre ->
    let k := min_max_loop pf is_min rest (llen pre) j x in
    nth_error (pre ++ rest) (Z.to_nat k) = Some (fold_left (vstep is_min) rest x) /\ 0 <= k < llen (pre ++ rest).
  Proof.
    induction rest as [|y rest IH]; intros pre j x HN HJ; simpl.
    - rewrite app_nil_r in *. auto.
    - assert (EQ : pre ++ y :: rest = (pre ++ [y]) ++ rest) by (rewrite <- app_assoc; reflexivity).
      assert (L : llen (pre ++ [y]) = llen pre + 1) by (unfold llen; rewrite app_length; simpl; lia).
      unfold vstep at 2. destruct (Bool.eqb (0 <? compare pf x y) is_min).
      + specialize (IH (pre ++ [y]) (llen pre) y). rewrite <- EQ, L in IH. apply IH.
        * rewrite EQ. rewrite nth_error_app1 by (unfold llen in *; rewrite app_length; simpl; lia).
          unfold llen. rewrite Nat2Z.id. rewrite nth_error_app2 by lia. rewrite Nat.sub_diag. reflexivity.
        * pose proof (llen_nonneg pre). lia.
      + specialize (IH (pre ++ [y]) j x). rewrite <- EQ, L in IH. apply IH; [auto|lia].
  Qed.

  Lemma go_index_nth {A} (l : list A) k x : nth_error l (Z.to_nat k) = Some x -> 0 <= k < llen l -> go_index l k = Val x.
  Proof.
    intros HN HK. unfold go_index, llen in *.
    destruct (k <? 0) eqn:E1; [apply Z.ltb_lt in E1; lia|].
    destruct (Z.of_nat (List.length l) <=? k) eqn:E2; [apply Z.leb_le in E2; lia|]. simpl. rewrite HN. reflexivity.
  Qed.

  Lemma fold_vstep_wf is_min rest : forall x, wf x = true -> forallb wf rest = true -> wf (fold_left (vstep is_min) rest x) = true.
  Proof.
    induction rest; intros x WX WR; simpl; auto. simpl in WR. apply andb_true_iff in WR as [W1 W2].
    apply IHrest; auto. unfold vstep. destruct (Bool.eqb _ _); auto.
  Qed.
  Lemma gt_doc m y : wf m = true -> wf y = true -> (0 <? compare pf m y) = mgtb (denote m) (denote y).
  Proof. intros. rewrite (compare_doc pf pf_bigint) by auto. unfold mgtb. destruct (mcmp _ _); reflexivity. Qed.
  Lemma fold_min_doc rest : forall x, wf x = true -> forallb wf rest = true ->
    denote (fold_left (vstep true) rest x) = fold_left (fun m y => if mgtb m y then y else m) (map denote rest) (denote x).
  Proof.
    induction rest as [|y rest IH]; intros x WX WR; simpl; [reflexivity|].
    simpl in WR. apply andb_true_iff in WR as [W1 W2].
    rewrite IH; auto; unfold vstep; rewrite gt_doc by auto; destruct (mgtb _ _); simpl; auto.
  Qed.
  Lemma fold_max_doc rest : forall x, wf x = true -> forallb wf rest = true ->
    denote (fold_left (vstep false) rest x) = fold_left (fun m y => if mgtb m y then m else y) (map denote rest) (denote x).
  Proof.
    induction rest as [|y rest IH]; intros x WX WR; simpl; [reflexivity|].
    simpl in WR. apply andb_true_iff in WR as [W1 W2].
    rewrite IH; auto; unfold vstep; rewrite gt_doc by auto; destruct (mgtb _ _); simpl; auto.
  Qed.

  Lemma min_max_by_self is_min x rest :
    min_max_by pf is_min (x :: rest) (x :: rest) = Val (fold_left (vstep is_min) rest x).
  Proof.
    unfold min_max_by. change (go_index (x :: rest) 0) with (Val (A:=jv) x). cbn [bind tl].
    destruct (min_max_loop_nth is_min rest [x] 0 x) as [H1 H2]; [reflexivity|unfold llen; simpl; lia|].
    change (llen [x]) with 1 in *. apply go_index_nth; auto.
  Qed.

  Theorem f_min_doc v : wf v = true -> agrees (f_minmax pf true v) (s_min (denote v)).
  Proof.
    intros W. destruct v as [| |n| |l| |]; try reflexivity; try discriminate.
    - simpl. rewrite denote_num_norm. destruct (norm_num pf n); reflexivity.
    - destruct l as [|x rest]; [reflexivity|]. unfold f_minmax. rewrite min_max_by_self.
      simpl in W. apply andb_true_iff in W as [W1 W2]. unfold agrees. cbn [Spec.denote map s_min].
      apply fold_min_doc; auto.
  Qed.
  Theorem f_max_doc v : wf v = true -> agrees (f_minmax pf false v) (s_max (denote v)).
  Proof.
    intros W. destruct v as [| |n| |l| |]; try reflexivity; try discriminate.
    - simpl. rewrite denote_num_norm. destruct (norm_num pf n); reflexivity.
    - destruct l as [|x rest]; [reflexivity|]. unfold f_minmax. rewrite min_max_by_self.
      simpl in W. apply andb_true_iff in W as [W1 W2]. unfold agrees. cbn [Spec.denote map s_max].
      apply fold_max_doc; auto.
  Qed.

  (* ---- add = the fold of + from null ---- *)
  Definition numtop (v : jv) : Prop := match v with JNum n => wf_num n = true | JHole => False | _ => True end.
  Lemma wf_numtop v : wf v = true -> numtop v.
  Proof. destruct v; simpl; auto. discriminate. Qed.

  Lemma pint_wf c z : wf_num c = true -> norm_num pf c = PInt z -> in_intb z = true.
  Proof. intros W E. pose proof (norm_num_wf pf c W) as H. rewrite E in H. exact H. Qed.

  Ltac nonnum_cases' :=
    unfold binop_switch; rewrite ?(norm_jnum pf), ?(denote_jnum pf); cbn [norm];
    repeat match goal with |- context [norm_num pf ?x] => destruct (norm_num pf x) end;
    simpl; auto.

  (* op_add on operands that are not both objects needs only machine-int well-formedness of top-level numbers *)
  Lemma op_add_doc_weak l r : numtop l -> numtop r -> (forall a b, l = JObj a -> r = JObj b -> False) ->
    agrees (op_add pf l r) (s_add (denote l) (denote r)) /\ (forall v, op_add pf l r = Val v -> numtop v).
  Proof.
    intros WL WR NO. unfold op_add.
    destruct l as [| |a| | | |], r as [| |c| | | |]; try (exfalso; exact WL); try (exfalso; exact WR);
      try (split; [solve [nonnum_cases']|
                   unfold binop_switch; rewrite ?(norm_jnum pf); cbn [norm];
                   repeat match goal with |- context [norm_num pf ?x] => destruct (norm_num pf x) eqn:? end;
                   simpl; intros v E; inversion E; subst; simpl; auto; eapply pint_wf; eauto]).
    - (* numbers *)
      rewrite (binop_switch_nums pf). rewrite !(denote_jnum pf).
      pose proof (norm_num_wf pf a WL) as WA. pose proof (norm_num_wf pf c WR) as WC.
      destruct (norm_num pf a) eqn:EA, (norm_num pf c) eqn:EB; simpl in WA, WC; simpl; rewrite ?pf_bigint;
        try (split; [reflexivity|intros v E; inversion E; subst; simpl; auto]).
      apply in_intb_spec in WA, WC. destruct (add_int_exact z z0 WA WC) as [H1 H2]. split.
      + apply (num_int_denote pf). auto.
      + intros v E. inversion E; subst. simpl. destruct (add_int z z0); simpl in *; auto; try discriminate. apply in_intb_spec; auto.
    - (* arrays *)
      unfold binop_switch. cbn [norm]. split.
      + destruct l as [|x l]; [reflexivity|]. destruct l0 as [|y l0].
        * simpl. rewrite app_nil_r. reflexivity.
        * unfold OpsDoc.agrees. cbn [Spec.denote]. rewrite map_app. reflexivity.
      + intros v E. destruct l, l0; inversion E; simpl; auto.
    - exfalso. eapply NO; reflexivity.
  Qed.

  Lemma add_step_doc v x : numtop v -> numtop x ->
    agrees (add_step pf v x) (s_add (denote v) (denote x)) /\ (forall v', add_step pf v x = Val v' -> numtop v').
  Proof.
    intros WV WX. unfold add_step.
    destruct x as [| |c|s|a|m|]; try (exfalso; exact WX).
    - (* null *) split; [|intros v' E; inversion E; subst; auto].
      unfold OpsDoc.agrees. cbn [Spec.denote]. destruct (denote v) eqn:E; reflexivity.
    - apply op_add_doc_weak; auto; intros; discriminate.
    - apply op_add_doc_weak; auto; intros; discriminate.
    - destruct v as [| |n|w| | |]; try (exfalso; exact WV); try (apply op_add_doc_weak; simpl; auto; intros; discriminate);
        (split; [reflexivity|intros v' E; inversion E; simpl; auto]).
    - destruct v as [| |n| |w| |]; try (exfalso; exact WV); try (apply op_add_doc_weak; simpl; auto; intros; discriminate).
      + split; [reflexivity|intros v' E; inversion E; simpl; auto].
      + split; [|intros v' E; inversion E; simpl; auto].
        unfold OpsDoc.agrees. cbn [Spec.denote s_add]. rewrite map_app. reflexivity.
    - destruct v as [| |n| | |w|]; try (exfalso; exact WV); try (apply op_add_doc_weak; simpl; auto; intros; discriminate).
      + split; [reflexivity|intros v' E; inversion E; simpl; auto].
      + split; [|intros v' E; inversion E; simpl; auto].
        unfold OpsDoc.agrees. cbn [Spec.denote s_add]. fold (mapd pf (obj_merge w m)). rewrite (mapd_obj_merge pf). reflexivity.
  Qed.

  Fixpoint s_fold (acc : mv) (l : list mv) : sres :=
    match l with
    | [] => SVal acc
    | x :: r => match s_add acc x with SVal acc' => s_fold acc' r | SErr => SErr end
    end.
  Lemma add_seq_doc xs : forall v, numtop v -> Forall numtop xs ->
    agrees (add_seq pf v xs) (s_fold (denote v) (map denote xs)).
  Proof.
    induction xs as [|x xs IH]; intros v WV WX; simpl; [reflexivity|].
    inversion WX; subst. destruct (add_step_doc v x WV H1) as [A P].
    destruct (add_step pf v x) as [v'| |] eqn:E; destruct (s_add (denote v) (denote x)) eqn:E2; simpl in A; try contradiction.
    - simpl. subst m. apply IH; auto.
    - exact I.
  Qed.
  Lemma s_add_all_fold a : s_add_all a = match a with MArr l => s_fold MNull l | MObj m => s_fold MNull (map snd m) | _ => SErr end.
  Proof.
    assert (G : forall l acc, (fix go (acc : mv) (l : list mv) {struct l} : sres :=
               match l with [] => SVal acc | x :: r => match s_add acc x with SVal acc' => go acc' r | SErr => SErr end end) acc l
               = s_fold acc l).
    { induction l as [|y l IHl]; intros; simpl; auto; try (destruct (s_add acc y); auto). }
    destruct a; try reflexivity; unfold s_add_all; apply G.
  Qed.
  Lemma forall_wf_numtop l : forallb wf l = true -> Forall numtop l.
  Proof. induction l; simpl; intros H; constructor; apply andb_true_iff in H as [? ?]; auto using wf_numtop. Qed.

  Theorem f_add_doc v : wf v = true -> agrees (f_add pf v) (s_add_all (denote v)).
  Proof.
    intros W. rewrite s_add_all_fold. destruct v as [| |n| |l|m|]; try reflexivity; try discriminate.
    - simpl. rewrite denote_num_norm. destruct (norm_num pf n); reflexivity.
    - unfold f_add. cbn [values Spec.denote]. apply (add_seq_doc l JNull I). apply forall_wf_numtop. exact W.
    - unfold f_add. cbn [values Spec.denote]. rewrite map_map. simpl.
      replace (map (fun x : bytes * jv => denote (snd x)) m) with (map denote (map snd m)) by (rewrite map_map; reflexivity).
      apply (add_seq_doc (map snd m) JNull I). apply forall_wf_numtop.
      simpl in W. apply andb_true_iff in W as [_ W]. clear -W. induction m; simpl in *; auto.
      apply andb_true_iff in W as [? ?]. rewrite H. simpl. auto.
  Qed.
End NativesDoc2.
