(* C03 meets_doc: _range/3 on ARBITRARY numbers (integers of any size, floats, fraction/exponent literals, in any
   representation): the outputs are the documented progression  from, from+by, from+2by, ...  (each sum being the
   documented + of Spec.v: exact on integers, IEEE on doubles) while the documented order puts the current value on
   the near side of upto (below it for by > 0, above it for by < 0; by = 0 or incomparable: nothing). *)
From Coq Require Import List ZArith NArith Bool String Lia.
From Flocq Require Import IEEE754.BinarySingleNaN.
From Verif Require Import common.Sexp common.Int64 c03.JV c03.Core c03.Ops c03.Natives c03.Spec c03.Wf c03.Denote
  c03.CompareDoc c03.OpsDoc c03.NativesDoc c03.NativesDoc2.
Import ListNotations.
Open Scope Z_scope.

Fixpoint mprog (fuel : nat) (x upto by_ : mv) : list mv * bool :=
  if 0 <=? cmp_Z (mcmp by_ (MInt 0)) * cmp_Z (mcmp x upto) then ([], false)
  else match fuel with
       | O => ([], true)
       | S f => match s_add x by_ with
                | SVal x' => let r := mprog f x' upto by_ in (x :: fst r, snd r)
                | SErr => ([], false)
                end
       end.

Section RangeAnyDoc.
  Variable pf : bytes -> option float.
  Hypothesis pf_bigint : forall z, big_to_float pf z = Z2F z.
  Notation denote := (denote pf).

  Lemma mnum_is_jnum v : is_mnum (denote v) = true -> exists n, v = JNum n.
  Proof. destruct v; simpl; intros H; try discriminate; eauto. Qed.
  Lemma s_add_nums a b : is_mnum a = true -> is_mnum b = true -> exists m, s_add a b = SVal m /\ is_mnum m = true.
  Proof.
    destruct a, b; simpl; intros; try discriminate; eexists; (split; [reflexivity|reflexivity]).
  Qed.
  Lemma op_add_nums l r : wf l = true -> wf r = true -> is_mnum (denote l) = true -> is_mnum (denote r) = true ->
    exists v m, op_add pf l r = Val v /\ s_add (denote l) (denote r) = SVal m /\ denote v = m /\ wf v = true /\ is_mnum m = true.
  Proof.
    intros WL WR ML MR.
    destruct (op_add_doc_weak pf pf_bigint l r (wf_numtop l WL) (wf_numtop r WR)) as [A P].
    { intros a b ->. simpl in ML. discriminate. }
    destruct (s_add_nums _ _ ML MR) as (m & SM & MM). rewrite SM in A.
    destruct (op_add pf l r) as [v| |] eqn:E; simpl in A; try contradiction.
    exists v, m. repeat split; auto. specialize (P v eq_refl).
    rewrite <- A in MM. destruct (mnum_is_jnum v MM) as [n ->]. exact P.
  Qed.

  Theorem range_seq_any fuel : forall v e s, wf v = true -> wf e = true -> wf s = true ->
    is_mnum (denote v) = true -> is_mnum (denote e) = true -> is_mnum (denote s) = true ->
    exists l cut, range_seq pf fuel v e s = Val (l, cut)
                  /\ map denote l = fst (mprog fuel (denote v) (denote e) (denote s))
                  /\ cut = snd (mprog fuel (denote v) (denote e) (denote s)).
  Proof.
    induction fuel; intros v e s WV WE WS MV ME MS; cbn [range_seq mprog];
      rewrite (compare_doc pf pf_bigint s (jint 0)), (compare_doc pf pf_bigint v e) by auto;
      change (denote (jint 0)) with (MInt 0).
    - destruct (0 <=? _); eexists; eexists; repeat split; reflexivity.
    - destruct (0 <=? cmp_Z (mcmp (denote s) (MInt 0)) * cmp_Z (mcmp (denote v) (denote e)));
        [eexists; eexists; repeat split; reflexivity|].
      destruct (op_add_nums v s WV WS MV MS) as (v' & m & EA & SM & DV & WV' & MM). rewrite EA, SM. cbn [bind].
      subst m. destruct (IHfuel v' e s WV' WE WS MM ME MS) as (l & cut & ER & DL & DC).
      rewrite ER. cbn [bind fst snd]. exists (v :: l), cut. repeat split; auto. cbn [map]. rewrite DL. reflexivity.
  Qed.

  (* the dispatcher's argument check: any non-number argument is an error *)
  Theorem f_range_any fuel a b c : wf a = true -> wf b = true -> wf c = true ->
    (is_mnum (denote a) && is_mnum (denote b) && is_mnum (denote c) = true ->
       exists l cut, f_range pf fuel [a; b; c] = Val (l, cut)
                     /\ map denote l = fst (mprog fuel (denote a) (denote b) (denote c))
                     /\ cut = snd (mprog fuel (denote a) (denote b) (denote c)))
    /\ (is_mnum (denote a) && is_mnum (denote b) && is_mnum (denote c) = false -> f_range pf fuel [a; b; c] = Err EFunc0Type).
  Proof.
    intros WA WB WC. rewrite !(is_mnum_denote pf). unfold f_range. cbn [find]. split.
    - intros H. apply andb_true_iff in H as [H HC]. apply andb_true_iff in H as [HA HB].
      unfold is_num. destruct a; try discriminate. destruct b; try discriminate. destruct c; try discriminate. cbn [negb].
      change (go_index [JNum n; JNum n0; JNum n1] 0) with (Val (JNum n)).
      change (go_index [JNum n; JNum n0; JNum n1] 1) with (Val (JNum n0)).
      change (go_index [JNum n; JNum n0; JNum n1] 2) with (Val (JNum n1)). cbn [bind].
      apply range_seq_any; auto; rewrite (is_mnum_denote pf); reflexivity.
    - intros H. unfold is_num. destruct a; try reflexivity; destruct b; try reflexivity; destruct c; try reflexivity. discriminate.
  Qed.
End RangeAnyDoc.
