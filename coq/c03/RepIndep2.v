(* C03 rep_independent for the natives whose meets_doc theorem lost its sub-domain restriction: the result depends on
   the denotations only (int / *big.Int / integer literal; float64 / fraction literal), because it denotes a function
   of the denotations. *)
From Coq Require Import List ZArith NArith Bool String Lia.
From Flocq Require Import IEEE754.BinarySingleNaN.
From Verif Require Import common.Sexp common.Int64 c03.JV c03.Core c03.Ops c03.Natives c03.Spec c03.Wf c03.Denote
  c03.CompareDoc c03.OpsDoc c03.StringsDoc c03.PathDoc c03.RepIndep c03.AnyDoc c03.LiteralDoc c03.BsearchDoc
  c03.SliceAllDoc c03.IndexAllDoc.
Import ListNotations.

Section RepIndep2.
  Variable pf : bytes -> option float.
  Hypothesis pf_bigint : forall z, big_to_float pf z = Z2F z.
  Notation denote := (denote pf).
  Notation oeq := (oeq pf).
  Notation rep1 := (rep1 pf).

  Theorem natives_rep4 :
    rep1 f_ascii_downcase /\ rep1 f_ascii_upcase /\ rep1 (f_implode pf)
    /\ (pf_sign pf -> rep1 f_length /\ rep1 f_abs /\ rep1 op_negate)
    (* _slice: all three of input, end, start in any representation *)
    /\ (forall v e s v' e' s', wf v = true -> wf e = true -> wf s = true -> wf v' = true -> wf e' = true -> wf s' = true ->
          sized v = true -> sized v' = true -> denote v = denote v' -> denote e = denote e' -> denote s = denote s' ->
          oeq (f_slice pf v e s) (f_slice pf v' e' s'))
    (* .[k] and bsearch wherever Spec.v has an entry *)
    /\ (forall v x v' x', wf v = true -> wf x = true -> wf v' = true -> wf x' = true -> sized v = true -> sized v' = true ->
          denote v = denote v' -> denote x = denote x' ->
          orep pf (f_index2 pf v x) (f_index2 pf v' x') (s_index2 (denote v) (denote x))
          /\ orep pf (f_bsearch pf v x) (f_bsearch pf v' x') (s_bsearch (denote v) (denote x))).
  Proof.
    split; [eapply (rep1_of_doc pf); intros; apply f_ascii_downcase_any; auto|].
    split; [eapply (rep1_of_doc pf); intros; apply f_ascii_upcase_any; auto|].
    split; [eapply (rep1_of_doc pf); intros; apply f_implode_any; auto|].
    split.
    { intros PS. split; [eapply (rep1_of_doc pf); intros; apply f_length_all; auto|].
      split; [eapply (rep1_of_doc pf); intros; apply f_abs_all; auto|eapply (rep1_of_doc pf); intros; apply op_negate_all; auto]. }
    split.
    { intros v e s v' e' s' WV WE WS WV' WE' WS' SZ SZ' EV EE ES.
      eapply (agrees_oeq pf); [apply (f_slice_all pf pf_bigint); auto|]. rewrite EV, EE, ES. apply (f_slice_all pf pf_bigint); auto. }
    intros v x v' x' WV WX WV' WX' SZ SZ' EV EX. split.
    - apply (orep_of_doc pf); [apply (f_index2_all pf pf_bigint); auto|]. rewrite EV, EX. apply (f_index2_all pf pf_bigint); auto.
    - apply (orep_of_doc pf); [apply (f_bsearch_doc pf pf_bigint); auto|]. rewrite EV, EX. apply (f_bsearch_doc pf pf_bigint); auto.
  Qed.
End RepIndep2.
