(* C03: sort / sort_by / unique / unique_by / group_by against the model's Compare.
   sort.SliceStable (insertion sort for n <= 20; any stable sort agrees when Compare is a strict weak
   order) yields a permutation of the input whose adjacent keys are never out of order, provided Compare
   is asymmetric on the keys (it is away from NaN: C03_compare_is_documented_order and the order theory
   of C11); unique keeps one value per run of equal keys; group_by partitions the sorted values into
   those runs. *)
From Coq Require Import List ZArith NArith Bool String Lia Permutation.
From Verif Require Import common.Sexp common.Int64 c03.JV c03.Core c03.Ops c03.Natives c03.Wf.
Import ListNotations.
Open Scope Z_scope.

Section SortDoc.
  Variable pf : bytes -> option float.
  Notation less := (item_less pf).

  (* no adjacent pair is out of order *)
  Fixpoint lsorted (l : list item) : Prop :=
    match l with
    | a :: ((b :: _) as r) => less b a = false /\ lsorted r
    | _ => True
    end.

  Lemma move_left_perm x : forall rl passed, Permutation (move_left pf x rl passed) (x :: rev rl ++ passed).
  Proof.
    induction rl as [|y rl IH]; intros passed; simpl; [reflexivity|].
    destruct (less x y).
    - rewrite IH. rewrite <- app_assoc. simpl. reflexivity.
    - apply Permutation_sym, Permutation_middle.
  Qed.
  Lemma insertion_sort_perm_aux l : forall acc, Permutation (fold_left (fun sorted x => move_left pf x (rev sorted) []) l acc) (acc ++ l).
  Proof.
    induction l as [|x l IH]; intros acc; simpl; [rewrite app_nil_r; reflexivity|].
    rewrite IH. rewrite move_left_perm. rewrite rev_involutive, app_nil_r.
    change (x :: l) with ([x] ++ l). rewrite app_assoc. apply Permutation_app_tail.
    apply Permutation_cons_append.
  Qed.
  Theorem insertion_sort_perm l : Permutation (insertion_sort pf l) l.
  Proof. unfold insertion_sort. apply (insertion_sort_perm_aux l []). Qed.

  (* local sortedness *)
  Lemma lsorted_app_inv l1 : forall l2, lsorted (l1 ++ l2) -> lsorted l1 /\ lsorted l2.
  Proof.
    induction l1 as [|a [|b l1] IH]; intros l2 H; simpl in *; auto.
    - split; auto. destruct l2; auto. destruct H; auto.
    - destruct H as [H1 H2]. destruct (IH l2 H2). auto.
  Qed.
  Lemma lsorted_join l1 : forall a b l2, lsorted (l1 ++ [a]) -> less b a = false -> lsorted (b :: l2) -> lsorted (l1 ++ a :: b :: l2).
  Proof.
    induction l1 as [|c [|d l1] IH]; intros a b l2 H1 H2 H3; simpl in *; auto.
    - destruct H1. auto.
    - destruct H1 as [H H1]. split; auto. apply (IH a b l2); auto.
  Qed.

  (* move_left keeps sortedness: rl = the sorted prefix reversed, passed = the items x has moved past
     (all greater than x), in order *)
  Lemma move_left_sorted x : forall rl passed,
    (forall a b, less a b = true -> less b a = false) ->
    lsorted (rev rl ++ passed) -> (match passed with p :: _ => less x p = true | [] => True end) ->
    lsorted (move_left pf x rl passed).
  Proof.
    intros rl passed AS. revert passed. induction rl as [|y rl IH]; intros passed S P; simpl.
    - simpl in S. destruct passed as [|p ps]; simpl; auto.
    - destruct (less x y) eqn:L.
      + apply IH; auto. simpl in S. rewrite <- app_assoc in S. exact S.
      + simpl in S. destruct (lsorted_app_inv _ _ S) as [S1 S2].
        rewrite <- app_assoc. cbn [app]. apply lsorted_join; auto. destruct passed as [|p ps]; simpl; auto.
  Qed.

  Theorem insertion_sort_sorted l : (forall a b, less a b = true -> less b a = false) -> lsorted (insertion_sort pf l).
  Proof.
    intros AS. unfold insertion_sort.
    assert (G : forall acc, lsorted acc -> lsorted (fold_left (fun sorted x => move_left pf x (rev sorted) []) l acc)).
    { induction l as [|x l IH]; intros acc S; simpl; auto. apply IH. apply move_left_sorted; auto.
      rewrite rev_involutive, app_nil_r. exact S. }
    apply G. exact I.
  Qed.

  (* stability: items that are pairwise tied (none less than another) keep their input order *)
  Lemma move_left_split x : forall rl passed, Forall (fun y => less x y = true) passed ->
    exists l1 l2, move_left pf x rl passed = l1 ++ x :: l2 /\ l1 ++ l2 = rev rl ++ passed /\ Forall (fun y => less x y = true) l2.
  Proof.
    induction rl as [|y rl IH]; intros passed F; simpl.
    - exists [], passed. auto.
    - destruct (less x y) eqn:L.
      + destruct (IH (y :: passed)) as (l1 & l2 & E & A & F2); [constructor; auto|].
        exists l1, l2. repeat split; auto. rewrite A, <- app_assoc. reflexivity.
      + exists (rev rl ++ [y]), passed. auto.
  Qed.
  Theorem insertion_sort_stable (P : item -> bool) l :
    (forall a b, P a = true -> P b = true -> less a b = false) ->
    filter P (insertion_sort pf l) = filter P l.
  Proof.
    intros TIE. unfold insertion_sort.
    assert (G : forall acc, filter P (fold_left (fun sorted x => move_left pf x (rev sorted) []) l acc) = filter P acc ++ filter P l).
    { induction l as [|x l IH]; intros acc; simpl; [rewrite app_nil_r; reflexivity|].
      rewrite IH. destruct (move_left_split x (rev acc) []) as (l1 & l2 & E & A & F2); [constructor|].
      rewrite E. rewrite rev_involutive, app_nil_r in A. rewrite filter_app. simpl.
      assert (N : P x = true -> filter P l2 = []).
      { intros PX. clear -TIE PX F2. induction F2 as [|y l2 H F IH]; simpl; auto.
        destruct (P y) eqn:PY; auto. rewrite (TIE x y PX PY) in H. discriminate. }
      rewrite <- A, filter_app. destruct (P x) eqn:PX.
      - rewrite (N eq_refl). rewrite app_nil_r. rewrite <- app_assoc. reflexivity.
      - rewrite <- !app_assoc. reflexivity. }
    apply (G []).
  Qed.

  (* sort / sort_by: the values in an order that is a permutation of the input, keys never out of order *)
  Theorem sort_items_doc by_ vs xs items : sort_items pf by_ (JArr vs) (JArr xs) = Val items ->
    Permutation items (combine vs xs) /\ ((forall a b, less a b = true -> less b a = false) -> lsorted items)
    /\ (forall P : item -> bool, (forall a b, P a = true -> P b = true -> less a b = false) ->
        filter P items = filter P (combine vs xs)).
  Proof.
    unfold sort_items. destruct (negb (llen vs =? llen xs)); [discriminate|]. intros H. inversion H; subst.
    split; [apply insertion_sort_perm|split; [apply insertion_sort_sorted|intros P T; apply insertion_sort_stable; auto]].
  Qed.
  Theorem f_sort_doc vs : exists items, f_sort_by pf false (JArr vs) (JArr vs) = Val (JArr (map fst items))
    /\ Permutation items (combine vs vs) /\ ((forall a b, less a b = true -> less b a = false) -> lsorted items).
  Proof.
    unfold f_sort_by, sort_items. rewrite Z.eqb_refl. cbn [negb bind].
    exists (insertion_sort pf (combine vs vs)). split; [reflexivity|].
    split; [apply insertion_sort_perm|apply insertion_sort_sorted].
  Qed.

  (* unique / unique_by: a selection of the sorted values: the first value, then each value whose key
     differs (Compare <> 0) from the key of the last value kept *)
  Inductive kept : bool -> jv -> list item -> list jv -> Prop :=
  | kept_nil f last : kept f last [] []
  | kept_take f last v k r out : f || negb (compare pf last k =? 0) = true -> kept false k r out -> kept f last ((v, k) :: r) (v :: out)
  | kept_skip last v k r out : compare pf last k =? 0 = true -> kept false last r out -> kept false last ((v, k) :: r) out.
  Lemma unique_loop_kept items : forall f last, kept f last items (unique_loop pf items f last).
  Proof.
    induction items as [|[v k] r IH]; intros f last; simpl; [constructor|].
    destruct (f || negb (compare pf last k =? 0)) eqn:E.
    - constructor; auto.
    - apply orb_false_iff in E as [-> E]. apply negb_false_iff in E. constructor; auto.
  Qed.
  Theorem f_unique_by_doc by_ vs xs out : f_unique_by pf by_ (JArr vs) (JArr xs) = Val out ->
    exists items sel, sort_items pf by_ (JArr vs) (JArr xs) = Val items /\ out = JArr sel /\ kept true JNull items sel.
  Proof.
    unfold f_unique_by. destruct (sort_items pf by_ (JArr vs) (JArr xs)) as [items| |] eqn:E; try discriminate.
    cbn [bind]. intros H. inversion H; subst. exists items, (unique_loop pf items true JNull).
    repeat split; auto. apply unique_loop_kept.
  Qed.

  (* group_by: the sorted values cut where the key changes *)
  Lemma group_loop_concat items : forall first last rg out,
    group_loop pf items first last rg = Val out ->
    List.concat (map (@rev jv) (rev out)) = List.concat (map (@rev jv) (rev rg)) ++ map fst items.
  Proof.
    induction items as [|[v k] items IH]; intros first last rg out H; simpl in *.
    - inversion H; subst. rewrite app_nil_r. reflexivity.
    - destruct (first || negb (compare pf last k =? 0)).
      + rewrite (IH _ _ _ _ H). simpl. rewrite map_app, concat_app. simpl. rewrite <- app_assoc. reflexivity.
      + destruct rg as [|g gs]; [discriminate|]. rewrite (IH _ _ _ _ H). simpl.
        rewrite !map_app, !concat_app. simpl. rewrite !app_nil_r, <- !app_assoc. reflexivity.
  Qed.
  Theorem f_group_by_doc vs xs out : f_group_by pf (JArr vs) (JArr xs) = Val out ->
    exists items groups, sort_items pf true (JArr vs) (JArr xs) = Val items /\ out = JArr (map JArr groups)
      /\ List.concat groups = map fst items /\ Forall (fun g => g <> []) groups.
  Proof.
    unfold f_group_by. destruct (sort_items pf true (JArr vs) (JArr xs)) as [items| |] eqn:E; try discriminate.
    cbn [bind]. destruct (group_loop pf items true JNull []) as [g| |] eqn:G; try discriminate. cbn [bind].
    intros H. inversion H; subst. exists items, (map (@rev jv) (rev g)). repeat split; auto.
    - rewrite map_map. reflexivity.
    - rewrite (group_loop_concat _ _ _ _ _ G). reflexivity.
    - clear -G. assert (NE : Forall (fun g => g <> []) (@nil (list jv))) by constructor.
      revert G NE. generalize (@nil (list jv)) true JNull. revert g.
      induction items as [|[v k] items IH]; intros g rg first last G NE; simpl in G.
      + inversion G; subst. apply Forall_forall. intros x I. apply in_map_iff in I as [y [<- I]].
        apply in_rev in I. rewrite Forall_forall in NE. specialize (NE y I). destruct y; [congruence|simpl; intros C; apply app_eq_nil in C as [_ C]; discriminate].
      + destruct (first || negb (compare pf last k =? 0)).
        * eapply IH; eauto. constructor; auto. discriminate.
        * destruct rg as [|g0 gs]; [discriminate|]. eapply IH; eauto. inversion NE; subst. constructor; auto. discriminate.
  Qed.
End SortDoc.
