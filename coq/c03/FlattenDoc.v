(* C03 meets_doc: flatten/1 with an integer depth in [0,1000) (negative depth: error), flatten/0 on values
   nested at most 1000 deep.  The Go code counts the depth in a float64; the facts about that counter are
   established by computation over the range. *)
From Coq Require Import List ZArith NArith Bool String Lia.
From Flocq Require Import IEEE754.BinarySingleNaN.
From Verif Require Import common.Sexp common.Int64 c03.JV c03.Core c03.Ops c03.Natives c03.Spec c03.Wf c03.Denote
  c03.CompareDoc c03.OpsDoc c03.NativesDoc c03.StringsDoc.
Import ListNotations.
Open Scope Z_scope.

Lemma fsame_eq a b : fsame a b = true -> a = b.
Proof.
  intros H. apply B2SF_inj. destruct a, b; simpl in *; try discriminate; try reflexivity.
  - apply Bool.eqb_prop in H. subst. reflexivity.
  - apply Bool.eqb_prop in H. subst. reflexivity.
  - apply andb_true_iff in H as [H H3]. apply andb_true_iff in H as [H1 H2].
    apply Bool.eqb_prop in H1. apply Pos.eqb_eq in H2. apply Z.eqb_eq in H3. subst. reflexivity.
Qed.

(* the float counter: z - 1 is exact and z <> 0 on -1002 .. 1001 *)
Definition counter_ok (z : Z) : bool :=
  fsame (fsub (Z2F z) f_one) (Z2F (z - 1)) && Bool.eqb (feq (Z2F z) (fzero false)) (z =? 0)
  && Bool.eqb (go_lt (Z2F z) (fzero false)) (z <? 0).
Definition zrange : list Z := map (fun n => Z.of_nat n - 1002) (seq 0 2004).
Lemma counter_range : forallb counter_ok zrange = true.
Proof. vm_compute. reflexivity. Qed.
Lemma counter z : -1002 <= z <= 1001 ->
  fsub (Z2F z) f_one = Z2F (z - 1) /\ feq (Z2F z) (fzero false) = (z =? 0) /\ go_lt (Z2F z) (fzero false) = (z <? 0).
Proof.
  intros H. pose proof counter_range as R. rewrite forallb_forall in R.
  assert (I : In z zrange).
  { unfold zrange. apply in_map_iff. exists (Z.to_nat (z + 1002)). split; [lia|]. apply in_seq. lia. }
  specialize (R z I). unfold counter_ok in R. apply andb_true_iff in R as [R R3]. apply andb_true_iff in R as [R1 R2].
  apply fsame_eq in R1. apply Bool.eqb_prop in R2, R3. auto.
Qed.

Fixpoint nest (v : jv) : nat :=
  match v with
  | JArr l => S (fold_right Nat.max O (map nest l))
  | _ => O
  end.
Lemma nest_in l x : In x l -> (nest x <= fold_right Nat.max O (map nest l))%nat.
Proof. induction l; simpl; intros H; [destruct H|]. destruct H as [->|H]; [lia|]. specialize (IHl H). lia. Qed.

Section FlattenDoc.
  Variable pf : bytes -> option float.
  Hypothesis pf_bigint : forall z, big_to_float pf z = Z2F z.
  Notation denote := (denote pf).
  Notation agrees := (agrees pf).
  Notation ragrees := (StringsDoc.ragrees pf).

  Lemma denote_not_arr_num n : forall l, denote (JNum n) <> MArr l.
  Proof. intros l. rewrite denote_jnum. destruct (norm_num pf n); discriminate. Qed.

  (* bounded depth *)
  Lemma flatten_some v : forall d : nat, (d <= 1000)%nat ->
    map denote (flatten_v v (Z2F (Z.of_nat d))) = s_flat (Some d) (denote v).
  Proof.
    induction v using jv_ind'; intros d HD; try reflexivity.
    - simpl. pose proof (denote_not_arr_num n). destruct (denote_num pf n) eqn:E; try reflexivity. exfalso. eapply H. simpl. eauto.
    - cbn [flatten_v Spec.denote s_flat].
      destruct (counter (Z.of_nat d) ltac:(lia)) as (C1 & C2 & _). rewrite C2.
      destruct d as [|d].
      + reflexivity.
      + replace (Z.of_nat (S d) =? 0) with false by (symmetry; apply Z.eqb_neq; lia). cbn [negb].
        rewrite C1. replace (Z.of_nat (S d) - 1) with (Z.of_nat d) by lia.
        rewrite flat_map_concat_map, concat_map, map_map, flat_map_concat_map, map_map. f_equal.
        apply map_ext_in. intros x I. rewrite Forall_forall in H. apply H; auto. lia.
  Qed.

  (* unbounded depth = the counter starts at -1 and never reaches 0 within 1000 levels *)
  Lemma flatten_none v : forall k : nat, (nest v + k <= 1000)%nat ->
    map denote (flatten_v v (Z2F (- Z.of_nat (S k)))) = s_flat None (denote v).
  Proof.
    induction v using jv_ind'; intros k HK; try reflexivity.
    - simpl. pose proof (denote_not_arr_num n). destruct (denote_num pf n) eqn:E; try reflexivity. exfalso. eapply H. simpl. eauto.
    - cbn [flatten_v Spec.denote s_flat].
      destruct (counter (- Z.of_nat (S k)) ltac:(simpl in HK; lia)) as (C1 & C2 & _). rewrite C2.
      replace (- Z.of_nat (S k) =? 0) with false by (symmetry; apply Z.eqb_neq; lia). cbn [negb].
      rewrite C1. replace (- Z.of_nat (S k) - 1) with (- Z.of_nat (S (S k))) by lia.
      rewrite flat_map_concat_map, concat_map, map_map, flat_map_concat_map, map_map. f_equal.
      apply map_ext_in. intros x I. rewrite Forall_forall in H. apply H; auto.
      pose proof (nest_in l x I). simpl in HK. lia.
  Qed.

  Lemma values_elems v : match values v, elems (denote v) with
                         | Some vs, Some ms => ms = map denote vs
                         | None, None => True
                         | _, _ => False end.
  Proof.
    destruct v as [| |n| | | |]; simpl; auto.
    - rewrite denote_num_norm. destruct (norm_num pf n); exact I.
    - rewrite !map_map. reflexivity.
  Qed.

  Theorem f_flatten0_doc v : wf v = true ->
    (forall vs, values v = Some vs -> Forall (fun x => (nest x <= 999)%nat) vs) ->
    ragrees (f_flatten pf v []) (s_flatten (denote v) None).
  Proof.
    intros W N. unfold f_flatten, s_flatten. pose proof (values_elems v) as VE.
    destruct (values v) as [vs|] eqn:EV, (elems (denote v)) as [ms|] eqn:EE; try contradiction; [|exact I].
    subst ms. cbn [bind StringsDoc.ragrees]. unfold OpsDoc.agrees. cbn [Spec.denote]. f_equal.
    rewrite flat_map_concat_map, concat_map, map_map, flat_map_concat_map, map_map. f_equal.
    apply map_ext_in. intros x I. change (Z2F (-1)) with (Z2F (- Z.of_nat 1)). apply flatten_none.
    specialize (N vs eq_refl). rewrite Forall_forall in N. specialize (N x I). lia.
  Qed.

  Theorem f_flatten1_doc v a : wf v = true -> wf a = true ->
    ragrees (f_flatten pf v [a]) (s_flatten (denote v) (Some (denote a))).
  Proof.
    intros W WA. unfold f_flatten, s_flatten. pose proof (values_elems v) as VE.
    destruct (values v) as [vs|] eqn:EV, (elems (denote v)) as [ms|] eqn:EE; try contradiction; [|exact I].
    subst ms. rewrite (to_float_denote pf pf_bigint) by auto.
    destruct (denote a) as [| |z|f| | |] eqn:EA; cbn [mv_float bind]; try exact I.
    destruct (z <? -1000) eqn:E0; [exact I|]. apply Z.ltb_ge in E0.
    destruct (z <? 1000) eqn:E2.
    - apply Z.ltb_lt in E2. destruct (counter z ltac:(lia)) as (_ & _ & C3). rewrite C3.
      destruct (z <? 0) eqn:E1; [exact I|]. apply Z.ltb_ge in E1. cbn [bind StringsDoc.ragrees]. unfold OpsDoc.agrees. cbn [Spec.denote]. f_equal.
      rewrite flat_map_concat_map, concat_map, map_map, flat_map_concat_map, map_map. f_equal.
      apply map_ext_in. intros x I. rewrite <- (Z2Nat.id z) at 1 by lia. apply flatten_some. lia.
    - destruct (z <? 0) eqn:E1; [apply Z.ltb_lt in E1; apply Z.ltb_ge in E2; lia|exact I].
  Qed.
End FlattenDoc.
