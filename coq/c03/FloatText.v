(* C03 — executable stand-ins for strconv: decimal text -> binary64 (ParseFloat, correctly rounded)
   and binary64 -> shortest round-tripping decimal text in the layout of encoder.go encodeFloat64.
   In the theorems both are Section variables (oracles); these definitions instantiate them in the
   extracted model (coq/c03/Run.v), where the correspondence run compares them with Go's strconv on
   every float that occurs.  Definitions only. *)
From Coq Require Import List ZArith NArith Bool Lia String.
From Flocq Require Import IEEE754.BinarySingleNaN.
From Verif Require Import common.Sexp common.Int64 c03.JV.
Import ListNotations.
Open Scope Z_scope.

(* ---- decimal -> binary64: value (-1)^neg * D * 10^E, round to nearest even ------------------- *)
(* E >= 0: the integer D*10^E is rounded by binary_normalize.
   E <  0: Q = floor(D*2^k / 10^-E) with k chosen so that Q has at least 66 bits; the sticky bit
   (remainder <> 0) is appended, so rounding (2Q+sticky)*2^(-k-1) equals rounding the exact quotient
   (round-to-odd argument: 53+2 <= bits).  Exponents far outside the double range are cut short so
   that no astronomically large power is computed (D >= 1 digits <= ~800 in practice). *)
Definition ndigits10 (d : Z) : Z := Z.log2 d * 30103 / 100000 + 1.   (* >= number of decimal digits - 1 *)

Definition dec2flt (neg : bool) (D E : Z) : float :=
  if D =? 0 then fzero neg
  else if 400 <? E then finf neg
  else if E + ndigits10 D + 1 <? -400 then fzero neg
  else
    let sD := if neg then - D else D in
    if 0 <=? E then F_of_ZE (sD * 10 ^ E) 0 neg
    else
      let den := 10 ^ (- E) in
      let k := Z.max 0 (66 + Z.log2 den - Z.log2 D) in
      let n := D * 2 ^ k in
      let q := n / den in
      let sticky := if n mod den =? 0 then 0 else 1 in
      let m := 2 * q + sticky in
      F_of_ZE (if neg then - m else m) (- k - 1) neg.

(* strconv.ParseFloat(t, 64) restricted to decimal syntax: None = error (syntax or out of range) *)
Definition parse_float_text (t : bytes) : option float :=
  match dec_text t with
  | Some (neg, D, E) => let f := dec2flt neg D E in if fis_inf f then None else Some f
  | None => None
  end.

(* ---- binary64 -> shortest decimal digits ----------------------------------------------------- *)
(* v = num/den > 0 with rounding interval [lo/den, hi/den] (inclusive iff the mantissa is even).
   Returns (digits as an integer c, exponent sc): the decimal c * 10^sc. *)
Definition pow10 (k : Z) : Z := 10 ^ k.

(* p with 10^(p-1) <= num/den < 10^p *)
Fixpoint adjust_up (fuel : nat) (num den p : Z) : Z :=
  match fuel with
  | O => p
  | S f => (* while num/den >= 10^p *)
      let ge := if 0 <=? p then den * pow10 p <=? num else den <=? num * pow10 (- p) in
      if ge then adjust_up f num den (p + 1) else p
  end.
Fixpoint adjust_down (fuel : nat) (num den p : Z) : Z :=
  match fuel with
  | O => p
  | S f => (* while num/den < 10^(p-1) *)
      let q := p - 1 in
      let lt := if 0 <=? q then num <? den * pow10 q else num * pow10 (- q) <? den in
      if lt then adjust_down f num den q else p
  end.
Definition dec_exponent (num den : Z) : Z :=
  let p0 := (Z.log2 num - Z.log2 den) * 30103 / 100000 in
  adjust_up 4 num den (adjust_down 4 num den (p0 + 1)).

Fixpoint strip_zeros (fuel : nat) (c sc : Z) : Z * Z :=
  match fuel with
  | O => (c, sc)
  | S f => if (c mod 10 =? 0) && negb (c =? 0) then strip_zeros f (c / 10) (sc + 1) else (c, sc)
  end.

Fixpoint shortest_aux (fuel : nat) (n : Z) (num den lo hi p : Z) (incl : bool) : Z * Z :=
  let sc := p - n in
  let up10 := pow10 (Z.max 0 (- sc)) in
  let N' := num * up10 in let L' := lo * up10 in let H' := hi * up10 in
  let Dn := den * pow10 (Z.max 0 sc) in
  let c := N' / Dn in
  let down := c * Dn in
  let up := (c + 1) * Dn in
  let okdown := (L' <? down) || (incl && (L' =? down)) in
  let okup := (up <? H') || (incl && (up =? H')) in
  let pick :=
    if okdown && okup then Some (if 2 * (N' - down) <=? Dn then c else c + 1)
    else if okdown then Some c else if okup then Some (c + 1) else None in
  match pick, fuel with
  | Some c', _ => strip_zeros 20 c' sc
  | None, S f => shortest_aux f (n + 1) num den lo hi p incl
  | None, O => strip_zeros 20 c sc
  end.

(* finite non-zero |f| = m * 2^e *)
Definition shortest_digits (m : positive) (e : Z) : Z * Z :=
  let mz := Z.pos m in
  let pow2case := (mz =? 2 ^ 52) && (-1074 <? e) in
  let s := if pow2case then 4 else 2 in
  let up2 := 2 ^ Z.max 0 e in
  let num := s * mz * up2 in
  let den := s * 2 ^ Z.max 0 (- e) in
  let hi := num + (if pow2case then 2 else 1) * up2 in
  let lo := num - up2 in
  let p := dec_exponent num den in
  shortest_aux 17 1 num den lo hi p (Z.even mz).

Definition digit_chars (c : Z) : bytes := print_Z c.
Fixpoint zeros (n : nat) : bytes := match n with O => [] | S k => 48%N :: zeros k end.

(* strconv.AppendFloat(_, f, 'f', -1, 64) for finite non-zero magnitude given as digits c * 10^sc *)
Definition fmt_f (c sc : Z) : bytes :=
  let ds := digit_chars c in
  let nd := Z.of_nat (List.length ds) in
  let dp := nd + sc in
  if dp <=? 0 then 48%N :: 46%N :: zeros (Z.to_nat (- dp)) ++ ds
  else if nd <=? dp then ds ++ zeros (Z.to_nat (dp - nd))
  else firstn (Z.to_nat dp) ds ++ 46%N :: skipn (Z.to_nat dp) ds.

(* 'e' format with the "e-09 -> e-9" clean-up of encodeFloat64 *)
Definition fmt_e (c sc : Z) : bytes :=
  let ds := digit_chars c in
  let nd := Z.of_nat (List.length ds) in
  let ex := nd + sc - 1 in
  let mant := match ds with
              | [] => []
              | d :: [] => [d]
              | d :: r => d :: 46%N :: r
              end in
  let exds := print_Z (Z.abs ex) in
  let ex2 := match exds with [_] => 48%N :: exds | _ => exds end in
  if ex <? 0 then
    (* buf[n-4]=='e' && buf[n-3]=='-' && buf[n-2]=='0': only when the exponent has exactly 2 digits *)
    mant ++ 101%N :: 45%N :: (match ex2 with [48%N; d] => [d] | _ => ex2 end)
  else mant ++ 101%N :: 43%N :: ex2.

Definition f_1e_6 : float := dec2flt false 1 (-6).
Definition f_1e21 : float := dec2flt false 1 21.
Definition max_float_m : positive := 9007199254740991.
Definition max_float_e : Z := 971.

(* encoder.go encodeFloat64 *)
Definition fmt_float (f : float) : bytes :=
  match f with
  | B754_nan => codes "null"%string
  | B754_zero s => if s then codes "-0"%string else codes "0"%string
  | _ =>
      let neg := fsign f in
      let '(m, e) := match f with
                     | B754_finite _ m e _ => (m, e)
                     | _ => (max_float_m, max_float_e)   (* min(max(f, -MaxFloat64), MaxFloat64) *)
                     end in
      let x := fabs f in
      let '(c, sc) := shortest_digits m e in
      let body := if flt x f_1e_6 || fle f_1e21 x then fmt_e c sc else fmt_f c sc in
      if neg then 45%N :: body else body
  end.
