(* C03 meets_doc: _index/2 (.[k], funcIndex2) for ALL key types: null / boolean keys (errors), string keys, number
   keys in every representation INCLUDING floats (truncated by floatToInt; NaN and the infinities saturate and give
   null), negative indices, array keys (.[array] = indices), object keys ({"start":..,"end":..} = slice), on every
   input type including strings (code points; slices by characters); containers shorter than 2^63. *)
From Coq Require Import List ZArith NArith Bool String Lia.
From Flocq Require Import IEEE754.BinarySingleNaN.
From Verif Require Import common.Sexp common.Int64 c03.JV c03.Core c03.Ops c03.Natives c03.Spec c03.Wf c03.Denote
  c03.CompareDoc c03.OpsDoc c03.NativesDoc c03.IndicesDoc c03.StringsDoc c03.PathDoc c03.NoPanic2 c03.SliceDoc c03.FloatIntDoc c03.SliceAllDoc.
Import ListNotations.
Open Scope Z_scope.

Section IndexAllDoc.
  Variable pf : bytes -> option float.
  Hypothesis pf_bigint : forall z, big_to_float pf z = Z2F z.
  Notation denote := (denote pf).
  Notation agrees := (agrees pf).
  Notation ragrees := (StringsDoc.ragrees pf).

  (* a number key in any representation: toInt is the documented index, and it is a machine int *)
  Lemma num_key_index n : wf_num n = true ->
    exists i, pnum_to_int (norm_num pf n) = i /\ in_int i /\ as_index (denote (JNum n)) = Some i
              /\ ((exists z, denote (JNum n) = MInt z) \/ (exists f, denote (JNum n) = MFlt f)).
  Proof.
    intros W. destruct (denote (JNum n)) eqn:E; try (rewrite (denote_jnum pf) in E; destruct (norm_num pf n); discriminate).
    - destruct (int_key_index pf pf_bigint n z W E) as [HI AS]. exists (pnum_to_int (norm_num pf n)).
      split; [reflexivity|]. split; [exact HI|]. split; [exact AS|]. left. eauto.
    - rewrite (denote_jnum pf) in E. destruct (norm_num pf n) eqn:EN; try discriminate. inversion E; subst.
      exists (float_to_int f). split; [reflexivity|]. split; [apply float_to_int_in_int|]. split; [reflexivity|]. right. eauto.
  Qed.

  Lemma obj_get_wf m k w : wf (JObj m) = true -> obj_get m k = Some w -> wf w = true.
  Proof.
    cbn [wf]. intros W E. apply andb_true_iff in W as [_ W]. rewrite forallb_forall in W.
    destruct (obj_get_in _ _ _ E) as [I|[k' I]]; apply (W _ I).
  Qed.

  (* slices through an object key: integer / null bounds by SliceDoc; a fractional bound has no entry in Spec.v
     unless an earlier bound already is an error *)
  Lemma slice_any_bounds v e s : wf v = true -> wf e = true -> wf s = true -> sized v = true ->
    (match v with JStr _ => False | _ => True end) ->
    ragrees (f_slice pf v e s) (s_slice (denote v) (denote e) (denote s)).
  Proof.
    intros WV WE WS SZ NSr.
    assert (CS : (exists f, denote s = MFlt f) \/ (forall f, denote s <> MFlt f))
      by (destruct (denote s); try (right; intros; discriminate); left; eauto).
    assert (CE : (exists f, denote e = MFlt f) \/ (forall f, denote e <> MFlt f))
      by (destruct (denote e); try (right; intros; discriminate); left; eauto).
    destruct CS as [[fs DS]|NS].
    { (* fractional start *)
      rewrite DS. destruct v as [| |vn| |vl| |]; try discriminate; try destruct NSr; try reflexivity; try exact I.
      cbn [Spec.denote]. rewrite denote_num_norm. destruct (norm_num pf vn); exact I. }
    destruct CE as [[fe DE]|NE]; [|apply (f_slice_doc pf pf_bigint); auto].
    (* fractional end, start not fractional: no entry, unless the start already is an error *)
    rewrite DE. destruct v as [| |vn| |vl| |]; try discriminate; try destruct NSr; try reflexivity; try exact I.
    { cbn [Spec.denote]. rewrite denote_num_norm. destruct (norm_num pf vn); exact I. }
    cbn [Spec.denote s_slice]. unfold f_slice, slice_arr, slice_bounds.
    destruct s as [| |sn| | | |]; try discriminate; cbn [Spec.denote s_bound to_int bind]; try exact I.
    destruct (denote_num pf sn) eqn:DN; try (rewrite denote_num_norm in DN; destruct (norm_num pf sn); discriminate).
    - cbn [s_bound as_index]. exact I.
    - exfalso. eapply NS. cbn [Spec.denote]. eauto.
  Qed.

  Lemma chunks_length_le s : (List.length (chunks s) <= List.length s)%nat.
  Proof.
    rewrite <- (Utf8Doc.unchunk_chunks' s) at 2.
    assert (F : Forall (fun c : N * bytes => (1 <= List.length (snd c))%nat) (chunks s)).
    { eapply Forall_impl; [|apply Utf8Doc.chunks_ok]. intros c [E|[L _]]; [|rewrite L; apply le_n].
      rewrite <- E. unfold encode_rune. repeat match goal with |- context [if ?c then _ else _] => destruct c end; simpl; lia. }
    induction F as [|c cs Hc Hcs IH]; [simpl; lia|]. cbn [flat_map List.length]. rewrite app_length. unfold bytes in *. cbn [List.length] in *. lia.
  Qed.

  Theorem f_index2_all v x : wf v = true -> wf x = true -> sized v = true ->
    ragrees (f_index2 pf v x) (s_index2 (denote v) (denote x)).
  Proof.
    intros WV WX SZ. unfold f_index2.
    destruct x as [|b|n|k|xl|xm|]; try discriminate.
    - (* null key *) destruct v; try discriminate; reflexivity.
    - (* boolean key *) destruct v; try discriminate; reflexivity.
    - (* number key *)
      destruct (num_key_index n WX) as (i & EI & HI & AS & KD). rewrite EI.
      assert (SK : s_index2 (denote v) (denote (JNum n)) =
                   match denote v, as_index (denote (JNum n)) with
                   | MNull, _ => Some (SVal MNull)
                   | MArr l, Some i => let j := if i <? 0 then i + mlen l else i in
                                       Some (SVal (if (0 <=? j) && (j <? mlen l) then nth (Z.to_nat j) l MNull else MNull))
                   | MStr t, Some i => if valid_utf8 t then
                                         let rs := runes t in
                                         let j := if i <? 0 then i + mlen rs else i in
                                         Some (SVal (if (0 <=? j) && (j <? mlen rs) then MStr (encode_rune (nth (Z.to_nat j) rs 0%N)) else MNull))
                                       else None
                   | _, _ => Some SErr
                   end).
      { destruct KD as [[z ->]|[f ->]]; reflexivity. }
      rewrite SK, AS. clear SK.
      destruct v as [| |vn|t|l|m|]; try discriminate; try reflexivity.
      + cbn [Spec.denote]. rewrite denote_num_norm. destruct (norm_num pf vn); reflexivity.
      + cbn [Spec.denote]. destruct (valid_utf8 t); [|exact I].
        rewrite (index_str_doc pf pf_bigint); auto.
        * cbv zeta. unfold StringsDoc.ragrees, OpsDoc.agrees, mlen, llen.
          destruct ((0 <=? _) && (_ <? _)); reflexivity.
        * cbn [sized] in SZ. apply Z.leb_le in SZ. pose proof (chunks_length_le t). unfold llen in *. lia.
      + rewrite (index_arr_doc pf pf_bigint) by (auto using sized_arr). unfold StringsDoc.ragrees, OpsDoc.agrees. cbn [Spec.denote].
        rewrite (denote_pick pf). unfold pick, mlen, llen. reflexivity.
    - (* string key *)
      cbn [Spec.denote s_index2]. destruct v as [| |vn| | |m|]; try discriminate; try reflexivity.
      + cbn [Spec.denote]. rewrite denote_num_norm. destruct (norm_num pf vn); reflexivity.
      + unfold StringsDoc.ragrees, OpsDoc.agrees. cbn [Spec.denote]. apply (obj_get_doc pf).
    - (* array key: the positions of the sub-array *)
      cbn [Spec.denote s_index2].
      destruct v as [| |vn| |l| |]; try discriminate; try reflexivity.
      + cbn [Spec.denote]. rewrite denote_num_norm. destruct (norm_num pf vn); reflexivity.
      + exact (f_indices_doc pf pf_bigint (JArr l) (JArr xl) WV WX).
    - (* object key: a slice *)
      destruct (is_nil v) eqn:NV.
      { destruct v; try discriminate. reflexivity. }
      assert (SK : s_index2 (denote v) (denote (JObj xm)) =
                   match mget (mapd pf xm) (codes "start"), mget (mapd pf xm) (codes "end") with
                   | Some s, Some e => Some (s_slice_any (denote v) e s)
                   | _, _ => Some SErr
                   end).
      { destruct v as [| |vn| | | |]; try discriminate; try reflexivity.
        cbn [Spec.denote]. rewrite denote_num_norm. destruct (norm_num pf vn); reflexivity. }
      rewrite SK. rewrite !(mget_mapd pf).
      destruct (obj_get xm (codes "start")) as [st|] eqn:ES; cbn [option_map]; [|exact I].
      destruct (obj_get xm (codes "end")) as [en|] eqn:EE; cbn [option_map]; [|exact I].
      apply (f_slice_all pf pf_bigint); auto; eapply obj_get_wf; eauto.
  Qed.
End IndexAllDoc.
