(* C03 meets_doc: getpath/1 along paths with EVERY key type, array keys (sub-array search) and slice objects
   included: getpath is the fold of .[k] (Spec.s_getpath_any), every intermediate value being well-formed and
   shorter than 2^63 again. *)
From Coq Require Import List ZArith NArith Bool String Lia.
From Flocq Require Import IEEE754.BinarySingleNaN.
From Verif Require Import common.Sexp common.Int64 c03.JV c03.Core c03.Ops c03.Natives c03.Spec c03.Wf c03.Denote
  c03.CompareDoc c03.OpsDoc c03.NativesDoc c03.StringsDoc c03.PathDoc c03.NoPanic2 c03.IndexAllDoc c03.GetpathAllDoc.
Import ListNotations.
Open Scope Z_scope.

Lemma In_firstn' {A} (x : A) : forall n l, In x (firstn n l) -> In x l.
Proof. induction n; intros [|y l]; simpl; auto; try tauto. intros [->|I]; auto. Qed.
Lemma In_skipn' {A} (x : A) : forall n l, In x (skipn n l) -> In x l.
Proof. induction n; intros [|y l]; simpl; auto. Qed.
Lemma forallb_sub {A} (P : A -> bool) (l : list A) a b : forallb P l = true -> forallb P (firstn a (skipn b l)) = true.
Proof.
  intros H. rewrite forallb_forall in *. intros x I. apply H. eapply In_skipn'. eapply In_firstn'. exact I.
Qed.
Lemma sub_length {A} (l : list A) a b : (List.length (firstn a (skipn b l)) <= List.length l)%nat.
Proof. rewrite firstn_length, skipn_length. lia. Qed.

Section GetpathFullDoc.
  Variable pf : bytes -> option float.
  Hypothesis pf_bigint : forall z, big_to_float pf z = Z2F z.
  Notation denote := (denote pf).
  Notation agrees := (agrees pf).
  Notation ragrees := (StringsDoc.ragrees pf).

  Lemma scan_up_range cnt : forall i0 vs xs is, scan_up pf cnt i0 vs xs = Val is ->
    Forall (fun i => i0 <= i < i0 + Z.of_nat cnt) is /\ (List.length is <= cnt)%nat.
  Proof.
    induction cnt; intros i0 vs xs is H; cbn [scan_up] in H.
    - inversion H. split; [constructor|simpl; lia].
    - destruct (window_eq pf vs xs i0) as [b| |]; cbn [bind] in H; try discriminate.
      destruct (scan_up pf cnt (i0 + 1) vs xs) as [r| |] eqn:E; cbn [bind] in H; try discriminate.
      inversion H; subst. destruct (IHcnt _ _ _ _ E) as [F L].
      assert (F' : Forall (fun i => i0 <= i < i0 + Z.of_nat (S cnt)) r).
      { eapply Forall_impl; [|exact F]. intros; simpl in *; lia. }
      destruct b; split; auto; try (constructor; [lia|auto]); simpl; lia.
  Qed.
  Lemma indices_keeps vs xs w : llen vs <= max_int -> indices pf vs xs = Val w -> wf w = true /\ sized w = true.
  Proof.
    intros HL. unfold indices. destruct xs as [|x xs]; [intros H; inversion H; auto|].
    destruct (scan_up pf (window_count vs (x :: xs)) 0 vs (x :: xs)) as [is| |] eqn:E; cbn [bind]; try discriminate.
    intros H; inversion H; subst. destruct (scan_up_range _ _ _ _ _ E) as [F L].
    assert (WC : Z.of_nat (window_count vs (x :: xs)) <= llen vs).
    { unfold window_count, llen. cbn [List.length]. lia. }
    cbn [wf sized]. rewrite !forallb_forall. unfold llen. rewrite map_length. split; [|apply andb_true_iff; split].
    - intros y I. apply in_map_iff in I as [i [<- I]]. rewrite Forall_forall in F. specialize (F i I).
      cbn [wf wf_num]. apply in_intb_spec. unfold in_int, min_int, max_int in *. lia.
    - apply Z.leb_le. unfold llen in *. lia.
    - rewrite forallb_forall. intros y I. apply in_map_iff in I as [i [<- I]]. reflexivity.
  Qed.
  Lemma slice_arr_keeps vs e s w : forallb wf vs = true -> sized (JArr vs) = true ->
    slice_arr pf vs e s = Val w -> wf w = true /\ sized w = true.
  Proof.
    intros WV SZ. unfold slice_arr. destruct (slice_bounds pf (llen vs) e s EArrayIndexNotNumber) as [[a b]| |]; cbn [bind fst snd]; try discriminate.
    destruct (go_slice vs a b) as [sub| |] eqn:G; cbn [bind]; try discriminate. intros H; inversion H; subst.
    apply go_slice_val in G as (_ & _ & ->). cbn [sized] in SZ. apply andb_true_iff in SZ as [S1 S2]. apply Z.leb_le in S1.
    cbn [wf sized]. split; [apply forallb_sub; auto|]. apply andb_true_iff. split; [|apply forallb_sub; auto].
    apply Z.leb_le. pose proof (sub_length vs (Z.to_nat (b - a)) (Z.to_nat a)). unfold llen in *. lia.
  Qed.

  Lemma f_index2_keeps_all v x w : wf v = true -> wf x = true -> sized v = true -> jcontainer v ->
    f_index2 pf v x = Val w -> wf w = true /\ sized w = true.
  Proof.
    intros WV WX SZ JC E.
    assert (NS : match v with JStr _ => False | _ => True end) by (destruct v; try exact I; destruct JC).
    destruct x as [|b|n|k|xs|xm|]; try discriminate.
    - unfold f_index2 in E. destruct v; discriminate.
    - unfold f_index2 in E. destruct v; discriminate.
    - apply (f_index2_keeps pf v (JNum n) w); auto; exact I.
    - apply (f_index2_keeps pf v (JStr k) w); auto; exact I.
    - unfold f_index2 in E. destruct v as [| | | |vs| |]; try discriminate; try destruct JC.
      + inversion E; auto.
      + eapply indices_keeps; eauto. apply sized_arr; auto.
    - unfold f_index2 in E. destruct v as [| | | |vs|m|]; try discriminate; try destruct JC; cbn [is_nil] in E.
      + inversion E; auto.
      + destruct (obj_get xm (codes "start")); try discriminate. destruct (obj_get xm (codes "end")); try discriminate.
        unfold f_slice in E. eapply slice_arr_keeps; eauto.
      + destruct (obj_get xm (codes "start")); try discriminate. destruct (obj_get xm (codes "end")); discriminate.
  Qed.

  Theorem getpath_loop_full path : forall v, wf v = true -> sized v = true -> forallb wf path = true ->
    ragrees (getpath_loop pf path v) (s_getpath_any (map denote path) (denote v)).
  Proof.
    induction path as [|x r IH]; intros v WV SZ WP; [simpl; reflexivity|].
    cbn [forallb] in WP. apply andb_true_iff in WP as [WX WR]. cbn [map getpath_loop s_getpath_any].
    assert (STEP : jcontainer v ->
      ragrees (match f_index2 pf v x with Val w => getpath_loop pf r w | Err e => Err (EFunc1Wrap e) | Panic t => Panic t end)
              (match s_index2 (denote v) (denote x) with
               | Some (SVal w) => s_getpath_any (map denote r) w
               | Some SErr => Some SErr
               | None => None
               end)).
    { intros JC. pose proof (f_index2_all pf pf_bigint v x WV WX SZ) as ST.
      destruct (s_index2 (denote v) (denote x)) as [[w'|]|]; [| |exact I];
        destruct (f_index2 pf v x) as [w| |] eqn:E; simpl in ST; try contradiction; try exact I.
      subst w'. destruct (f_index2_keeps_all v x w WV WX SZ JC E). apply IH; auto. }
    destruct v as [|b|n|s|l|m|]; try discriminate.
    - apply STEP. exact I.
    - exact I.
    - cbn [Spec.denote]. rewrite denote_num_norm. destruct (norm_num pf n); exact I.
    - exact I.
    - apply STEP. exact I.
    - apply STEP. exact I.
  Qed.
  Theorem f_getpath_full v p : wf v = true -> wf p = true -> sized v = true ->
    ragrees (f_getpath pf v p) (match denote p with MArr path => s_getpath_any path (denote v) | _ => Some SErr end).
  Proof.
    intros WV WP SZ. unfold f_getpath. destruct p as [| |n| |path| |]; try discriminate; try reflexivity.
    - cbn [Spec.denote]. rewrite denote_num_norm. destruct (norm_num pf n); reflexivity.
    - cbn [Spec.denote]. apply getpath_loop_full; auto.
  Qed.
End GetpathFullDoc.
