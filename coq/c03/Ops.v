(* C03 — operator.go: binopTypeSwitch and the operators + - * / %, unary plus/negate, //, comparison
   operators; func.go add (the fold used by add/0 and join).  Definitions only. *)
From Coq Require Import List ZArith NArith Bool String Ascii.
From Flocq Require Import IEEE754.BinarySingleNaN.
From Verif Require Import common.Sexp common.Int64 c03.JV c03.Core.
Import ListNotations.
Open Scope Z_scope.

Section Ops.
  Variable parse_float : bytes -> option float.

  Notation norm := (norm parse_float).
  Notation big_to_float := (big_to_float parse_float).
  Notation to_float := (to_float parse_float).
  Notation compare := (compare parse_float).

  (* operator.go binopTypeSwitch: json.Number operands are normalised by parseNumber first; the
     callbacks are chosen by the pair of dynamic types; everything else goes to the fallback
     (with the NORMALISED operands). *)
  Definition binop_switch {T} (l r : jv)
      (ci : Z -> Z -> T) (cf : float -> float -> T) (cb : Z -> Z -> T) (cs : bytes -> bytes -> T)
      (ca : list jv -> list jv -> T) (cm : list (bytes * jv) -> list (bytes * jv) -> T)
      (fb : jv -> jv -> T) : T :=
    let l := norm l in
    let r := norm r in
    match l, r with
    | JNum (NInt a), JNum (NInt b) => ci a b
    | JNum (NInt a), JNum (NFlt b) => cf (Z2F a) b
    | JNum (NInt a), JNum (NBig b) => cb a b
    | JNum (NFlt a), JNum (NInt b) => cf a (Z2F b)
    | JNum (NFlt a), JNum (NFlt b) => cf a b
    | JNum (NFlt a), JNum (NBig b) => cf a (big_to_float b)
    | JNum (NBig a), JNum (NInt b) => cb a b
    | JNum (NBig a), JNum (NFlt b) => cf (big_to_float a) b
    | JNum (NBig a), JNum (NBig b) => cb a b
    | JStr a, JStr b => cs a b
    | JArr a, JArr b => ca a b
    | JObj a, JObj b => cm a b
    | _, _ => fb l r
    end.

  Definition is_nil (v : jv) : bool := match v with JNull => true | _ => false end.
  Definition vnum (n : num) : outcome jv := Val (JNum n).
  Definition vflt (f : float) : outcome jv := Val (JNum (NFlt f)).
  Definition ebin (_ _ : jv) : outcome jv := Err EBinopType.

  Definition op_add (l r : jv) : outcome jv :=
    binop_switch l r
      (fun a b => vnum (add_int a b))
      (fun a b => vflt (fadd a b))
      (fun a b => vnum (NBig (a + b)))
      (fun a b => Val (JStr (a ++ b)))
      (fun a b => match a, b with [], _ => Val (JArr b) | _, [] => Val (JArr a) | _, _ => Val (JArr (a ++ b)) end)
      (fun a b => match a, b with [], _ => Val (JObj b) | _, [] => Val (JObj a) | _, _ => Val (JObj (obj_merge a b)) end)
      (fun l r => if is_nil l then Val r else if is_nil r then Val l else Err EBinopType).

  Definition op_sub (l r : jv) : outcome jv :=
    binop_switch l r
      (fun a b => vnum (sub_int a b))
      (fun a b => vflt (fsub a b))
      (fun a b => vnum (NBig (a - b)))
      (fun a b => Err EBinopType)
      (fun a b => Val (JArr (filter (fun x => negb (existsb (fun y => compare x y =? 0) b)) a)))
      (fun a b => Err EBinopType)
      ebin.

  (* operator.go deepMergeObjects: structural in the right operand *)
  Fixpoint deep_merge (lm : list (bytes * jv)) (r : jv) {struct r} : jv :=
    match r with
    | JObj rm =>
        JObj ((fix go (rm : list (bytes * jv)) (acc : list (bytes * jv)) {struct rm} : list (bytes * jv) :=
                 match rm with
                 | [] => acc
                 | (k, v) :: rm' =>
                     let v' := match obj_get acc k, v with
                               | Some (JObj mk), JObj _ => deep_merge mk v
                               | _, _ => v
                               end in
                     go rm' (obj_set acc k v')
                 end) rm lm)
    | _ => r
    end.

  (* strings.Repeat(s, c) without going through unary numbers *)
  Definition repeat_bytes_Z (s : bytes) (c : Z) : bytes :=
    match s, c with
    | [], _ => []
    | _, Zpos p => Pos.iter (app s) [] p
    | _, _ => []
    end.

  (* operator.go repeatString *)
  Definition f_max_int32 : float := Z2F 2147483647.
  Definition repeat_string (s : bytes) (n : float) : outcome jv :=
    if go_lt n (fzero false) then Val JNull
    else
      let m := if flt n f_max_int32 then n else f_max_int32 in      (* min(n, math.MaxInt32) *)
      let c := ftrunc m in
      if 2147483647 <=? (Z.of_nat (List.length s) * c) mod 2 ^ 64 then Err ERepeatTooLarge
      else Val (JStr (repeat_bytes_Z s c)).

  Definition op_mul (l r : jv) : outcome jv :=
    binop_switch l r
      (fun a b => vnum (mul_int a b))
      (fun a b => vflt (fmul a b))
      (fun a b => vnum (NBig (a * b)))
      (fun a b => Err EBinopType)
      (fun a b => Err EBinopType)
      (fun a b => Val (deep_merge a (JObj b)))
      (fun l r =>
         match (match l with JStr s => match to_float r with Some n => Some (s, n) | None => None end | _ => None end) with
         | Some (s, n) => repeat_string s n
         | None =>
             match (match r with JStr s => match to_float l with Some n => Some (s, n) | None => None end | _ => None end) with
             | Some (s, n) => repeat_string s n
             | None => Err EBinopType
             end
         end).

  Definition op_div (l r : jv) : outcome jv :=
    binop_switch l r
      (fun a b => if b =? 0 then Err EZeroDivision
                  else if b =? -1 then vnum (negate_int a)
                  else if Z.rem a b =? 0 then vnum (NInt (Z.quot a b))
                  else vflt (fdiv (Z2F a) (Z2F b)))
      (fun a b => if feq b (fzero false) then Err EZeroDivision else vflt (fdiv a b))
      (fun a b => if b =? 0 then Err EZeroDivision
                  else if Z.modulo a b =? 0 then vnum (NBig (Z.div a b))
                  else vflt (fdiv (big_to_float a) (big_to_float b)))
      (fun a b => match a with
                  | [] => Val (JArr [])
                  | _ => Val (JArr (map JStr (go_split a b)))
                  end)
      (fun a b => Err EBinopType)
      (fun a b => Err EBinopType)
      ebin.

  Definition op_mod (l r : jv) : outcome jv :=
    binop_switch l r
      (fun a b => if b =? 0 then Err EZeroModulo
                  else if b =? -1 then vnum (NInt 0)
                  else vnum (NInt (Z.rem a b)))
      (fun a b => if fis_nan a || fis_nan b then vflt fnan
                  else let ri := float_to_int b in
                       if ri =? 0 then Err EZeroModulo
                       else vnum (NInt (Z.rem (float_to_int a) ri)))
      (fun a b => if b =? 0 then Err EZeroModulo else vnum (NBig (Z.rem a b)))
      (fun a b => Err EBinopType)
      (fun a b => Err EBinopType)
      (fun a b => Err EBinopType)
      ebin.

  Definition op_alt (l r : jv) : outcome jv :=
    match l with JNull | JBool false => Val r | _ => Val l end.

  Definition op_cmp (test : Z -> bool) (l r : jv) : outcome jv := Val (JBool (test (compare l r))).

  Definition op_plus (v : jv) : outcome jv :=
    match v with JNum _ => Val v | _ => Err EUnaryType end.
  Definition op_negate (v : jv) : outcome jv :=
    match v with
    | JNum (NInt z) => vnum (negate_int z)
    | JNum (NFlt f) => vflt (fneg f)
    | JNum (NBig z) => vnum (NBig (- z))
    | JNum (NLit t) => if starts_minus t then vnum (NLit (tl t)) else vnum (NLit (45%N :: t))
    | _ => Err EUnaryType
    end.

  (* func.go add(xs): the strings.Builder state is the JStr state (a string state never reaches the
     string case otherwise: funcOpAdd(string, non-string non-nil) is an error) *)
  Definition add_step (v x : jv) : outcome jv :=
    match x with
    | JNull => Val v
    | JStr s => match v with
                | JNull => Val (JStr s)
                | JStr w => Val (JStr (w ++ s))
                | _ => op_add v x
                end
    | JArr a => match v with
                | JNull => Val (JArr a)
                | JArr w => Val (JArr (w ++ a))
                | _ => op_add v x
                end
    | JObj m => match v with
                | JNull => Val (JObj m)
                | JObj w => Val (JObj (obj_merge w m))
                | _ => op_add v x
                end
    | _ => op_add v x
    end.
  Fixpoint add_seq (v : jv) (xs : list jv) : outcome jv :=
    match xs with
    | [] => Val v
    | x :: r => do v' <- add_step v x; add_seq v' r
    end.
End Ops.
