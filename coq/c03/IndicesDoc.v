(* C03 meets_doc: indices / index / rindex (sub-array, element, substring by code points). *)
From Coq Require Import List ZArith NArith Bool String Lia.
From Flocq Require Import IEEE754.BinarySingleNaN.
From Verif Require Import common.Sexp common.Int64 c03.JV c03.Core c03.Ops c03.Natives c03.Spec c03.Wf c03.Denote
  c03.CompareDoc c03.OpsDoc c03.NativesDoc c03.NativesDoc3 c03.NoPanic2.
Import ListNotations.
Open Scope Z_scope.

Lemma arr_cmp_eq (x : list mv) : forall y,
  match arr_cmp mcmp x y with Eq => true | _ => false end
  = Nat.eqb (List.length x) (List.length y) && forallb (fun pq => meq (fst pq) (snd pq)) (combine x y).
Proof.
  induction x as [|p x IH]; intros [|q y]; simpl; try reflexivity.
  assert (M : meq p q = match mcmp p q with Eq => true | _ => false end) by reflexivity. rewrite M.
  destruct (mcmp p q); simpl; rewrite ?andb_false_r; auto.
Qed.

(* code points are small *)
Lemma chunks_bound_aux n : forall s, (List.length s <= n)%nat -> Forall (fun c => (fst c < 2097152)%N) (chunks s).
Proof.
  induction n; intros s HL.
  - destruct s; [constructor|simpl in HL; lia].
  - destruct s as [|b0 r]; [constructor|].
    assert (IH : forall t, (List.length t <= List.length r)%nat -> Forall (fun c => (fst c < 2097152)%N) (chunks t)).
    { intros; apply IHn; simpl in HL; lia. }
    cbn [chunks]. unfold is_cont, rune_error.
    destruct r as [|b1 [|b2 [|b3 r3]]];
      repeat match goal with |- context [if ?c then _ else _] => destruct c eqn:? end;
      repeat match goal with H : context [if ?c then _ else _] |- _ => destruct c eqn:? end;
      repeat (constructor; [cbn [fst]; repeat match goal with
                 | H : (_ && _)%bool = true |- _ => apply andb_true_iff in H; destruct H
                 | H : (_ <=? _)%N = true |- _ => apply N.leb_le in H
                 | H : (_ <? _)%N = true |- _ => apply N.ltb_lt in H
                 end; lia|]); try (apply IH; simpl; lia); try constructor.
Qed.

Lemma in_firstn {A} (x : A) n : forall l, In x (firstn n l) -> In x l.
Proof. induction n; intros [|a l]; simpl; intros H; auto; try contradiction. destruct H; auto. Qed.
Lemma in_skipn {A} (x : A) n : forall l, In x (skipn n l) -> In x l.
Proof. induction n; intros [|a l]; simpl; intros H; auto. Qed.

Lemma filter_all_false {A} (P : A -> bool) l : (forall x, In x l -> P x = false) -> filter P l = [].
Proof. induction l; simpl; intros H; auto. rewrite (H a) by (left; auto). apply IHl. intros; apply H; right; auto. Qed.

Section IndicesDoc.
  Variable pf : bytes -> option float.
  Hypothesis pf_bigint : forall z, big_to_float pf z = Z2F z.
  Notation denote := (denote pf).
  Notation agrees := (agrees pf).

  Definition window (vs : list jv) (n j : nat) : list jv := firstn n (skipn j vs).

  Lemma go_slice_window (vs xs : list jv) i : 0 <= i -> i + llen xs <= llen vs ->
    go_slice vs i (i + llen xs) = Val (window vs (List.length xs) (Z.to_nat i)).
  Proof.
    intros H0 H1. unfold go_slice, llen in *.
    destruct (i <? 0) eqn:E1; [apply Z.ltb_lt in E1; lia|].
    destruct (i + Z.of_nat (List.length xs) <? i) eqn:E2; [apply Z.ltb_lt in E2; lia|].
    destruct (Z.of_nat (List.length vs) <? i + Z.of_nat (List.length xs)) eqn:E3; [apply Z.ltb_lt in E3; lia|].
    simpl. unfold window. f_equal. f_equal. lia.
  Qed.

  Lemma window_wf vs n j : forallb wf vs = true -> forallb wf (window vs n j) = true.
  Proof.
    intros W. apply forallb_forall. intros x I. unfold window in I. apply in_firstn in I. apply in_skipn in I.
    rewrite forallb_forall in W. auto.
  Qed.

  (* the model's window test = the documented occurrence test *)
  Lemma window_test vs xs j : forallb wf vs = true -> forallb wf xs = true ->
    (compare pf (JArr (window vs (List.length xs) j)) (JArr xs) =? 0)
    = occurs_at meq (map denote vs) (map denote xs) j.
  Proof.
    intros WV WX. rewrite (compare_doc pf pf_bigint); [|simpl; apply window_wf; auto|simpl; auto].
    rewrite cmp_Z_eq0. cbn [Spec.denote]. rewrite mcmp_arr. rewrite arr_cmp_eq.
    unfold occurs_at, window. rewrite !map_length. rewrite skipn_map, firstn_map. rewrite map_length. reflexivity.
  Qed.

  Definition ptest vs xs (j : nat) : bool := occurs_at meq (map denote vs) (map denote xs) j.

  Lemma scan_up_doc vs xs : forallb wf vs = true -> forallb wf xs = true ->
    forall cnt i, 0 <= i -> i + Z.of_nat cnt + llen xs <= llen vs + 1 ->
    scan_up pf cnt i vs xs = Val (map Z.of_nat (filter (ptest vs xs) (seq (Z.to_nat i) cnt))).
  Proof.
    intros WV WX. induction cnt; intros i H0 H1; [reflexivity|].
    cbn [scan_up seq filter]. unfold window_eq. rewrite go_slice_window by lia. cbn [bind].
    rewrite window_test by auto. rewrite (IHcnt (i + 1)) by lia. cbn [bind].
    replace (Z.to_nat (i + 1)) with (S (Z.to_nat i)) by lia. fold (ptest vs xs (Z.to_nat i)).
    destruct (ptest vs xs (Z.to_nat i)); cbn [map]; [rewrite Z2Nat.id by lia|]; reflexivity.
  Qed.

  (* positions beyond the last full window never match *)
  Lemma ptest_short vs xs j : xs <> [] -> (List.length vs < j + List.length xs)%nat -> ptest vs xs j = false.
  Proof.
    intros NE H. unfold ptest, occurs_at. rewrite !map_length.
    assert (L : (List.length (firstn (List.length xs) (skipn j (map denote vs))) < List.length xs)%nat).
    { assert (0 < List.length xs)%nat by (destruct xs; [congruence|simpl; lia]).
      rewrite firstn_length, skipn_length, map_length. lia. }
    destruct (Nat.eqb_spec (List.length (firstn (List.length xs) (skipn j (map denote vs)))) (List.length xs)); [lia|reflexivity].
  Qed.
  Lemma filter_seq_ext (P : nat -> bool) a n m : (n <= m)%nat -> (forall j, (a + n <= j < a + m)%nat -> P j = false) ->
    filter P (seq a m) = filter P (seq a n).
  Proof.
    revert a m. induction n; intros a m H F.
    - simpl. apply filter_all_false. intros j I. apply in_seq in I. apply F. lia.
    - destruct m; [lia|]. simpl. rewrite (IHn (S a) m); [reflexivity|lia|]. intros; apply F; lia.
  Qed.

  Lemma scan_doc vs xs : forallb wf vs = true -> forallb wf xs = true -> xs <> [] ->
    scan_up pf (window_count vs xs) 0 vs xs = Val (map Z.of_nat (positions (map denote vs) (map denote xs))).
  Proof.
    intros WV WX NE. unfold positions. destruct (map denote xs) eqn:EM; [destruct xs; [congruence|discriminate]|].
    rewrite <- EM. rewrite map_length. fold (ptest vs xs).
    unfold window_count. destruct (Z_le_gt_dec 0 (llen vs - llen xs + 1)).
    - rewrite scan_up_doc; auto; [|lia|rewrite Z2Nat.id by lia; lia]. f_equal. f_equal. simpl Z.to_nat.
      symmetry. apply filter_seq_ext; [unfold llen in *; lia|].
      intros j HJ. apply ptest_short; auto. unfold llen in *. lia.
    - replace (Z.to_nat (llen vs - llen xs + 1)) with 0%nat by lia. simpl scan_up. f_equal.
      change (@nil Z) with (map Z.of_nat []). f_equal. symmetry.
      rewrite (filter_seq_ext _ 0 0 (S (List.length vs))); [reflexivity|lia|].
      intros j HJ. apply ptest_short; auto. unfold llen in *. lia.
  Qed.

  Lemma denote_jints is : map denote (map jint is) = map (fun i => MInt i) is.
  Proof. rewrite map_map. reflexivity. Qed.

  (* array haystack, array needle *)
  Lemma indices_doc vs xs : forallb wf vs = true -> forallb wf xs = true ->
    agrees (indices pf vs xs) (SVal (MArr (map mnat (positions (map denote vs) (map denote xs))))).
  Proof.
    intros WV WX. unfold indices. destruct xs as [|x xs]; [reflexivity|].
    rewrite scan_doc; auto; [|discriminate]. cbn [bind]. unfold OpsDoc.agrees. cbn [Spec.denote].
    rewrite denote_jints, map_map. reflexivity.
  Qed.
  Lemma index_first_doc vs xs : forallb wf vs = true -> forallb wf xs = true ->
    agrees (index_first pf vs xs) (SVal (match positions (map denote vs) (map denote xs) with p :: _ => mnat p | [] => MNull end)).
  Proof.
    intros WV WX. unfold index_first. destruct xs as [|x xs]; [reflexivity|].
    rewrite scan_doc; auto; [|discriminate]. cbn [bind]. destruct (positions _ _); reflexivity.
  Qed.
  Lemma index_last_doc vs xs : forallb wf vs = true -> forallb wf xs = true ->
    agrees (index_last pf vs xs) (SVal (match rev (positions (map denote vs) (map denote xs)) with p :: _ => mnat p | [] => MNull end)).
  Proof.
    intros WV WX. unfold index_last. destruct xs as [|x xs]; [reflexivity|].
    rewrite scan_doc; auto; [|discriminate]. cbn [bind]. rewrite <- map_rev. destruct (rev (positions _ _)); reflexivity.
  Qed.

  Lemma chunks_bound s : Forall (fun c => (fst c < 2097152)%N) (chunks s).
  Proof. eapply chunks_bound_aux; eauto. Qed.
  Lemma explode_wf s : forallb wf (explode s) = true.
  Proof.
    unfold explode, runes. apply forallb_forall. intros x I. apply in_map_iff in I as [r [<- I]].
    apply in_map_iff in I as [c [<- I]]. pose proof (chunks_bound s) as B. rewrite Forall_forall in B. specialize (B c I).
    simpl. unfold in_intb, min_int, max_int. apply andb_true_iff. split; apply Z.leb_le; lia.
  Qed.
  Lemma denote_explode s : map denote (explode s) = cps s.
  Proof. unfold explode, cps. rewrite map_map. reflexivity. Qed.

  Lemma index_func_doc (f : list jv -> list jv -> outcome jv) (g : list nat -> mv) v x :
    wf v = true -> wf x = true ->
    (forall vs xs, forallb wf vs = true -> forallb wf xs = true -> agrees (f vs xs) (SVal (g (positions (map denote vs) (map denote xs))))) ->
    agrees (index_func f v x) (match s_positions (denote v) (denote x) with
                               | inl None => SVal MNull | inl (Some ps) => SVal (g ps) | inr _ => SErr end).
  Proof.
    intros WV WX H. unfold index_func.
    destruct v as [| |n|s|vs| |]; try discriminate.
    - reflexivity.
    - cbn [Spec.denote s_positions]. destruct (denote x); reflexivity.
    - cbn [Spec.denote]. rewrite denote_num_norm. destruct (norm_num pf n); destruct (denote x); reflexivity.
    - destruct x as [| |n|t| | |]; try discriminate; try reflexivity.
      + cbn [Spec.denote]. rewrite denote_num_norm. destruct (norm_num pf n); reflexivity.
      + cbn [Spec.denote s_positions]. rewrite <- !denote_explode. apply H; apply explode_wf.
    - simpl in WV. destruct x as [| |n|t|xs| |]; try discriminate.
      + apply (H vs [JNull]); auto.
      + apply (H vs [JBool b]); auto.
      + pose proof (H vs [JNum n] WV) as HH. cbn [map Spec.denote] in *. rewrite denote_num_norm in *.
        destruct (norm_num pf n); apply HH; simpl; simpl in WX; rewrite WX; auto.
      + apply (H vs [JStr t]); auto.
      + apply H; auto.
      + apply (H vs [JObj m]); auto. simpl. simpl in WX. rewrite WX. auto.
    - cbn [Spec.denote s_positions]. destruct (denote x); reflexivity.
  Qed.

  Theorem f_indices_doc v x : wf v = true -> wf x = true -> agrees (f_indices pf v x) (s_indices (denote v) (denote x)).
  Proof.
    intros. unfold f_indices, s_indices.
    pose proof (index_func_doc (indices pf) (fun ps => MArr (map mnat ps)) v x H H0 indices_doc) as D.
    destruct (s_positions (denote v) (denote x)) as [[ps|]|]; exact D.
  Qed.
  Theorem f_index_doc v x : wf v = true -> wf x = true -> agrees (f_index pf v x) (s_index (denote v) (denote x)).
  Proof.
    intros. unfold f_index, s_index.
    pose proof (index_func_doc (index_first pf) (fun ps => match ps with p :: _ => mnat p | [] => MNull end) v x H H0 index_first_doc) as D.
    destruct (s_positions (denote v) (denote x)) as [[ps|]|]; exact D.
  Qed.
  Theorem f_rindex_doc v x : wf v = true -> wf x = true -> agrees (f_rindex pf v x) (s_rindex (denote v) (denote x)).
  Proof.
    intros. unfold f_rindex, s_rindex.
    pose proof (index_func_doc (index_last pf) (fun ps => match rev ps with p :: _ => mnat p | [] => MNull end) v x H H0 index_last_doc) as D.
    destruct (s_positions (denote v) (denote x)) as [[ps|]|]; exact D.
  Qed.
End IndicesDoc.
