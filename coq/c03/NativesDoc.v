(* C03 meets_doc for natives with a crisp documented definition (first batch): the model result
   denotes what Spec.v prescribes for the denotations of input and arguments. *)
From Coq Require Import List ZArith NArith Bool String Lia.
From Flocq Require Import IEEE754.BinarySingleNaN.
From Verif Require Import common.Sexp common.Int64 c03.JV c03.Core c03.Ops c03.Natives c03.Spec c03.Wf c03.Denote
  c03.CompareDoc c03.OpsDoc.
Import ListNotations.
Open Scope Z_scope.

Section NativesDoc.
  Variable pf : bytes -> option float.
  Hypothesis pf_bigint : forall z, big_to_float pf z = Z2F z.
  Notation denote := (denote pf).
  Notation agrees := (agrees pf).
  Notation mapd := (mapd pf).

  (* abs / length on a json.Number are textual (the sign character is dropped); that case is left to
     the correspondence run and the representation oracle of the harness *)
  Definition not_literal (v : jv) : Prop := match v with JNum (NLit _) => False | _ => True end.

  Lemma abs_num_doc n : wf_num n = true -> not_literal (JNum n) ->
    denote (abs_num n) = match denote (JNum n) with MInt z => MInt (Z.abs z) | MFlt f => MFlt (fabs f) | m => m end.
  Proof.
    destruct n; simpl; intros W NL; try reflexivity; try destruct NL.
    destruct (0 <=? z) eqn:E.
    - apply Z.leb_le in E. simpl. rewrite Z.abs_eq by lia. reflexivity.
    - apply Z.leb_gt in E. change (denote_num pf (negate_int z)) with (denote (JNum (negate_int z))).
      erewrite num_int_denote; [|apply negate_int_exact; apply in_intb_spec; auto]. rewrite Z.abs_neq by lia. reflexivity.
  Qed.
  Theorem f_length_doc v : wf v = true -> not_literal v -> agrees (f_length v) (s_length (denote v)).
  Proof.
    intros W NL. destruct v as [| |n|s|l|m|]; try reflexivity; try discriminate.
    - unfold f_length, agrees. rewrite abs_num_doc by auto. destruct n; try reflexivity. destruct NL.
    - simpl. unfold jnat, rune_count, runes, mlen. rewrite map_length. reflexivity.
    - simpl. unfold jnat, mlen. rewrite map_length. reflexivity.
    - simpl. unfold jnat, mlen. rewrite map_length. reflexivity.
  Qed.
  Theorem f_abs_doc v : wf v = true -> not_literal v -> agrees (f_abs v) (s_abs (denote v)).
  Proof.
    intros W NL. destruct v as [| |n|s|l|m|]; try reflexivity; try discriminate.
    unfold f_abs, agrees. rewrite abs_num_doc by auto. destruct n; try reflexivity. destruct NL.
  Qed.

  Theorem f_utf8bytelength_doc v : wf v = true -> agrees (f_utf8bytelength v) (s_utf8bytelength (denote v)).
  Proof.
    intros W. destruct v as [| |n| | | |]; try reflexivity; try discriminate.
    simpl. rewrite denote_num_norm. destruct (norm_num pf n); reflexivity.
  Qed.

  Theorem f_keys_doc v : wf v = true -> agrees (f_keys v) (s_keys (denote v)).
  Proof.
    intros W. destruct v as [| |n| |l|m|]; try reflexivity; try discriminate.
    - simpl. rewrite denote_num_norm. destruct (norm_num pf n); reflexivity.
    - simpl. rewrite !map_map, map_length. reflexivity.
    - simpl. rewrite !map_map. reflexivity.
  Qed.

  Lemma mv_int_as_index m : mv_int m = as_index m.
  Proof.
    destruct m; try reflexivity. simpl. f_equal. unfold in_intb.
    destruct (min_int <=? z) eqn:E1; destruct (z <=? max_int) eqn:E2; simpl;
      try apply Z.leb_le in E1; try apply Z.leb_le in E2; try apply Z.leb_gt in E1; try apply Z.leb_gt in E2;
      unfold min_int, max_int in *; try (destruct (0 <? z) eqn:E3; [apply Z.ltb_lt in E3|apply Z.ltb_ge in E3]); lia.
  Qed.
  Lemma obj_get_exists m k : (match obj_get m k with Some _ => true | None => false end)
                             = existsb (fun kv : bytes * mv => bytes_eqb (fst kv) k) (mapd m).
  Proof.
    induction m as [|[k' v] m IH]; simpl; [reflexivity|]. rewrite (bytes_eqb_sym k k').
    destruct (bytes_eqb k' k); simpl; auto.
  Qed.
  Theorem f_has_doc v x : wf v = true -> wf x = true -> agrees (f_has pf v x) (s_has (denote v) (denote x)).
  Proof.
    intros WV WX. destruct v as [| |n| |l|m|]; try discriminate.
    - reflexivity.
    - simpl. destruct (denote x); reflexivity.
    - simpl. rewrite denote_num_norm. destruct (norm_num pf n); destruct (denote x); reflexivity.
    - simpl. destruct (denote x); reflexivity.
    - unfold f_has. rewrite (to_int_denote pf) by auto. rewrite mv_int_as_index.
      cbn [denote s_has]. destruct (as_index (denote x)); [|reflexivity].
      simpl. unfold llen, mlen. rewrite map_length. reflexivity.
    - unfold f_has. destruct x as [| |n| | | |]; try reflexivity; try discriminate.
      + cbn [denote s_has]. fold (mapd m). rewrite denote_num_norm. destruct (norm_num pf n); reflexivity.
      + cbn [denote s_has]. fold (mapd m). unfold vbool, agrees. cbn [Spec.denote]. rewrite obj_get_exists. reflexivity.
  Qed.

  Theorem f_reverse_doc v : wf v = true -> agrees (f_reverse v) (s_reverse (denote v)).
  Proof.
    intros W. destruct v as [| |n| |l| |]; try reflexivity; try discriminate.
    - simpl. rewrite denote_num_norm. destruct (norm_num pf n); reflexivity.
    - simpl. rewrite map_rev. reflexivity.
  Qed.
  Theorem f_type_doc v : wf v = true -> agrees (f_type v) (s_type (denote v)).
  Proof.
    intros W. destruct v as [| |n| | | |]; try reflexivity; try discriminate.
    simpl. rewrite denote_num_norm. destruct (norm_num pf n); reflexivity.
  Qed.
  Theorem f_explode_doc v : wf v = true -> agrees (f_explode v) (s_explode (denote v)).
  Proof.
    intros W. destruct v as [| |n| | | |]; try reflexivity; try discriminate.
    - simpl. rewrite denote_num_norm. destruct (norm_num pf n); reflexivity.
    - simpl. unfold explode, cps. rewrite map_map. reflexivity.
  Qed.
  Theorem f_tonumber_num_doc n : wf_num n = true -> agrees (f_tonumber pf (JNum n)) (SVal (denote (JNum n))).
  Proof. reflexivity. Qed.

  (* string predicates: strip_prefix against firstn/skipn *)
  Lemma strip_prefix_spec p : forall s,
    strip_prefix p s = if bytes_eqb (firstn (List.length p) s) p then Some (skipn (List.length p) s) else None.
  Proof.
    induction p as [|x p IH]; intros s; simpl; [reflexivity|].
    destruct s as [|y s]; simpl; [reflexivity|]. unfold bytes_eqb in *. simpl.
    rewrite (N.eqb_sym y x). destruct (N.eqb x y); simpl; auto.
  Qed.
  Lemma has_prefix_doc s t : has_prefix s t = s_startswith s t.
  Proof. unfold has_prefix, s_startswith. rewrite strip_prefix_spec. destruct (bytes_eqb _ t); reflexivity. Qed.
  Lemma trim_prefix_doc s t : trim_prefix s t = s_ltrimstr s t.
  Proof. unfold trim_prefix, s_ltrimstr, s_startswith. rewrite strip_prefix_spec. destruct (bytes_eqb _ t); reflexivity. Qed.

  Lemma str2_doc (f : bytes -> bytes -> jv) (g : bytes -> bytes -> mv) v x : wf v = true -> wf x = true ->
    (forall s t, denote (f s t) = g s t) -> agrees (str2 f v x) (s_str2 g (denote v) (denote x)).
  Proof.
    intros WV WX H. unfold str2, s_str2.
    destruct v as [| |n| | | |]; try discriminate;
      try (cbn [denote]; rewrite ?denote_num_norm; try destruct (norm_num pf n); destruct (Spec.denote pf x); reflexivity).
    destruct x as [| |n| | | |]; try discriminate; try reflexivity.
    - cbn [denote]. rewrite denote_num_norm. destruct (norm_num pf n); reflexivity.
    - simpl. apply H.
  Qed.
  Theorem f_startswith_doc v x : wf v = true -> wf x = true ->
    agrees (f_startswith v x) (s_str2 (fun s t => MBool (s_startswith s t)) (denote v) (denote x)).
  Proof. intros. apply str2_doc; auto. intros. simpl. rewrite has_prefix_doc. reflexivity. Qed.
  Theorem f_ltrimstr_doc v x : wf v = true -> wf x = true ->
    agrees (f_ltrimstr v x) (s_str2 (fun s t => MStr (s_ltrimstr s t)) (denote v) (denote x)).
  Proof. intros. apply str2_doc; auto. intros. simpl. rewrite trim_prefix_doc. reflexivity. Qed.
End NativesDoc.
