(* C03 — floatToInt stays inside the int range (Flocq: Btrunc is Ztrunc of the real value; the two comparisons of
   floatToInt bound that real value by -2^63 and 2^63). *)
From Coq Require Import List ZArith NArith Bool Reals Lia Lra.
From Flocq Require Import Core.Raux Core.Defs Core.Generic_fmt Core.FIX Core.Float_prop IEEE754.BinarySingleNaN.
From Verif Require Import common.Sexp common.Int64 c03.JV.
Open Scope Z_scope.

Lemma B2R_fmin_int : B2R fmin_int = IZR (- 2 ^ 63).
Proof.
  assert (E : fmin_int = @B754_finite 53 1024 true 4503599627370496 11 (@eq_refl bool true)) by (apply B2SF_inj; vm_compute; reflexivity).
  rewrite E. unfold B2R, F2R. simpl. rewrite <- mult_IZR. f_equal.
Qed.
Lemma B2R_fmax_int : B2R fmax_int = IZR (2 ^ 63).
Proof.
  assert (E : fmax_int = @B754_finite 53 1024 false 4503599627370496 11 (@eq_refl bool true)) by (apply B2SF_inj; vm_compute; reflexivity).
  rewrite E. unfold B2R, F2R. simpl. rewrite <- mult_IZR. f_equal.
Qed.

Lemma float_to_int_in_int f : in_int (float_to_int f).
Proof.
  unfold float_to_int. destruct (fle fmin_int f && flt f fmax_int) eqn:E.
  2:{ destruct (flt (fzero false) f); unfold in_int, min_int, max_int; lia. }
  apply andb_true_iff in E as [E1 E2].
  assert (FIN : is_finite f = true).
  { destruct f as [s|s| |s m e B]; try reflexivity; [destruct s; vm_compute in E1, E2; discriminate|vm_compute in E1; discriminate]. }
  assert (F1 : is_finite fmin_int = true) by (vm_compute; reflexivity).
  assert (F2 : is_finite fmax_int = true) by (vm_compute; reflexivity).
  unfold fle in E1. unfold flt in E2. rewrite Bcompare_correct in E1, E2 by auto.
  rewrite B2R_fmin_int in E1. rewrite B2R_fmax_int in E2.
  assert (L : (IZR (- 2 ^ 63) <= B2R f)%R).
  { destruct (Rcompare_spec (IZR (- 2 ^ 63)) (B2R f)); simpl in E1; try discriminate E1; lra. }
  assert (U : (B2R f < IZR (2 ^ 63))%R).
  { destruct (Rcompare_spec (B2R f) (IZR (2 ^ 63))); simpl in E2; try discriminate E2; lra. }
  unfold ftrunc. assert (T : Btrunc f = Ztrunc (B2R f)).
  { apply eq_IZR. rewrite Btrunc_correct; [apply round_FIX_IZR|exact prec53_lt_emax]. }
  rewrite T. unfold in_int, min_int, max_int. split.
  - rewrite <- (Ztrunc_IZR (- 2 ^ 63)). apply Ztrunc_le. exact L.
  - destruct (Rle_or_lt 0 (B2R f)) as [P|N].
    + rewrite Ztrunc_floor by auto. assert (Zfloor (B2R f) < 2 ^ 63); [|lia].
      apply lt_IZR. eapply Rle_lt_trans; [apply Zfloor_lb|exact U].
    + rewrite Ztrunc_ceil by lra. assert (Zceil (B2R f) <= 0); [|lia]. apply Zceil_glb. simpl. lra.
Qed.
