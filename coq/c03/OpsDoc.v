(* C03 meets_doc for the operators: + - * / % (full 7x7 dispatch on arbitrary well-formed values),
   the comparison operators and //.  The model result denotes what Spec.v prescribes for the
   denotations of the operands; errors correspond to errors. *)
From Coq Require Import List ZArith NArith Bool String Lia.
From Flocq Require Import IEEE754.BinarySingleNaN.
From Verif Require Import common.Sexp common.Int64 c03.JV c03.Core c03.Ops c03.Natives c03.Spec c03.Wf c03.Denote c03.CompareDoc.
Import ListNotations.
Open Scope Z_scope.

Lemma mul_int_exact l r : in_int l -> in_int r -> num_int (mul_int l r) = Some (l * r) /\ num_wf_int (mul_int l r).
Proof.
  intros Hl Hr. unfold mul_int.
  destruct (r =? -1) eqn:E1.
  { apply Z.eqb_eq in E1. subst. replace (l * -1) with (- l) by lia. apply negate_int_exact; auto. }
  apply Z.eqb_neq in E1.
  destruct ((r =? 0) || (Z.quot (wrap64 (l * r)) r =? l)) eqn:E2; [|simpl; auto].
  simpl. assert (wrap64 (l * r) = l * r); [|rewrite H; split; [auto|rewrite <- H; apply wrap64_range]].
  apply orb_true_iff in E2 as [E2|E2].
  - apply Z.eqb_eq in E2. subst. rewrite Z.mul_0_r. reflexivity.
  - apply Z.eqb_eq in E2.
    destruct (Z.eq_dec r 0) as [->|H]; [rewrite Z.mul_0_r; reflexivity|].
    pose proof (wrap64_range (l * r)) as WR. set (v := wrap64 (l * r)) in *.
    assert (exists k, v = l * r + k * 2 ^ 64) as [k Hk].
    { subst v. unfold wrap64. exists (- ((l * r + 2 ^ 63) / 2 ^ 64)).
      pose proof (Z.div_mod (l * r + 2 ^ 63) (2 ^ 64) ltac:(lia)). lia. }
    pose proof (Z.quot_rem' v r) as QR. pose proof (Z.rem_bound_abs v r H) as RB.
    rewrite E2 in QR. unfold in_int, min_int, max_int in *.
    assert (k = 0) by lia. subst k. lia.
Qed.

Section OpsDoc.
  Variable pf : bytes -> option float.
  Hypothesis pf_bigint : forall z, big_to_float pf z = Z2F z.

  Notation denote := (denote pf).
  Notation mapd := (mapd pf).

  Definition agrees (o : outcome jv) (s : sres) : Prop :=
    match o, s with
    | Val v, SVal m => denote v = m
    | Err _, SErr => True
    | _, _ => False
    end.

  Lemma norm_jnum n : norm pf (JNum n) = JNum (num_of_pnum (norm_num pf n)).
  Proof. destruct n; reflexivity. Qed.
  Lemma denote_jnum n : denote (JNum n) = mv_of_pnum (norm_num pf n).
  Proof. apply denote_num_norm. Qed.
  Lemma num_int_denote n z : num_int n = Some z -> denote (JNum n) = MInt z.
  Proof. destruct n; simpl; intros H; inversion H; reflexivity. Qed.
  Lemma wf_pnum_int n z : wf_num n = true -> norm_num pf n = PInt z -> in_int z.
  Proof. intros W E. pose proof (norm_num_wf pf n W) as H. rewrite E in H. apply in_intb_spec; auto. Qed.

  (* object helpers: obj_set on values = mset on denotations *)
  Lemma mapd_obj_set m k v : mapd (obj_set m k v) = mset (mapd m) k (denote v).
  Proof.
    induction m as [|[k' v'] m IH]; simpl; [reflexivity|].
    unfold bytes_ltb. destruct (bytes_cmp k k') eqn:E.
    - apply bytes_cmp_eq in E. rewrite E. reflexivity.
    - destruct (bytes_eqb k k') eqn:E2; [apply bytes_cmp_eq in E2; congruence|]. reflexivity.
    - destruct (bytes_eqb k k') eqn:E2; [apply bytes_cmp_eq in E2; congruence|]. simpl. rewrite IH. reflexivity.
  Qed.
  Lemma mapd_obj_merge b : forall a,
    mapd (obj_merge a b) = fold_left (fun acc kv => mset acc (fst kv) (snd kv)) (mapd b) (mapd a).
  Proof.
    unfold obj_merge. induction b as [|[k v] b IH]; intros a; simpl; [reflexivity|].
    rewrite IH. rewrite mapd_obj_set. reflexivity.
  Qed.
  (* inserting increasing keys into an object whose keys are all smaller appends them *)
  Definition all_lt (acc : list (bytes * mv)) (k : bytes) : Prop := forall k' v', In (k', v') acc -> bytes_ltb k' k = true.
  Lemma mset_snoc acc k v : all_lt acc k -> mset acc k v = acc ++ [(k, v)].
  Proof.
    induction acc as [|[k' v'] acc IH]; intros H; simpl; [reflexivity|].
    assert (L : bytes_ltb k' k = true) by (apply (H k' v'); left; reflexivity).
    unfold bytes_ltb in L. destruct (bytes_cmp k' k) eqn:E; try discriminate.
    pose proof (bytes_cmp_antisym k' k) as A. rewrite E in A. simpl in A.
    destruct (bytes_eqb k k') eqn:E2; [apply bytes_cmp_eq in E2; congruence|].
    unfold bytes_ltb. rewrite A. rewrite IH; [reflexivity|]. intros k2 v2 I. eapply H. right. eauto.
  Qed.
  Lemma bytes_ltb_trans a : forall b c, bytes_ltb a b = true -> bytes_ltb b c = true -> bytes_ltb a c = true.
  Proof.
    unfold bytes_ltb. induction a as [|x a IH]; intros [|y b] [|z c]; simpl; try discriminate; auto.
    destruct (N.compare_spec x y) as [->|L|L]; try discriminate.
    - destruct (N.compare_spec y z) as [->|L2|L2]; try discriminate; auto. apply IH.
    - intros _. destruct (N.compare_spec y z) as [->|L2|L2]; try discriminate.
      + destruct (N.compare_spec x z); try lia; auto.
      + intros _. destruct (N.compare_spec x z); try lia; auto.
  Qed.
  Lemma sorted_all_lt {A} (m : list (bytes * A)) k v : sorted_keys ((k, v) :: m) = true ->
    forall k' v', In (k', v') m -> bytes_ltb k k' = true.
  Proof.
    revert k v. induction m as [|[k1 v1] m IH]; intros k v S k' v' I; [destruct I|].
    simpl in S. apply andb_true_iff in S as [S1 S2]. destruct I as [E|I]; [inversion E; subst; auto|].
    eapply bytes_ltb_trans; [exact S1|]. apply (IH k1 v1 S2 k' v' I).
  Qed.
  Lemma fold_mset_sorted y : forall acc, sorted_keys y = true ->
    (forall k v, In (k, v) y -> all_lt acc k) ->
    fold_left (fun acc kv => mset acc (fst kv) (snd kv)) y acc = acc ++ y.
  Proof.
    induction y as [|[k v] y IH]; intros acc S H; simpl; [rewrite app_nil_r; reflexivity|].
    rewrite mset_snoc by (apply (H k v); left; reflexivity).
    rewrite IH.
    - rewrite <- app_assoc. reflexivity.
    - destruct y as [|[k1 v1] y']; [reflexivity|]. simpl in S. apply andb_true_iff in S as [_ S]. exact S.
    - intros k2 v2 I k' v' I'. apply in_app_or in I' as [I'|[E|[]]].
      + eapply H; [right; eauto|eauto].
      + inversion E; subst. eapply sorted_all_lt; eauto.
  Qed.
  Lemma sorted_mapd m : sorted_keys (mapd m) = sorted_keys m.
  Proof. induction m as [|[k v] [|[k' v'] m] IH]; simpl in *; auto. rewrite IH. reflexivity. Qed.
  Lemma fold_mset_nil m : sorted_keys m = true ->
    fold_left (fun acc kv => mset acc (fst kv) (snd kv)) (mapd m) [] = mapd m.
  Proof.
    intros S. rewrite fold_mset_sorted; [reflexivity|rewrite sorted_mapd; auto|]. intros ? ? _ ? ? [].
  Qed.

  (* binopTypeSwitch on two numbers, by the normalised representations *)
  Lemma binop_switch_nums {T} a b (ci : Z -> Z -> T) cf cb cs ca cm fb :
    binop_switch pf (JNum a) (JNum b) ci cf cb cs ca cm fb =
    match norm_num pf a, norm_num pf b with
    | PInt x, PInt y => ci x y
    | PInt x, PFlt y => cf (Z2F x) y
    | PInt x, PBig y => cb x y
    | PFlt x, PInt y => cf x (Z2F y)
    | PFlt x, PFlt y => cf x y
    | PFlt x, PBig y => cf x (big_to_float pf y)
    | PBig x, PInt y => cb x y
    | PBig x, PFlt y => cf (big_to_float pf x) y
    | PBig x, PBig y => cb x y
    end.
  Proof. unfold binop_switch. rewrite !norm_jnum. destruct (norm_num pf a), (norm_num pf b); reflexivity. Qed.

  Ltac wfsplit :=
    repeat match goal with
    | H : wf (JArr _) = true |- _ => simpl in H
    | H : wf (JObj _) = true |- _ => simpl in H; apply andb_true_iff in H; destruct H
    end.

  (* the cases where an operand is a number and the other is not: the fallback sees the normalised
     number *)
  Ltac nonnum_cases :=
    unfold binop_switch; rewrite ?norm_jnum, ?denote_jnum; cbn [norm];
    repeat match goal with |- context [norm_num pf ?x] => destruct (norm_num pf x) end;
    simpl; auto.

  Theorem op_add_doc l r : wf l = true -> wf r = true -> agrees (op_add pf l r) (s_add (denote l) (denote r)).
  Proof.
    intros WL WR. unfold op_add.
    destruct l as [| |a| | | |], r as [| |c| | | |]; try discriminate; try solve [nonnum_cases].
    - (* numbers *)
      rewrite binop_switch_nums. rewrite !denote_jnum.
      destruct (norm_num pf a) eqn:EA, (norm_num pf c) eqn:EB; simpl; rewrite ?pf_bigint; auto.
      apply num_int_denote. apply add_int_exact; [apply (wf_pnum_int a z)|apply (wf_pnum_int c z0)]; auto.
    - (* arrays *)
      unfold binop_switch. cbn [norm]. destruct l as [|x l]; [reflexivity|]. destruct l0 as [|y l0].
      + simpl. rewrite app_nil_r. reflexivity.
      + unfold agrees. cbn [denote]. rewrite map_app. reflexivity.
    - (* objects *)
      unfold binop_switch. cbn [norm]. wfsplit. destruct m as [|x m].
      + unfold agrees. cbn [denote]. fold (mapd m0). simpl s_add. rewrite fold_mset_nil; auto.
      + destruct m0 as [|y m0]; [reflexivity|].
        unfold agrees. cbn [denote]. fold (mapd (obj_merge (x :: m) (y :: m0))). rewrite mapd_obj_merge. reflexivity.
  Qed.

  (* ---- subtraction ---- *)
  Lemma filter_map_denote (p : jv -> bool) (q : mv -> bool) l :
    (forall x, In x l -> p x = q (denote x)) -> map denote (filter p l) = filter q (map denote l).
  Proof.
    induction l; intros H; simpl; [reflexivity|]. rewrite <- (H a) by (left; auto).
    destruct (p a); simpl; rewrite IHl; auto; intros; apply H; right; auto.
  Qed.
  Lemma wf_in l x : forallb wf l = true -> In x l -> wf x = true.
  Proof. intros H I. rewrite forallb_forall in H. auto. Qed.
  Lemma compare_eq0 x y : wf x = true -> wf y = true -> (compare pf x y =? 0) = meq (denote x) (denote y).
  Proof. intros. rewrite (compare_doc pf pf_bigint) by auto. rewrite cmp_Z_eq0. reflexivity. Qed.
  Lemma existsb_map_denote x l : wf x = true -> forallb wf l = true ->
    existsb (fun y => compare pf x y =? 0) l = existsb (meq (denote x)) (map denote l).
  Proof.
    intros WX. induction l; simpl; intros W; [reflexivity|]. apply andb_true_iff in W as [W1 W2].
    rewrite compare_eq0 by auto. rewrite IHl by auto. reflexivity.
  Qed.

  Theorem op_sub_doc l r : wf l = true -> wf r = true -> agrees (op_sub pf l r) (s_sub (denote l) (denote r)).
  Proof.
    intros WL WR. unfold op_sub.
    destruct l as [| |a| | | |], r as [| |c| | | |]; try discriminate; try solve [nonnum_cases].
    - rewrite binop_switch_nums. rewrite !denote_jnum.
      destruct (norm_num pf a) eqn:EA, (norm_num pf c) eqn:EB; simpl; rewrite ?pf_bigint; auto.
      apply num_int_denote. apply sub_int_exact; [apply (wf_pnum_int a z)|apply (wf_pnum_int c z0)]; auto.
    - unfold binop_switch. cbn [norm]. unfold agrees. cbn [denote s_sub]. f_equal.
      simpl in WL, WR. apply filter_map_denote. intros x I. rewrite existsb_map_denote; auto. apply (wf_in l x WL I).
  Qed.

  (* ---- multiplication ---- *)
  Lemma bytes_eqb_sym a b : bytes_eqb a b = bytes_eqb b a.
  Proof.
    destruct (bytes_eqb a b) eqn:E; symmetry.
    - apply bytes_cmp_eq. apply bytes_cmp_eq in E. rewrite bytes_cmp_antisym, E. reflexivity.
    - destruct (bytes_eqb b a) eqn:E2; auto. apply bytes_cmp_eq in E2.
      assert (bytes_cmp a b = Eq) by (rewrite bytes_cmp_antisym, E2; reflexivity). apply bytes_cmp_eq in H. congruence.
  Qed.
  Lemma mget_mapd m k : mget (mapd m) k = option_map denote (obj_get m k).
  Proof.
    unfold mget. induction m as [|[k' v] m IH]; simpl; [reflexivity|].
    rewrite (bytes_eqb_sym k k'). destruct (bytes_eqb k' k); simpl; auto.
  Qed.
  Lemma denote_not_obj_num n : forall x, denote (JNum n) <> MObj x.
  Proof. intros x. rewrite denote_jnum. destruct (norm_num pf n); discriminate. Qed.

  Lemma deep_merge_doc r : forall lm, denote (deep_merge lm r) = s_merge (mapd lm) (denote r).
  Proof.
    induction r using jv_ind'; intros lm; try reflexivity.
    - (* number *) cbn [deep_merge]. pose proof (denote_not_obj_num n). destruct (denote (JNum n)); try reflexivity.
      exfalso; eapply H; eauto.
    - (* object *)
      cbn [deep_merge denote s_merge]. f_equal. fold (mapd m).
      revert lm. induction H as [|[k v] rm Hv Hrm IH]; intros acc; simpl; [reflexivity|].
      rewrite IH. f_equal. rewrite mapd_obj_set. f_equal. rewrite mget_mapd.
      destruct (obj_get acc k) as [w|]; simpl; [|destruct (denote v); reflexivity].
      destruct w as [| |n| | |mk|]; simpl;
        try (destruct v; try reflexivity; destruct (denote _); reflexivity).
      + pose proof (denote_not_obj_num n). destruct (denote_num pf n) eqn:E; try (destruct v; reflexivity).
        exfalso. eapply H. simpl. eauto.
      + fold (mapd mk). destruct v as [| |n'| | |vm|]; try reflexivity.
        * pose proof (denote_not_obj_num n'). destruct (denote (JNum n')) eqn:E; try reflexivity. exfalso; eapply H; eauto.
        * simpl in Hv. apply Hv.
  Qed.

  Lemma bcompare_some x y : fis_nan x = false -> fis_nan y = false -> Bcompare x y <> None.
  Proof. destruct x, y; simpl; try discriminate; intros; unfold Bcompare; simpl; try discriminate; repeat (destruct s; try discriminate); repeat (destruct s0; try discriminate); try (destruct (e ?= e1); try discriminate; destruct (Pos.compare_cont _ _ _); discriminate). Qed.

  (* string repetition *)
  Lemma iter_app_comm (s : bytes) n : Nat.iter n (app s) [] ++ s = s ++ Nat.iter n (app s) [].
  Proof. induction n; simpl; [rewrite app_nil_r; reflexivity|]. rewrite <- app_assoc. rewrite IHn. reflexivity. Qed.
  Lemma iter_app_swap (s : bytes) n : Nat.iter n (app s) [] = Nat.iter n (fun acc => acc ++ s) [].
  Proof. induction n; simpl; [reflexivity|]. rewrite <- IHn. symmetry. apply iter_app_comm. Qed.
  Lemma repeat_bytes_doc s c :
    repeat_bytes_Z s c = match s, c with [], _ => [] | _, Zpos p => Pos.iter (fun acc => acc ++ s) [] p | _, _ => [] end.
  Proof.
    unfold repeat_bytes_Z. destruct s; [reflexivity|]. destruct c; try reflexivity.
    rewrite !Pos2Nat.inj_iter. apply iter_app_swap.
  Qed.
  Lemma flt_fle x y : fis_nan x = false -> fis_nan y = false -> flt x y = negb (fle y x).
  Proof.
    intros HX HY. unfold flt, fle. pose proof (bcompare_some x y HX HY). rewrite (Bcompare_swap _ _ x y).
    destruct (Bcompare x y) as [[]|]; simpl; auto; congruence.
  Qed.
  Lemma ftrunc_maxint32 : ftrunc f_max_int32 = 2147483647.
  Proof. vm_compute. reflexivity. Qed.

  Lemma repeat_string_doc s n : agrees (repeat_string s n) (s_repeat s (MFlt n)).
  Proof.
    unfold repeat_string, s_repeat, go_lt. cbn [dbl].
    rewrite (orb_comm (flt n (fzero false))).
    destruct (fis_nan n) eqn:EN; [reflexivity|]. simpl orb.
    destruct (flt n (fzero false)); [reflexivity|].
    rewrite flt_fle by auto. change (Z2F 2147483647) with f_max_int32.
    destruct (fle f_max_int32 n); cbn [negb]; cbv iota; rewrite ?ftrunc_maxint32;
      unfold mlen; (destruct (2147483647 <=? _); [exact I|]); unfold agrees; cbn [denote];
      rewrite repeat_bytes_doc; reflexivity.
  Qed.
  Lemma s_repeat_dbl s m : s_repeat s m = s_repeat s (MFlt (dbl m)).
  Proof. reflexivity. Qed.

  Theorem op_mul_doc l r : wf l = true -> wf r = true -> agrees (op_mul pf l r) (s_mul (denote l) (denote r)).
  Proof.
    intros WL WR. unfold op_mul.
    destruct l as [| |a| | | |], r as [| |c| | | |]; try discriminate; try solve [nonnum_cases].
    - rewrite binop_switch_nums. rewrite !denote_jnum.
      destruct (norm_num pf a) eqn:EA, (norm_num pf c) eqn:EB; simpl; rewrite ?pf_bigint; auto.
      apply num_int_denote. apply mul_int_exact; [apply (wf_pnum_int a z)|apply (wf_pnum_int c z0)]; auto.
    - (* number * string *)
      unfold binop_switch. rewrite norm_jnum. cbn [norm].
      assert (E : to_float pf (JNum (num_of_pnum (norm_num pf a))) = Some (dbl (denote (JNum a)))).
      { rewrite denote_jnum. pose proof (norm_num_wf pf a WL). destruct (norm_num pf a); simpl in *; rewrite ?pf_bigint; reflexivity. }
      assert (M : is_mnum (denote (JNum a)) = true) by (rewrite denote_jnum; destruct (norm_num pf a); reflexivity).
      destruct (norm_num pf a) eqn:EA; cbn [num_of_pnum] in *; cbv beta iota; rewrite E;
        cbn [denote] in *; (destruct (denote_num pf a) eqn:ED; try discriminate M); cbn [s_mul is_mnum];
        rewrite s_repeat_dbl; apply repeat_string_doc.
    - (* string * number *)
      unfold binop_switch. rewrite norm_jnum. cbn [norm].
      assert (E : to_float pf (JNum (num_of_pnum (norm_num pf c))) = Some (dbl (denote (JNum c)))).
      { rewrite denote_jnum. pose proof (norm_num_wf pf c WR). destruct (norm_num pf c); simpl in *; rewrite ?pf_bigint; reflexivity. }
      assert (M : is_mnum (denote (JNum c)) = true) by (rewrite denote_jnum; destruct (norm_num pf c); reflexivity).
      destruct (norm_num pf c) eqn:EA; cbn [num_of_pnum] in *; cbv beta iota; rewrite E;
        cbn [denote] in *; (destruct (denote_num pf c) eqn:ED; try discriminate M); cbn [s_mul is_mnum];
        rewrite s_repeat_dbl; apply repeat_string_doc.
    - (* objects *)
      unfold binop_switch. cbn [norm]. unfold agrees. rewrite deep_merge_doc. reflexivity.
  Qed.

  (* ---- division (every pair of operands except two strings: string splitting is judged by the
     correspondence run only) and modulo ---- *)
  Lemma rem_mod_zero x y : y <> 0 -> (Z.rem x y =? 0) = (x mod y =? 0).
  Proof.
    intros H. destruct (Z.eqb_spec (Z.rem x y) 0) as [E|E]; destruct (Z.eqb_spec (x mod y) 0) as [E2|E2]; auto; exfalso.
    - apply Z.rem_divide in E; auto. apply Z.mod_divide in E; auto.
    - apply Z.mod_divide in E2; auto. apply Z.rem_divide in E2; auto.
  Qed.
  Lemma rem_m1 z : Z.rem z (-1) = 0.
  Proof. change (-1) with (- (1)). rewrite Z.rem_opp_r by lia. apply Z.rem_1_r. Qed.
  Lemma quot_m1 z : Z.quot z (-1) = - z.
  Proof. change (-1) with (- (1)). rewrite Z.quot_opp_r by lia. rewrite Z.quot_1_r. reflexivity. Qed.
  Lemma quot_div_exact x y : y <> 0 -> x mod y = 0 -> Z.quot x y = x / y.
  Proof.
    intros H E. apply Z.mod_divide in E; auto. destruct E as [q ->]. rewrite Z.quot_mul, Z.div_mul; auto.
  Qed.

  Theorem op_div_doc l r : wf l = true -> wf r = true ->
    (forall s t, l = JStr s -> r = JStr t -> False) ->
    agrees (op_div pf l r) (s_div (denote l) (denote r)).
  Proof.
    intros WL WR NS. unfold op_div.
    destruct l as [| |a| | | |], r as [| |c| | | |]; try discriminate; try solve [nonnum_cases].
    - rewrite binop_switch_nums. rewrite !denote_jnum.
      destruct (norm_num pf a) eqn:EA, (norm_num pf c) eqn:EB; cbn [mv_of_pnum s_div is_mnum andb both_int dbl];
        rewrite ?pf_bigint; try reflexivity;
        try (destruct (feq _ (fzero false)); reflexivity).
      + (* int / int *)
        destruct (z0 =? 0) eqn:E0; [reflexivity|]. destruct (z0 =? -1) eqn:E1.
        * apply Z.eqb_eq in E1. subst z0. rewrite rem_m1, quot_m1. cbn [Z.eqb]. unfold vnum, agrees.
          apply num_int_denote. apply negate_int_exact. apply (wf_pnum_int a z); auto.
        * destruct (Z.rem z z0 =? 0); reflexivity.
      + destruct (z0 =? 0) eqn:E0; [reflexivity|]. apply Z.eqb_neq in E0. rewrite rem_mod_zero by auto.
        destruct (z mod z0 =? 0) eqn:E2; [|reflexivity]. apply Z.eqb_eq in E2. simpl. rewrite quot_div_exact; auto.
      + destruct (z0 =? 0) eqn:E0; [reflexivity|]. apply Z.eqb_neq in E0. rewrite rem_mod_zero by auto.
        destruct (z mod z0 =? 0) eqn:E2; [|reflexivity]. apply Z.eqb_eq in E2. simpl. rewrite quot_div_exact; auto.
      + destruct (z0 =? 0) eqn:E0; [reflexivity|]. apply Z.eqb_neq in E0. rewrite rem_mod_zero by auto.
        destruct (z mod z0 =? 0) eqn:E2; [|reflexivity]. apply Z.eqb_eq in E2. simpl. rewrite quot_div_exact; auto.
    - exfalso. eapply NS; reflexivity.
  Qed.

  Theorem op_mod_doc l r : wf l = true -> wf r = true -> agrees (op_mod pf l r) (s_mod (denote l) (denote r)).
  Proof.
    intros WL WR. unfold op_mod.
    destruct l as [| |a| | | |], r as [| |c| | | |]; try discriminate; try solve [nonnum_cases].
    rewrite binop_switch_nums. rewrite !denote_jnum.
    destruct (norm_num pf a) eqn:EA, (norm_num pf c) eqn:EB; cbn [mv_of_pnum s_mod is_mnum andb both_int dbl as_index];
      rewrite ?pf_bigint; try reflexivity;
      try (destruct (fis_nan _ || fis_nan _); [reflexivity|]; destruct (float_to_int _ =? 0); reflexivity);
      try (destruct (_ =? 0); reflexivity).
    destruct (z0 =? 0) eqn:E0; [reflexivity|]. destruct (z0 =? -1) eqn:E1; [|reflexivity].
    apply Z.eqb_eq in E1. subst. rewrite rem_m1. reflexivity.
  Qed.

  (* ---- comparison operators and // ---- *)
  Theorem op_cmp_doc (t : Z -> bool) (t' : comparison -> bool) l r : wf l = true -> wf r = true ->
    (forall c, t (cmp_Z c) = t' c) -> agrees (op_cmp pf t l r) (s_cmp t' (denote l) (denote r)).
  Proof. intros WL WR H. unfold op_cmp, s_cmp, agrees. rewrite (compare_doc pf pf_bigint) by auto. rewrite H. reflexivity. Qed.
  Theorem op_alt_doc l r : wf l = true ->
    agrees (op_alt l r) (SVal (match denote l with MNull | MBool false => denote r | _ => denote l end)).
  Proof.
    intros WL. unfold op_alt. destruct l as [|[]|n| | | |]; try reflexivity; try discriminate.
    unfold agrees. rewrite denote_jnum. destruct (norm_num pf n); reflexivity.
  Qed.
End OpsDoc.
