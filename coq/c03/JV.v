(* C03 — values as the Go implementation carries them (func.go / operator.go / type.go).
   Definitions only (no proofs): the value type with the FOUR Go number representations as distinct
   constructors, Go strings as byte lists (possibly invalid UTF-8), objects as key-sorted association
   lists (a Go map has no order; every observable of a map in gojq goes through sorted keys),
   binary64 floats (Flocq BinarySingleNaN: one NaN, as no NaN payload is observable in gojq),
   Go's UTF-8 decoding/encoding, Go's `strings` helpers used by the natives, number texts. *)
From Coq Require Import List ZArith NArith Bool String Ascii Lia.
From Flocq Require Import Core.Zaux Core.FLX IEEE754.BinarySingleNaN.
From Verif Require Import common.Sexp common.Int64.
Import ListNotations.
Open Scope Z_scope.

(* ------------------------------------------------------------------------------------------ *)
(* binary64 *)

Global Instance prec53_gt_0 : Prec_gt_0 53 := eq_refl.
Global Instance prec53_lt_emax : Prec_lt_emax 53 1024 := eq_refl.

Definition float := binary_float 53 1024.

Definition fzero (s : bool) : float := B754_zero s.
Definition finf (s : bool) : float := B754_infinity s.
Definition fnan : float := B754_nan.

(* float64(z) for an integer z, and the value m * 2^e rounded to nearest even *)
Definition F_of_ZE (m e : Z) (szero : bool) : float := binary_normalize 53 1024 _ _ mode_NE m e szero.
Definition Z2F (z : Z) : float := F_of_ZE z 0 false.

Definition fadd (a b : float) : float := Bplus mode_NE a b.
Definition fsub (a b : float) : float := Bminus mode_NE a b.
Definition fmul (a b : float) : float := Bmult mode_NE a b.
Definition fdiv (a b : float) : float := Bdiv mode_NE a b.
Definition fneg (a : float) : float := Bopp a.
Definition fabs (a : float) : float := Babs a.
Definition fsqrt (a : float) : float := Bsqrt mode_NE a.
Definition fnearbyint (m : mode) (a : float) : float := Bnearbyint m a.

(* IEEE comparisons (Go's == < on float64): false on NaN *)
Definition feq (a b : float) : bool := match Bcompare a b with Some Eq => true | _ => false end.
Definition flt (a b : float) : bool := match Bcompare a b with Some Lt => true | _ => false end.
Definition fle (a b : float) : bool := match Bcompare a b with Some Lt | Some Eq => true | _ => false end.
Definition fis_nan (a : float) : bool := match a with B754_nan => true | _ => false end.
Definition fis_inf (a : float) : bool := match a with B754_infinity _ => true | _ => false end.
Definition fsign (a : float) : bool := Bsign a.
(* compare.go: lt(l, r) = l < r || math.IsNaN(l) *)
Definition go_lt (a b : float) : bool := flt a b || fis_nan a.

(* structural identity (same bits up to the NaN payload) *)
Definition fsame (a b : float) : bool :=
  match a, b with
  | B754_zero s, B754_zero t => Bool.eqb s t
  | B754_infinity s, B754_infinity t => Bool.eqb s t
  | B754_nan, B754_nan => true
  | B754_finite s m e _, B754_finite t n f _ => Bool.eqb s t && Pos.eqb m n && Z.eqb e f
  | _, _ => false
  end.

(* int(x) of Go for a float already known to be inside the int range: truncation *)
Definition ftrunc (a : float) : Z := Btrunc a.

Definition fmin_int : float := Z2F min_int.
Definition fmax_int : float := Z2F max_int.   (* float64(math.MaxInt) = 2^63 *)

(* func.go: floatToInt *)
Definition float_to_int (x : float) : Z :=
  if fle fmin_int x && flt x fmax_int then ftrunc x
  else if flt (fzero false) x then max_int else min_int.

(* IEEE 754 binary64 bit pattern <-> float (transport only; every NaN pattern is the NaN) *)
Definition float_of_bits (b : Z) : float :=
  let s := Z.testbit b 63 in
  let ex := Z.land (Z.shiftr b 52) 2047 in
  let mant := Z.land b (2 ^ 52 - 1) in
  if ex =? 2047 then (if mant =? 0 then finf s else fnan)
  else if ex =? 0 then F_of_ZE (if s then - mant else mant) (-1074) s
  else F_of_ZE (if s then - (mant + 2 ^ 52) else mant + 2 ^ 52) (ex - 1075) s.

Definition bits_of_float (f : float) : Z :=
  match f with
  | B754_zero s => if s then 2 ^ 63 else 0
  | B754_infinity s => (if s then 2 ^ 63 else 0) + 2047 * 2 ^ 52
  | B754_nan => 2047 * 2 ^ 52 + 2 ^ 51
  | B754_finite s m e _ =>
      (if s then 2 ^ 63 else 0) +
      (if Z.pos m <? 2 ^ 52 then Z.pos m else (e + 1075) * 2 ^ 52 + (Z.pos m - 2 ^ 52))
  end.

(* ------------------------------------------------------------------------------------------ *)
(* values *)

Definition bytes := list N.

Inductive num :=
| NInt (z : Z)          (* int (64-bit): invariant in_int z *)
| NBig (z : Z)          (* *big.Int: any magnitude, may be small *)
| NFlt (f : float)      (* float64 *)
| NLit (t : bytes).     (* json.Number: the literal text *)

Inductive jv :=
| JNull
| JBool (b : bool)
| JNum (n : num)
| JStr (s : bytes)
| JArr (l : list jv)
| JObj (m : list (bytes * jv))   (* keys strictly increasing in byte order *)
| JHole.                         (* struct{}{}: the placeholder delpaths writes; never an input or output *)

Definition jint (z : Z) : jv := JNum (NInt z).
Definition jflt (f : float) : jv := JNum (NFlt f).
Definition jnat (n : nat) : jv := JNum (NInt (Z.of_nat n)).

(* ------------------------------------------------------------------------------------------ *)
(* byte strings: Go string comparison and `strings` helpers *)

Definition bytes_eqb : bytes -> bytes -> bool := list_N_eqb.

Fixpoint bytes_cmp (a b : bytes) : comparison :=
  match a, b with
  | [], [] => Eq
  | [], _ => Lt
  | _, [] => Gt
  | x :: a', y :: b' => match N.compare x y with Eq => bytes_cmp a' b' | c => c end
  end.
Definition bytes_ltb (a b : bytes) : bool := match bytes_cmp a b with Lt => true | _ => false end.

(* strings.HasPrefix; returns the remainder *)
Fixpoint strip_prefix (p s : bytes) : option bytes :=
  match p, s with
  | [], _ => Some s
  | x :: p', y :: s' => if N.eqb x y then strip_prefix p' s' else None
  | _ :: _, [] => None
  end.
Definition has_prefix (s p : bytes) : bool := match strip_prefix p s with Some _ => true | None => false end.
Definition has_suffix (s p : bytes) : bool := has_prefix (rev s) (rev p).
Definition trim_prefix (s p : bytes) : bytes := match strip_prefix p s with Some r => r | None => s end.
Definition trim_suffix (s p : bytes) : bytes :=
  match strip_prefix (rev p) (rev s) with Some r => rev r | None => s end.

(* strings.Contains *)
Fixpoint bytes_contains (s p : bytes) : bool :=
  has_prefix s p || match s with [] => false | _ :: s' => bytes_contains s' p end.

(* strings.Split(s, sep) for sep <> "": the pieces between the non-overlapping occurrences found
   left to right.  [cur] is the piece being accumulated (reversed). *)
Fixpoint split_aux (fuel : nat) (s sep cur : bytes) : list bytes :=
  match fuel with
  | O => [rev cur ++ s]
  | S f =>
      match s with
      | [] => [rev cur]
      | c :: s' =>
          match strip_prefix sep s with
          | Some r => rev cur :: split_aux f r sep []
          | None => split_aux f s' sep (c :: cur)
          end
      end
  end.

(* ------------------------------------------------------------------------------------------ *)
(* UTF-8 as Go decodes it (unicode/utf8 DecodeRuneInString; `range s`; []rune(s)) *)

Definition rune_error : N := 65533%N.
Definition max_rune : Z := 1114111.

Open Scope N_scope.
Definition is_cont (b : N) : bool := (128 <=? b) && (b <=? 191).

(* chunks s: the runes of s, each with the bytes it was decoded from.  An invalid or truncated
   sequence yields RuneError for its first byte only (width 1). *)
Fixpoint chunks (s : bytes) : list (N * bytes) :=
  match s with
  | [] => []
  | b0 :: r =>
      let bad (_ : unit) := (rune_error, [b0]) :: chunks r in   (* a thunk: extraction is strict *)
      if b0 <? 128 then (b0, [b0]) :: chunks r
      else if (194 <=? b0) && (b0 <=? 223) then
        match r with
        | b1 :: r1 => if is_cont b1 then ((b0 - 192) * 64 + (b1 - 128), [b0; b1]) :: chunks r1 else bad tt
        | [] => bad tt
        end
      else if (224 <=? b0) && (b0 <=? 239) then
        let lo := if b0 =? 224 then 160 else 128 in
        let hi := if b0 =? 237 then 159 else 191 in
        match r with
        | b1 :: b2 :: r2 =>
            if (lo <=? b1) && (b1 <=? hi) && is_cont b2
            then ((b0 - 224) * 4096 + (b1 - 128) * 64 + (b2 - 128), [b0; b1; b2]) :: chunks r2 else bad tt
        | _ => bad tt
        end
      else if (240 <=? b0) && (b0 <=? 244) then
        let lo := if b0 =? 240 then 144 else 128 in
        let hi := if b0 =? 244 then 143 else 191 in
        match r with
        | b1 :: b2 :: b3 :: r3 =>
            if (lo <=? b1) && (b1 <=? hi) && is_cont b2 && is_cont b3
            then ((b0 - 240) * 262144 + (b1 - 128) * 4096 + (b2 - 128) * 64 + (b3 - 128), [b0; b1; b2; b3]) :: chunks r3
            else bad tt
        | _ => bad tt
        end
      else bad tt
  end.

Definition runes (s : bytes) : list N := map fst (chunks s).
Definition rune_count (s : bytes) : nat := List.length (chunks s).

(* utf8.EncodeRune / string(rune) / WriteRune on a rune value given as N (already non-negative) *)
Definition encode_rune (r : N) : bytes :=
  if r <? 128 then [r]
  else if r <? 2048 then [192 + r / 64; 128 + r mod 64]
  else if ((55296 <=? r) && (r <=? 57343)) || (1114111 <? r) then [239; 191; 189]
  else if r <? 65536 then [224 + r / 4096; 128 + (r / 64) mod 64; 128 + r mod 64]
  else [240 + r / 262144; 128 + (r / 4096) mod 64; 128 + (r / 64) mod 64; 128 + r mod 64].
Definition encode_runes (rs : list N) : bytes := flat_map encode_rune rs.

(* unicode.IsSpace *)
Definition is_space_rune (r : N) : bool :=
  ((9 <=? r) && (r <=? 13)) || (r =? 32) || (r =? 133) || (r =? 160) || (r =? 5760)
  || ((8192 <=? r) && (r <=? 8202)) || (r =? 8232) || (r =? 8233) || (r =? 8239) || (r =? 8287) || (r =? 12288).
Close Scope N_scope.

(* strings.Split(s, ""): explodes into UTF-8 sequences (invalid bytes one by one) *)
Definition split_chars (s : bytes) : list bytes := map snd (chunks s).

Definition go_split (s sep : bytes) : list bytes :=
  match sep with
  | [] => split_chars s
  | _ => split_aux (List.length s) s sep []
  end.

Fixpoint join_bytes (sep : bytes) (l : list bytes) : bytes :=
  match l with
  | [] => []
  | [x] => x
  | x :: r => x ++ sep ++ join_bytes sep r
  end.

(* strings.Repeat *)
Fixpoint repeat_bytes (s : bytes) (n : nat) : bytes :=
  match n with O => [] | S k => s ++ repeat_bytes s k end.

(* strings.NewReplacer(...).Replace with single-byte patterns *)
Definition replace_bytes (tbl : list (N * bytes)) (s : bytes) : bytes :=
  flat_map (fun c => match find (fun p => N.eqb (fst p) c) tbl with Some p => snd p | None => [c] end) s.

(* ------------------------------------------------------------------------------------------ *)
(* objects *)

Fixpoint obj_get {A} (m : list (bytes * A)) (k : bytes) : option A :=
  match m with
  | [] => None
  | (k', v) :: r => if bytes_eqb k k' then Some v else obj_get r k
  end.

Fixpoint obj_set {A} (m : list (bytes * A)) (k : bytes) (v : A) : list (bytes * A) :=
  match m with
  | [] => [(k, v)]
  | (k', v') :: r =>
      match bytes_cmp k k' with
      | Eq => (k, v) :: r
      | Lt => (k, v) :: m
      | Gt => (k', v') :: obj_set r k v
      end
  end.

(* maps.Copy(dst, src) *)
Definition obj_merge {A} (dst src : list (bytes * A)) : list (bytes * A) :=
  fold_left (fun acc kv => obj_set acc (fst kv) (snd kv)) src dst.

(* ------------------------------------------------------------------------------------------ *)
(* number texts *)

Open Scope N_scope.
Definition is_digit (c : N) : bool := (48 <=? c) && (c <=? 57).
Close Scope N_scope.

Fixpoint take_digits (t : bytes) : bytes * bytes :=
  match t with
  | c :: r => if is_digit c then let (d, r') := take_digits r in (c :: d, r') else ([], t)
  | [] => ([], [])
  end.

Fixpoint digits_val (d : bytes) (acc : Z) : Z :=
  match d with
  | [] => acc
  | c :: r => digits_val r (acc * 10 + Z.of_N (c - 48))
  end.

(* optional sign: returns (negative?, had a sign?, rest) *)
Definition take_sign (t : bytes) : bool * bool * bytes :=
  match t with
  | c :: r => if N.eqb c 45 then (true, true, r) else if N.eqb c 43 then (false, true, r) else (false, false, t)
  | [] => (false, false, t)
  end.
(* strings.HasPrefix(t, "-") *)
Definition starts_minus (t : bytes) : bool := match t with c :: _ => N.eqb c 45 | [] => false end.

(* strconv.ParseInt(t, 10, 64) / big.Int.SetString(t, 10) syntax: [+-]? digit+ *)
Definition int_text (t : bytes) : option Z :=
  let '(neg, _, r) := take_sign t in
  let (d, r') := take_digits r in
  match d, r' with
  | _ :: _, [] => Some (if neg then - digits_val d 0 else digits_val d 0)
  | _, _ => None
  end.

(* decimal floating syntax accepted by strconv.ParseFloat (the decimal part of it):
   [+-]? (digit+ ('.' digit* )? | '.' digit+) ([eE] [+-]? digit+)?   ->  (negative, D, E): value D * 10^E *)
Definition dec_text (t : bytes) : option (bool * Z * Z) :=
  let '(neg, _, r) := take_sign t in
  let (ip, r1) := take_digits r in
  let '(fp, r2, dot) := match r1 with
                        | 46%N :: r' => let (f, r'') := take_digits r' in (f, r'', true)
                        | _ => ([], r1, false)
                        end in
  match ip ++ fp with
  | [] => None
  | ds =>
      let D := digits_val ds 0 in
      let fl := Z.of_nat (List.length fp) in
      match r2 with
      | [] => Some (neg, D, - fl)
      | c :: r3 =>
          if (N.eqb c 101 || N.eqb c 69)%bool then
            let '(eneg, _, r4) := take_sign r3 in
            let (ed, r5) := take_digits r4 in
            match ed, r5 with
            | _ :: _, [] => Some (neg, D, (if eneg then - digits_val ed 0 else digits_val ed 0) - fl)
            | _, _ => None
            end
          else None
      end
  end.

Definition has_dot_or_exp (t : bytes) : bool := existsb (fun c => N.eqb c 46 || N.eqb c 101 || N.eqb c 69)%bool t.

(* JSON number grammar (what encoding/json with UseNumber can put into a json.Number) *)
Definition json_number_text (t : bytes) : bool :=
  let r := match t with 45%N :: r => r | _ => t end in
  let (ip, r1) := take_digits r in
  let ipok := match ip with [48%N] => true | 48%N :: _ => false | _ :: _ => true | [] => false end in
  let '(r2, fok) := match r1 with
                    | 46%N :: r' => let (f, r'') := take_digits r' in (r'', match f with [] => false | _ => true end)
                    | _ => (r1, true)
                    end in
  let eok := match r2 with
             | [] => true
             | c :: r3 => if (N.eqb c 101 || N.eqb c 69)%bool then
                            let '(_, _, r4) := take_sign r3 in
                            let (ed, r5) := take_digits r4 in
                            match ed, r5 with _ :: _, [] => true | _, _ => false end
                          else false
             end in
  ipok && fok && eok.

(* lexer.go validNumber (tonumber on strings):
   [+-]? (digit+ ('.' digit* )? | '.' digit+) ([eE] [+-]? digit+)? *)
Definition valid_number_text (t : bytes) : bool :=
  let '(_, _, r) := take_sign t in
  let (ip, r1) := take_digits r in
  let '(fp, r2, dot) := match r1 with
                        | 46%N :: r' => let (f, r'') := take_digits r' in (f, r'', true)
                        | _ => ([], r1, false)
                        end in
  let lead := match ip, fp with [], [] => false | _, _ => true end in
  let eok := match r2 with
             | [] => true
             | c :: r3 => if (N.eqb c 101 || N.eqb c 69)%bool then
                            let '(_, _, r4) := take_sign r3 in
                            let (ed, r5) := take_digits r4 in
                            match ed, r5 with _ :: _, [] => true | _, _ => false end
                          else false
             end in
  lead && eok.

(* the result of parseNumber: never a json.Number *)
Inductive pnum := PInt (z : Z) | PFlt (f : float) | PBig (z : Z).
Definition num_of_pnum (p : pnum) : num :=
  match p with PInt z => NInt z | PFlt f => NFlt f | PBig z => NBig z end.
