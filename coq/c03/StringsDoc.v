(* C03 meets_doc: ascii_downcase / ascii_upcase, split with the empty separator, string / string,
   split/1, implode. *)
From Coq Require Import List ZArith NArith Bool String Lia.
From Flocq Require Import IEEE754.BinarySingleNaN.
From Verif Require Import common.Sexp common.Int64 c03.JV c03.Core c03.Ops c03.Natives c03.Spec c03.Wf c03.Denote
  c03.CompareDoc c03.OpsDoc c03.NativesDoc c03.NativesDoc3 c03.Utf8Doc c03.SplitDoc.
Import ListNotations.

Lemma valid_chunks s : valid_utf8 s = true -> Forall (fun c => encode_rune (fst c) = snd c) (chunks s).
Proof.
  unfold valid_utf8. intros V. apply list_N_eqb_eq in V.
  destruct (ok_count (chunks s) (chunks_ok s)) as [k [L HZ]]. apply HZ.
  assert (E : flat_map (fun c => encode_rune (fst c)) (chunks s) = flat_map snd (chunks s)).
  { rewrite unchunk_chunks'. rewrite <- V at 2. unfold encode_runes, runes. rewrite !flat_map_concat_map, map_map. reflexivity. }
  rewrite E in L. lia.
Qed.

Lemma split_chars_valid s : valid_utf8 s = true -> split_chars s = map encode_rune (runes s).
Proof.
  intros V. pose proof (valid_chunks s V) as F. unfold split_chars, runes. rewrite map_map.
  induction F; simpl; [reflexivity|]. rewrite H, IHF. reflexivity.
Qed.
Lemma go_split_doc_all s sep : s_split s sep = None \/ s_split s sep = Some (go_split s sep).
Proof.
  destruct sep as [|c sep].
  - unfold s_split, go_split. destruct (valid_utf8 s) eqn:V; [right; rewrite split_chars_valid by auto; reflexivity|left; reflexivity].
  - right. apply go_split_doc. discriminate.
Qed.

(* bytes of a multi-byte encoding are all >= 128 *)
Lemma encode_high r : (128 <= r)%N -> Forall (fun b => (128 <= b)%N) (encode_rune r).
Proof.
  intros H. unfold encode_rune.
  destruct (r <? 128)%N eqn:E1; [apply N.ltb_lt in E1; lia|].
  destruct (r <? 2048)%N; [repeat constructor; lia|].
  destruct (_ || _)%bool; [repeat constructor; lia|].
  destruct (r <? 65536)%N; repeat constructor; lia.
Qed.

Section Ascii.
  Variable f : N -> N.
  Hypothesis f_low : forall r, (r < 128)%N -> (f r < 128)%N.
  Hypothesis f_high : forall r, (128 <= r)%N -> f r = r.

  Lemma map_runes_valid s : valid_utf8 s = true -> map_runes f s = map f s.
  Proof.
    intros V. pose proof (valid_chunks s V) as F. unfold map_runes, encode_runes, runes.
    rewrite <- (unchunk_chunks' s) at 2. rewrite map_map.
    induction F as [|c cs Hc Hcs IH]; simpl; [reflexivity|]. rewrite map_app, IH. f_equal. unfold bytes in *.
    destruct (N.ltb_spec (fst c) 128) as [L|G].
    - rewrite <- Hc. unfold encode_rune at 2. replace (fst c <? 128)%N with true by (symmetry; apply N.ltb_lt; auto).
      simpl. unfold encode_rune. replace (f (fst c) <? 128)%N with true by (symmetry; apply N.ltb_lt; auto). reflexivity.
    - rewrite f_high by auto. rewrite Hc. pose proof (encode_high (fst c) G) as EH. rewrite Hc in EH.
      clear -EH f_high. induction EH; simpl; [reflexivity|]. rewrite f_high by auto. f_equal. auto.
  Qed.
End Ascii.

Section StringsDoc.
  Variable pf : bytes -> option float.
  Hypothesis pf_bigint : forall z, big_to_float pf z = Z2F z.
  Notation denote := (denote pf).
  Notation agrees := (agrees pf).

  (* a spec entry that is None claims nothing *)
  Definition ragrees (o : outcome jv) (s : option sres) : Prop := match s with Some r => agrees o r | None => True end.

  Theorem f_ascii_downcase_doc v : wf v = true -> ragrees (f_ascii_downcase v) (s_ascii false (denote v)).
  Proof.
    intros W. destruct v as [| |n|s| | |]; try exact I; try discriminate; try reflexivity.
    - simpl. rewrite denote_num_norm. destruct (norm_num pf n); reflexivity.
    - cbn [Spec.denote s_ascii]. destruct (valid_utf8 s) eqn:V; [|exact I]. simpl. unfold OpsDoc.agrees. cbn [Spec.denote].
      f_equal. apply map_runes_valid; auto; intros r H;
        destruct ((65 <=? r) && (r <=? 90))%N eqn:E; auto; try lia;
        apply andb_true_iff in E as [E1 E2]; apply N.leb_le in E1, E2; lia.
  Qed.
  Theorem f_ascii_upcase_doc v : wf v = true -> ragrees (f_ascii_upcase v) (s_ascii true (denote v)).
  Proof.
    intros W. destruct v as [| |n|s| | |]; try exact I; try discriminate; try reflexivity.
    - simpl. rewrite denote_num_norm. destruct (norm_num pf n); reflexivity.
    - cbn [Spec.denote s_ascii]. destruct (valid_utf8 s) eqn:V; [|exact I]. simpl. unfold OpsDoc.agrees. cbn [Spec.denote].
      f_equal. apply map_runes_valid; auto; intros r H;
        destruct ((97 <=? r) && (r <=? 122))%N eqn:E; auto; try lia;
        apply andb_true_iff in E as [E1 E2]; apply N.leb_le in E1, E2; lia.
  Qed.

  (* split/1 *)
  Theorem f_split_doc v x : wf v = true -> wf x = true ->
    ragrees (f_split v x) (match denote v, denote x with
                           | MStr s, MStr t => option_map (fun ps => SVal (MArr (map MStr ps))) (s_split s t)
                           | _, _ => Some SErr end).
  Proof.
    intros WV WX. unfold f_split.
    destruct v as [| |n|s| | |]; try discriminate;
      try (cbn [Spec.denote]; rewrite ?denote_num_norm; try destruct (norm_num pf n); simpl; auto; destruct (denote x); exact I).
    destruct x as [| |n|t| | |]; try discriminate; try (simpl; exact I).
    - cbn [Spec.denote]. rewrite denote_num_norm. destruct (norm_num pf n); exact I.
    - cbn [Spec.denote]. destruct (go_split_doc_all s t) as [E|E]; rewrite E; [exact I|].
      simpl. unfold OpsDoc.agrees. cbn [Spec.denote]. rewrite map_map. reflexivity.
  Qed.
  (* string / string: now without the exclusion of OpsDoc.op_div_doc *)
  Theorem op_div_strings_doc s t : agrees (op_div pf (JStr s) (JStr t)) (s_div (MStr s) (MStr t)).
  Proof.
    unfold op_div, binop_switch. cbn [norm s_div]. destruct s as [|c s]; [reflexivity|].
    destruct (go_split_doc_all (c :: s) t) as [E|E]; rewrite E.
    - unfold OpsDoc.agrees. cbn [Spec.denote]. rewrite map_map. f_equal. f_equal.
      unfold s_split in E. destruct t; [|discriminate]. reflexivity.
    - unfold OpsDoc.agrees. cbn [Spec.denote]. rewrite map_map. reflexivity.
  Qed.
  Theorem op_div_doc_all l r : wf l = true -> wf r = true -> agrees (op_div pf l r) (s_div (denote l) (denote r)).
  Proof.
    intros WL WR. destruct l as [| |a|s| | |] eqn:EL, r as [| |c|t| | |] eqn:ER; try discriminate;
      try (apply (op_div_doc pf pf_bigint); auto; intros; discriminate).
    apply op_div_strings_doc.
  Qed.

  (* implode on code points *)
  Theorem f_implode_doc v : wf v = true -> ragrees (f_implode pf v) (s_implode (denote v)).
  Proof.
    intros W. destruct v as [| |n| |l| |]; try discriminate; try reflexivity.
    - simpl. rewrite denote_num_norm. destruct (norm_num pf n); reflexivity.
    - cbn [Spec.denote s_implode]. simpl in W.
      destruct (forallb _ (map denote l)) eqn:FA.
      + simpl. unfold f_implode.
        assert (G : omap (fun x => match to_int pf x with
                                   | Some r => Val (if (0 <=? r)%Z && (r <=? max_rune)%Z then encode_rune (Z.to_N r) else encode_rune rune_error)
                                   | None => Err EFunc0Type end) l
                    = Val (map (fun x => match denote x with MInt z => encode_rune (Z.to_N z) | _ => [] end) l)).
        { clear -W FA. induction l as [|x l IH]; [reflexivity|]. simpl in *.
          apply andb_true_iff in W as [W1 W2]. apply andb_true_iff in FA as [F1 F2].
          rewrite (to_int_denote pf) by auto. destruct (denote x) eqn:E; try discriminate. simpl.
          apply andb_true_iff in F1 as [F1 F3]. apply andb_true_iff in F1 as [F0 F1].
          assert (IN : in_intb z = true).
          { unfold in_intb, min_int, max_int. apply Z.leb_le in F0, F1. unfold max_rune in F1. apply andb_true_iff; split; apply Z.leb_le; lia. }
          rewrite IN, F0, F1. simpl. rewrite IH by auto. reflexivity. }
        rewrite G. cbn [bind]. unfold OpsDoc.agrees, vstr. cbn [Spec.denote]. f_equal.
        rewrite flat_map_concat_map, map_map. reflexivity.
      + destruct (forallb is_mnum (map denote l)) eqn:FN; [exact I|]. simpl.
        unfold f_implode.
        assert (G : exists e, omap (fun x => match to_int pf x with
                                   | Some r => Val (if (0 <=? r)%Z && (r <=? max_rune)%Z then encode_rune (Z.to_N r) else encode_rune rune_error)
                                   | None => Err EFunc0Type end) l = Err e).
        { clear -W FN. induction l as [|x l IH]; [discriminate|]. simpl in *.
          apply andb_true_iff in W as [W1 W2]. rewrite (to_int_denote pf) by auto.
          destruct (is_mnum (denote x)) eqn:M.
          - destruct (denote x); try discriminate; simpl; (destruct (IH W2 FN) as [e E]; rewrite E; eexists; reflexivity).
          - destruct (denote x); try discriminate; simpl; eexists; reflexivity. }
        destruct G as [e E]. rewrite E. exact I.
  Qed.
End StringsDoc.
