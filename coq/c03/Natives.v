(* C03 — func.go: one Gallina function per native, dispatching on the value/num constructors in the
   order of the Go type switches.  Definitions only. *)
From Coq Require Import List ZArith NArith Bool String Ascii.
From Flocq Require Import IEEE754.BinarySingleNaN.
From Verif Require Import common.Sexp common.Int64 c03.JV c03.Core c03.Ops.
Import ListNotations.
Open Scope Z_scope.

(* outcome-valued quantifiers (section style so that nested recursion through them is guarded) *)
Section OQuant.
  Context {A : Type} (f : A -> outcome bool).
  Fixpoint oexists (l : list A) : outcome bool :=
    match l with
    | [] => Val false
    | x :: r => do b <- f x; if b then Val true else oexists r
    end.
  Fixpoint oforall (l : list A) : outcome bool :=
    match l with
    | [] => Val true
    | x :: r => do b <- f x; if b then oforall r else Val false
    end.
End OQuant.

Section OMap.
  Context {A B : Type} (f : A -> outcome B).
  Fixpoint omap (l : list A) : outcome (list B) :=
    match l with
    | [] => Val []
    | x :: r => do y <- f x; do ys <- omap r; Val (y :: ys)
    end.
End OMap.

(* `funcContains(l, r) == true`: an error value is not true; a panic propagates *)
Definition is_true (o : outcome bool) : outcome bool :=
  match o with Val b => Val b | Err _ => Val false | Panic t => Panic t end.

Definition llen {A} (l : list A) : Z := Z.of_nat (List.length l).

Section Natives.
  Variable parse_float : bytes -> option float.
  Variable fmt_float : float -> bytes.
  Variable libm1 : string -> float -> float.
  Variable libm2 : string -> float -> float -> float.
  Variable libm3 : string -> float -> float -> float -> float.
  Variable json_decode : bytes -> jv + bool.
  Variable libm_pair : string -> float -> jv.

  Notation norm := (norm parse_float).
  Notation norm_num := (norm_num parse_float).
  Notation parse_number := (parse_number parse_float).
  Notation to_float := (to_float parse_float).
  Notation to_int := (to_int parse_float).
  Notation to_int_ceil := (to_int_ceil parse_float).
  Notation compare := (compare parse_float).
  Notation encode := (encode fmt_float).
  Notation op_add := (op_add parse_float).
  Notation add_seq := (add_seq parse_float).
  Notation binop_switch := (binop_switch parse_float).

  Definition vbool (b : bool) : outcome jv := Val (JBool b).
  Definition vstr (s : bytes) : outcome jv := Val (JStr s).
  Definition vint (z : Z) : outcome jv := Val (jint z).

  (* funcAbs / funcLength *)
  Definition abs_num (n : num) : jv :=
    match n with
    | NInt z => if 0 <=? z then JNum (NInt z) else JNum (negate_int z)
    | NFlt f => JNum (NFlt (fabs f))
    | NBig z => JNum (NBig (Z.abs z))
    | NLit t => if starts_minus t then JNum (NLit (tl t)) else JNum (NLit t)
    end.
  Definition f_abs (v : jv) : outcome jv :=
    match v with JNum n => Val (abs_num n) | _ => Err EFunc0Type end.
  Definition f_length (v : jv) : outcome jv :=
    match v with
    | JNull => vint 0
    | JNum n => Val (abs_num n)
    | JStr s => Val (jnat (rune_count s))
    | JArr l => Val (jnat (List.length l))
    | JObj m => Val (jnat (List.length m))
    | _ => Err EFunc0Type
    end.
  Definition f_utf8bytelength (v : jv) : outcome jv :=
    match v with JStr s => Val (jnat (List.length s)) | _ => Err EFunc0Type end.

  Definition f_keys (v : jv) : outcome jv :=
    match v with
    | JArr l => Val (JArr (map jint (map Z.of_nat (seq 0 (List.length l)))))
    | JObj m => Val (JArr (map (fun kv => JStr (fst kv)) m))
    | _ => Err EFunc0Type
    end.

  (* func.go values *)
  Definition values (v : jv) : option (list jv) :=
    match v with JArr l => Some l | JObj m => Some (map snd m) | _ => None end.

  Definition f_has (v x : jv) : outcome jv :=
    match v with
    | JArr l => match to_int x with
                | Some i => vbool ((0 <=? i) && (i <? llen l))
                | None => Err EFunc1Type
                end
    | JObj m => match x with
                | JStr k => vbool (match obj_get m k with Some _ => true | None => false end)
                | _ => Err EFunc1Type
                end
    | JNull => vbool false
    | _ => Err EFunc1Type
    end.

  Definition f_add (v : jv) : outcome jv :=
    match values v with Some vs => add_seq JNull vs | None => Err EFunc0Type end.

  Definition f_toboolean (v : jv) : outcome jv :=
    match v with
    | JBool _ => Val v
    | JStr s => if bytes_eqb s (codes "true") then vbool true
                else if bytes_eqb s (codes "false") then vbool false
                else Err (EFunc0Wrap EExt)
    | _ => Err EFunc0Type
    end.

  Definition f_tonumber (v : jv) : outcome jv :=
    match v with
    | JNum _ => Val v
    | JStr s => if valid_number_text s then Val (JNum (num_of_pnum (parse_number s)))
                else Err (EFunc0Wrap EExt)
    | _ => Err EFunc0Type
    end.

  Definition f_tojson (v : jv) : outcome jv := do s <- encode v; vstr s.
  Definition f_tostring (v : jv) : outcome jv :=
    match v with JStr _ => Val v | _ => f_tojson v end.
  Definition f_type (v : jv) : outcome jv := do s <- type_of v; vstr s.

  Definition f_reverse (v : jv) : outcome jv :=
    match v with JArr l => Val (JArr (rev l)) | _ => Err EFunc0Type end.

  (* funcContains *)
  Definition contains_fallback (l r : jv) : outcome bool :=
    do e <- iface_eq l r; if e then Val true else Err EFunc1Type.
  Definition contains_scalar (l r : jv) : outcome bool :=
    binop_switch l r
      (fun a b => Val (a =? b)) (fun a b => Val (feq a b)) (fun a b => Val (a =? b))
      (fun a b => Val (bytes_contains a b))
      (fun _ _ => Panic "contains: unreachable array case")
      (fun _ _ => Panic "contains: unreachable object case")
      contains_fallback.
  Fixpoint contains (l r : jv) {struct l} : outcome bool :=
    match l with
    | JArr ls =>
        match norm r with
        | JArr rs => oforall (fun ri => oexists (fun lj => is_true (contains lj ri)) ls) rs
        | r' => contains_fallback l r'
        end
    | JObj lm =>
        match norm r with
        | JObj rm =>
            if llen lm <? llen rm then Val false
            else oforall (fun krv : bytes * jv =>
                   let (k, rv) := krv in
                   (fix find (lm : list (bytes * jv)) : outcome bool :=
                      match lm with
                      | [] => Val false
                      | (k', lv) :: lm' => if bytes_eqb k k' then is_true (contains lv rv) else find lm'
                      end) lm) rm
        | r' => contains_fallback l r'
        end
    | _ => contains_scalar l r
    end.
  Definition f_contains (v x : jv) : outcome jv := do b <- contains v x; vbool b.
  Definition f_inside (v x : jv) : outcome jv := f_contains x v.

  (* indices / index / rindex *)
  Definition explode (s : bytes) : list jv := map (fun r => jint (Z.of_N r)) (runes s).

  (* the window test Compare(vs[i:i+len(xs)], xs) == 0 *)
  Definition window_eq (vs xs : list jv) (i : Z) : outcome bool :=
    do w <- go_slice vs i (i + llen xs); Val (compare (JArr w) (JArr xs) =? 0).
  (* positions i = from, from+1, ... (cnt of them), in increasing order *)
  Fixpoint scan_up (cnt : nat) (i : Z) (vs xs : list jv) : outcome (list Z) :=
    match cnt with
    | O => Val []
    | S c => do b <- window_eq vs xs i; do r <- scan_up c (i + 1) vs xs; Val (if b then i :: r else r)
    end.
  Definition window_count (vs xs : list jv) : nat := Z.to_nat (llen vs - llen xs + 1).
  Definition indices (vs xs : list jv) : outcome jv :=
    match xs with
    | [] => Val (JArr [])
    | _ => do is <- scan_up (window_count vs xs) 0 vs xs; Val (JArr (map jint is))
    end.
  Definition index_first (vs xs : list jv) : outcome jv :=
    match xs with
    | [] => Val JNull
    | _ => do is <- scan_up (window_count vs xs) 0 vs xs;
           Val (match is with i :: _ => jint i | [] => JNull end)
    end.
  Definition index_last (vs xs : list jv) : outcome jv :=
    match xs with
    | [] => Val JNull
    | _ => do is <- scan_up (window_count vs xs) 0 vs xs;
           Val (match rev is with i :: _ => jint i | [] => JNull end)
    end.
  Definition index_func (f : list jv -> list jv -> outcome jv) (v x : jv) : outcome jv :=
    match v with
    | JNull => Val JNull
    | JArr vs => match x with JArr xs => f vs xs | _ => f vs [x] end
    | JStr s => match x with JStr t => f (explode s) (explode t) | _ => Err EFunc1Type end
    | _ => Err EFunc1Type
    end.
  Definition f_indices := index_func indices.
  Definition f_index := index_func index_first.
  Definition f_rindex := index_func index_last.

  (* string predicates and trimming *)
  Definition str2 (f : bytes -> bytes -> jv) (v x : jv) : outcome jv :=
    match v with
    | JStr s => match x with JStr t => Val (f s t) | _ => Err EFunc1Type end
    | _ => Err EFunc1Type
    end.
  Definition f_startswith := str2 (fun s t => JBool (has_prefix s t)).
  Definition f_endswith := str2 (fun s t => JBool (has_suffix s t)).
  Definition f_ltrimstr := str2 (fun s t => JStr (trim_prefix s t)).
  Definition f_rtrimstr := str2 (fun s t => JStr (trim_suffix s t)).
  Definition f_trimstr := str2 (fun s t => JStr (trim_suffix (trim_prefix s t) t)).

  Fixpoint drop_space (cs : list (N * bytes)) : list (N * bytes) :=
    match cs with
    | (r, _) :: cs' => if is_space_rune r then drop_space cs' else cs
    | [] => []
    end.
  Definition unchunk (cs : list (N * bytes)) : bytes := flat_map snd cs.
  Definition ltrim_b (s : bytes) : bytes := unchunk (drop_space (chunks s)).
  Definition rtrim_b (s : bytes) : bytes := unchunk (rev (drop_space (rev (chunks s)))).
  Definition str1 (f : bytes -> jv) (v : jv) : outcome jv :=
    match v with JStr s => Val (f s) | _ => Err EFunc0Type end.
  Definition f_ltrim := str1 (fun s => JStr (ltrim_b s)).
  Definition f_rtrim := str1 (fun s => JStr (rtrim_b s)).
  Definition f_trim := str1 (fun s => JStr (rtrim_b (ltrim_b s))).

  Definition f_explode := str1 (fun s => JArr (explode s)).
  Definition f_implode (v : jv) : outcome jv :=
    match v with
    | JArr vs =>
        do bs <- omap (fun x => match to_int x with
                                | Some r => Val (if (0 <=? r) && (r <=? max_rune) then encode_rune (Z.to_N r)
                                                 else encode_rune rune_error)
                                | None => Err EFunc0Type
                                end) vs;
        vstr (List.concat bs)
    | _ => Err EFunc0Type
    end.

  Definition f_split (v x : jv) : outcome jv :=
    match v with
    | JStr s => match x with
                | JStr t => Val (JArr (map JStr (go_split s t)))
                | _ => Err EFunc0Type
                end
    | _ => Err EFunc0Type
    end.

  (* funcJoin: the sequence fed to add *)
  Fixpoint join_items (first : bool) (sep : jv) (vs : list jv) : outcome (list jv) :=
    match vs with
    | [] => Val []
    | v :: r =>
        do v' <- match v with
                 | JBool _ | JNum _ => do s <- encode v; Val (JStr s)
                 | _ => Val v
                 end;
        do rest <- join_items false sep r;
        Val ((if first then JStr [] else sep) :: v' :: rest)
    end.
  Definition f_join (v x : jv) : outcome jv :=
    match values v with
    | Some [] => vstr []
    | Some vs => do items <- join_items true x vs; add_seq JNull items
    | None => Err EFunc1Type
    end.

  Definition map_runes (f : N -> N) (s : bytes) : bytes := encode_runes (map f (runes s)).
  Definition f_ascii_downcase := str1 (fun s => JStr (map_runes (fun r => if (65 <=? r)%N && (r <=? 90)%N then (r + 32)%N else r) s)).
  Definition f_ascii_upcase := str1 (fun s => JStr (map_runes (fun r => if (97 <=? r)%N && (r <=? 122)%N then (r - 32)%N else r) s)).

  Definition f_fromjson (v : jv) : outcome jv :=
    match v with
    | JStr s => match json_decode s with
                | inl w => Val w
                | inr false => Err (EFunc0Wrap EExt)
                | inr true => Err EFunc0Type
                end
    | _ => Err EFunc0Type
    end.

  (* ---- @formats ---------------------------------------------------------------------------- *)
  Definition to_string_bytes (v : jv) : outcome bytes :=
    match v with JStr s => Val s | _ => encode v end.

  Definition html_tbl : list (N * bytes) :=
    [(60%N, codes "&lt;"); (62%N, codes "&gt;"); (38%N, codes "&amp;"); (39%N, codes "&apos;"); (34%N, codes "&quot;")].
  Definition f_tohtml (v : jv) : outcome jv := do s <- to_string_bytes v; vstr (replace_bytes html_tbl s).

  Definition hex_upper (n : N) : N := if (n <? 10)%N then (48 + n)%N else (55 + n)%N.
  Definition uri_unreserved (c : N) : bool :=
    (((48 <=? c) && (c <=? 57)) || ((65 <=? c) && (c <=? 90)) || ((97 <=? c) && (c <=? 122))
     || (c =? 45) || (c =? 95) || (c =? 46) || (c =? 126))%N.
  Definition f_touri (v : jv) : outcome jv :=
    do s <- to_string_bytes v;
    vstr (flat_map (fun c => if uri_unreserved c then [c] else [37%N; hex_upper (c / 16); hex_upper (c mod 16)]) s).

  Definition hex_any (c : N) : option N :=
    (if (48 <=? c) && (c <=? 57) then Some (c - 48)
     else if (97 <=? c) && (c <=? 102) then Some (c - 87)
     else if (65 <=? c) && (c <=? 70) then Some (c - 55) else None)%N.
  Fixpoint unescape (s : bytes) : option bytes :=
    match s with
    | [] => Some []
    | 37%N :: r =>
        match r with
        | a :: b :: r' => match hex_any a, hex_any b, unescape r' with
                          | Some x, Some y, Some t => Some ((x * 16 + y)%N :: t)
                          | _, _, _ => None
                          end
        | _ => None
        end
    | c :: r => option_map (cons c) (unescape r)
    end.
  (* url.QueryUnescape reports the first malformed escape before producing anything: an error iff
     some '%' is not followed by two hex digits; '+' has been protected as %2B first *)
  Definition f_tourid (v : jv) : outcome jv :=
    do s <- to_string_bytes v;
    match unescape s with Some t => vstr t | None => Err (EFunc0Wrap EExt) end.

  Definition csv_tbl : list (N * bytes) := [(34%N, [34; 34]%N); (0%N, [92; 48]%N)].
  Definition tsv_tbl : list (N * bytes) :=
    [(9%N, [92; 116]%N); (13%N, [92; 114]%N); (10%N, [92; 110]%N); (92%N, [92; 92]%N); (0%N, [92; 48]%N)].
  Definition sh_tbl : list (N * bytes) := [(39%N, [39; 92; 39; 39]%N); (0%N, [92; 48]%N)].

  Definition format_join (sh : bool) (sep : bytes) (escape : bytes -> bytes) (v : jv) : outcome jv :=
    match v with
    | JArr vs =>
        do ss <- omap (fun x => match x with
                                | JArr _ | JObj _ => Err EFormatRow
                                | JStr s => Val (escape s)
                                | _ => do s <- encode x;
                                       Val (if negb (bytes_eqb s (codes "null")) || sh then s else [])
                                end) vs;
        vstr (join_bytes sep ss)
    | _ => Err EFunc0Type
    end.
  Definition f_tocsv := format_join false [44%N] (fun s => 34%N :: replace_bytes csv_tbl s ++ [34%N]).
  Definition f_totsv := format_join false [9%N] (replace_bytes tsv_tbl).
  Definition f_tosh (v : jv) : outcome jv :=
    format_join true [32%N] (fun s => 39%N :: replace_bytes sh_tbl s ++ [39%N])
                (match v with JArr _ => v | _ => JArr [v] end).

  Definition b64_char (n : N) : N :=
    (if n <? 26 then 65 + n else if n <? 52 then 71 + n else if n <? 62 then n - 4
     else if n =? 62 then 43 else 47)%N.
  Fixpoint b64_encode (s : bytes) : bytes :=
    (match s with
     | a :: b :: c :: r =>
         b64_char (a / 4) :: b64_char ((a mod 4) * 16 + b / 16) :: b64_char ((b mod 16) * 4 + c / 64)
         :: b64_char (c mod 64) :: b64_encode r
     | [a; b] => [b64_char (a / 4); b64_char ((a mod 4) * 16 + b / 16); b64_char ((b mod 16) * 4); 61]
     | [a] => [b64_char (a / 4); b64_char ((a mod 4) * 16); 61; 61]
     | [] => []
     end)%N.
  Definition f_tobase64 (v : jv) : outcome jv := do s <- to_string_bytes v; vstr (b64_encode s).

  Definition b64_val (c : N) : option N :=
    (if (65 <=? c) && (c <=? 90) then Some (c - 65)
     else if (97 <=? c) && (c <=? 122) then Some (c - 71)
     else if (48 <=? c) && (c <=? 57) then Some (c + 4)
     else if c =? 43 then Some 62 else if c =? 47 then Some 63 else None)%N.
  (* base64.RawStdEncoding.DecodeString: '\r' and '\n' are skipped; a dangling single character or a
     character outside the alphabet is a CorruptInputError; trailing bits are not checked *)
  Fixpoint b64_decode (vals : list N) : option bytes :=
    (match vals with
     | a :: b :: c :: d :: r =>
         option_map (fun t => (a * 4 + b / 16) :: ((b mod 16) * 16 + c / 4) :: ((c mod 4) * 64 + d) :: t) (b64_decode r)
     | [a; b; c] => Some [a * 4 + b / 16; (b mod 16) * 16 + c / 4]
     | [a; b] => Some [a * 4 + b / 16]
     | [_] => None
     | [] => Some []
     end)%N.
  Fixpoint until_pad (s : bytes) : bytes :=
    match s with [] => [] | c :: r => if (c =? 61)%N then [] else c :: until_pad r end.
  Fixpoint all_some {A} (l : list (option A)) : option (list A) :=
    match l with
    | [] => Some []
    | Some x :: r => option_map (cons x) (all_some r)
    | None :: _ => None
    end.
  Definition f_tobase64d (v : jv) : outcome jv :=
    do s <- to_string_bytes v;
    let body := filter (fun c => negb ((c =? 13) || (c =? 10))%N) (until_pad s) in
    match all_some (map b64_val body) with
    | Some vals => match b64_decode vals with Some t => vstr t | None => Err (EFunc0Wrap EExt) end
    | None => Err (EFunc0Wrap EExt)
    end.

  (* ---- _index / _slice ----------------------------------------------------------------------- *)
  Definition index_arr (vs : list jv) (i : Z) : outcome jv :=
    let i := clamp_index i (-1) (llen vs) in
    if (0 <=? i) && (i <? llen vs) then go_index vs i else Val JNull.
  Definition index_str (s : bytes) (i : Z) : outcome jv :=
    let cs := chunks s in
    let i := clamp_index i (-1) (llen cs) in
    if (0 <=? i) && (i <? llen cs) then do c <- go_index cs i; vstr (encode_rune (fst c)) else Val JNull.

  Definition slice_bounds (len : Z) (e s : jv) (notnum : err) : outcome (Z * Z) :=
    do start <- match s with
                | JNull => Val 0
                | _ => match to_int s with Some i => Val (clamp_index i 0 len) | None => Err notnum end
                end;
    do stop <- match e with
               | JNull => Val len
               | _ => match to_int_ceil e with Some i => Val (clamp_index i start len) | None => Err notnum end
               end;
    Val (start, stop).
  Definition slice_arr (vs : list jv) (e s : jv) : outcome jv :=
    do se <- slice_bounds (llen vs) e s EArrayIndexNotNumber;
    do w <- go_slice vs (fst se) (snd se); Val (JArr w).
  (* byte offset of rune number i (i < rune count), else len(v) *)
  Definition byte_offset (cs : list (N * bytes)) (i : Z) : Z :=
    llen (unchunk (firstn (Z.to_nat i) cs)).
  Definition slice_str (v : bytes) (e s : jv) : outcome jv :=
    let cs := chunks v in
    let l := llen cs in
    do se <- slice_bounds l e s EStringIndexNotNumber;
    let bs := if fst se <? l then byte_offset cs (fst se) else llen v in
    let be := if snd se <? l then byte_offset cs (snd se) else llen v in
    do w <- go_slice v bs be; vstr w.
  Definition f_slice (v e s : jv) : outcome jv :=
    match v with
    | JNull => Val JNull
    | JArr vs => slice_arr vs e s
    | JStr t => slice_str t e s
    | _ => Err EExpectedArray
    end.

  Definition f_index2 (v x : jv) : outcome jv :=
    match x with
    | JStr k => match v with
                | JNull => Val JNull
                | JObj m => Val (match obj_get m k with Some w => w | None => JNull end)
                | _ => Err EExpectedObject
                end
    | JNum n =>
        let i := pnum_to_int (norm_num n) in
        match v with
        | JNull => Val JNull
        | JArr vs => index_arr vs i
        | JStr s => index_str s i
        | _ => Err EExpectedArray
        end
    | JArr xs => match v with
                 | JNull => Val JNull
                 | JArr vs => indices vs xs
                 | _ => Err EExpectedArray
                 end
    | JObj m =>
        if is_nil v then Val JNull
        else match obj_get m (codes "start") with
             | None => Err EExpectedStartEnd
             | Some start => match obj_get m (codes "end") with
                             | None => Err EExpectedStartEnd
                             | Some stop => f_slice v stop start
                             end
             end
    | _ => match v with
           | JArr _ => Err EArrayIndexNotNumber
           | JStr _ => Err EStringIndexNotNumber
           | _ => Err EObjectKeyNotString
           end
    end.

  (* ---- flatten / range / min / max / sort ---------------------------------------------------- *)
  Definition f_one : float := Z2F 1.
  Fixpoint flatten_v (v : jv) (depth : float) {struct v} : list jv :=
    match v with
    | JArr vs => if negb (feq depth (fzero false))
                 then flat_map (fun x => flatten_v x (fsub depth f_one)) vs else [v]
    | _ => [v]
    end.
  Definition f_flatten (v : jv) (args : list jv) : outcome jv :=
    match values v with
    | None => Err EFunc0Type
    | Some vs =>
        do depth <- match args with
                    | [] => Val (Z2F (-1))
                    | a :: _ => match to_float a with
                                | None => Err EFunc0Type
                                | Some d => if go_lt d (fzero false) then Err EFlattenDepth else Val d
                                end
                    end;
        Val (JArr (flat_map (fun x => flatten_v x depth) vs))
    end.

  (* funcRange + rangeIter.Next: at most [fuel] outputs; the flag says whether the iterator was cut *)
  Fixpoint range_seq (fuel : nat) (v e s : jv) : outcome (list jv * bool) :=
    if 0 <=? compare s (jint 0) * compare v e then Val ([], false)
    else match fuel with
         | O => Val ([], true)
         | S f => do v' <- op_add v s; do r <- range_seq f v' e s; Val (v :: fst r, snd r)
         end.
  Definition is_num (v : jv) : bool := match v with JNum _ => true | _ => false end.
  Definition f_range (fuel : nat) (args : list jv) : outcome (list jv * bool) :=
    match find (fun x => negb (is_num x)) args with
    | Some _ => Err EFunc0Type
    | None => do a <- go_index args 0; do b <- go_index args 1; do c <- go_index args 2; range_seq fuel a b c
    end.

  (* minMaxBy *)
  Fixpoint min_max_loop (is_min : bool) (xs : list jv) (i j : Z) (x : jv) : Z :=
    match xs with
    | [] => j
    | y :: r => if Bool.eqb (0 <? compare x y) is_min then min_max_loop is_min r (i + 1) i y
                else min_max_loop is_min r (i + 1) j x
    end.
  Definition min_max_by (is_min : bool) (vs xs : list jv) : outcome jv :=
    match vs with
    | [] => Val JNull
    | _ => do x0 <- go_index xs 0;
           go_index vs (min_max_loop is_min (tl xs) 1 0 x0)
    end.
  Definition f_minmax (is_min : bool) (v : jv) : outcome jv :=
    match v with JArr vs => min_max_by is_min vs vs | _ => Err EFunc0Type end.
  Definition f_minmax_by (is_min : bool) (v x : jv) : outcome jv :=
    match v with
    | JArr vs => match x with
                 | JArr xs => if negb (llen vs =? llen xs) then Err (EFunc1Wrap ELengthMismatch)
                              else min_max_by is_min vs xs
                 | _ => Err EFunc1Type
                 end
    | _ => Err EFunc1Type
    end.

  (* sort.SliceStable for n <= 20 (one insertionSort block): the new item moves left while it is
     less than its left neighbour.  For a strict weak order any stable sort gives the same result. *)
  Definition item := (jv * jv)%type.   (* value, key *)
  Definition item_less (a b : item) : bool := compare (snd a) (snd b) <? 0.
  Fixpoint move_left (x : item) (rl : list item) (passed : list item) : list item :=
    (* rl: the sorted prefix reversed; passed: the items x has moved past, in order *)
    match rl with
    | y :: rl' => if item_less x y then move_left x rl' (y :: passed) else rev rl ++ x :: passed
    | [] => x :: passed
    end.
  Definition insertion_sort (l : list item) : list item :=
    fold_left (fun sorted x => move_left x (rev sorted) []) l [].

  Definition sort_items (by_ : bool) (v x : jv) : outcome (list item) :=
    match v with
    | JArr vs => match x with
                 | JArr xs => if negb (llen vs =? llen xs) then Err (EFunc1Wrap ELengthMismatch)
                              else Val (insertion_sort (combine vs xs))
                 | _ => Err EFunc1Type
                 end
    | _ => if by_ then Err EFunc1Type else Err EFunc0Type
    end.
  Definition f_sort_by (by_ : bool) (v x : jv) : outcome jv :=
    do items <- sort_items by_ v x; Val (JArr (map fst items)).
  Fixpoint group_loop (items : list item) (first : bool) (last : jv) (rgroups : list (list jv)) : outcome (list (list jv)) :=
    (* rgroups: finished groups reversed, each group reversed *)
    match items with
    | [] => Val rgroups
    | (v, k) :: r =>
        if first || negb (compare last k =? 0) then group_loop r false k ([v] :: rgroups)
        else match rgroups with
             | g :: gs => group_loop r false last ((v :: g) :: gs)
             | [] => Panic "group_by: rs[len(rs)-1] on empty rs"
             end
    end.
  Definition f_group_by (v x : jv) : outcome jv :=
    do items <- sort_items true v x;
    do g <- group_loop items true JNull [];
    Val (JArr (map (fun grp => JArr (rev grp)) (rev g))).
  Fixpoint unique_loop (items : list item) (first : bool) (last : jv) : list jv :=
    match items with
    | [] => []
    | (v, k) :: r => if first || negb (compare last k =? 0) then v :: unique_loop r false k
                     else unique_loop r false last
    end.
  Definition f_unique_by (by_ : bool) (v x : jv) : outcome jv :=
    do items <- sort_items by_ v x; Val (JArr (unique_loop items true JNull)).

  (* ---- math ---------------------------------------------------------------------------------- *)
  Definition fmax_go (l r : float) : float :=
    if fis_nan l then r else if fis_nan r then l
    else if flt l r then r else if flt r l then l
    else if fsign l then r else l.           (* max(-0, +0) = +0 *)
  Definition fmin_go (l r : float) : float :=
    if fis_nan l then r else if fis_nan r then l
    else if flt l r then l else if flt r l then r
    else if fsign l then l else r.           (* min(-0, +0) = -0 *)
  Definition fcopysign (l r : float) : float :=
    if fis_nan l then l else if Bool.eqb (fsign l) (fsign r) then l else fneg l.

  (* the functions computed exactly; everything else is libm (oracle) *)
  Definition math1 (name : string) (x : float) : float :=
    if String.eqb name "floor" then fnearbyint mode_DN x
    else if String.eqb name "ceil" then fnearbyint mode_UP x
    else if String.eqb name "trunc" then fnearbyint mode_ZR x
    else if String.eqb name "round" then fnearbyint mode_NA x
    else if String.eqb name "rint" then fnearbyint mode_NE x
    else if String.eqb name "nearbyint" then fnearbyint mode_NE x
    else if String.eqb name "fabs" then fabs x
    else if String.eqb name "sqrt" then fsqrt x
    else libm1 name x.
  Definition math2 (name : string) (x y : float) : float :=
    if String.eqb name "fmax" then fmax_go x y
    else if String.eqb name "fmin" then fmin_go x y
    else libm2 name x y.

  Definition f_math1 (name : string) (v : jv) : outcome jv :=
    match to_float v with Some x => Val (jflt (math1 name x)) | None => Err EFunc0Type end.
  Definition f_math2 (name : string) (x y : jv) : outcome jv :=
    match to_float x with
    | None => Err EFunc0Type
    | Some l => match to_float y with
                | None => Err EFunc0Type
                | Some r => Val (jflt (math2 name l r))
                end
    end.
  Definition f_math3 (name : string) (a b c : jv) : outcome jv :=
    match to_float a with
    | None => Err EFunc0Type
    | Some x => match to_float b with
                | None => Err EFunc0Type
                | Some y => match to_float c with
                            | None => Err EFunc0Type
                            | Some z => Val (jflt (libm3 name x y z))
                            end
                end
    end.
  Definition f_pair (name : string) (v : jv) : outcome jv :=
    match to_float v with Some x => Val (libm_pair name x) | None => Err EFunc0Type end.

  Definition f_isfinite (v : jv) : outcome jv :=
    vbool (match to_float v with Some x => negb (fis_inf x) | None => false end).
  Definition f_isinfinite (v : jv) : outcome jv :=
    vbool (match to_float v with Some x => fis_inf x | None => false end).
  Definition f_isnan (v : jv) : outcome jv :=
    match to_float v with
    | Some x => vbool (fis_nan x)
    | None => if is_nil v then vbool false else Err EFunc0Type
    end.
  Definition f_isnormal (v : jv) : outcome jv :=
    vbool (match to_float v with
           | Some (B754_finite _ m _ _) => (2 ^ 52 <=? Z.pos m)
           | _ => false
           end).

  (* ---- setpath / delpaths / getpath (value level: the allocator only avoids copies) ---------- *)
  Definition is_hole (v : jv) : bool := match v with JHole => true | _ => false end.
  Fixpoint nulls (n : nat) : list jv := match n with O => [] | S k => JNull :: nulls k end.
  (* w := copy of v extended with nil up to index i; w[i] = u *)
  Fixpoint set_nth (l : list jv) (i : nat) (u : jv) : list jv :=
    match i, l with
    | O, _ :: r => u :: r
    | O, [] => [u]
    | S k, x :: r => x :: set_nth r k u
    | S k, [] => JNull :: set_nth [] k u
    end.

  Fixpoint update (path : list jv) (v n : jv) {struct path} : outcome jv :=
    match path with
    | [] => Val n
    | p :: rest =>
        let orig_or_nil := Val v in    (* `if v == nil { return nil, nil }; return v, nil` *)
        match p with
        | JStr k =>
            let upd_obj (m : list (bytes * jv)) : outcome jv :=
              match obj_get m k, is_hole n with
              | None, true => orig_or_nil
              | x, _ => do u <- update rest (match x with Some w => w | None => JNull end) n;
                        Val (JObj (obj_set m k u))
              end in
            match v with
            | JNull => upd_obj []
            | JObj m => upd_obj m
            | JHole => Val v
            | _ => Err EExpectedObject
            end
        | JNum pn =>
            let i := pnum_to_int (norm_num pn) in
            let upd_arr (l : list jv) : outcome jv :=
              let j := clamp_index i (-1) (llen l) in
              if j <? 0 then (if is_hole n then orig_or_nil else Err EArrayIndexNegative)
              else if j <? llen l then
                do x <- go_index l j; do u <- update rest x n; Val (JArr (set_nth l (Z.to_nat j) u))
              else if is_hole n then orig_or_nil
              else if 536870912 <=? i then Err EArrayIndexTooLarge
              else do u <- update rest JNull n; Val (JArr (set_nth l (Z.to_nat i) u)) in
            match v with
            | JNull => upd_arr []
            | JArr l => upd_arr l
            | JHole => Val v
            | _ => Err EExpectedArray
            end
        | JObj pm =>
            let upd_slice (l : list jv) : outcome jv :=
              match obj_get pm (codes "start") with
              | None => Err EExpectedStartEnd
              | Some s =>
                  match obj_get pm (codes "end") with
                  | None => Err EExpectedStartEnd
                  | Some e =>
                      do se <- slice_bounds (llen l) e s EArrayIndexNotNumber;
                      let (start, stop) := se in
                      if (start =? stop) && is_hole n then orig_or_nil
                      else
                        do sub <- go_slice l start stop;
                        do u <- update rest (JArr sub) n;
                        do pre <- go_slice l 0 start;
                        do post <- go_slice l stop (llen l);
                        match u with
                        | JArr us => Val (JArr (pre ++ us ++ post))
                        | JHole => Val (JArr (pre ++ map (fun _ => JHole) sub ++ post))
                        | _ => Err EExpectedArray
                        end
                  end
              end in
            match v with
            | JNull => upd_slice []
            | JArr l => upd_slice l
            | JHole => Val v
            | _ => Err EExpectedArray
            end
        | _ => match v with
               | JArr _ => Err EArrayIndexNotNumber
               | _ => Err EObjectKeyNotString
               end
        end
    end.

  Definition f_setpath (v p n : jv) : outcome jv :=
    match p with
    | JArr path => match update path v n with
                   | Val u => Val u
                   | Err e => Err (EFunc2Wrap e)
                   | Panic t => Panic t
                   end
    | _ => Err EFunc1Type
    end.

  Fixpoint delete_empty (v : jv) : jv :=
    match v with
    | JHole => JNull
    | JObj m => JObj (flat_map (fun kv : bytes * jv => if is_hole (snd kv) then [] else [(fst kv, delete_empty (snd kv))]) m)
    | JArr l => JArr (flat_map (fun w => if is_hole w then [] else [delete_empty w]) l)
    | _ => v
    end.
  Fixpoint delpaths_loop (paths : list jv) (u : jv) : outcome jv :=
    match paths with
    | [] => Val u
    | q :: r =>
        match q with
        | JArr path => match update path u JHole with
                       | Val u' => delpaths_loop r u'
                       | Err e => Err (EFunc1Wrap e)
                       | Panic t => Panic t
                       end
        | _ => Err (EFunc1Wrap EExpectedArray)
        end
    end.
  Definition f_delpaths (v p : jv) : outcome jv :=
    match p with
    | JArr [] => Val v
    | JArr paths => do u <- delpaths_loop paths v; Val (delete_empty u)
    | _ => Err EFunc1Type
    end.

  Fixpoint getpath_loop (path : list jv) (v : jv) : outcome jv :=
    match path with
    | [] => Val v
    | x :: r =>
        match v with
        | JNull | JArr _ | JObj _ =>
            match f_index2 v x with
            | Val w => getpath_loop r w
            | Err e => Err (EFunc1Wrap e)
            | Panic t => Panic t
            end
        | _ => Err EFunc1Type
        end
    end.
  Definition f_getpath (v p : jv) : outcome jv :=
    match p with JArr path => getpath_loop path v | _ => Err EFunc1Type end.

  (* ---- transpose / bsearch ------------------------------------------------------------------- *)
  Definition f_transpose (v : jv) : outcome jv :=
    match v with
    | JArr [] => Val (JArr [])
    | JArr vss =>
        (* first loop: every row must be an array; l = the longest row *)
        do lens <- omap (fun vs => match vs with JArr r => Val (llen r) | _ => Err EFunc0Type end) vss;
        let l := fold_left Z.max lens 0 in
        (* second loop: wss[j][i] = v for v = vss[i].([]any)[j]; column j collects row i's j-th
           element or nil.  The type assertion vs.([]any) and the index wss[j] are the panic points. *)
        do rows <- omap (fun vs => match vs with
                                   | JArr r => if llen r <=? l then Val r else Panic "index out of range wss[j]"
                                   | _ => Panic "interface conversion: not []interface {}"
                                   end) vss;
        Val (JArr (map (fun j => JArr (map (fun r => nth j r JNull) rows)) (seq 0 (Z.to_nat l))))
    | _ => Err EFunc0Type
    end.

  (* sort.Search: i, j := 0, n; for i < j { h := int(uint(i+j) >> 1); if !f(h) { i = h+1 } else { j = h } } *)
  Fixpoint search_loop (fuel : nat) (vs : list jv) (t : jv) (i j : Z) : outcome Z :=
    if negb (i <? j) then Val i
    else match fuel with
         | O => Panic "model fuel"
         | S f => let h := Z.shiftr (i + j) 1 in
                  do x <- go_index vs h;
                  if 0 <=? compare x t then search_loop f vs t i h else search_loop f vs t (h + 1) j
         end.
  Definition f_bsearch (v t : jv) : outcome jv :=
    match v with
    | JArr vs =>
        do i <- search_loop (S (List.length vs)) vs t 0 (llen vs);
        if i <? llen vs then
          do x <- go_index vs i;
          if compare x t =? 0 then vint i else vint (- i - 1)
        else vint (- i - 1)
    | _ => Err EFunc1Type
    end.

  (* ---- error / halt -------------------------------------------------------------------------- *)
  Definition f_error (v : jv) (args : list jv) : outcome jv :=
    match args with a :: _ => Err (EUser a) | [] => Err (EUser v) end.
  Definition f_halt_error (v : jv) (args : list jv) : outcome jv :=
    match args with
    | a :: _ => match to_int a with Some c => Err (EHalt v c) | None => Err EFunc0Type end
    | [] => Err (EHalt v 5)
    end.

  (* ---- format/1 ------------------------------------------------------------------------------ *)
  Definition f_format (v x : jv) : outcome jv :=
    match x with
    | JStr s =>
        if bytes_eqb s (codes "text") then f_tostring v
        else if bytes_eqb s (codes "json") then f_tojson v
        else if bytes_eqb s (codes "html") then f_tohtml v
        else if bytes_eqb s (codes "uri") then f_touri v
        else if bytes_eqb s (codes "urid") then f_tourid v
        else if bytes_eqb s (codes "csv") then f_tocsv v
        else if bytes_eqb s (codes "tsv") then f_totsv v
        else if bytes_eqb s (codes "sh") then f_tosh v
        else if bytes_eqb s (codes "base64") then f_tobase64 v
        else if bytes_eqb s (codes "base64d") then f_tobase64d v
        else Err EFormatNotFound
    | _ => Err EFunc0Type
    end.
End Natives.
