(* C03 meets_doc without the sub-domain restriction: ascii_downcase / ascii_upcase on ARBITRARY byte strings
   (every well-formed UTF-8 sequence copied with its ASCII letters mapped, every other byte replaced by U+FFFD)
   and implode on ARBITRARY arrays (numbers that are not Unicode scalar values give U+FFFD; a non-number is an
   error). *)
From Coq Require Import List ZArith NArith Bool String Lia ZifyN ZifyBool.
From Flocq Require Import IEEE754.BinarySingleNaN.
From Verif Require Import common.Sexp common.Int64 c03.JV c03.Core c03.Ops c03.Natives c03.Spec c03.Wf c03.Denote
  c03.CompareDoc c03.OpsDoc c03.NativesDoc c03.NativesDoc3 c03.Utf8Doc c03.StringsDoc.
Import ListNotations.

(* every chunk of Go's decoding re-encodes to its own bytes, or is RuneError standing for one byte *)
Definition chunk_ok2 (c : N * bytes) : Prop :=
  encode_rune (fst c) = snd c \/ (fst c = rune_error /\ List.length (snd c) = 1%nat).
Open Scope N_scope.
Lemma chunks_ok2_aux n : forall s, (List.length s <= n)%nat -> Forall chunk_ok2 (chunks s).
Proof.
  induction n; intros s HL.
  - destruct s; [constructor|simpl in HL; lia].
  - destruct s as [|b0 r]; [constructor|].
    assert (IH : forall t, (List.length t <= List.length r)%nat -> Forall chunk_ok2 (chunks t)).
    { intros; apply IHn; simpl in HL; lia. }
    assert (BAD : chunk_ok2 (rune_error, [b0])) by (right; split; reflexivity).
    cbn [chunks]. unfold is_cont.
    destruct r as [|b1 [|b2 [|b3 r3]]];
      repeat match goal with |- context [if ?c then _ else _] => destruct c eqn:? end;
      (constructor;
       [ first [ exact BAD
               | left; cbn [fst snd]; nbool;
                 first [ unfold encode_rune; match goal with H : b0 < 128 |- _ => apply N.ltb_lt in H; rewrite H; reflexivity end
                       | apply enc2; lia | apply enc3; auto; lia | apply enc4; auto; lia ] ]
       | first [ apply IH; simpl; lia | constructor ] ]).
Qed.
Lemma chunks_ok2 s : Forall chunk_ok2 (chunks s).
Proof. eapply chunks_ok2_aux; eauto. Qed.

Lemma encode_error : encode_rune rune_error = fffd.
Proof. vm_compute. reflexivity. Qed.
Lemma encode_len1 r : r < 128 -> encode_rune r = [r].
Proof. intros H. unfold encode_rune. apply N.ltb_lt in H. rewrite H. reflexivity. Qed.
Lemma encode_len_high r : 128 <= r -> (2 <= List.length (encode_rune r))%nat.
Proof.
  intros H. unfold encode_rune. destruct (r <? 128) eqn:E1; [apply N.ltb_lt in E1; lia|].
  destruct (r <? 2048); [simpl; lia|]. destruct (_ || _)%bool; [simpl; lia|]. destruct (r <? 65536); simpl; lia.
Qed.

Section Case.
  Variable f : N -> N.
  Hypothesis f_low : forall r, r < 128 -> f r < 128.
  Hypothesis f_high : forall r, 128 <= r -> f r = r.

  Lemma chunk_case c : chunk_ok2 c ->
    encode_rune (f (fst c)) = if well_formed c then map f (snd c) else fffd.
  Proof.
    intros [E|[E L]]; unfold well_formed.
    - rewrite E, bytes_eqb_refl. destruct (N.ltb_spec (fst c) 128) as [Lt|Ge].
      + rewrite <- E, (encode_len1 _ Lt). cbn [map]. apply encode_len1. auto.
      + rewrite f_high by auto. rewrite E. pose proof (encode_high (fst c) Ge) as EH. rewrite E in EH.
        clear -EH f_high. induction EH; simpl; [reflexivity|]. rewrite f_high by auto. f_equal. auto.
    - rewrite E. rewrite f_high by (unfold rune_error; lia). rewrite encode_error.
      destruct (bytes_eqb fffd (snd c)) eqn:B; [|reflexivity].
      apply list_N_eqb_eq in B. rewrite <- B in L. discriminate.
  Qed.
  Lemma map_runes_any s :
    map_runes f s = flat_map (fun c => if well_formed c then map f (snd c) else fffd) (chunks s).
  Proof.
    unfold map_runes, encode_runes, runes. rewrite map_map.
    pose proof (chunks_ok2 s) as F. induction F as [|c cs Hc Hcs IH]; [reflexivity|].
    cbn [map flat_map]. rewrite IH. f_equal. apply chunk_case; auto.
  Qed.
End Case.
Close Scope N_scope.
Open Scope Z_scope.

Lemma encode_surrogate z : 55296 <= z <= 57343 -> encode_rune (Z.to_N z) = fffd.
Proof.
  intros H. unfold encode_rune.
  destruct (Z.to_N z <? 128)%N eqn:E1; [apply N.ltb_lt in E1; lia|].
  destruct (Z.to_N z <? 2048)%N eqn:E2; [apply N.ltb_lt in E2; lia|].
  replace (55296 <=? Z.to_N z)%N with true by (symmetry; apply N.leb_le; lia).
  replace (Z.to_N z <=? 57343)%N with true by (symmetry; apply N.leb_le; lia). reflexivity.
Qed.

Section AnyDoc.
  Variable pf : bytes -> option float.
  Hypothesis pf_bigint : forall z, big_to_float pf z = Z2F z.
  Notation denote := (denote pf).
  Notation agrees := (agrees pf).

  Theorem f_ascii_downcase_any v : wf v = true -> agrees (f_ascii_downcase v) (s_ascii_any false (denote v)).
  Proof.
    intros W. destruct v as [| |n|s| | |]; try discriminate; try reflexivity.
    - simpl. rewrite denote_num_norm. destruct (norm_num pf n); reflexivity.
    - cbn [Spec.denote s_ascii_any]. unfold f_ascii_downcase, str1, OpsDoc.agrees. cbn [Spec.denote]. do 2 f_equal.
      apply (map_runes_any (s_case false)); unfold s_case; intros r H;
        destruct ((65 <=? r) && (r <=? 90))%N eqn:E; auto; lia.
  Qed.
  Theorem f_ascii_upcase_any v : wf v = true -> agrees (f_ascii_upcase v) (s_ascii_any true (denote v)).
  Proof.
    intros W. destruct v as [| |n|s| | |]; try discriminate; try reflexivity.
    - simpl. rewrite denote_num_norm. destruct (norm_num pf n); reflexivity.
    - cbn [Spec.denote s_ascii_any]. unfold f_ascii_upcase, str1, OpsDoc.agrees. cbn [Spec.denote]. do 2 f_equal.
      apply (map_runes_any (s_case true)); unfold s_case; intros r H;
        destruct ((97 <=? r) && (r <=? 122))%N eqn:E; auto; lia.
  Qed.

  (* implode *)
  Definition implode_piece (m : mv) : bytes :=
    match as_index m with
    | Some z => if (0 <=? z) && (z <=? max_rune) && negb ((55296 <=? z) && (z <=? 57343)) then encode_rune (Z.to_N z) else fffd
    | None => []
    end.
  Lemma implode_step x : wf x = true -> is_mnum (denote x) = true ->
    match to_int pf x with
    | Some r => Val (if (0 <=? r) && (r <=? max_rune) then encode_rune (Z.to_N r) else encode_rune rune_error)
    | None => @Err bytes EFunc0Type
    end = Val (implode_piece (denote x)).
  Proof.
    intros W M. rewrite (to_int_denote pf) by auto. rewrite mv_int_as_index. unfold implode_piece.
    destruct (as_index (denote x)) as [z|] eqn:E; [|destruct (denote x); discriminate].
    f_equal. destruct ((0 <=? z) && (z <=? max_rune)) eqn:R; cbn [andb]; [|apply encode_error].
    destruct ((55296 <=? z) && (z <=? 57343)) eqn:S; cbn [negb]; [|reflexivity].
    apply andb_true_iff in S as [S1 S2]. apply Z.leb_le in S1, S2. apply encode_surrogate. lia.
  Qed.
  Theorem f_implode_any v : wf v = true -> agrees (f_implode pf v) (s_implode_any (denote v)).
  Proof.
    intros W. destruct v as [| |n| |l| |]; try discriminate; try reflexivity.
    - simpl. rewrite denote_num_norm. destruct (norm_num pf n); reflexivity.
    - cbn [Spec.denote s_implode_any]. cbn [wf] in W. unfold f_implode.
      destruct (forallb is_mnum (map denote l)) eqn:FN.
      + assert (G : omap (fun x => match to_int pf x with
                                   | Some r => Val (if (0 <=? r) && (r <=? max_rune) then encode_rune (Z.to_N r) else encode_rune rune_error)
                                   | None => Err EFunc0Type end) l
                    = Val (map (fun x => implode_piece (denote x)) l)).
        { revert W FN. induction l as [|x l IH]; intros W FN; [reflexivity|]. cbn [map forallb omap] in *.
          apply andb_true_iff in W as [W1 W2]. apply andb_true_iff in FN as [F1 F2].
          rewrite implode_step by auto. cbn [bind]. rewrite IH by auto. reflexivity. }
        rewrite G. cbn [bind]. unfold OpsDoc.agrees, vstr. cbn [Spec.denote]. f_equal.
        rewrite flat_map_concat_map, map_map. reflexivity.
      + assert (G : exists e, omap (fun x => match to_int pf x with
                                   | Some r => Val (if (0 <=? r) && (r <=? max_rune) then encode_rune (Z.to_N r) else encode_rune rune_error)
                                   | None => Err EFunc0Type end) l = Err e).
        { revert W FN. induction l as [|x l IH]; intros W FN; [discriminate|]. cbn [map forallb omap] in *.
          apply andb_true_iff in W as [W1 W2]. rewrite (to_int_denote pf) by auto.
          destruct (is_mnum (denote x)) eqn:M.
          - destruct (denote x); try discriminate; cbn [mv_int bind]; (destruct (IH W2 FN) as [e E]; rewrite E; eexists; reflexivity).
          - destruct (denote x); try discriminate; cbn [mv_int bind]; eexists; reflexivity. }
        destruct G as [e E]. rewrite E. exact I.
  Qed.
End AnyDoc.
