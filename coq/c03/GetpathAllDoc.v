(* C03 meets_doc: getpath/1 along paths with ANY key types (null / boolean keys: errors; string keys; number keys
   in every representation, floats truncated, negative indices from the end); containers shorter than 2^63.
   Spec.s_getpath has no entry for slice-object / array keys inside a path (nothing is claimed there). *)
From Coq Require Import List ZArith NArith Bool String Lia.
From Flocq Require Import IEEE754.BinarySingleNaN.
From Verif Require Import common.Sexp common.Int64 c03.JV c03.Core c03.Ops c03.Natives c03.Spec c03.Wf c03.Denote
  c03.CompareDoc c03.OpsDoc c03.NativesDoc c03.StringsDoc c03.PathDoc c03.IndexAllDoc.
Import ListNotations.
Open Scope Z_scope.

Section GetpathAllDoc.
  Variable pf : bytes -> option float.
  Hypothesis pf_bigint : forall z, big_to_float pf z = Z2F z.
  Notation denote := (denote pf).
  Notation agrees := (agrees pf).
  Notation ragrees := (StringsDoc.ragrees pf).

  Definition container (a : mv) : Prop := match a with MNull | MArr _ | MObj _ => True | _ => False end.

  (* one step of the documented getpath is the documented .[k] *)
  Lemma s_getpath_index k r a : container a ->
    (forall l, k <> MArr l) -> (forall m, k <> MObj m) ->
    s_getpath (k :: r) a = match s_index2 a k with
                           | Some (SVal w) => s_getpath r w
                           | Some SErr => Some SErr
                           | None => None
                           end.
  Proof.
    intros C NA NO. destruct k; try (exfalso; eapply NA; reflexivity); try (exfalso; eapply NO; reflexivity);
      destruct a; try destruct C; try reflexivity.
  Qed.
  Lemma s_getpath_search k r a : container a ->
    ((exists l, k = MArr l) \/ (exists m, k = MObj m)) -> s_getpath (k :: r) a = None.
  Proof. intros C [[l ->]|[m ->]]; destruct a; try destruct C; reflexivity. Qed.
  Lemma s_getpath_scalar k r a : ~ container a -> s_getpath (k :: r) a = Some SErr.
  Proof. intros C. destruct a; try (exfalso; apply C; exact I); destruct k; reflexivity. Qed.

  Definition jcontainer (v : jv) : Prop := match v with JNull | JArr _ | JObj _ => True | _ => False end.
  Lemma jcontainer_denote v : jcontainer v -> container (denote v).
  Proof. destruct v; intros C; try destruct C; exact I. Qed.

  Lemma step_all v x r : wf v = true -> wf x = true -> sized v = true -> jcontainer v ->
    (forall w, wf w = true -> sized w = true -> ragrees (getpath_loop pf r w) (s_getpath (map denote r) (denote w))) ->
    ragrees (match f_index2 pf v x with
             | Val w => getpath_loop pf r w
             | Err e => Err (EFunc1Wrap e)
             | Panic t => Panic t
             end) (s_getpath (denote x :: map denote r) (denote v)).
  Proof.
    intros WV WX SZ JC IH. pose proof (jcontainer_denote v JC) as CV.
    assert (KC : (exists l, denote x = MArr l) \/ (exists m, denote x = MObj m)
                 \/ ((forall l, denote x <> MArr l) /\ (forall m, denote x <> MObj m))).
    { destruct (denote x); eauto; right; right; split; intros; discriminate. }
    destruct KC as [S|[S|[NA NO]]].
    - rewrite s_getpath_search by auto. exact I.
    - rewrite s_getpath_search by auto. exact I.
    - rewrite s_getpath_index by auto.
      pose proof (f_index2_all pf pf_bigint v x WV WX SZ) as ST.
      destruct (s_index2 (denote v) (denote x)) as [[w'|]|]; [| |exact I];
        destruct (f_index2 pf v x) as [w| |] eqn:E; simpl in ST; try contradiction; try exact I.
      subst w'.
      assert (KX : match x with JStr _ | JNum _ => True | _ => False end).
      { destruct x; try exact I; try discriminate.
        - unfold f_index2 in E. destruct v; discriminate.
        - unfold f_index2 in E. destruct v; discriminate.
        - exfalso. eapply NA. reflexivity.
        - exfalso. eapply NO. reflexivity. }
      assert (NS : match v with JStr _ => False | _ => True end) by (destruct v; try exact I; destruct JC).
      destruct (f_index2_keeps pf v x w WV SZ KX NS E). apply IH; auto.
  Qed.

  Theorem getpath_loop_all path : forall v, wf v = true -> sized v = true -> forallb wf path = true ->
    ragrees (getpath_loop pf path v) (s_getpath (map denote path) (denote v)).
  Proof.
    induction path as [|x r IH]; intros v WV SZ WP; [simpl; reflexivity|].
    cbn [forallb] in WP. apply andb_true_iff in WP as [WX WR]. cbn [map getpath_loop].
    destruct v as [|b|n|s|l|m|] eqn:EV; try discriminate.
    - apply step_all; auto. exact I.
    - rewrite s_getpath_scalar; [exact I|]. intros C; exact C.
    - rewrite s_getpath_scalar; [exact I|]. cbn [Spec.denote]. rewrite denote_num_norm. destruct (norm_num pf n); intros C; exact C.
    - rewrite s_getpath_scalar; [exact I|]. intros C; exact C.
    - apply step_all; auto. exact I.
    - apply step_all; auto. exact I.
  Qed.
  Theorem f_getpath_all v p : wf v = true -> wf p = true -> sized v = true ->
    ragrees (f_getpath pf v p) (match denote p with MArr path => s_getpath path (denote v) | _ => Some SErr end).
  Proof.
    intros WV WP SZ. unfold f_getpath. destruct p as [| |n| |path| |]; try discriminate; try reflexivity.
    - cbn [Spec.denote]. rewrite denote_num_norm. destruct (norm_num pf n); reflexivity.
    - cbn [Spec.denote]. apply getpath_loop_all; auto.
  Qed.
End GetpathAllDoc.
