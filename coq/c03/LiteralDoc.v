(* C03 meets_doc: length / abs / unary minus on json.Number literals.  The Go code works on the TEXT (drops or adds
   the leading '-'); the documented function works on the number.  They agree for every JSON number literal,
   given that strconv.ParseFloat is sign-symmetric on texts starting with a digit (hypothesis pf_sign, a property
   of the oracle like pf_bigint: ParseFloat("-"+r) = -ParseFloat(r), and ParseFloat(r) carries no minus sign). *)
From Coq Require Import List ZArith NArith Bool String Lia.
From Flocq Require Import IEEE754.BinarySingleNaN.
From Verif Require Import common.Sexp common.Int64 c03.JV c03.FloatText c03.Core c03.Ops c03.Natives c03.Spec c03.Wf c03.Denote
  c03.CompareDoc c03.OpsDoc c03.NativesDoc c03.SimpleDoc.
Import ListNotations.
Open Scope Z_scope.

Definition starts_digit (t : bytes) : bool := match t with c :: _ => is_digit c | [] => false end.
Definition pf_sign (pf : bytes -> option float) : Prop :=
  forall r, starts_digit r = true ->
    (forall f, pf r = Some f -> fabs f = f) /\ pf (45%N :: r) = option_map fneg (pf r).

Lemma lit_tail t : (match t with 45%N :: r => r | _ => t end) = if starts_minus t then tl t else t.
Proof.
  destruct t as [|c r]; [reflexivity|]. destruct c as [|p]; [reflexivity|].
  do 6 (try (destruct p as [p|p|]; try reflexivity)).
Qed.
Lemma take_digits_head r d r1 : take_digits r = (d, r1) -> d <> [] -> starts_digit r = true.
Proof.
  destruct r as [|c r]; cbn [take_digits starts_digit]; [intros H; inversion H; congruence|].
  destruct (is_digit c); [reflexivity|]. intros H; inversion H; congruence.
Qed.
Lemma wf_lit_shape t : json_number_text t = true ->
  (starts_minus t = false /\ starts_digit t = true) \/ (exists r, t = 45%N :: r /\ starts_digit r = true).
Proof.
  unfold json_number_text. rewrite lit_tail.
  destruct (starts_minus t) eqn:M.
  - destruct t as [|c r]; [discriminate M|]. cbn [starts_minus] in M. apply N.eqb_eq in M. subst c. cbn [tl].
    destruct (take_digits r) as [ip r1] eqn:E. intros H. right. exists r. split; [reflexivity|].
    eapply take_digits_head; eauto. intros ->. cbn [andb] in H.
    match type of H with context [match ?m with _ => _ end] => destruct m end. discriminate H.
  - destruct (take_digits t) as [ip r1] eqn:E. intros H. left. split; [reflexivity|].
    eapply take_digits_head; eauto. intros ->. cbn [andb] in H.
    match type of H with context [match ?m with _ => _ end] => destruct m end. discriminate H.
Qed.
Lemma digit_not_sign c : is_digit c = true -> N.eqb c 45 = false /\ N.eqb c 43 = false.
Proof.
  unfold is_digit. intros H. apply andb_true_iff in H as [H1 H2]. apply N.leb_le in H1, H2.
  split; apply N.eqb_neq; lia.
Qed.
Lemma digits_val_nonneg d : forall acc, 0 <= acc -> 0 <= digits_val d acc.
Proof. induction d; intros acc H; simpl; [auto|]. apply IHd. lia. Qed.
Lemma int_text_neg r : starts_digit r = true ->
  int_text (45%N :: r) = option_map Z.opp (int_text r) /\ (forall z, int_text r = Some z -> 0 <= z).
Proof.
  intros SD. destruct r as [|c r']; [discriminate|]. cbn [starts_digit] in SD. destruct (digit_not_sign c SD) as [N1 N2].
  unfold int_text. cbn [take_sign]. rewrite N1, N2. change (N.eqb 45 45) with true. cbv iota.
  destruct (take_digits (c :: r')) as [d r1]. destruct d; [split; [reflexivity|discriminate]|].
  destruct r1; [|split; [reflexivity|discriminate]]. split; [reflexivity|].
  intros z H; inversion H. apply digits_val_nonneg. lia.
Qed.
Lemma starts_digit_not_minus r : starts_digit r = true -> starts_minus r = false.
Proof. destruct r as [|c r]; [reflexivity|]. cbn. intros H. apply (digit_not_sign c H). Qed.

Definition mneg (m : mv) : mv := match m with MInt z => MInt (- z) | MFlt f => MFlt (fneg f) | _ => m end.
Definition mabs (m : mv) : mv := match m with MInt z => MInt (Z.abs z) | MFlt f => MFlt (fabs f) | _ => m end.
Lemma fabs_fneg f : fabs (fneg f) = fabs f. Proof. destruct f; reflexivity. Qed.
Lemma fneg_fneg f : fneg (fneg f) = f. Proof. destruct f; simpl; rewrite ?negb_involutive; reflexivity. Qed.
Lemma mabs_mneg m : mabs (mneg m) = mabs m.
Proof. destruct m; simpl; try reflexivity; [rewrite Z.abs_opp|rewrite fabs_fneg]; reflexivity. Qed.
Lemma mneg_mneg m : mneg (mneg m) = m.
Proof. destruct m; simpl; try reflexivity; [rewrite Z.opp_involutive|rewrite fneg_fneg]; reflexivity. Qed.

Section LiteralDoc.
  Variable pf : bytes -> option float.
  Hypothesis pf_s : pf_sign pf.
  Notation denote := (denote pf).
  Notation agrees := (agrees pf).

  Lemma neg_lit r : starts_digit r = true ->
    denote_num pf (NLit (45%N :: r)) = mneg (denote_num pf (NLit r)) /\ mabs (denote_num pf (NLit r)) = denote_num pf (NLit r).
  Proof.
    intros SD. destruct (int_text_neg r SD) as [IT NN]. destruct (pf_s r SD) as [PA PN].
    cbn [denote_num]. rewrite IT. destruct (int_text r) as [z|] eqn:E; cbn [option_map].
    - split; [reflexivity|]. simpl. rewrite Z.abs_eq by auto. reflexivity.
    - assert (HD : has_dot_or_exp (45%N :: r) = has_dot_or_exp r) by reflexivity. rewrite HD.
      rewrite (starts_digit_not_minus r SD). change (starts_minus (45%N :: r)) with true.
      destruct (has_dot_or_exp r).
      + rewrite PN. destruct (pf r) as [g|] eqn:G; cbn [option_map]; (split; [reflexivity|]); simpl; [rewrite PA by auto|]; reflexivity.
      + split; reflexivity.
  Qed.

  Lemma abs_lit_doc t : json_number_text t = true -> denote (abs_num (NLit t)) = mabs (denote_num pf (NLit t)).
  Proof.
    intros W. destruct (wf_lit_shape t W) as [[M SD]|[r [-> SD]]]; cbn [abs_num].
    - rewrite M. cbn [Spec.denote]. destruct (neg_lit t SD) as [_ A]. symmetry. exact A.
    - change (starts_minus (45%N :: r)) with true. cbv iota. cbn [tl Spec.denote]. destruct (neg_lit r SD) as [N A].
      rewrite N, mabs_mneg. symmetry. exact A.
  Qed.
  Lemma negate_lit_doc t : json_number_text t = true ->
    agrees (op_negate (JNum (NLit t))) (SVal (mneg (denote_num pf (NLit t)))).
  Proof.
    intros W. unfold op_negate, vnum, OpsDoc.agrees. destruct (wf_lit_shape t W) as [[M SD]|[r [-> SD]]].
    - rewrite M. cbn [Spec.denote]. apply (neg_lit t SD).
    - change (starts_minus (45%N :: r)) with true. cbv iota. cbn [tl Spec.denote]. destruct (neg_lit r SD) as [N _].
      rewrite N, mneg_mneg. reflexivity.
  Qed.
  (* the three theorems, now on every well-formed input *)
  Theorem f_length_all v : wf v = true -> agrees (f_length v) (s_length (denote v)).
  Proof.
    intros W. destruct v as [| |[z|z|f|t]| | | |]; try (apply f_length_doc; [exact W|exact I]).
    cbn [wf wf_num] in W. unfold f_length, OpsDoc.agrees. rewrite abs_lit_doc by auto. cbn [Spec.denote].
    destruct (denote_num pf (NLit t)) eqn:E; try reflexivity;
      cbn [denote_num] in E; destruct (int_text t); try discriminate; destruct (if has_dot_or_exp t then pf t else None); discriminate.
  Qed.
  Theorem f_abs_all v : wf v = true -> agrees (f_abs v) (s_abs (denote v)).
  Proof.
    intros W. destruct v as [| |[z|z|f|t]| | | |]; try (apply f_abs_doc; [exact W|exact I]).
    cbn [wf wf_num] in W. unfold f_abs, OpsDoc.agrees. rewrite abs_lit_doc by auto. cbn [Spec.denote].
    destruct (denote_num pf (NLit t)) eqn:E; try reflexivity;
      cbn [denote_num] in E; destruct (int_text t); try discriminate; destruct (if has_dot_or_exp t then pf t else None); discriminate.
  Qed.
  Theorem op_negate_all v : wf v = true -> agrees (op_negate v) (s_negate (denote v)).
  Proof.
    intros W. destruct v as [| |[z|z|f|t]| | | |]; try (apply op_negate_doc; [exact W|exact I]).
    cbn [wf wf_num] in W. pose proof (negate_lit_doc t W) as H. cbn [Spec.denote].
    destruct (denote_num pf (NLit t)) eqn:E; try exact H;
      cbn [denote_num] in E; destruct (int_text t); try discriminate; destruct (if has_dot_or_exp t then pf t else None); discriminate.
  Qed.
End LiteralDoc.

(* the hypothesis holds for the executable ParseFloat stand-in on sample literals (a test, not a proof; the
   stand-in is compared with Go's strconv on every float of every run) *)
Example pf_sign_sample :
  forallb (fun r => match parse_float_text r, parse_float_text (45%N :: r) with
                    | Some g, Some f => fsame f (fneg g) && fsame (fabs g) g
                    | None, None => true
                    | _, _ => false
                    end)
    [codes "0"; codes "0.0"; codes "1.5"; codes "1e2"; codes "1e1000"; codes "1e-400"; codes "0.1"; codes "123456789012345678901234567890.5";
     codes "4.9e-324"; codes "2.5e-324"; codes "1.7976931348623157e308"; codes "1.7976931348623159e308"; codes "9007199254740993.0"] = true.
Proof. vm_compute. reflexivity. Qed.
