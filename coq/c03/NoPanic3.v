(* C03 dispatch_total, part 3: setpath / delpaths / getpath / transpose / bsearch, and the theorem over
   the whole dispatcher. *)
From Coq Require Import List ZArith NArith Bool String Lia.
From Flocq Require Import IEEE754.BinarySingleNaN.
From Verif Require Import common.Sexp common.Int64 c03.JV c03.Core c03.Ops c03.Natives c03.Dispatch c03.Wf c03.NoPanic1 c03.NoPanic2.
Import ListNotations.
Open Scope Z_scope.

Section NP3.
  Variable pf : bytes -> option float.
  Variable ff : float -> bytes.

  Lemma update_np path : forall v n, np (update pf path v n).
  Proof.
    induction path as [|p rest IH]; intros v n; [reflexivity|].
    cbn [update]. cbv zeta.
    destruct p as [| |pn|k| |pm|].
    - destruct v; reflexivity.
    - destruct v; reflexivity.
    - (* number: array index *)
      assert (G : forall l, np (
        let j := clamp_index (pnum_to_int (norm_num pf pn)) (-1) (llen l) in
        if j <? 0 then (if is_hole n then Val v else Err EArrayIndexNegative)
        else if j <? llen l then
          do x <- go_index l j; do u <- update pf rest x n; Val (JArr (set_nth l (Z.to_nat j) u))
        else if is_hole n then Val v
        else if 536870912 <=? pnum_to_int (norm_num pf pn) then Err EArrayIndexTooLarge
        else do u <- update pf rest JNull n; Val (JArr (set_nth l (Z.to_nat (pnum_to_int (norm_num pf pn))) u)))).
      { intros l. cbv zeta. np_crush; try apply IH.
        zb. apply go_index_np. unfold llen in *. lia. }
      destruct v; try reflexivity; apply G.
    - (* string: object key *)
      assert (G : forall m, np (
        match obj_get m k, is_hole n with
        | None, true => Val v
        | x, _ => do u <- update pf rest (match x with Some w => w | None => JNull end) n; Val (JObj (obj_set m k u))
        end)).
      { intros m. destruct (obj_get m k); destruct (is_hole n); try reflexivity;
          (apply np_bind; [apply IH|reflexivity]). }
      destruct v; try reflexivity; apply G.
    - destruct v; reflexivity.
    - (* object: slice *)
      assert (G : forall l, np (
        match obj_get pm (codes "start") with
        | None => Err EExpectedStartEnd
        | Some s =>
            match obj_get pm (codes "end") with
            | None => Err EExpectedStartEnd
            | Some e =>
                do se <- slice_bounds pf (llen l) e s EArrayIndexNotNumber;
                let (start, stop) := se in
                if (start =? stop) && is_hole n then Val v
                else
                  do sub <- go_slice l start stop;
                  do u <- update pf rest (JArr sub) n;
                  do pre <- go_slice l 0 start;
                  do post <- go_slice l stop (llen l);
                  match u with
                  | JArr us => Val (JArr (pre ++ us ++ post))
                  | JHole => Val (JArr (pre ++ map (fun _ => JHole) sub ++ post))
                  | _ => Err EExpectedArray
                  end
            end
        end)).
      { intros l. destruct (obj_get pm (codes "start")); [|reflexivity].
        destruct (obj_get pm (codes "end")); [|reflexivity].
        apply np_bind; [apply slice_bounds_np|]. intros [a b] E.
        apply slice_bounds_val in E; [|apply llen_nonneg].
        destruct ((a =? b) && is_hole n); [reflexivity|].
        apply np_bind; [apply go_slice_np; unfold llen in *; lia|]. intros.
        apply np_bind; [apply IH|]. intros.
        apply np_bind; [apply go_slice_np; unfold llen in *; lia|]. intros.
        apply np_bind; [apply go_slice_np; unfold llen in *; lia|]. intros.
        destruct a1; reflexivity. }
      destruct v; try reflexivity; apply G.
    - destruct v; reflexivity.
  Qed.

  Lemma f_setpath_np v p n : np (f_setpath pf v p n).
  Proof.
    unfold f_setpath. destruct p; try reflexivity. pose proof (update_np l v n) as H.
    destruct (update pf l v n); try reflexivity. discriminate.
  Qed.
  Lemma delpaths_loop_np paths : forall u, np (delpaths_loop pf paths u).
  Proof.
    induction paths as [|q r IH]; intros u; [reflexivity|]. simpl.
    destruct q; try reflexivity. pose proof (update_np l u JHole) as H.
    destruct (update pf l u JHole); try reflexivity; [apply IH|discriminate].
  Qed.
  Lemma f_delpaths_np v p : np (f_delpaths pf v p).
  Proof.
    unfold f_delpaths. destruct p; try reflexivity. destruct l; [reflexivity|].
    apply np_bind; [apply delpaths_loop_np|reflexivity].
  Qed.
  Lemma getpath_loop_np path : forall v, np (getpath_loop pf path v).
  Proof.
    induction path as [|x r IH]; intros v; [reflexivity|]. simpl.
    pose proof (f_index2_np pf v x) as H.
    destruct v; try reflexivity; destruct (f_index2 pf _ x); try reflexivity; try apply IH; discriminate.
  Qed.
  Lemma f_getpath_np v p : np (f_getpath pf v p).
  Proof. unfold f_getpath. destruct p; try reflexivity. apply getpath_loop_np. Qed.

  (* ---- transpose ---- *)
  Lemma omap_val {A B} (f : A -> outcome B) l : forall ys, omap f l = Val ys -> Forall2 (fun x y => f x = Val y) l ys.
  Proof.
    induction l; simpl; intros ys H; [inversion H; constructor|].
    destruct (f a) eqn:E; try discriminate. simpl in H. destruct (omap f l) eqn:E2; try discriminate.
    simpl in H. inversion H; subst. constructor; auto.
  Qed.
  Lemma fold_max_ge l : forall a, a <= fold_left Z.max l a /\ forall x, In x l -> x <= fold_left Z.max l a.
  Proof.
    induction l; intros b; simpl; [split; [lia|intros ? []]|].
    destruct (IHl (Z.max b a)) as [H1 H2]. split; [lia|]. intros x [->|I]; [lia|auto].
  Qed.
  Lemma Forall2_in_l {A B} (R : A -> B -> Prop) l ys x : Forall2 R l ys -> In x l -> exists y, In y ys /\ R x y.
  Proof.
    induction 1; intros I; [destruct I|]. destruct I as [->|I]; [exists y; split; [left|]; auto|].
    destruct (IHForall2 I) as (y' & ? & ?). exists y'; split; [right|]; auto.
  Qed.
  Lemma f_transpose_np v : np (f_transpose v).
  Proof.
    unfold f_transpose. destruct v; try reflexivity. destruct l as [|v0 vss']; [reflexivity|].
    set (vss := v0 :: vss').
    apply np_bind.
    { apply omap_np. intros x _. destruct x; reflexivity. }
    intros lens E. apply omap_val in E.
    apply np_bind; [|reflexivity].
    apply omap_np. intros x I.
    destruct (Forall2_in_l _ _ _ _ E I) as (y & Iy & Hy).
    destruct x; try discriminate. inversion Hy; subst.
    destruct (fold_max_ge lens 0) as [_ H]. specialize (H _ Iy).
    destruct (llen l <=? fold_left Z.max lens 0) eqn:EE; [reflexivity|]. apply Z.leb_gt in EE. lia.
  Qed.

  (* ---- bsearch ---- *)
  Lemma half_bounds i j : 0 <= i -> i < j -> i <= Z.shiftr (i + j) 1 < j.
  Proof.
    intros. rewrite Z.shiftr_div_pow2 by lia. change (2 ^ 1) with 2.
    pose proof (Z.div_mod (i + j) 2 ltac:(lia)). pose proof (Z.mod_pos_bound (i + j) 2 ltac:(lia)). lia.
  Qed.
  Lemma search_loop_ok vs t fuel : forall i j, 0 <= i <= j -> j <= llen vs -> j - i < Z.of_nat fuel ->
    np (search_loop pf fuel vs t i j) /\ forall r, search_loop pf fuel vs t i j = Val r -> 0 <= r.
  Proof.
    induction fuel; intros i j H1 H2 H3.
    - simpl. destruct (i <? j) eqn:E; simpl; [apply Z.ltb_lt in E; lia|]. split; [reflexivity|]. intros r R; inversion R; lia.
    - cbn [search_loop]. destruct (i <? j) eqn:E; cbn [negb].
      + apply Z.ltb_lt in E. pose proof (half_bounds i j ltac:(lia) E) as HB.
        set (h := Z.shiftr (i + j) 1) in *.
        assert (G : np (go_index vs h)) by (apply go_index_np; unfold llen in *; lia).
        destruct (go_index vs h) as [x| |] eqn:EG; try discriminate; [|split; [reflexivity|discriminate]].
        cbn [bind]. destruct (0 <=? compare pf x t); apply IHfuel; lia.
      + split; [reflexivity|]. intros r R; inversion R; lia.
  Qed.
  Lemma f_bsearch_np v t : np (f_bsearch pf v t).
  Proof.
    unfold f_bsearch. destruct v; try reflexivity.
    destruct (search_loop_ok l t (S (List.length l)) 0 (llen l)) as [N P]; [pose proof (llen_nonneg l); lia|lia|unfold llen; lia|].
    apply np_bind; [apply N|]. intros r R. specialize (P r R).
    destruct (r <? llen l) eqn:E; [|reflexivity]. apply Z.ltb_lt in E.
    apply np_bind; [apply go_index_np; unfold llen in *; lia|]. intros. unfold vint. np_crush.
  Qed.
End NP3.

(* ---- the whole dispatcher ------------------------------------------------------------------ *)
Definition arity_ok (name : string) (n : nat) : bool :=
  match assoc name model_table with
  | Some (mask, _, _) =>
      match n with
      | 0%nat => N.testbit mask 0 | 1%nat => N.testbit mask 1 | 2%nat => N.testbit mask 2 | 3%nat => N.testbit mask 3
      | _ => false
      end
  | None => false
  end.

Lemma math2_arity name n : mem name math2_names = true -> arity_ok name n = true -> n = 2%nat.
Proof.
  unfold mem, math2_names. cbn [existsb]. intros H.
  repeat (apply orb_true_iff in H; destruct H as [H|H]); try discriminate;
    apply String.eqb_eq in H; subst name; destruct n as [|[|[|[|n]]]]; vm_compute; congruence.
Qed.
Lemma math3_arity name n : mem name math3_names = true -> arity_ok name n = true -> n = 3%nat.
Proof.
  unfold mem, math3_names. cbn [existsb]. intros H.
  repeat (apply orb_true_iff in H; destruct H as [H|H]); try discriminate;
    apply String.eqb_eq in H; subst name; destruct n as [|[|[|[|n]]]]; vm_compute; congruence.
Qed.
