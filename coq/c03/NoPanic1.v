(* C03 dispatch_total, part 1: operators, add, scalar natives, string natives, formats. *)
From Coq Require Import List ZArith NArith Bool String Lia.
From Flocq Require Import IEEE754.BinarySingleNaN.
From Verif Require Import common.Sexp common.Int64 c03.JV c03.Core c03.Ops c03.Natives c03.Wf.
Import ListNotations.
Open Scope Z_scope.

Ltac np_step :=
  match goal with
  | |- np (Val _) => reflexivity
  | |- np (Err _) => reflexivity
  | |- np (bind _ _) => apply np_bind; [| intros ? ?]
  | |- np (match ?x with _ => _ end) => destruct x eqn:?
  | |- np (if ?c then _ else _) => destruct c eqn:?
  | |- np (let (_, _) := ?x in _) => destruct x eqn:?
  end.
Ltac np_crush := repeat np_step.

Section NP1.
  Variable pf : bytes -> option float.
  Variable ff : float -> bytes.

  Lemma binop_switch_np {T} l r (ci : Z -> Z -> outcome T) cf cb cs ca cm fb :
    (forall a b, np (ci a b)) -> (forall a b, np (cf a b)) -> (forall a b, np (cb a b)) ->
    (forall a b, np (cs a b)) -> (forall a b, np (ca a b)) -> (forall a b, np (cm a b)) ->
    (forall a b, np (fb a b)) -> np (binop_switch pf l r ci cf cb cs ca cm fb).
  Proof.
    intros. unfold binop_switch.
    destruct (norm pf l) as [| | [| | |] | | | |]; destruct (norm pf r) as [| | [| | |] | | | |]; auto.
  Qed.

  Lemma repeat_string_np s n : np (repeat_string s n).
  Proof. unfold repeat_string. np_crush. Qed.

  Lemma op_add_np l r : np (op_add pf l r).
  Proof. unfold op_add. apply binop_switch_np; intros; unfold vnum, vflt; np_crush. Qed.
  Lemma op_sub_np l r : np (op_sub pf l r).
  Proof. unfold op_sub. apply binop_switch_np; intros; unfold vnum, vflt, ebin; np_crush. Qed.
  Lemma op_mul_np l r : np (op_mul pf l r).
  Proof.
    unfold op_mul. apply binop_switch_np; intros; unfold vnum, vflt; try solve [np_crush].
    np_crush; apply repeat_string_np.
  Qed.
  Lemma op_div_np l r : np (op_div pf l r).
  Proof. unfold op_div. apply binop_switch_np; intros; unfold vnum, vflt, ebin; np_crush. Qed.
  Lemma op_mod_np l r : np (op_mod pf l r).
  Proof. unfold op_mod. apply binop_switch_np; intros; unfold vnum, vflt, ebin; np_crush. Qed.
  Lemma op_alt_np l r : np (op_alt l r).
  Proof. unfold op_alt. np_crush. Qed.
  Lemma op_cmp_np t l r : np (op_cmp pf t l r).
  Proof. reflexivity. Qed.
  Lemma op_plus_np v : np (op_plus v).
  Proof. unfold op_plus. np_crush. Qed.
  Lemma op_negate_np v : np (op_negate v).
  Proof. unfold op_negate, vnum, vflt. np_crush. Qed.

  Lemma add_step_np v x : np (add_step pf v x).
  Proof. unfold add_step. np_crush; apply op_add_np. Qed.
  Lemma add_seq_np xs : forall v, np (add_seq pf v xs).
  Proof. induction xs; intros; simpl; [reflexivity|]. apply np_bind; [apply add_step_np|auto]. Qed.

  (* encoder and TypeOf: the only panic is a non-value *)
  Lemma encode_np v : hole_free v = true -> np (encode ff v).
  Proof.
    induction v using jv_ind'; intros HF; simpl in *; try reflexivity; try discriminate.
    - destruct b; reflexivity.
    - apply np_bind; [|reflexivity].
      assert (G : forall first, np ((fix go (l0 : list jv) (first : bool) {struct l0} : outcome bytes :=
                  match l0 with
                  | [] => Val []
                  | x :: r => do ex <- encode ff x; do er <- go r false; Val ((if first then [] else [44%N]) ++ ex ++ er)
                  end) l first)).
      { induction H; intros; [reflexivity|]. simpl in HF. apply andb_true_iff in HF as [HF1 HF2].
        apply np_bind; [auto|]. intros. apply np_bind; [auto|reflexivity]. }
      apply G.
    - apply np_bind; [|reflexivity].
      assert (G : forall first, np ((fix go (m0 : list (bytes * jv)) (first : bool) {struct m0} : outcome bytes :=
                  match m0 with
                  | [] => Val []
                  | (k, x) :: r => do ex <- encode ff x; do er <- go r false;
                                   Val ((if first then [] else [44%N]) ++ encode_string k ++ 58%N :: ex ++ er)
                  end) m first)).
      { induction H; intros; [reflexivity|]. destruct x as [k x]. simpl in HF. apply andb_true_iff in HF as [HF1 HF2].
        apply np_bind; [auto|]. intros. apply np_bind; [auto|reflexivity]. }
      apply G.
  Qed.
  Lemma type_of_np v : hole_free v = true -> np (type_of v).
  Proof. destruct v; simpl; intros; try reflexivity; discriminate. Qed.

  Lemma omap_np {A B} (f : A -> outcome B) l : (forall x, In x l -> np (f x)) -> np (omap f l).
  Proof.
    induction l; intros H; simpl; [reflexivity|].
    apply np_bind; [apply H; left; reflexivity|]. intros. apply np_bind; [|reflexivity].
    apply IHl. intros; apply H; right; auto.
  Qed.
  Lemma hole_free_in l x : forallb hole_free l = true -> In x l -> hole_free x = true.
  Proof. intros H I. rewrite forallb_forall in H. auto. Qed.

  (* scalar natives *)
  Lemma f_abs_np v : np (f_abs v). Proof. unfold f_abs. np_crush. Qed.
  Lemma f_length_np v : np (f_length v). Proof. unfold f_length, vint. np_crush. Qed.
  Lemma f_utf8bytelength_np v : np (f_utf8bytelength v). Proof. unfold f_utf8bytelength. np_crush. Qed.
  Lemma f_keys_np v : np (f_keys v). Proof. unfold f_keys. np_crush. Qed.
  Lemma f_has_np v x : np (f_has pf v x). Proof. unfold f_has, vbool. np_crush. Qed.
  Lemma f_add_np v : np (f_add pf v). Proof. unfold f_add. np_crush. apply add_seq_np. Qed.
  Lemma f_toboolean_np v : np (f_toboolean v). Proof. unfold f_toboolean, vbool. np_crush. Qed.
  Lemma f_tonumber_np v : np (f_tonumber pf v). Proof. unfold f_tonumber. np_crush. Qed.
  Lemma f_tojson_np v : hole_free v = true -> np (f_tojson ff v).
  Proof. intros. unfold f_tojson. apply np_bind; [apply encode_np; auto|reflexivity]. Qed.
  Lemma f_tostring_np v : hole_free v = true -> np (f_tostring ff v).
  Proof. intros. unfold f_tostring. destruct v; try reflexivity; apply f_tojson_np; auto. Qed.
  Lemma f_type_np v : hole_free v = true -> np (f_type v).
  Proof. intros. unfold f_type. apply np_bind; [apply type_of_np; auto|reflexivity]. Qed.
  Lemma f_reverse_np v : np (f_reverse v). Proof. unfold f_reverse. np_crush. Qed.

  Lemma str2_np f v x : np (str2 f v x). Proof. unfold str2. np_crush. Qed.
  Lemma str1_np f v : np (str1 f v). Proof. unfold str1. np_crush. Qed.
  Lemma f_implode_np v : np (f_implode pf v).
  Proof. unfold f_implode, vstr. np_crush. apply omap_np. intros. np_crush. Qed.
  Lemma f_split_np v x : np (f_split v x). Proof. unfold f_split. np_crush. Qed.

  Lemma join_items_np vs : forallb hole_free vs = true -> forall first sep, np (join_items ff first sep vs).
  Proof.
    induction vs; intros HF first sep; simpl; [reflexivity|]. simpl in HF. apply andb_true_iff in HF as [H1 H2].
    apply np_bind.
    - destruct a; try reflexivity; (apply np_bind; [apply encode_np; auto|reflexivity]).
    - intros. apply np_bind; [auto|reflexivity].
  Qed.
  Lemma values_hole_free v vs : hole_free v = true -> values v = Some vs -> forallb hole_free vs = true.
  Proof.
    destruct v; simpl; intros H E; inversion E; subst; auto.
    clear E. induction m; simpl in *; auto. apply andb_true_iff in H as [? ?]. rewrite H. simpl. auto.
  Qed.
  Lemma f_join_np v x : hole_free v = true -> np (f_join pf ff v x).
  Proof.
    intros HF. unfold f_join. destruct (values v) eqn:E; [|reflexivity]. destruct l; [reflexivity|].
    apply np_bind; [apply join_items_np; eapply values_hole_free; eauto|]. intros. apply add_seq_np.
  Qed.
  Lemma f_fromjson_np jd v : np (f_fromjson jd v). Proof. unfold f_fromjson. np_crush. Qed.

  (* formats *)
  Lemma to_string_bytes_np v : hole_free v = true -> np (to_string_bytes ff v).
  Proof. intros. destruct v; try reflexivity; apply encode_np; auto. Qed.
  Ltac fmt1 := intros; apply np_bind; [apply to_string_bytes_np; auto|intros; unfold vstr; np_crush].
  Lemma f_tohtml_np v : hole_free v = true -> np (f_tohtml ff v). Proof. unfold f_tohtml. fmt1. Qed.
  Lemma f_touri_np v : hole_free v = true -> np (f_touri ff v). Proof. unfold f_touri. fmt1. Qed.
  Lemma f_tourid_np v : hole_free v = true -> np (f_tourid ff v). Proof. unfold f_tourid. fmt1. Qed.
  Lemma f_tobase64_np v : hole_free v = true -> np (f_tobase64 ff v). Proof. unfold f_tobase64. fmt1. Qed.
  Lemma f_tobase64d_np v : hole_free v = true -> np (f_tobase64d ff v). Proof. unfold f_tobase64d. fmt1. Qed.
  Lemma format_join_np sh sep esc v : hole_free v = true -> np (format_join ff sh sep esc v).
  Proof.
    intros HF. unfold format_join. destruct v; try reflexivity. simpl in HF.
    apply np_bind; [|reflexivity]. apply omap_np. intros x I.
    pose proof (hole_free_in _ _ HF I). destruct x; try reflexivity; try discriminate;
      (apply np_bind; [apply encode_np; auto|reflexivity]).
  Qed.
  Lemma f_tocsv_np v : hole_free v = true -> np (f_tocsv ff v). Proof. apply format_join_np. Qed.
  Lemma f_totsv_np v : hole_free v = true -> np (f_totsv ff v). Proof. apply format_join_np. Qed.
  Lemma f_tosh_np v : hole_free v = true -> np (f_tosh ff v).
  Proof. intros. unfold f_tosh. apply format_join_np. destruct v; simpl in *; rewrite ?H; auto. Qed.
  Lemma f_format_np v x : hole_free v = true -> np (f_format ff v x).
  Proof.
    intros. unfold f_format. destruct x; try reflexivity.
    repeat match goal with |- np (if ?c then _ else _) => destruct c end;
      auto using f_tostring_np, f_tojson_np, f_tohtml_np, f_touri_np, f_tourid_np, f_tocsv_np, f_totsv_np, f_tosh_np, f_tobase64_np, f_tobase64d_np.
    reflexivity.
  Qed.

  (* math and predicates *)
  Lemma f_math1_np l1 n v : np (f_math1 pf l1 n v). Proof. unfold f_math1. np_crush. Qed.
  Lemma f_math2_np l2 n x y : np (f_math2 pf l2 n x y). Proof. unfold f_math2. np_crush. Qed.
  Lemma f_math3_np l3 n a b c : np (f_math3 pf l3 n a b c). Proof. unfold f_math3. np_crush. Qed.
  Lemma f_pair_np lp n v : np (f_pair pf lp n v). Proof. unfold f_pair. np_crush. Qed.
  Lemma f_isfinite_np v : np (f_isfinite pf v). Proof. reflexivity. Qed.
  Lemma f_isinfinite_np v : np (f_isinfinite pf v). Proof. reflexivity. Qed.
  Lemma f_isnan_np v : np (f_isnan pf v). Proof. unfold f_isnan, vbool. np_crush. Qed.
  Lemma f_isnormal_np v : np (f_isnormal pf v). Proof. reflexivity. Qed.
  Lemma f_error_np v args : np (f_error v args). Proof. unfold f_error. np_crush. Qed.
  Lemma f_halt_error_np v args : np (f_halt_error pf v args). Proof. unfold f_halt_error. np_crush. Qed.
  Lemma f_flatten_np v args : np (f_flatten pf v args). Proof. unfold f_flatten. np_crush. Qed.
End NP1.
