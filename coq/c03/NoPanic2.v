(* C03 dispatch_total, part 2: the natives with Go operations that can panic (indexing, slicing, type
   assertions): contains, indices, _index, _slice, _range, min/max, group_by, setpath, delpaths, getpath,
   transpose, bsearch. *)
From Coq Require Import List ZArith NArith Bool String Lia.
From Flocq Require Import IEEE754.BinarySingleNaN.
From Verif Require Import common.Sexp common.Int64 c03.JV c03.Core c03.Ops c03.Natives c03.Wf c03.NoPanic1.
Import ListNotations.
Open Scope Z_scope.

Ltac zb :=
  repeat match goal with
  | H : (_ <? _) = true |- _ => apply Z.ltb_lt in H
  | H : (_ <? _) = false |- _ => apply Z.ltb_ge in H
  | H : (_ <=? _) = true |- _ => apply Z.leb_le in H
  | H : (_ <=? _) = false |- _ => apply Z.leb_gt in H
  | H : (_ =? _) = true |- _ => apply Z.eqb_eq in H
  | H : (_ =? _) = false |- _ => apply Z.eqb_neq in H
  | H : (_ && _) = true |- _ => apply andb_true_iff in H; destruct H
  | H : (_ || _) = false |- _ => apply orb_false_iff in H; destruct H
  | H : negb _ = true |- _ => apply negb_true_iff in H
  | H : negb _ = false |- _ => apply negb_false_iff in H
  end.

Lemma llen_nonneg {A} (l : list A) : 0 <= llen l.
Proof. unfold llen. lia. Qed.

Lemma clamp_index_range i mn mx : mn <= mx -> mn <= clamp_index i mn mx <= mx.
Proof.
  intros. unfold clamp_index.
  destruct (i <? 0); [destruct (wrap64 (i + mx) <? mn) eqn:?; [lia|destruct (wrap64 (i + mx) <? mx) eqn:?; zb; lia]
                     |destruct (i <? mn) eqn:?; [lia|destruct (i <? mx) eqn:?; zb; lia]].
Qed.

Section NP2.
  Variable pf : bytes -> option float.
  Variable ff : float -> bytes.

  (* ---- contains ---- *)
  Lemma norm_arr v a : norm pf v = JArr a -> v = JArr a.
  Proof. destruct v as [| |[]| | | |]; simpl; intros H; try discriminate; auto; destruct (parse_number pf t); discriminate. Qed.
  Lemma norm_obj v a : norm pf v = JObj a -> v = JObj a.
  Proof. destruct v as [| |[]| | | |]; simpl; intros H; try discriminate; auto; destruct (parse_number pf t); discriminate. Qed.

  Lemma iface_eq_np l r :
    (forall a b, l = JArr a -> r = JArr b -> False) -> (forall a b, l = JObj a -> r = JObj b -> False) -> np (iface_eq l r).
  Proof.
    intros H1 H2. destruct l as [| |[]| | | |]; destruct r as [| |[]| | | |]; try reflexivity.
    - exfalso; eapply H1; eauto.
    - exfalso; eapply H2; eauto.
  Qed.
  Lemma contains_fallback_np l r :
    (forall a b, l = JArr a -> r = JArr b -> False) -> (forall a b, l = JObj a -> r = JObj b -> False) ->
    np (contains_fallback l r).
  Proof. intros. unfold contains_fallback. apply np_bind; [apply iface_eq_np; auto|intros []; reflexivity]. Qed.

  Lemma contains_scalar_np l r :
    (forall a, l <> JArr a) -> (forall a, l <> JObj a) -> np (contains_scalar pf l r).
  Proof.
    intros HA HO. unfold contains_scalar, binop_switch.
    destruct (norm pf l) as [| |[]| | | |] eqn:EL; destruct (norm pf r) as [| |[]| | | |] eqn:ER;
      try reflexivity; try (apply contains_fallback_np; intros; discriminate).
    - apply norm_arr in EL. exfalso; eapply HA; eauto.
    - apply norm_obj in EL. exfalso; eapply HO; eauto.
  Qed.

  Lemma is_true_np o : np o -> np (is_true o).
  Proof. destruct o; auto. Qed.
  Lemma oexists_np {A} (f : A -> outcome bool) l : (forall x, In x l -> np (f x)) -> np (oexists f l).
  Proof.
    induction l; intros H; simpl; [reflexivity|]. apply np_bind; [apply H; left; auto|].
    intros [] _; [reflexivity|]. apply IHl. intros; apply H; right; auto.
  Qed.
  Lemma oforall_np {A} (f : A -> outcome bool) l : (forall x, In x l -> np (f x)) -> np (oforall f l).
  Proof.
    induction l; intros H; simpl; [reflexivity|]. apply np_bind; [apply H; left; auto|].
    intros [] _; [|reflexivity]. apply IHl. intros; apply H; right; auto.
  Qed.

  Lemma contains_np l : forall r, np (contains pf l r).
  Proof.
    induction l using jv_ind'; intros r; try (apply contains_scalar_np; intros; discriminate).
    - (* array *)
      simpl. destruct (norm pf r) eqn:ER; try (apply contains_fallback_np; intros; discriminate).
      apply oforall_np. intros ri _. apply oexists_np. intros lj I. apply is_true_np.
      rewrite Forall_forall in H. apply H; auto.
    - (* object *)
      simpl. destruct (norm pf r) eqn:ER; try (apply contains_fallback_np; intros; discriminate).
      destruct (llen m <? llen m0); [reflexivity|].
      apply oforall_np. intros [k rv] _.
      induction H; [reflexivity|]. destruct x as [k' lv]. destruct (bytes_eqb k k'); [apply is_true_np; apply H|auto].
  Qed.
  Lemma f_contains_np v x : np (f_contains pf v x).
  Proof. unfold f_contains. apply np_bind; [apply contains_np|reflexivity]. Qed.

  (* ---- indices ---- *)
  Lemma window_eq_np vs xs i : 0 <= i -> i + llen xs <= llen vs -> np (window_eq pf vs xs i).
  Proof.
    intros. unfold window_eq. apply np_bind; [|reflexivity]. apply go_slice_np; unfold llen in *; lia.
  Qed.
  Lemma scan_up_np vs xs cnt : forall i, 0 <= i -> i + Z.of_nat cnt + llen xs <= llen vs + 1 -> np (scan_up pf cnt i vs xs).
  Proof.
    induction cnt; intros i H0 H1; simpl; [reflexivity|].
    apply np_bind; [apply window_eq_np; lia|]. intros. apply np_bind; [apply IHcnt; lia|reflexivity].
  Qed.
  Lemma scan_np vs xs : np (scan_up pf (window_count vs xs) 0 vs xs).
  Proof.
    unfold window_count.
    destruct (Z_le_gt_dec 0 (llen vs - llen xs + 1)).
    - apply scan_up_np; [lia|]. rewrite Z2Nat.id by lia; lia.
    - replace (Z.to_nat (llen vs - llen xs + 1)) with 0%nat by lia. reflexivity.
  Qed.
  Lemma indices_np vs xs : np (indices pf vs xs).
  Proof. unfold indices. destruct xs; [reflexivity|]. apply np_bind; [apply scan_np|reflexivity]. Qed.
  Lemma index_first_np vs xs : np (index_first pf vs xs).
  Proof. unfold index_first. destruct xs; [reflexivity|]. apply np_bind; [apply scan_np|reflexivity]. Qed.
  Lemma index_last_np vs xs : np (index_last pf vs xs).
  Proof. unfold index_last. destruct xs; [reflexivity|]. apply np_bind; [apply scan_np|reflexivity]. Qed.
  Lemma index_func_np f v x : (forall a b, np (f a b)) -> np (index_func f v x).
  Proof. intros. unfold index_func. np_crush; auto. Qed.

  (* ---- _index / _slice ---- *)
  Lemma index_arr_np vs i : np (index_arr vs i).
  Proof. unfold index_arr. np_crush. zb. apply go_index_np. unfold llen in *. lia. Qed.
  Lemma index_str_np s i : np (index_str s i).
  Proof.
    unfold index_str. np_crush.
    - zb. apply go_index_np. unfold llen in *. lia.
    - reflexivity.
  Qed.

  Lemma slice_bounds_np len e s er : np (slice_bounds pf len e s er).
  Proof. unfold slice_bounds. np_crush. Qed.
  Lemma slice_bounds_val len e s er a b : 0 <= len -> slice_bounds pf len e s er = Val (a, b) -> 0 <= a <= b /\ b <= len.
  Proof.
    intros HL. unfold slice_bounds.
    set (st := match s with JNull => Val 0 | _ => match to_int pf s with Some i => Val (clamp_index i 0 len) | None => Err er end end).
    assert (HS : forall x, st = Val x -> 0 <= x <= len).
    { subst st. intros x. destruct s; try (intros E; inversion E; lia);
        (destruct (to_int pf _); [intros E; inversion E; apply clamp_index_range; lia|discriminate]). }
    destruct st as [x| |]; simpl; try discriminate. specialize (HS x eq_refl).
    set (en := match e with JNull => Val len | _ => match to_int_ceil pf e with Some i => Val (clamp_index i x len) | None => Err er end end).
    assert (HE : forall y, en = Val y -> x <= y <= len).
    { subst en. intros y. destruct e; try (intros E; inversion E; lia);
        (destruct (to_int_ceil pf _); [intros E; inversion E; apply clamp_index_range; lia|discriminate]). }
    destruct en as [y| |]; simpl; try discriminate. specialize (HE y eq_refl).
    intros E; inversion E; subst. lia.
  Qed.
  Lemma slice_arr_np vs e s : np (slice_arr pf vs e s).
  Proof.
    unfold slice_arr. apply np_bind; [apply slice_bounds_np|]. intros [a b] E.
    apply slice_bounds_val in E; [|apply llen_nonneg]. simpl.
    apply np_bind; [|reflexivity]. apply go_slice_np; unfold llen in *; lia.
  Qed.

  (* the runes of a string partition its bytes *)
  Lemma unchunk_cons r bs cs : unchunk ((r, bs) :: cs) = bs ++ unchunk cs.
  Proof. reflexivity. Qed.
  Lemma unchunk_chunks_aux n : forall s, (List.length s <= n)%nat -> unchunk (chunks s) = s.
  Proof.
    induction n; intros s HL.
    - destruct s; [reflexivity|simpl in HL; lia].
    - destruct s as [|b0 r]; [reflexivity|].
      assert (IH : forall t, (List.length t <= List.length r)%nat -> unchunk (chunks t) = t).
      { intros; apply IHn; simpl in HL; lia. }
      cbn [chunks].
      destruct r as [|b1 [|b2 [|b3 r3]]];
        repeat match goal with |- context [if ?c then _ else _] => destruct c end;
        rewrite ?unchunk_cons; rewrite ?IH by (simpl; lia); reflexivity.
  Qed.
  Lemma unchunk_chunks s : unchunk (chunks s) = s.
  Proof. eapply unchunk_chunks_aux; eauto. Qed.

  Lemma prefix_len_mono {A} (cs : list (A * bytes)) : forall i j, (i <= j)%nat ->
    (List.length (flat_map snd (firstn i cs)) <= List.length (flat_map snd (firstn j cs)))%nat.
  Proof.
    induction cs; intros i j H; [rewrite !firstn_nil; simpl; lia|].
    destruct i; [simpl; lia|]. destruct j; [lia|]. simpl. rewrite !app_length. specialize (IHcs i j). lia.
  Qed.
  Lemma prefix_len_le {A} (cs : list (A * bytes)) i :
    (List.length (flat_map snd (firstn i cs)) <= List.length (flat_map snd cs))%nat.
  Proof.
    rewrite <- (firstn_all cs) at 2. destruct (Nat.le_gt_cases i (List.length cs)).
    - apply prefix_len_mono; auto.
    - rewrite firstn_all2 by lia. rewrite firstn_all. lia.
  Qed.

  Lemma slice_str_np v e s : np (slice_str pf v e s).
  Proof.
    unfold slice_str. apply np_bind; [apply slice_bounds_np|]. intros [a b] E.
    apply slice_bounds_val in E; [|apply llen_nonneg]. cbn [fst snd].
    apply np_bind; [|reflexivity].
    assert (HV : llen (unchunk (chunks v)) = llen v) by (rewrite unchunk_chunks; reflexivity).
    assert (M : forall i j, 0 <= i <= j -> byte_offset (chunks v) i <= byte_offset (chunks v) j).
    { intros. unfold byte_offset, llen, unchunk. apply inj_le. apply prefix_len_mono. lia. }
    assert (U : forall i, byte_offset (chunks v) i <= llen v).
    { intros. rewrite <- HV. unfold byte_offset, llen, unchunk. apply inj_le. apply prefix_len_le. }
    assert (Z0 : forall i, 0 <= byte_offset (chunks v) i) by (intros; apply llen_nonneg).
    apply go_slice_np.
    - destruct (a <? llen (chunks v)) eqn:Ea; destruct (b <? llen (chunks v)) eqn:Eb; zb.
      + split; [apply Z0|apply M; lia].
      + split; [apply Z0|apply U].
      + lia.
      + pose proof (llen_nonneg v). lia.
    - destruct (b <? llen (chunks v)); [apply U|unfold llen; lia].
  Qed.
  Lemma f_slice_np v e s : np (f_slice pf v e s).
  Proof. unfold f_slice. destruct v; try reflexivity; [apply slice_str_np|apply slice_arr_np]. Qed.

  Lemma f_index2_np v x : np (f_index2 pf v x).
  Proof.
    unfold f_index2. destruct x; try solve [np_crush].
    - destruct v; try reflexivity; [apply index_str_np|apply index_arr_np].
    - destruct v; try reflexivity. apply indices_np.
    - np_crush; apply f_slice_np.
  Qed.

  (* ---- _range ---- *)
  Lemma range_seq_np fuel : forall v e s, np (range_seq pf fuel v e s).
  Proof.
    induction fuel; intros; simpl; destruct (0 <=? _); try reflexivity.
    apply np_bind; [apply op_add_np|]. intros. apply np_bind; [apply IHfuel|reflexivity].
  Qed.
  Lemma f_range_np fuel args : List.length args = 3%nat -> np (f_range pf fuel args).
  Proof.
    intros HL. unfold f_range. destruct (find _ args); [reflexivity|].
    apply np_bind; [apply go_index_np; lia|]. intros. apply np_bind; [apply go_index_np; lia|].
    intros. apply np_bind; [apply go_index_np; lia|]. intros. apply range_seq_np.
  Qed.

  (* ---- min / max ---- *)
  Lemma min_max_loop_bound b xs : forall i j x, 0 <= j < i -> 0 <= min_max_loop pf b xs i j x < i + llen xs.
  Proof.
    induction xs; intros i j x H; simpl.
    - unfold llen; simpl; lia.
    - assert (L : llen (a :: xs) = 1 + llen xs) by (unfold llen; cbn [List.length]; lia). rewrite L.
      destruct (Bool.eqb _ b); [specialize (IHxs (i + 1) i a)|specialize (IHxs (i + 1) j x)]; lia.
  Qed.
  Lemma min_max_by_np b vs xs : llen vs = llen xs -> np (min_max_by pf b vs xs).
  Proof.
    intros HL. unfold min_max_by. destruct vs as [|v0 vs']; [reflexivity|].
    destruct xs as [|x0 xs']; [unfold llen in HL; simpl in HL; lia|].
    apply np_bind; [apply go_index_np; simpl; lia|]. intros a _. simpl tl.
    apply go_index_np. pose proof (min_max_loop_bound b xs' 1 0 a ltac:(lia)).
    unfold llen in *. cbn [List.length] in *. lia.
  Qed.
  Lemma f_minmax_np b v : np (f_minmax pf b v).
  Proof. unfold f_minmax. destruct v; try reflexivity. apply min_max_by_np. reflexivity. Qed.
  Lemma f_minmax_by_np b v x : np (f_minmax_by pf b v x).
  Proof.
    unfold f_minmax_by. destruct v; try reflexivity. destruct x; try reflexivity.
    destruct (llen l =? llen l0) eqn:E; simpl; [|reflexivity]. zb. apply min_max_by_np. auto.
  Qed.

  (* ---- sort / group / unique ---- *)
  Lemma sort_items_np by_ v x : np (sort_items pf by_ v x).
  Proof. unfold sort_items. np_crush. Qed.
  Lemma f_sort_by_np by_ v x : np (f_sort_by pf by_ v x).
  Proof. unfold f_sort_by. apply np_bind; [apply sort_items_np|reflexivity]. Qed.
  Lemma group_loop_np items : forall first last rg, (first = false -> rg <> []) -> np (group_loop pf items first last rg).
  Proof.
    induction items as [|[v k] items IH]; intros first last rg H; simpl; [reflexivity|].
    destruct (first || negb (compare pf last k =? 0)) eqn:E.
    - apply IH. intros _; discriminate.
    - destruct rg as [|g gs]; [apply orb_false_iff in E as [E _]; exfalso; apply H; auto|].
      apply IH. intros _; discriminate.
  Qed.
  Lemma f_group_by_np v x : np (f_group_by pf v x).
  Proof.
    unfold f_group_by. apply np_bind; [apply sort_items_np|]. intros.
    apply np_bind; [apply group_loop_np; discriminate|reflexivity].
  Qed.
  Lemma f_unique_by_np by_ v x : np (f_unique_by pf by_ v x).
  Proof. unfold f_unique_by. apply np_bind; [apply sort_items_np|reflexivity]. Qed.
End NP2.
