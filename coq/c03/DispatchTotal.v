(* C03 dispatch_total: every modelled native, called with an argument count its table entry accepts on
   values a gojq iterator can carry, returns a value or a (classified) error -- never a Go panic. *)
From Coq Require Import List ZArith NArith Bool String Lia.
From Flocq Require Import IEEE754.BinarySingleNaN.
From Verif Require Import common.Sexp common.Int64 c03.JV c03.Core c03.Ops c03.Natives c03.Dispatch c03.Wf
  c03.NoPanic1 c03.NoPanic2 c03.NoPanic3.
Import ListNotations.
Open Scope Z_scope.

Section Total.
  Variable pf : bytes -> option float.
  Variable ff : float -> bytes.
  Variable l1 : string -> float -> float.
  Variable l2 : string -> float -> float -> float.
  Variable l3 : string -> float -> float -> float -> float.
  Variable jd : bytes -> jv + bool.
  Variable lp : string -> float -> jv.

  Hint Resolve f_abs_np f_length_np f_utf8bytelength_np f_keys_np f_has_np f_add_np f_toboolean_np f_tonumber_np
    f_tojson_np f_tostring_np f_type_np f_reverse_np f_contains_np str2_np str1_np f_implode_np f_split_np
    f_join_np f_fromjson_np f_tohtml_np f_touri_np f_tourid_np f_tobase64_np f_tobase64d_np f_tocsv_np f_totsv_np
    f_tosh_np f_format_np f_math1_np f_math2_np f_math3_np f_pair_np f_isfinite_np f_isinfinite_np f_isnan_np
    f_isnormal_np f_error_np f_halt_error_np f_flatten_np op_add_np op_sub_np op_mul_np op_div_np op_mod_np
    op_alt_np op_cmp_np op_plus_np op_negate_np index_func_np indices_np index_first_np index_last_np
    f_index2_np f_slice_np f_minmax_np f_minmax_by_np f_sort_by_np f_group_by_np f_unique_by_np f_setpath_np
    f_delpaths_np f_getpath_np f_transpose_np f_bsearch_np : npdb.

  Ltac args_arity HA :=
    match goal with args : list jv |- _ =>
      destruct args as [|?a0 [|?a1 [|?a2 [|?a3 ?rest]]]]; vm_compute in HA; try discriminate HA
    end.
  Ltac solve_np :=
    try (apply np_bind; [|reflexivity]);
    repeat (apply np_bind; [apply go_index_np; cbn [List.length]; lia | intros ? _]);
    unfold f_inside, f_indices, f_index, f_rindex, f_startswith, f_endswith, f_ltrimstr, f_rtrimstr, f_trimstr,
      f_ltrim, f_rtrim, f_trim, f_explode, f_ascii_downcase, f_ascii_upcase;
    try (apply f_range_np; reflexivity);
    auto with npdb.

  Theorem dispatch_total : forall fuel name v args o,
    hole_free v = true -> arity_ok name (List.length args) = true ->
    call_native pf ff l1 l2 l3 jd lp fuel name v args = Some o -> np o.
  Proof.
    intros fuel name v args o HV HA H. unfold call_native in H.
    repeat match type of H with
    | (if String.eqb ?nm ?s then _ else _) = Some _ =>
        destruct (String.eqb nm s) eqn:E;
        [apply String.eqb_eq in E; subst name; inversion H; subst o; clear H; args_arity HA; solve_np | clear E]
    end.
    (* math1 *)
    destruct (mem name math1_names) eqn:E1.
    { inversion H; subst o. solve_np. }
    destruct (mem name math2_names) eqn:E2.
    { pose proof (math2_arity _ _ E2 HA) as L. destruct args as [|a0 [|a1 [|a2 r]]]; try discriminate L.
      inversion H; subst o. solve_np. }
    destruct (mem name math3_names) eqn:E3.
    { pose proof (math3_arity _ _ E3 HA) as L. destruct args as [|a0 [|a1 [|a2 [|a3 r]]]]; try discriminate L.
      inversion H; subst o. solve_np. }
    repeat match type of H with
    | (if String.eqb ?nm ?s then _ else _) = Some _ =>
        destruct (String.eqb nm s) eqn:E;
        [apply String.eqb_eq in E; subst name; inversion H; subst o; clear H; args_arity HA; solve_np | clear E]
    end.
    discriminate.
  Qed.
End Total.
