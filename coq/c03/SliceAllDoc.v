(* C03 meets_doc: _slice/3 (.[s:e], funcSlice / slice / sliceString) on EVERY input and bound type: null, arrays and
   arbitrary byte strings (sliced by characters: the chunks of Go's UTF-8 decoding, an invalid byte being one
   character that is kept verbatim); bounds null, integers in any representation, doubles and fraction literals
   (start truncated, end rounded up, then counted from the end when negative, then clamped); every other bound or
   input type is an error.  Containers shorter than 2^63. *)
From Coq Require Import List ZArith NArith Bool String Lia.
From Flocq Require Import IEEE754.BinarySingleNaN.
From Verif Require Import common.Sexp common.Int64 c03.JV c03.Core c03.Ops c03.Natives c03.Spec c03.Wf c03.Denote
  c03.CompareDoc c03.OpsDoc c03.NativesDoc c03.StringsDoc c03.PathDoc c03.NoPanic2 c03.SliceDoc c03.FloatIntDoc c03.Utf8Doc.
Import ListNotations.
Open Scope Z_scope.

Lemma firstn_plus {A} (l : list A) : forall a k, firstn (a + k) l = firstn a l ++ firstn k (skipn a l).
Proof. induction l as [|x l IH]; intros [|a] k; simpl; try reflexivity; [destruct k; reflexivity|]. rewrite IH. reflexivity. Qed.
Lemma skipn_len_app {A} (x y : list A) : skipn (List.length x) (x ++ y) = y.
Proof. induction x; simpl; auto. Qed.
Lemma firstn_len_app {A} (x y : list A) : firstn (List.length x) (x ++ y) = x.
Proof. induction x; simpl; [destruct y; reflexivity|]. f_equal. auto. Qed.
Lemma flat_map_split {A B} (f : A -> list B) (l : list A) a : flat_map f l = flat_map f (firstn a l) ++ flat_map f (skipn a l).
Proof. rewrite <- flat_map_app, firstn_skipn. reflexivity. Qed.

Lemma go_slice_mid {A} (X Y Z : list A) : go_slice (X ++ Y ++ Z) (llen X) (llen (X ++ Y)) = Val Y.
Proof.
  unfold go_slice, llen. rewrite !app_length.
  replace (Z.of_nat (List.length X) <? 0) with false by (symmetry; apply Z.ltb_ge; lia).
  replace (Z.of_nat (List.length X + List.length Y) <? Z.of_nat (List.length X)) with false by (symmetry; apply Z.ltb_ge; lia).
  replace (Z.of_nat (List.length X + (List.length Y + List.length Z)) <? Z.of_nat (List.length X + List.length Y))
    with false by (symmetry; apply Z.ltb_ge; lia).
  cbn [orb]. f_equal. rewrite Nat2Z.id.
  replace (Z.to_nat (Z.of_nat (List.length X + List.length Y) - Z.of_nat (List.length X))) with (List.length Y) by lia.
  rewrite skipn_len_app. apply firstn_len_app.
Qed.

Section SliceAllDoc.
  Variable pf : bytes -> option float.
  Hypothesis pf_bigint : forall z, big_to_float pf z = Z2F z.
  Notation denote := (denote pf).
  Notation agrees := (agrees pf).

  (* toInt / toIntCeil of a bound are the documented integer bounds, and machine ints *)
  Lemma int_bound_doc b : wf b = true ->
    to_int pf b = s_int_bound false (denote b) /\ to_int_ceil pf b = s_int_bound true (denote b)
    /\ (forall i, s_int_bound false (denote b) = Some i -> in_int i) /\ (forall i, s_int_bound true (denote b) = Some i -> in_int i).
  Proof.
    intros W. rewrite (to_int_denote pf) by auto. rewrite (to_int_ceil_denote pf) by auto. rewrite mv_int_as_index.
    destruct (denote b) eqn:E; cbn [s_int_bound mv_int_ceil]; rewrite ?mv_int_as_index;
      repeat split; try reflexivity; try discriminate; intros;
      repeat match goal with H : _ = Some _ |- _ => cbn [as_index] in H; inversion H; clear H end; subst;
      try (pose proof (float_to_int_in_int f); pose proof (float_to_int_in_int (fnearbyint mode_UP f)));
      unfold in_int, min_int, max_int in *; lia.
  Qed.
  Lemma null_iff b : wf b = true -> (denote b = MNull <-> b = JNull).
  Proof.
    intros W. split; [|intros ->; reflexivity]. destruct b; try reflexivity; try discriminate.
    cbn [Spec.denote]. rewrite denote_num_norm. destruct (norm_num pf n); discriminate.
  Qed.

  Definition sb_start (len : Z) (s : mv) : option Z :=
    match s with MNull => Some 0 | _ => option_map (clampz len 0) (s_int_bound false s) end.
  Definition sb_end (len st : Z) (e : mv) : option Z :=
    match e with MNull => Some len | _ => option_map (clampz len st) (s_int_bound true e) end.

  Lemma slice_bounds_any len e s er : 0 <= len <= max_int -> wf e = true -> wf s = true ->
    match sb_start len (denote s) with
    | None => slice_bounds pf len e s er = Err er
    | Some st => 0 <= st <= len /\
        match sb_end len st (denote e) with
        | None => slice_bounds pf len e s er = Err er
        | Some en => st <= en <= len /\ slice_bounds pf len e s er = Val (st, en)
        end
    end.
  Proof.
    intros HL WE WS. unfold slice_bounds.
    destruct (int_bound_doc s WS) as (TS & _ & IS & _). destruct (int_bound_doc e WE) as (_ & TE & _ & IE).
    assert (ST : match s with JNull => Val 0 | _ => match to_int pf s with Some i => Val (clamp_index i 0 len) | None => Err er end end
                 = match sb_start len (denote s) with Some st => Val st | None => Err er end).
    { unfold sb_start. destruct s; try reflexivity; try discriminate.
      rewrite TS. destruct (denote (JNum n)) eqn:D; try (rewrite (denote_jnum pf) in D; destruct (norm_num pf n); discriminate);
        (destruct (s_int_bound false _) as [i|] eqn:B; [|reflexivity]; cbn [option_map]; rewrite clamp_from by (auto; lia); reflexivity). }
    rewrite ST.
    assert (RS : forall st, sb_start len (denote s) = Some st -> 0 <= st <= len).
    { unfold sb_start, clampz. intros st. destruct (denote s); try (intros H; inversion H; lia);
        (destruct (s_int_bound false _); cbn [option_map]; intros H; inversion H; lia). }
    destruct (sb_start len (denote s)) as [st|]; [|reflexivity]. specialize (RS st eq_refl). split; [exact RS|]. cbn [bind].
    assert (EN : match e with JNull => Val len | _ => match to_int_ceil pf e with Some i => Val (clamp_index i st len) | None => Err er end end
                 = match sb_end len st (denote e) with Some en => Val en | None => Err er end).
    { unfold sb_end. destruct e; try reflexivity; try discriminate.
      rewrite TE. destruct (denote (JNum n)) eqn:D; try (rewrite (denote_jnum pf) in D; destruct (norm_num pf n); discriminate);
        (destruct (s_int_bound true _) as [i|] eqn:B; [|reflexivity]; cbn [option_map]; rewrite clamp_from by (auto; lia); reflexivity). }
    rewrite EN.
    assert (RE : forall en, sb_end len st (denote e) = Some en -> st <= en <= len).
    { unfold sb_end, clampz. intros en. destruct (denote e); try (intros H; inversion H; lia);
        (destruct (s_int_bound true _); cbn [option_map]; intros H; inversion H; lia). }
    destruct (sb_end len st (denote e)) as [en|]; [|reflexivity]. specialize (RE en eq_refl). split; [exact RE|]. reflexivity.
  Qed.

  (* byte offsets of character positions *)
  Lemma byte_slice cs st en : 0 <= st <= en -> en <= llen cs ->
    go_slice (unchunk cs) (byte_offset cs st) (byte_offset cs en)
    = Val (unchunk (firstn (Z.to_nat (en - st)) (skipn (Z.to_nat st) cs))).
  Proof.
    intros H1 H2. unfold llen in H2.
    set (a := Z.to_nat st). set (k := Z.to_nat (en - st)).
    assert (EA : Z.to_nat en = (a + k)%nat) by (subst a k; lia).
    pose (X := unchunk (firstn a cs)). pose (Y := unchunk (firstn k (skipn a cs))). pose (Z := unchunk (skipn k (skipn a cs))).
    assert (V : unchunk cs = X ++ Y ++ Z).
    { subst X Y Z. unfold unchunk. rewrite (flat_map_split snd cs a). f_equal. apply flat_map_split. }
    assert (E1 : byte_offset cs st = llen X) by reflexivity.
    assert (E2 : byte_offset cs en = llen (X ++ Y)).
    { unfold byte_offset. rewrite EA, firstn_plus. subst X Y. unfold unchunk. rewrite flat_map_app. reflexivity. }
    rewrite E1, E2, V. apply go_slice_mid.
  Qed.
  Lemma byte_offset_all cs : byte_offset cs (llen cs) = llen (unchunk cs).
  Proof. unfold byte_offset, llen. rewrite Nat2Z.id, firstn_all. reflexivity. Qed.

  Theorem f_slice_all v e s : wf v = true -> wf e = true -> wf s = true -> sized v = true ->
    agrees (f_slice pf v e s) (s_slice_any (denote v) (denote e) (denote s)).
  Proof.
    intros WV WE WS SZ. unfold f_slice.
    destruct v as [| |n|t|l| |]; try discriminate; try reflexivity.
    - cbn [Spec.denote]. rewrite denote_num_norm. destruct (norm_num pf n); reflexivity.
    - (* strings *)
      cbn [Spec.denote s_slice_any]. fold (sb_start (mlen (chunks t)) (denote s)).
      assert (LC : 0 <= llen (chunks t) <= max_int).
      { split; [apply llen_nonneg|]. cbn [sized] in SZ. apply Z.leb_le in SZ.
        assert (H : (List.length (chunks t) <= List.length t)%nat).
        { rewrite <- (unchunk_chunks' t) at 2.
          assert (F : Forall (fun c : N * bytes => (1 <= List.length (snd c))%nat) (chunks t)).
          { eapply Forall_impl; [|apply chunks_ok]. intros c [E|[L _]]; [|rewrite L; apply le_n].
            rewrite <- E. unfold encode_rune. repeat match goal with |- context [if ?c then _ else _] => destruct c end; simpl; lia. }
          induction F as [|c cs Hc Hcs IH]; [simpl; lia|]. cbn [flat_map List.length]. rewrite app_length. unfold bytes in *. cbn [List.length] in *. lia. }
        unfold llen in *. lia. }
      unfold slice_str. change (mlen (chunks t)) with (llen (chunks t)).
      pose proof (slice_bounds_any (llen (chunks t)) e s EStringIndexNotNumber LC WE WS) as B.
      destruct (sb_start (llen (chunks t)) (denote s)) as [st|]; [|rewrite B; exact I].
      destruct B as [RS B]. fold (sb_end (llen (chunks t)) st (denote e)).
      destruct (sb_end (llen (chunks t)) st (denote e)) as [en|]; [|rewrite B; exact I].
      destruct B as [RE B]. rewrite B. cbn [bind fst snd].
      assert (BS : (if st <? llen (chunks t) then byte_offset (chunks t) st else llen t) = byte_offset (chunks t) st).
      { destruct (Z.ltb_spec st (llen (chunks t))); [reflexivity|]. assert (st = llen (chunks t)) by lia. subst st.
        rewrite byte_offset_all. unfold unchunk. rewrite unchunk_chunks'. reflexivity. }
      assert (BE : (if en <? llen (chunks t) then byte_offset (chunks t) en else llen t) = byte_offset (chunks t) en).
      { destruct (Z.ltb_spec en (llen (chunks t))); [reflexivity|]. assert (en = llen (chunks t)) by lia. subst en.
        rewrite byte_offset_all. unfold unchunk. rewrite unchunk_chunks'. reflexivity. }
      rewrite BS, BE. pose proof (byte_slice (chunks t) st en ltac:(lia) ltac:(lia)) as G.
      unfold unchunk in G at 1. rewrite unchunk_chunks' in G. rewrite G. reflexivity.
    - (* arrays *)
      cbn [Spec.denote s_slice_any]. unfold mlen. rewrite map_length. fold (llen l).
      fold (sb_start (llen l) (denote s)).
      assert (LC : 0 <= llen l <= max_int) by (split; [apply llen_nonneg|apply sized_arr; auto]).
      unfold slice_arr.
      pose proof (slice_bounds_any (llen l) e s EArrayIndexNotNumber LC WE WS) as B.
      destruct (sb_start (llen l) (denote s)) as [st|]; [|rewrite B; exact I].
      destruct B as [RS B]. fold (sb_end (llen l) st (denote e)).
      destruct (sb_end (llen l) st (denote e)) as [en|]; [|rewrite B; exact I].
      destruct B as [RE B]. rewrite B. cbn [bind fst snd].
      unfold go_slice.
      replace (st <? 0) with false by (symmetry; apply Z.ltb_ge; lia).
      replace (en <? st) with false by (symmetry; apply Z.ltb_ge; lia).
      replace (Z.of_nat (List.length l) <? en) with false by (symmetry; apply Z.ltb_ge; unfold llen in *; lia).
      cbn [orb bind]. unfold OpsDoc.agrees. cbn [Spec.denote]. rewrite skipn_map, firstn_map. reflexivity.
  Qed.
End SliceAllDoc.
