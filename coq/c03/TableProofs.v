From Coq Require Import List String.
From Verif Require Import gen.GenFuncTable c03.Dispatch.
Import ListNotations.
Lemma table_in_sync : table_diff func_table = [].
Proof. vm_compute. reflexivity. Qed.
