(* C03 meets_doc: .[s:e] (_slice) on null / arrays (and the type errors) with null or integer bounds in any
   representation; arrays shorter than 2^63.  Strings and fractional bounds: correspondence run. *)
From Coq Require Import List ZArith NArith Bool String Lia.
From Flocq Require Import IEEE754.BinarySingleNaN.
From Verif Require Import common.Sexp common.Int64 c03.JV c03.Core c03.Ops c03.Natives c03.Spec c03.Wf c03.Denote
  c03.CompareDoc c03.OpsDoc c03.NativesDoc c03.StringsDoc c03.PathDoc c03.NoPanic2.
Import ListNotations.
Open Scope Z_scope.

Ltac bz :=
  repeat match goal with
  | |- context [?a <? ?b] => destruct (Z.ltb_spec a b)
  | |- context [?a <=? ?b] => destruct (Z.leb_spec a b)
  end.

Lemma clamp_from i st len : in_int i -> 0 <= st <= len -> len <= max_int ->
  clamp_index i st len = Z.max st (Z.max 0 (Z.min len (if i <? 0 then i + len else i))).
Proof.
  intros HI HS HL. unfold clamp_index.
  assert (W : i < 0 -> wrap64 (i + len) = i + len).
  { intros. apply wrap64_id. unfold in_int, min_int, max_int in *. lia. }
  destruct (Z.ltb_spec i 0) as [L|L]; [rewrite (W L)|]; bz; lia.
Qed.

Section SliceDoc.
  Variable pf : bytes -> option float.
  Hypothesis pf_bigint : forall z, big_to_float pf z = Z2F z.
  Notation denote := (denote pf).
  Notation agrees := (agrees pf).
  Notation ragrees := (StringsDoc.ragrees pf).

  Definition no_float (b : jv) : Prop := forall f, denote b <> MFlt f.

  (* a bound: null, an integer (index = toInt), or not a number *)
  Lemma bound_cases b : wf b = true -> no_float b ->
    (b = JNull /\ denote b = MNull)
    \/ (exists n z i, b = JNum n /\ denote b = MInt z /\ in_int i /\ as_index (MInt z) = Some i
                      /\ to_int pf b = Some i /\ to_int_ceil pf b = Some i)
    \/ (to_int pf b = None /\ to_int_ceil pf b = None /\ b <> JNull /\
        match denote b with MNull | MInt _ | MFlt _ => False | _ => True end).
  Proof.
    intros W NF. destruct b as [| |n| | | |]; try discriminate.
    - left; auto.
    - right; right. repeat split; try discriminate; auto; try (destruct b; exact I).
    - right; left. destruct (denote (JNum n)) eqn:E; try (rewrite (denote_jnum pf) in E; destruct (norm_num pf n); discriminate).
      2:{ exfalso. eapply NF; eauto. }
      destruct (int_key_index pf pf_bigint n z W E) as [HI AS].
      exists n, z, (pnum_to_int (norm_num pf n)).
      assert (TC : to_int_ceil pf (JNum n) = Some (pnum_to_int (norm_num pf n))).
      { unfold to_int_ceil. rewrite (denote_jnum pf) in E. destruct (norm_num pf n); try discriminate; reflexivity. }
      repeat split; auto; apply HI.
    - right; right. repeat split; try discriminate; auto.
    - right; right. repeat split; try discriminate; auto.
    - right; right. repeat split; try discriminate; auto.
  Qed.

  Lemma slice_bounds_doc len e s er : 0 <= len <= max_int -> wf e = true -> wf s = true -> no_float e -> no_float s ->
    match s_bound len 0 (denote s) with
    | None => exists x, slice_bounds pf len e s er = Err x
    | Some None => True
    | Some (Some st) =>
        match s_bound len len (denote e) with
        | None => exists x, slice_bounds pf len e s er = Err x
        | Some None => True
        | Some (Some en) => slice_bounds pf len e s er = Val (st, Z.max st en)
        end
    end.
  Proof.
    intros HL WE WS NE NS. unfold slice_bounds.
    destruct (bound_cases s WS NS) as [[-> DS]|[(n & z & i & -> & DS & HI & AS & TI & TC)|(TI & TC & NN & DS)]].
    - rewrite DS. cbn [s_bound bind].
      destruct (bound_cases e WE NE) as [[-> DE]|[(n & z & i & -> & DE & HI & AS & TI & TC)|(TI & TC & NN & DE)]].
      + rewrite DE. cbn [s_bound bind]. f_equal; f_equal; lia.
      + rewrite DE. cbn [s_bound]. rewrite AS, TC. cbn [bind]. rewrite clamp_from by (auto; lia). f_equal; f_equal; lia.
      + destruct e; try congruence; try (simpl in TI; discriminate TI); rewrite TC; destruct (denote _); try contradiction; simpl; eauto.
    - rewrite DS. cbn [s_bound]. rewrite AS, TI. cbn [bind].
      set (st := Z.max 0 (Z.min len (if i <? 0 then i + len else i))).
      assert (ST : clamp_index i 0 len = st) by (rewrite clamp_from by (auto; lia); subst st; lia).
      rewrite ST. assert (0 <= st <= len) by (subst st; lia).
      destruct (bound_cases e WE NE) as [[-> DE]|[(n2 & z2 & i2 & -> & DE & HI2 & AS2 & TI2 & TC2)|(TI2 & TC2 & NN & DE)]].
      + rewrite DE. cbn [s_bound bind]. f_equal; f_equal; lia.
      + rewrite DE. cbn [s_bound]. rewrite AS2, TC2. cbn [bind]. rewrite clamp_from by (auto; lia). f_equal; f_equal; lia.
      + destruct e; try congruence; try (simpl in TI2; discriminate TI2); rewrite TC2; destruct (denote _); try contradiction; simpl; eauto.
    - destruct s; try congruence; try (simpl in TI; discriminate TI); rewrite TI; destruct (denote _); try contradiction; simpl; eauto.
  Qed.

  Theorem f_slice_doc v e s : wf v = true -> wf e = true -> wf s = true -> sized v = true ->
    (match v with JStr _ => False | _ => True end) -> no_float e -> no_float s ->
    ragrees (f_slice pf v e s) (s_slice (denote v) (denote e) (denote s)).
  Proof.
    intros WV WE WS SZ NSr NE NS. unfold f_slice.
    destruct v as [| |n| |l| |]; try discriminate; try destruct NSr; try reflexivity.
    - cbn [Spec.denote]. rewrite denote_num_norm. destruct (norm_num pf n); reflexivity.
    - cbn [Spec.denote s_slice]. unfold mlen. rewrite map_length. fold (llen l).
      pose proof (slice_bounds_doc (llen l) e s EArrayIndexNotNumber
                    ltac:(split; [apply llen_nonneg|apply sized_arr; auto]) WE WS NE NS) as B.
      unfold slice_arr.
      destruct (s_bound (llen l) 0 (denote s)) as [[st|]|]; [| exact I | destruct B as [x ->]; exact I].
      destruct (s_bound (llen l) (llen l) (denote e)) as [[en|]|]; [| exact I | destruct B as [x ->]; exact I].
      rewrite B. cbn [bind fst snd].
      assert (BD : 0 <= st <= Z.max st en /\ Z.max st en <= llen l).
      { pose proof (slice_bounds_val pf (llen l) e s EArrayIndexNotNumber st (Z.max st en) (llen_nonneg l) B). lia. }
      unfold go_slice.
      replace (st <? 0) with false by (symmetry; apply Z.ltb_ge; lia).
      replace (Z.max st en <? st) with false by (symmetry; apply Z.ltb_ge; lia).
      replace (Z.of_nat (List.length l) <? Z.max st en) with false by (symmetry; apply Z.ltb_ge; unfold llen in *; lia).
      cbn [orb bind]. unfold StringsDoc.ragrees, OpsDoc.agrees. cbn [Spec.denote]. rewrite skipn_map, firstn_map. reflexivity.
  Qed.
End SliceDoc.
