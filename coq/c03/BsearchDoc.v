(* C03 meets_doc: bsearch/1 (funcBsearch = sort.Search + one Compare), infinite/0, nan/0.
   1. search_loop_local: on ANY array sort.Search returns an index r with 0 <= r <= n such that the element
      before r (if any) is below the target and the element at r (if any) is not -- what binary search
      computes without any sortedness assumption; the model's fuel S n always suffices.
   2. search_loop_partitioned: when the elements below the target all come first (every sorted array), r is
      the number of elements below the target: the insertion point.
   3. f_bsearch_doc: the result denotes Spec.s_bsearch (index of the first equal element, or -1 - insertion
      point) for every well-formed array/target. *)
From Coq Require Import List ZArith NArith Bool String Lia.
From Flocq Require Import IEEE754.BinarySingleNaN.
From Verif Require Import common.Sexp common.Int64 c03.JV c03.Core c03.Ops c03.Natives c03.Spec c03.Wf c03.Denote
  c03.CompareDoc c03.OpsDoc c03.StringsDoc c03.NoPanic2 c03.NoPanic3.
Import ListNotations.
Open Scope Z_scope.

Section BsearchDoc.
  Variable pf : bytes -> option float.
  Hypothesis pf_bigint : forall z, big_to_float pf z = Z2F z.
  Notation denote := (denote pf).
  Notation agrees := (agrees pf).
  Notation ragrees := (ragrees pf).
  Notation compare := (compare pf).

  (* the predicate handed to sort.Search, as a function of the index *)
  Definition geq_at (vs : list jv) (t : jv) (k : Z) : bool :=
    match nth_error vs (Z.to_nat k) with Some x => 0 <=? compare x t | None => false end.

  Lemma go_index_geq vs t h x : go_index vs h = Val x -> (0 <=? compare x t) = geq_at vs t h.
  Proof.
    unfold go_index, geq_at. destruct ((h <? 0) || (Z.of_nat (List.length vs) <=? h))%bool; [discriminate|].
    destruct (nth_error vs (Z.to_nat h)); [|discriminate]. intros E; inversion E; reflexivity.
  Qed.
  Lemma go_index_total {A} (vs : list A) h : 0 <= h < llen vs -> exists x, go_index vs h = Val x.
  Proof.
    intros H. unfold llen in H. unfold go_index.
    destruct (h <? 0) eqn:E1; [apply Z.ltb_lt in E1; lia|].
    destruct (Z.of_nat (List.length vs) <=? h) eqn:E2; [apply Z.leb_le in E2; lia|]. cbn [orb].
    destruct (nth_error vs (Z.to_nat h)) eqn:E3; [eauto|]. apply nth_error_None in E3. lia.
  Qed.

  (* 1. any array *)
  Lemma search_loop_local vs t fuel : forall i j, 0 <= i <= j -> j <= llen vs -> j - i < Z.of_nat fuel ->
    (i = 0 \/ geq_at vs t (i - 1) = false) -> (j = llen vs \/ geq_at vs t j = true) ->
    exists r, search_loop pf fuel vs t i j = Val r /\ i <= r <= j
              /\ (r = 0 \/ geq_at vs t (r - 1) = false) /\ (r = llen vs \/ geq_at vs t r = true).
  Proof.
    induction fuel; intros i j H1 H2 H3 HI HJ.
    - lia.
    - cbn [search_loop]. destruct (i <? j) eqn:E; cbn [negb].
      + apply Z.ltb_lt in E. pose proof (half_bounds i j ltac:(lia) E) as HB.
        set (h := Z.shiftr (i + j) 1) in *.
        destruct (go_index_total vs h ltac:(lia)) as [x EX]. rewrite EX. cbn [bind].
        rewrite (go_index_geq _ t _ _ EX). destruct (geq_at vs t h) eqn:G.
        * destruct (IHfuel i h) as (r & R1 & R2 & R3 & R4); try lia; auto.
          exists r. repeat split; auto; lia.
        * destruct (IHfuel (h + 1) j) as (r & R1 & R2 & R3 & R4); try lia; auto.
          { right. replace (h + 1 - 1) with h by lia. auto. }
          exists r. repeat split; auto; lia.
      + apply Z.ltb_ge in E. assert (i = j) by lia. subst j. exists i. repeat split; auto; lia.
  Qed.

  (* 2. partitioned arrays: the result is the split point *)
  Lemma search_loop_partitioned vs t m fuel : forall i j, 0 <= i <= j -> j <= llen vs -> j - i < Z.of_nat fuel ->
    i <= m <= j ->
    (forall k, 0 <= k < m -> geq_at vs t k = false) -> (forall k, m <= k < llen vs -> geq_at vs t k = true) ->
    search_loop pf fuel vs t i j = Val m.
  Proof.
    induction fuel; intros i j H1 H2 H3 HM HL HU.
    - lia.
    - cbn [search_loop]. destruct (i <? j) eqn:E; cbn [negb].
      + apply Z.ltb_lt in E. pose proof (half_bounds i j ltac:(lia) E) as HB.
        set (h := Z.shiftr (i + j) 1) in *.
        destruct (go_index_total vs h ltac:(lia)) as [x EX]. rewrite EX. cbn [bind].
        rewrite (go_index_geq _ t _ _ EX). destruct (geq_at vs t h) eqn:G.
        * apply IHfuel; try lia; auto;
            try (destruct (Z_lt_le_dec h m); [|lia]; rewrite HL in G by lia; discriminate).
        * apply IHfuel; try lia; auto;
            try (destruct (Z_le_gt_dec m h); [|lia]; rewrite HU in G by lia; discriminate).
      + apply Z.ltb_ge in E. f_equal. lia.
  Qed.

  (* the theorem on every array (no sortedness, no fuel): what sort.Search + the final Compare compute *)
  Theorem f_bsearch_any vs t : exists r, 0 <= r <= llen vs
    /\ (r = 0 \/ geq_at vs t (r - 1) = false) /\ (r = llen vs \/ geq_at vs t r = true)
    /\ f_bsearch pf (JArr vs) t =
       Val (jint (match nth_error vs (Z.to_nat r) with
                  | Some x => if compare x t =? 0 then r else - r - 1
                  | None => - r - 1
                  end)).
  Proof.
    pose proof (llen_nonneg vs) as LN.
    destruct (search_loop_local vs t (S (List.length vs)) 0 (llen vs)) as (r & R1 & R2 & R3 & R4);
      try lia; auto; [unfold llen; lia|].
    exists r. repeat split; auto; try lia. unfold f_bsearch. rewrite R1. cbn [bind].
    destruct (r <? llen vs) eqn:E.
    - apply Z.ltb_lt in E. destruct (go_index_total vs r ltac:(lia)) as [x EX]. rewrite EX. cbn [bind].
      unfold go_index in EX. destruct ((r <? 0) || (Z.of_nat (List.length vs) <=? r))%bool; [discriminate|].
      destruct (nth_error vs (Z.to_nat r)); [|discriminate]. inversion EX; subst.
      destruct (compare x t =? 0); reflexivity.
    - apply Z.ltb_ge in E. assert (r = llen vs) by lia. subst r.
      destruct (nth_error vs (Z.to_nat (llen vs))) eqn:N; [|reflexivity].
      assert (nth_error vs (Z.to_nat (llen vs)) <> None) by congruence. apply nth_error_Some in H. unfold llen in H. lia.
  Qed.

  (* 3. against Spec.v *)
  Lemma lt_doc x t : wf x = true -> wf t = true -> (0 <=? compare x t) = negb (mltb (denote x) (denote t)).
  Proof.
    intros WX WT. rewrite (compare_doc pf pf_bigint) by auto. unfold mltb.
    destruct (mcmp (denote x) (denote t)); reflexivity.
  Qed.
  Lemma eq_doc x t : wf x = true -> wf t = true -> (compare x t =? 0) = meq (denote x) (denote t).
  Proof.
    intros WX WT. rewrite (compare_doc pf pf_bigint) by auto. unfold meq.
    destruct (mcmp (denote x) (denote t)); reflexivity.
  Qed.

  Lemma s_lower_le t l : (s_lower t l <= List.length l)%nat.
  Proof. induction l; simpl; [lia|]. destruct (mltb a t); lia. Qed.
  Lemma s_lower_below t l : forall k x, (k < s_lower t l)%nat -> nth_error l k = Some x -> mltb x t = true.
  Proof.
    induction l as [|a l IH]; simpl; intros k x H N; [lia|].
    destruct (mltb a t) eqn:E; [|lia]. destruct k; simpl in N; [inversion N; subst; auto|]. eapply IH; eauto; lia.
  Qed.
  Lemma nth_error_skipn {A} (l : list A) : forall m k, nth_error (skipn m l) k = nth_error l (m + k).
  Proof. induction l; intros [|m] k; simpl; auto. destruct k; reflexivity. Qed.
  Lemma s_partitioned_above t l k x : s_partitioned t l = true -> (s_lower t l <= k)%nat ->
    nth_error l k = Some x -> mltb x t = false.
  Proof.
    unfold s_partitioned. intros P H N. rewrite forallb_forall in P.
    apply negb_true_iff. apply P. replace k with (s_lower t l + (k - s_lower t l))%nat in N by lia.
    rewrite <- nth_error_skipn in N. eapply nth_error_In; eauto.
  Qed.

  Theorem f_bsearch_doc v t : wf v = true -> wf t = true ->
    ragrees (f_bsearch pf v t) (s_bsearch (denote v) (denote t)).
  Proof.
    intros WV WT. destruct v as [| |n|s|vs|m|]; try discriminate; try exact I; try reflexivity.
    - cbn [Spec.denote]. rewrite denote_num_norm. destruct (norm_num pf n); reflexivity.
    - cbn [Spec.denote s_bsearch]. destruct (s_partitioned (denote t) (map denote vs)) eqn:P; [|exact I].
      cbn [wf] in WV. rewrite forallb_forall in WV.
      set (m := s_lower (denote t) (map denote vs)) in *.
      pose proof (s_lower_le (denote t) (map denote vs)) as ML. fold m in ML. rewrite map_length in ML.
      pose proof (llen_nonneg vs) as LN.
      assert (GE : forall k x, nth_error vs k = Some x -> (0 <=? compare x t) = negb (mltb (denote x) (denote t))).
      { intros k x N. apply lt_doc; auto. apply WV. eapply nth_error_In; eauto. }
      assert (S : search_loop pf (S (List.length vs)) vs t 0 (llen vs) = Val (Z.of_nat m)).
      { apply search_loop_partitioned; unfold llen in *; try lia.
        - intros k Hk. unfold geq_at. destruct (nth_error vs (Z.to_nat k)) eqn:N; [|reflexivity].
          rewrite (GE _ _ N). erewrite (s_lower_below (denote t) (map denote vs) (Z.to_nat k)); [reflexivity|fold m; lia|].
          rewrite nth_error_map, N. reflexivity.
        - intros k Hk. unfold geq_at. destruct (nth_error vs (Z.to_nat k)) eqn:N.
          + rewrite (GE _ _ N). erewrite (s_partitioned_above (denote t) (map denote vs) (Z.to_nat k)); [reflexivity|auto|fold m; lia|].
            rewrite nth_error_map, N. reflexivity.
          + apply nth_error_None in N. lia. }
      unfold f_bsearch. rewrite S. cbn [bind]. rewrite nth_error_map.
      destruct (Z.of_nat m <? llen vs) eqn:E.
      + apply Z.ltb_lt in E. destruct (go_index_total vs (Z.of_nat m) ltac:(lia)) as [x EX]. rewrite EX. cbn [bind].
        unfold go_index in EX. destruct ((Z.of_nat m <? 0) || (Z.of_nat (List.length vs) <=? Z.of_nat m))%bool; [discriminate|].
        rewrite Nat2Z.id in EX. destruct (nth_error vs m) eqn:N; [|discriminate]. inversion EX; subst. cbn [option_map].
        rewrite eq_doc; auto; [|apply WV; eapply nth_error_In; eauto].
        destruct (meq (denote x) (denote t)); unfold vint, jint; cbn [bind StringsDoc.ragrees OpsDoc.agrees Spec.denote denote_num]; f_equal; lia.
      + apply Z.ltb_ge in E. unfold llen in E. assert (m = List.length vs) by lia.
        destruct (nth_error vs m) eqn:N.
        * assert (nth_error vs m <> None) by congruence. apply nth_error_Some in H0. lia.
        * unfold vint, jint; cbn [bind option_map StringsDoc.ragrees OpsDoc.agrees Spec.denote denote_num]. f_equal. lia.
  Qed.

  (* infinite / nan: constants (the input is ignored) *)
  Theorem infinite_nan_doc : agrees (Val (jflt (finf false))) (SVal (MFlt (finf false))) /\ agrees (Val (jflt fnan)) (SVal (MFlt fnan)).
  Proof. split; reflexivity. Qed.
End BsearchDoc.
