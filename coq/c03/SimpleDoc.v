(* C03 meets_doc: toboolean, unary plus / negate, isnan isinfinite isfinite isnormal, the math natives
   (exact ones and libm oracles: dispatch and argument conversion), ltrim rtrim trim. *)
From Coq Require Import List ZArith NArith Bool String Lia.
From Flocq Require Import IEEE754.BinarySingleNaN.
From Verif Require Import common.Sexp common.Int64 c03.JV c03.Core c03.Ops c03.Natives c03.Dispatch c03.Spec c03.Wf c03.Denote
  c03.CompareDoc c03.OpsDoc c03.NativesDoc c03.NativesDoc3 c03.Utf8Doc c03.StringsDoc.
Import ListNotations.
Open Scope Z_scope.

Section SimpleDoc.
  Variable pf : bytes -> option float.
  Hypothesis pf_bigint : forall z, big_to_float pf z = Z2F z.
  Notation denote := (denote pf).
  Notation agrees := (agrees pf).
  Notation ragrees := (StringsDoc.ragrees pf).

  Ltac num_case n := cbn [Spec.denote]; rewrite ?denote_num_norm; destruct (norm_num pf n); reflexivity.

  Theorem f_toboolean_doc v : wf v = true -> agrees (f_toboolean v) (s_toboolean (denote v)).
  Proof.
    intros W. destruct v as [| |n|s| | |]; try reflexivity; try discriminate; try num_case n.
    simpl. destruct (bytes_eqb s _); [reflexivity|]. destruct (bytes_eqb s _); reflexivity.
  Qed.
  Theorem op_plus_doc v : wf v = true -> agrees (op_plus v) (s_plus (denote v)).
  Proof. intros W. destruct v as [| |n| | | |]; try reflexivity; try discriminate. unfold op_plus, s_plus, OpsDoc.agrees. cbn [Spec.denote]. rewrite denote_num_norm. destruct (norm_num pf n); reflexivity. Qed.
  Theorem op_negate_doc v : wf v = true -> not_literal v -> agrees (op_negate v) (s_negate (denote v)).
  Proof.
    intros W NL. destruct v as [| |n| | | |]; try reflexivity; try discriminate.
    destruct n; try destruct NL; try reflexivity.
    unfold op_negate, vnum, OpsDoc.agrees. cbn [Spec.denote denote_num s_negate].
    apply (num_int_denote pf). apply negate_int_exact. apply in_intb_spec. exact W.
  Qed.

  (* everything that goes through toFloat *)
  Lemma to_float_dbl v : wf v = true -> to_float pf v = if is_mnum (denote v) then Some (dbl (denote v)) else None.
  Proof. intros W. rewrite (to_float_denote pf pf_bigint) by auto. destruct (denote v); reflexivity. Qed.

  Theorem f_isnan_doc v : wf v = true -> agrees (f_isnan pf v) (s_isnan (denote v)).
  Proof.
    intros W. unfold f_isnan, s_isnan. rewrite to_float_dbl by auto. destruct (is_mnum (denote v)) eqn:M; [reflexivity|].
    destruct v as [| |n| | | |]; try reflexivity; try discriminate.
    rewrite (is_mnum_denote pf) in M. discriminate.
  Qed.
  Theorem f_isinfinite_doc v : wf v = true -> agrees (f_isinfinite pf v) (s_isinfinite (denote v)).
  Proof. intros W. unfold f_isinfinite, s_isinfinite. rewrite to_float_dbl by auto. destruct (is_mnum (denote v)); reflexivity. Qed.
  Theorem f_isfinite_doc v : wf v = true -> agrees (f_isfinite pf v) (s_isfinite (denote v)).
  Proof. intros W. unfold f_isfinite, s_isfinite. rewrite to_float_dbl by auto. destruct (is_mnum (denote v)); reflexivity. Qed.
  Theorem f_isnormal_doc v : wf v = true -> agrees (f_isnormal pf v) (s_isnormal (denote v)).
  Proof.
    intros W. unfold f_isnormal, s_isnormal. rewrite to_float_dbl by auto. destruct (is_mnum (denote v)); [|reflexivity].
    destruct (dbl (denote v)); reflexivity.
  Qed.

  (* mathFunc / mathFunc2 / mathFunc3: the table function applied to the doubles the arguments denote *)
  Theorem f_math1_doc l1 name v : wf v = true -> agrees (f_math1 pf l1 name v) (s_math1 (math1 l1 name) (denote v)).
  Proof. intros W. unfold f_math1, s_math1. rewrite to_float_dbl by auto. destruct (is_mnum (denote v)); reflexivity. Qed.
  Theorem f_math2_doc l2 name x y : wf x = true -> wf y = true ->
    agrees (f_math2 pf l2 name x y) (s_math2 (math2 l2 name) (denote x) (denote y)).
  Proof.
    intros WX WY. unfold f_math2, s_math2. rewrite !to_float_dbl by auto.
    destruct (is_mnum (denote x)); [|reflexivity]. destruct (is_mnum (denote y)); reflexivity.
  Qed.
  Theorem f_math3_doc l3 name a b c : wf a = true -> wf b = true -> wf c = true ->
    agrees (f_math3 pf l3 name a b c) (s_math3 (l3 name) (denote a) (denote b) (denote c)).
  Proof.
    intros WA WB WC. unfold f_math3, s_math3. rewrite !to_float_dbl by auto.
    destruct (is_mnum (denote a)); [|reflexivity]. destruct (is_mnum (denote b)); [|reflexivity]. destruct (is_mnum (denote c)); reflexivity.
  Qed.
  (* the ten exact ones are the correctly rounded operations *)
  Theorem math_exact l1 l2 x y :
    math1 l1 "floor" x = fnearbyint mode_DN x /\ math1 l1 "ceil" x = fnearbyint mode_UP x
    /\ math1 l1 "trunc" x = fnearbyint mode_ZR x /\ math1 l1 "round" x = fnearbyint mode_NA x
    /\ math1 l1 "rint" x = fnearbyint mode_NE x /\ math1 l1 "nearbyint" x = fnearbyint mode_NE x
    /\ math1 l1 "fabs" x = fabs x /\ math1 l1 "sqrt" x = fsqrt x
    /\ math2 l2 "fmax" x y = fmax_go x y /\ math2 l2 "fmin" x y = fmin_go x y.
  Proof. repeat split; reflexivity. Qed.

  (* ltrim / rtrim / trim on valid UTF-8 *)
  Lemma unchunk_valid cs : Forall (fun c => encode_rune (fst c) = snd c) cs -> unchunk cs = encode_runes (map fst cs).
  Proof. induction 1 as [|c cs H F IH]; [reflexivity|]. unfold unchunk, encode_runes in *. simpl. rewrite IH, H. reflexivity. Qed.
  Lemma drop_space_fst cs : map fst (drop_space cs) = drop_sp (map fst cs).
  Proof. induction cs as [|[r b] cs IH]; simpl; auto. destruct (is_space_rune r); auto. Qed.
  Lemma drop_space_valid cs : Forall (fun c => encode_rune (fst c) = snd c) cs -> Forall (fun c => encode_rune (fst c) = snd c) (drop_space cs).
  Proof. induction 1 as [|[r b] cs H F IH]; simpl; auto. destruct (is_space_rune r); auto. Qed.
  Lemma forall_rev {A} (P : A -> Prop) l : Forall P l -> Forall P (rev l).
  Proof. intros H. apply Forall_forall. intros x I. apply in_rev in I. rewrite Forall_forall in H. auto. Qed.
  (* the decoder proceeds chunk by chunk: after the first chunk come the chunks of the rest *)
  Lemma chunks_cons_inv s c cs : chunks s = c :: cs -> exists rest, s = (snd c ++ rest)%list /\ chunks rest = cs.
  Proof.
    destruct s as [|b0 r]; [discriminate|]. cbn [chunks].
    destruct r as [|b1 [|b2 [|b3 r3]]];
      repeat match goal with |- context [if ?c then _ else _] => destruct c end;
      intros H; inversion H; subst; cbn [snd]; eexists; split; reflexivity.
  Qed.
  Lemma chunks_ltrim n : forall s, (List.length s <= n)%nat -> chunks (unchunk (drop_space (chunks s))) = drop_space (chunks s).
  Proof.
    induction n; intros s HL.
    - destruct s; [reflexivity|simpl in HL; lia].
    - destruct (chunks s) as [|[r bs] cs] eqn:E; [reflexivity|].
      destruct (chunks_cons_inv s _ _ E) as (rest & ES & ER). cbn [snd] in ES.
      cbn [drop_space]. destruct (is_space_rune r).
      + assert (NE : (0 < List.length bs)%nat).
        { pose proof (chunks_ok s) as OK. rewrite E in OK. inversion OK as [|? ? H1 _]; subst. destruct H1 as [H1|[H1 _]]; cbn [fst snd] in H1.
          - rewrite <- H1. unfold encode_rune. repeat match goal with |- context [if ?c then _ else _] => destruct c end; simpl; lia.
          - lia. }
        rewrite <- ER. apply IHn. subst s. rewrite app_length in HL. lia.
      + rewrite <- E. unfold unchunk. rewrite unchunk_chunks'. reflexivity.
  Qed.
  Lemma runes_ltrim s : runes (ltrim_b s) = drop_sp (runes s).
  Proof. unfold ltrim_b, runes. rewrite (chunks_ltrim (List.length s)) by lia. apply drop_space_fst. Qed.

  Lemma ltrim_doc s : valid_utf8 s = true -> ltrim_b s = encode_runes (drop_sp (runes s)).
  Proof.
    intros V. pose proof (valid_chunks s V) as F. unfold ltrim_b, runes.
    rewrite unchunk_valid by (apply drop_space_valid; auto). rewrite drop_space_fst. reflexivity.
  Qed.
  Lemma rtrim_doc s : valid_utf8 s = true -> rtrim_b s = encode_runes (rev (drop_sp (rev (runes s)))).
  Proof.
    intros V. pose proof (valid_chunks s V) as F. unfold rtrim_b, runes.
    rewrite unchunk_valid by (apply forall_rev, drop_space_valid, forall_rev; auto).
    rewrite map_rev, drop_space_fst, map_rev. reflexivity.
  Qed.
  Lemma valid_encode_runes_drop s : valid_utf8 s = true -> valid_utf8 (ltrim_b s) = true.
  Proof.
    intros V. unfold valid_utf8. rewrite runes_ltrim. rewrite <- ltrim_doc by auto. apply bytes_eqb_refl.
  Qed.

  Theorem f_trim_doc v : wf v = true ->
    ragrees (f_ltrim v) (s_trim true false (denote v)) /\ ragrees (f_rtrim v) (s_trim false true (denote v))
    /\ ragrees (f_trim v) (s_trim true true (denote v)).
  Proof.
    intros W. destruct v as [| |n|s| | |]; try discriminate;
      try (repeat split; cbn [Spec.denote]; rewrite ?denote_num_norm; try destruct (norm_num pf n); reflexivity).
    cbn [Spec.denote s_trim]. destruct (valid_utf8 s) eqn:V; [|repeat split; exact I].
    repeat split; simpl; unfold OpsDoc.agrees; cbn [Spec.denote]; f_equal.
    - apply ltrim_doc; auto.
    - apply rtrim_doc; auto.
    - rewrite rtrim_doc by (apply valid_encode_runes_drop; auto). rewrite runes_ltrim. reflexivity.
  Qed.
End SimpleDoc.
