(* C03 meets_doc: contains / inside. *)
From Coq Require Import List ZArith NArith Bool String Lia.
From Flocq Require Import IEEE754.BinarySingleNaN.
From Verif Require Import common.Sexp common.Int64 c03.JV c03.Core c03.Ops c03.Natives c03.Spec c03.Wf c03.Denote
  c03.CompareDoc c03.OpsDoc c03.NativesDoc c03.NativesDoc3.
Import ListNotations.
Open Scope Z_scope.

Lemma forallb_map {A B} (f : B -> bool) (g : A -> B) l : forallb f (map g l) = forallb (fun x => f (g x)) l.
Proof. induction l; simpl; auto. rewrite IHl. reflexivity. Qed.
Lemma existsb_map {A B} (f : B -> bool) (g : A -> B) l : existsb f (map g l) = existsb (fun x => f (g x)) l.
Proof. induction l; simpl; auto. rewrite IHl. reflexivity. Qed.
Lemma existsb_false_iff' {A} (f : A -> bool) l : (forall x, In x l -> f x = false) -> existsb f l = false.
Proof. induction l; simpl; intros H; auto. rewrite (H a) by (left; auto). apply IHl. intros; apply H; right; auto. Qed.

Section ContainsDoc.
  Variable pf : bytes -> option float.
  Hypothesis pf_bigint : forall z, big_to_float pf z = Z2F z.
  Notation denote := (denote pf).
  Notation mapd := (mapd pf).

  Definition cagrees (o : outcome bool) (s : option bool) : Prop :=
    match o, s with Val b, Some b' => b = b' | Err _, None => True | _, _ => False end.
  Definition strue (s : option bool) : bool := match s with Some true => true | _ => false end.
  Lemma is_true_agrees o s : cagrees o s -> is_true o = Val (strue s).
  Proof. destruct o, s as [[]|]; simpl; intros H; try contradiction; subst; reflexivity. Qed.

  Lemma oexists_val {A} (f : A -> outcome bool) g l : (forall x, In x l -> f x = Val (g x)) -> oexists f l = Val (existsb g l).
  Proof.
    induction l; intros H; simpl; [reflexivity|]. rewrite (H a) by (left; auto). simpl.
    destruct (g a); [reflexivity|]. apply IHl. intros; apply H; right; auto.
  Qed.
  Lemma oforall_val {A} (f : A -> outcome bool) g l : (forall x, In x l -> f x = Val (g x)) -> oforall f l = Val (forallb g l).
  Proof.
    induction l; intros H; simpl; [reflexivity|]. rewrite (H a) by (left; auto). simpl.
    destruct (g a); [|reflexivity]. apply IHl. intros; apply H; right; auto.
  Qed.

  Lemma z2f_not_nan z : fis_nan (Z2F z) = false.
  Proof. unfold Z2F, F_of_ZE, fis_nan. pose proof (is_nan_binary_normalize 53 1024 _ _ mode_NE z 0 false) as H.
         unfold is_nan in H. destruct (binary_normalize _ _ _ _ _ _ _ _); auto; discriminate. Qed.
  Lemma feq_doc a b : feq a b = match (if fis_nan a then Lt else match Bcompare a b with Some c => c | None => Gt end) with
                               | Eq => negb (fis_nan a) | _ => false end.
  Proof.
    unfold feq. destruct a; simpl fis_nan; cbv iota; try (destruct (Bcompare _ b) as [[]|]; reflexivity).
    rewrite bcompare_nan_l. reflexivity.
  Qed.
  Lemma zeqb_doc a b : (a =? b) = match Z.compare a b with Eq => negb (fis_nan (Z2F a)) | _ => false end.
  Proof. rewrite z2f_not_nan. destruct (Z.compare_spec a b); simpl; [apply Z.eqb_eq; auto|apply Z.eqb_neq; lia..]. Qed.

  (* scalars *)
  Lemma contains_scalar_doc l r : wf l = true -> wf r = true -> (forall a, l <> JArr a) -> (forall a, l <> JObj a) ->
    cagrees (contains_scalar pf l r) (s_contains (denote l) (denote r)).
  Proof.
    intros WL WR NA NO. unfold contains_scalar.
    destruct l as [|bl|a|s| | |], r as [|br|c|t|rl|rm|]; try discriminate;
      try (exfalso; eapply NA; reflexivity); try (exfalso; eapply NO; reflexivity);
      try solve [unfold binop_switch; rewrite ?(norm_jnum pf), ?(denote_jnum pf); cbn [norm];
                 repeat match goal with |- context [norm_num pf ?x] => destruct (norm_num pf x) end;
                 simpl; auto; try (destruct bl, br; reflexivity)].
    rewrite (binop_switch_nums pf). rewrite !(denote_jnum pf).
    destruct (norm_num pf a), (norm_num pf c); cbn [mv_of_pnum s_contains is_mnum andb num_cmp dbl cagrees];
      rewrite ?pf_bigint; try apply zeqb_doc; apply feq_doc.
  Qed.

  Lemma denote_arr_inv v x : wf v = true -> denote v = MArr x -> exists l, v = JArr l.
  Proof.
    destruct v as [| |n| | | |]; simpl; intros W H; try discriminate; eauto.
    rewrite denote_num_norm in H. destruct (norm_num pf n); discriminate.
  Qed.

  (* in a key-sorted object the first entry with a given key is the only one *)
  Lemma sorted_tail {A} k (v : A) m : sorted_keys ((k, v) :: m) = true -> sorted_keys m = true.
  Proof. destruct m as [|[k' v'] m]; simpl; auto. intros H. apply andb_true_iff in H as [_ H]. exact H. Qed.
  Lemma bytes_ltb_neq a b : bytes_ltb a b = true -> bytes_eqb b a = false.
  Proof.
    unfold bytes_ltb. intros H. destruct (bytes_eqb b a) eqn:E; auto. apply bytes_cmp_eq in E.
    rewrite bytes_cmp_antisym, E in H. discriminate.
  Qed.

  Theorem contains_doc l : forall r, wf l = true -> wf r = true -> cagrees (contains pf l r) (s_contains (denote l) (denote r)).
  Proof.
    induction l using jv_ind'; intros r WL WR;
      try (apply contains_scalar_doc; auto; intros; discriminate).
    - (* array *)
      cbn [contains]. rewrite <- (denote_norm pf r).
      assert (WN : wf (norm pf r) = true).
      { destruct r as [| |[]| | | |]; auto. simpl. pose proof (norm_num_wf pf (NLit t) WR) as HH. simpl in HH.
        destruct (parse_number pf t); simpl in *; auto. }
      destruct (norm pf r) as [| |c| |rs| |] eqn:ER; try discriminate;
        try (cbn [Spec.denote]; rewrite ?denote_num_norm; try destruct (norm_num pf c); reflexivity).
      cbn [Spec.denote s_contains]. simpl in WL, WN.
      erewrite oforall_val; [simpl; rewrite forallb_map; reflexivity|].
      intros ri Iri. cbn beta. erewrite oexists_val; [rewrite existsb_map; reflexivity|].
      intros lj Ilj. cbn beta. apply is_true_agrees. rewrite Forall_forall in H. apply H; auto.
      + rewrite forallb_forall in WL. auto.
      + rewrite forallb_forall in WN. auto.
    - (* object *)
      cbn [contains]. rewrite <- (denote_norm pf r).
      assert (WN : wf (norm pf r) = true).
      { destruct r as [| |[]| | | |]; auto. simpl. pose proof (norm_num_wf pf (NLit t) WR) as HH. simpl in HH.
        destruct (parse_number pf t); simpl in *; auto. }
      destruct (norm pf r) as [| |c| | |rm|] eqn:ER; try discriminate;
        try (cbn [Spec.denote]; rewrite ?denote_num_norm; try destruct (norm_num pf c); reflexivity).
      cbn [Spec.denote s_contains]. rewrite !map_length. unfold llen.
      replace (Z.of_nat (List.length m) <? Z.of_nat (List.length rm)) with (Nat.ltb (List.length m) (List.length rm)).
      2:{ destruct (Nat.ltb_spec (List.length m) (List.length rm)); symmetry; [apply Z.ltb_lt|apply Z.ltb_ge]; lia. }
      destruct (Nat.ltb (List.length m) (List.length rm)); [reflexivity|]. simpl negb. cbn [andb].
      simpl in WL, WN. apply andb_true_iff in WL as [SL WL]. apply andb_true_iff in WN as [_ WN].
      erewrite oforall_val; [simpl; rewrite forallb_map; reflexivity|].
      intros [k rv] Iri. cbn beta iota. cbn [fst snd].
      assert (WRV : wf rv = true) by (rewrite forallb_forall in WN; apply (WN (k, rv)); auto).
      clear Iri WN ER.
      induction H as [|[k' lv] lm Hlv Hlm IH]; [reflexivity|].
      simpl in WL. apply andb_true_iff in WL as [W1 W2]. cbn [map existsb fst snd].
      rewrite (bytes_eqb_sym k' k). destruct (bytes_eqb k k') eqn:EK.
      + (* the key is here, and nowhere later *)
        simpl in Hlv. rewrite (is_true_agrees _ _ (Hlv rv W1 WRV)). f_equal. cbn [andb].
        unfold strue. destruct (s_contains (denote lv) (denote rv)) as [[]|]; try reflexivity; simpl; symmetry; apply existsb_false_iff';
        (intros [k2 v2] I2; apply in_map_iff in I2 as [[k3 v3] [E3 I3]]; inversion E3; subst; cbn [fst snd];
         pose proof (sorted_all_lt lm k' lv SL k2 v3 I3) as LT;
         apply list_N_eqb_eq in EK; subst k';
         rewrite (bytes_ltb_neq _ _ LT); reflexivity).
      + simpl. apply IH; auto. eapply sorted_tail; eauto.
  Qed.
End ContainsDoc.
