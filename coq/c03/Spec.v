(* C03 — the DOCUMENTED function of each builtin over mathematical values, written independently of
   the Go control flow (no type switches on representations, no clamping helpers of func.go).
   [denote] forgets the Go number representation: NInt z, NBig z, NLit "z" |-> the integer z;
   NFlt f and fraction/exponent literals |-> the binary64 they are.  Definitions only.
   A builtin without a crisp documented definition (or an argument outside the documented domain)
   has no entry: spec_call returns None and nothing is claimed. *)
From Coq Require Import List ZArith NArith Bool String Ascii.
From Flocq Require Import IEEE754.BinarySingleNaN.
From Verif Require Import common.Sexp common.Int64 c03.JV.
Import ListNotations.
Open Scope Z_scope.

Inductive mv :=
| MNull | MBool (b : bool)
| MInt (z : Z)                 (* an integer of any size *)
| MFlt (f : float)             (* a binary64 that is not known to be an integer literal *)
| MStr (s : bytes)
| MArr (l : list mv)
| MObj (m : list (bytes * mv)).  (* keys strictly increasing *)

Inductive sres := SVal (m : mv) | SErr.

Section Spec.
  Variable parse_float : bytes -> option float.

  Definition denote_num (n : num) : mv :=
    match n with
    | NInt z | NBig z => MInt z
    | NFlt f => MFlt f
    | NLit t => match int_text t with
                | Some z => MInt z
                | None => match (if has_dot_or_exp t then parse_float t else None) with
                          | Some f => MFlt f
                          | None => MFlt (finf (starts_minus t))
                          end
                end
    end.
  Fixpoint denote (v : jv) : mv :=
    match v with
    | JNull | JHole => MNull
    | JBool b => MBool b
    | JNum n => denote_num n
    | JStr s => MStr s
    | JArr l => MArr (map denote l)
    | JObj m => MObj (map (fun kv => (fst kv, denote (snd kv))) m)
    end.

  Fixpoint mv_eqb (a b : mv) {struct a} : bool :=
    match a, b with
    | MNull, MNull => true
    | MBool x, MBool y => Bool.eqb x y
    | MInt x, MInt y => x =? y
    | MFlt x, MFlt y => fsame x y
    | MStr x, MStr y => bytes_eqb x y
    | MArr x, MArr y =>
        (fix go (x y : list mv) {struct x} : bool :=
           match x, y with [], [] => true | p :: x', q :: y' => mv_eqb p q && go x' y' | _, _ => false end) x y
    | MObj x, MObj y =>
        (fix go (x y : list (bytes * mv)) {struct x} : bool :=
           match x, y with
           | [], [] => true
           | (k, p) :: x', (k', q) :: y' => bytes_eqb k k' && mv_eqb p q && go x' y'
           | _, _ => false
           end) x y
    | _, _ => false
    end.

  Fixpoint enc_mv (m : mv) : sexp :=
    match m with
    | MNull => A "null" | MBool true => A "true" | MBool false => A "false"
    | MInt z => SList [A "int"; Atom (print_Z z)]
    | MFlt f => SList [A "f"; Atom (print_Z (bits_of_float f))]
    | MStr s => SList [A "s"; Atom (print_hexs s)]
    | MArr l => SList (A "a" :: map enc_mv l)
    | MObj o => SList (A "o" :: map (fun kv => SList [Atom (print_hexs (fst kv)); enc_mv (snd kv)]) o)
    end.

  (* ---- numbers as jq documents them: IEEE doubles, with integers kept exact ------------------- *)
  Definition is_mnum (a : mv) : bool := match a with MInt _ | MFlt _ => true | _ => false end.
  (* the double nearest to an integer (ties to even; beyond the range: infinity) *)
  Definition dbl (a : mv) : float := match a with MInt z => Z2F z | MFlt f => f | _ => fnan end.
  (* numeric order: integers exactly, otherwise as doubles; NaN sorts below every number *)
  Definition num_cmp (a b : mv) : comparison :=
    match a, b with
    | MInt x, MInt y => Z.compare x y
    | _, _ => let x := dbl a in let y := dbl b in
              if fis_nan x then Lt else
              match Bcompare x y with Some c => c | None => Gt end
    end.

  (* the documented total order: null < false < true < numbers < strings < arrays < objects *)
  Definition rank (a : mv) : Z :=
    match a with
    | MNull => 0 | MBool false => 1 | MBool true => 2 | MInt _ | MFlt _ => 3
    | MStr _ => 4 | MArr _ => 5 | MObj _ => 6
    end.
  Definition lex {X} (c : comparison) (k : X -> comparison) (x : X) : comparison :=
    match c with Eq => k x | _ => c end.
  Fixpoint mcmp (a b : mv) {struct a} : comparison :=
    match a, b with
    | MStr x, MStr y => bytes_cmp x y
    | MArr x, MArr y =>
        (fix go (x y : list mv) {struct x} : comparison :=
           match x, y with
           | [], [] => Eq | [], _ => Lt | _, [] => Gt
           | p :: x', q :: y' => match mcmp p q with Eq => go x' y' | c => c end
           end) x y
    | MObj x, MObj y =>
        (* first the key sets (as sorted lists), then the values key by key *)
        match (fix keys (x y : list (bytes * mv)) {struct x} : comparison :=
                 match x, y with
                 | [], [] => Eq | [], _ => Lt | _, [] => Gt
                 | (k, _) :: x', (k', _) :: y' => match bytes_cmp k k' with Eq => keys x' y' | c => c end
                 end) x y with
        | Eq => (fix vals (x y : list (bytes * mv)) {struct x} : comparison :=
                   match x, y with
                   | (_, p) :: x', (_, q) :: y' => match mcmp p q with Eq => vals x' y' | c => c end
                   | _, _ => Eq
                   end) x y
        | c => c
        end
    | _, _ => if is_mnum a && is_mnum b then num_cmp a b else Z.compare (rank a) (rank b)
    end.
  Definition meq (a b : mv) : bool := match mcmp a b with Eq => true | _ => false end.
  Definition mltb (a b : mv) : bool := match mcmp a b with Lt => true | _ => false end.

  (* ---- helpers -------------------------------------------------------------------------------- *)
  Definition mlen {X} (l : list X) : Z := Z.of_nat (List.length l).
  Definition mget (m : list (bytes * mv)) (k : bytes) : option mv :=
    option_map snd (find (fun kv => bytes_eqb (fst kv) k) m).
  (* insertion into a key-sorted object *)
  Fixpoint mset (m : list (bytes * mv)) (k : bytes) (v : mv) : list (bytes * mv) :=
    match m with
    | [] => [(k, v)]
    | (k', v') :: r => if bytes_eqb k k' then (k, v) :: r
                       else if bytes_ltb k k' then (k, v) :: m else (k', v') :: mset r k v
    end.
  (* an array index as documented: integers index directly (out-of-int-range: saturate), a double
     is truncated towards zero *)
  Definition as_index (a : mv) : option Z :=
    match a with
    | MInt z => Some (Z.max min_int (Z.min max_int z))
    | MFlt f => Some (float_to_int f)
    | _ => None
    end.
  Definition valid_utf8 (s : bytes) : bool := bytes_eqb (encode_runes (runes s)) s.

  (* ---- arithmetic ----------------------------------------------------------------------------- *)
  Definition both_int (a b : mv) : option (Z * Z) :=
    match a, b with MInt x, MInt y => Some (x, y) | _, _ => None end.

  Definition s_add (a b : mv) : sres :=
    match a, b with
    | MNull, _ => SVal b
    | _, MNull => SVal a
    | MStr x, MStr y => SVal (MStr (x ++ y))
    | MArr x, MArr y => SVal (MArr (x ++ y))
    | MObj x, MObj y => SVal (MObj (fold_left (fun acc kv => mset acc (fst kv) (snd kv)) y x))
    | _, _ => if is_mnum a && is_mnum b then
                SVal (match both_int a b with Some (x, y) => MInt (x + y) | None => MFlt (fadd (dbl a) (dbl b)) end)
              else SErr
    end.
  Definition s_sub (a b : mv) : sres :=
    match a, b with
    | MArr x, MArr y => SVal (MArr (filter (fun e => negb (existsb (meq e) y)) x))
    | _, _ => if is_mnum a && is_mnum b then
                SVal (match both_int a b with Some (x, y) => MInt (x - y) | None => MFlt (fsub (dbl a) (dbl b)) end)
              else SErr
    end.
  (* recursive merge: right wins except where both sides hold objects *)
  Fixpoint s_merge (x : list (bytes * mv)) (b : mv) {struct b} : mv :=
    match b with
    | MObj y =>
        MObj ((fix go (y : list (bytes * mv)) (acc : list (bytes * mv)) {struct y} :=
                 match y with
                 | [] => acc
                 | (k, w) :: y' =>
                     go y' (mset acc k (match mget acc k, w with
                                        | Some (MObj xk), MObj _ => s_merge xk w
                                        | _, _ => w
                                        end))
                 end) y x)
    | _ => b
    end.
  (* string repetition: n < 0 (or NaN) gives null; otherwise floor(n) copies (at most 2^31-1), an
     error when the result would reach 2^31-1 bytes *)
  Definition s_repeat (s : bytes) (n : mv) : sres :=
    let f := dbl n in
    if fis_nan f || flt f (fzero false) then SVal MNull
    else let c := if fle (Z2F 2147483647) f then 2147483647 else ftrunc f in
         if 2147483647 <=? (mlen s * c) mod 2 ^ 64 then SErr   (* the size is computed in uint64, as Go does *)
         else SVal (MStr (match s, c with [], _ => [] | _, Zpos p => Pos.iter (fun acc => acc ++ s) [] p | _, _ => [] end)).
  Definition s_mul (a b : mv) : sres :=
    match a, b with
    | MObj x, MObj _ => SVal (s_merge x b)
    | MStr s, _ => if is_mnum b then s_repeat s b else SErr
    | _, MStr s => if is_mnum a then s_repeat s a else SErr
    | _, _ => if is_mnum a && is_mnum b then
                SVal (match both_int a b with Some (x, y) => MInt (x * y) | None => MFlt (fmul (dbl a) (dbl b)) end)
              else SErr
    end.
  (* split by the non-overlapping occurrences of a non-empty separator, leftmost first *)
  Fixpoint s_split_aux (fuel : nat) (s sep cur : bytes) : list bytes :=
    match fuel with
    | O => [cur ++ s]
    | S f =>
        if Nat.ltb (List.length s) (List.length sep) then [cur ++ s]
        else if bytes_eqb (firstn (List.length sep) s) sep
             then cur :: s_split_aux f (skipn (List.length sep) s) sep []
             else match s with
                  | c :: s' => s_split_aux f s' sep (cur ++ [c])
                  | [] => [cur]
                  end
    end.
  Definition s_split (s sep : bytes) : option (list bytes) :=
    match sep with
    | [] => if valid_utf8 s then Some (map encode_rune (runes s)) else None
    | _ => Some (s_split_aux (S (List.length s)) s sep [])
    end.
  Definition s_div (a b : mv) : sres :=
    match a, b with
    | MStr x, MStr y => match x with
                        | [] => SVal (MArr [])
                        | _ => match s_split x y with
                               | Some ps => SVal (MArr (map MStr ps))
                               | None => SVal (MArr (map MStr (split_chars x)))
                               end
                        end
    | _, _ =>
        if is_mnum a && is_mnum b then
          match both_int a b with
          | Some (x, y) => if y =? 0 then SErr
                           else if Z.rem x y =? 0 then SVal (MInt (Z.quot x y))
                           else SVal (MFlt (fdiv (dbl a) (dbl b)))
          | None => if feq (dbl b) (fzero false) then SErr else SVal (MFlt (fdiv (dbl a) (dbl b)))
          end
        else SErr
    end.
  Definition s_mod (a b : mv) : sres :=
    if is_mnum a && is_mnum b then
      match both_int a b with
      | Some (x, y) => if y =? 0 then SErr else SVal (MInt (Z.rem x y))
      | None =>
          if fis_nan (dbl a) || fis_nan (dbl b) then SVal (MFlt fnan)
          else match as_index (MFlt (dbl a)), as_index (MFlt (dbl b)) with
               | Some x, Some y => if y =? 0 then SErr else SVal (MInt (Z.rem x y))
               | _, _ => SErr
               end
      end
    else SErr.

  (* ---- builtins ------------------------------------------------------------------------------- *)
  Definition s_length (a : mv) : sres :=
    match a with
    | MNull => SVal (MInt 0)
    | MInt z => SVal (MInt (Z.abs z))
    | MFlt f => SVal (MFlt (fabs f))
    | MStr s => SVal (MInt (mlen (runes s)))
    | MArr l => SVal (MInt (mlen l))
    | MObj m => SVal (MInt (mlen m))
    | MBool _ => SErr
    end.
  Definition s_keys (a : mv) : sres :=
    match a with
    | MArr l => SVal (MArr (map (fun i => MInt (Z.of_nat i)) (seq 0 (List.length l))))
    | MObj m => SVal (MArr (map (fun kv => MStr (fst kv)) m))
    | _ => SErr
    end.
  Definition s_has (a k : mv) : sres :=
    match a, k with
    | MObj m, MStr s => SVal (MBool (existsb (fun kv => bytes_eqb (fst kv) s) m))
    | MArr l, _ => match as_index k with
                   | Some i => SVal (MBool ((0 <=? i) && (i <? mlen l)))
                   | None => SErr
                   end
    | MNull, _ => SVal (MBool false)
    | _, _ => SErr
    end.
  Fixpoint s_contains (a b : mv) {struct a} : option bool :=
    match a, b with
    | MStr x, MStr y => Some (bytes_contains x y)
    | MArr x, MArr y => Some (forallb (fun q => existsb (fun p => match s_contains p q with Some true => true | _ => false end) x) y)
    | MObj x, MObj y =>
        Some (negb (Nat.ltb (List.length x) (List.length y)) &&   (* an object with fewer keys contains no object with more *)
              forallb (fun kq : bytes * mv =>
                existsb (fun kp : bytes * mv =>
                  bytes_eqb (fst kp) (fst kq) && match s_contains (snd kp) (snd kq) with Some true => true | _ => false end) x) y)
    | _, _ => if is_mnum a && is_mnum b then Some (match num_cmp a b with Eq => negb (fis_nan (dbl a)) | _ => false end)
              else if mv_eqb a b then Some true else None
    end.
  Definition s_add_all (a : mv) : sres :=
    let fold := fix go (acc : mv) (l : list mv) : sres :=
      match l with
      | [] => SVal acc
      | x :: r => match s_add acc x with SVal acc' => go acc' r | SErr => SErr end
      end in
    match a with
    | MArr l => fold MNull l
    | MObj m => fold MNull (map snd m)
    | _ => SErr
    end.
  Definition s_reverse (a : mv) : sres := match a with MArr l => SVal (MArr (rev l)) | _ => SErr end.
  Definition s_type (a : mv) : sres :=
    SVal (MStr (codes (match a with
                       | MNull => "null" | MBool _ => "boolean" | MInt _ | MFlt _ => "number"
                       | MStr _ => "string" | MArr _ => "array" | MObj _ => "object"
                       end)%string)).

  (* flatten(d): d levels of nesting removed; d integral >= 0 or absent (= all levels) *)
  Fixpoint s_flat (d : option nat) (a : mv) {struct a} : list mv :=
    match a with
    | MArr l => match d with
                | Some O => [a]
                | Some (S k) => flat_map (s_flat (Some k)) l
                | None => flat_map (s_flat None) l
                end
    | _ => [a]
    end.
  Definition elems (a : mv) : option (list mv) :=
    match a with MArr l => Some l | MObj m => Some (map snd m) | _ => None end.
  Definition s_flatten (a : mv) (d : option mv) : option sres :=
    match elems a with
    | None => Some SErr
    | Some l =>
        match d with
        | None => Some (SVal (MArr (flat_map (s_flat None) l)))
        | Some (MInt z) => if z <? -1000 then None else if z <? 0 then Some SErr
                           else if z <? 1000 then Some (SVal (MArr (flat_map (s_flat (Some (Z.to_nat z))) l)))
                           else None
        | Some (MFlt _) => None           (* fractional depth: not documented *)
        | Some _ => Some SErr
        end
    end.

  (* indices: all positions where the needle occurs (sub-array, single element, or substring by
     code points) *)
  Definition occurs_at (eq : mv -> mv -> bool) (hay needle : list mv) (i : nat) : bool :=
    let w := firstn (List.length needle) (skipn i hay) in
    Nat.eqb (List.length w) (List.length needle) && forallb (fun pq => eq (fst pq) (snd pq)) (combine w needle).
  Definition positions (hay needle : list mv) : list nat :=
    match needle with
    | [] => []
    | _ => filter (occurs_at meq hay needle) (seq 0 (S (List.length hay)))
    end.
  Definition cps (s : bytes) : list mv := map (fun r => MInt (Z.of_N r)) (runes s).
  Definition s_positions (a x : mv) : option (list nat) + unit :=
    (* inl None: result null (null input); inl (Some ps); inr tt: error *)
    match a, x with
    | MNull, _ => inl None
    | MArr l, MArr n => inl (Some (positions l n))
    | MArr l, _ => inl (Some (positions l [x]))
    | MStr s, MStr t => inl (Some (positions (cps s) (cps t)))
    | _, _ => inr tt
    end.
  Definition mnat (n : nat) : mv := MInt (Z.of_nat n).
  Definition s_indices (a x : mv) : sres :=
    match s_positions a x with
    | inl None => SVal MNull
    | inl (Some ps) => SVal (MArr (map mnat ps))
    | inr _ => SErr
    end.
  Definition s_index (a x : mv) : sres :=
    match s_positions a x with
    | inl None => SVal MNull
    | inl (Some ps) => SVal (match ps with p :: _ => mnat p | [] => MNull end)
    | inr _ => SErr
    end.
  Definition s_rindex (a x : mv) : sres :=
    match s_positions a x with
    | inl None => SVal MNull
    | inl (Some ps) => SVal (match rev ps with p :: _ => mnat p | [] => MNull end)
    | inr _ => SErr
    end.

  (* min: the FIRST minimal element (the candidate is replaced only by a strictly smaller element);
     max: the LAST maximal element (the candidate is kept only while strictly greater); null on [] *)
  Definition mgtb (a b : mv) : bool := match mcmp a b with Gt => true | _ => false end.
  Definition s_min (a : mv) : sres :=
    match a with
    | MArr [] => SVal MNull
    | MArr (x :: r) => SVal (fold_left (fun m y => if mgtb m y then y else m) r x)
    | _ => SErr
    end.
  Definition s_max (a : mv) : sres :=
    match a with
    | MArr [] => SVal MNull
    | MArr (x :: r) => SVal (fold_left (fun m y => if mgtb m y then m else y) r x)
    | _ => SErr
    end.
  (* sort: the stable ordering of the elements (merge-free definition: insertion of each element
     after all elements not greater than it) *)
  Fixpoint s_insert (x : mv) (l : list mv) : list mv :=
    match l with
    | [] => [x]
    | y :: r => if mltb x y then x :: l else y :: s_insert x r
    end.
  (* the order is a strict weak order away from NaN and from integers beyond 2^53 mixed with
     doubles (where comparison through the nearest double is not transitive) *)
  Fixpoint tame (x : mv) : bool :=
    match x with
    | MFlt f => negb (fis_nan f)
    | MInt z => Z.abs z <=? 2 ^ 53
    | MArr l => forallb tame l
    | MObj m => forallb (fun kv => tame (snd kv)) m
    | _ => true
    end.
  Definition nan_free (l : list mv) : bool := forallb tame l.
  Definition s_sort (a : mv) : option sres :=
    match a with
    | MArr l => if nan_free l then Some (SVal (MArr (fold_left (fun acc x => s_insert x acc) l []))) else None
    | _ => Some SErr
    end.
  (* unique: sorted, one representative per equivalence class (the first in input order) *)
  Definition dedup_first (l : list mv) : list mv :=
    fold_left (fun acc x => if existsb (meq x) acc then acc else acc ++ [x]) l [].
  Definition s_unique (a : mv) : option sres :=
    match a with
    | MArr l => if nan_free l then Some (SVal (MArr (fold_left (fun acc x => s_insert x acc) (dedup_first l) []))) else None
    | _ => Some SErr
    end.

  (* sort_by / group_by / unique_by on (values, keys): the values ordered by key, values with Compare-equal
     keys in INPUT order (stability); group_by: the runs of equal keys; unique_by: the first value of each run *)
  Fixpoint s_insert_p (x : mv * mv) (l : list (mv * mv)) : list (mv * mv) :=
    match l with
    | [] => [x]
    | y :: r => if mltb (snd x) (snd y) then x :: l else y :: s_insert_p x r
    end.
  Fixpoint s_runs (l : list (mv * mv)) : list (mv * list mv) :=
    match l with
    | [] => []
    | (v, k) :: r => match s_runs r with
                     | (k', g) :: gs => if meq k k' then (k, v :: g) :: gs else (k, [v]) :: (k', g) :: gs
                     | [] => [(k, [v])]
                     end
    end.
  Definition s_by (f : list (mv * mv) -> mv) (a x : mv) : option sres :=
    match a, x with
    | MArr vs, MArr ks =>
        if negb (Nat.eqb (List.length vs) (List.length ks)) then Some SErr
        else if nan_free ks then Some (SVal (f (fold_left (fun acc p => s_insert_p p acc) (combine vs ks) [])))
        else None
    | _, _ => Some SErr
    end.
  Definition s_sort_by := s_by (fun sorted => MArr (map fst sorted)).
  Definition s_group_by := s_by (fun sorted => MArr (map (fun kg => MArr (snd kg)) (s_runs sorted))).
  Definition s_unique_by := s_by (fun sorted => MArr (flat_map (fun kg => match snd kg with v :: _ => [v] | [] => [] end) (s_runs sorted))).

  (* transpose: column j collects the j-th element of every row, null where the row is short *)
  Definition s_transpose (a : mv) : sres :=
    match a with
    | MArr rows =>
        if forallb (fun r => match r with MArr _ => true | _ => false end) rows then
          let rs := map (fun r => match r with MArr l => l | _ => [] end) rows in
          let width := fold_right Nat.max O (map (@List.length mv) rs) in
          SVal (MArr (map (fun j => MArr (map (fun r => nth j r MNull) rs)) (seq 0 width)))
        else SErr
    | _ => SErr
    end.

  (* string predicates *)
  Definition s_startswith (s t : bytes) : bool := bytes_eqb (firstn (List.length t) s) t.
  Definition s_endswith (s t : bytes) : bool :=
    Nat.leb (List.length t) (List.length s) && bytes_eqb (skipn (List.length s - List.length t) s) t.
  Definition s_str2 (f : bytes -> bytes -> mv) (a x : mv) : sres :=
    match a, x with MStr s, MStr t => SVal (f s t) | _, _ => SErr end.
  Definition s_ltrimstr (s t : bytes) : bytes := if s_startswith s t then skipn (List.length t) s else s.
  Definition s_rtrimstr (s t : bytes) : bytes :=
    if s_endswith s t then firstn (List.length s - List.length t) s else s.

  Definition s_explode (a : mv) : sres := match a with MStr s => SVal (MArr (cps s)) | _ => SErr end.
  Definition s_implode (a : mv) : option sres :=
    match a with
    | MArr l =>
        if forallb (fun x => match x with
                             | MInt z => (0 <=? z) && (z <=? max_rune) && negb ((55296 <=? z) && (z <=? 57343))
                             | _ => false end) l
        then Some (SVal (MStr (flat_map (fun x => match x with MInt z => encode_rune (Z.to_N z) | _ => [] end) l)))
        else if forallb is_mnum l then None else Some SErr
    | _ => Some SErr
    end.
  Definition s_ascii (up : bool) (a : mv) : option sres :=
    match a with
    | MStr s => if valid_utf8 s then
                  Some (SVal (MStr (map (fun c => if up then (if (97 <=? c)%N && (c <=? 122)%N then (c - 32)%N else c)
                                                  else (if (65 <=? c)%N && (c <=? 90)%N then (c + 32)%N else c)) s)))
                else None
    | _ => Some SErr
    end.
  (* on ANY byte string (the manual is silent about invalid UTF-8; this is what the code does, stated per
     character): every well-formed UTF-8 sequence is copied with its ASCII letters mapped, every byte that is not
     part of one becomes U+FFFD *)
  Definition fffd : bytes := [239; 191; 189]%N.
  Definition well_formed (c : N * bytes) : bool := bytes_eqb (encode_rune (fst c)) (snd c).
  Definition s_case (up : bool) (c : N) : N :=
    if up then (if (97 <=? c)%N && (c <=? 122)%N then (c - 32)%N else c)
    else (if (65 <=? c)%N && (c <=? 90)%N then (c + 32)%N else c).
  Definition s_ascii_any (up : bool) (a : mv) : sres :=
    match a with
    | MStr s => SVal (MStr (flat_map (fun c => if well_formed c then map (s_case up) (snd c) else fffd) (chunks s)))
    | _ => SErr
    end.
  (* implode on any array of numbers: a number that is not a Unicode scalar value (negative, beyond U+10FFFF, a
     surrogate; fractions are truncated first) gives U+FFFD -- the manual only says "the inverse of explode" *)
  Definition s_implode_any (a : mv) : sres :=
    match a with
    | MArr l =>
        if forallb is_mnum l then
          SVal (MStr (flat_map (fun x => match as_index x with
                                         | Some z => if (0 <=? z) && (z <=? max_rune) && negb ((55296 <=? z) && (z <=? 57343))
                                                     then encode_rune (Z.to_N z) else fffd
                                         | None => []
                                         end) l))
        else SErr
    | _ => SErr
    end.
  Definition s_utf8bytelength (a : mv) : sres := match a with MStr s => SVal (MInt (mlen s)) | _ => SErr end.

  (* getpath: follow keys / indices; null absorbs *)
  Fixpoint s_getpath (p : list mv) (a : mv) : option sres :=
    match p with
    | [] => Some (SVal a)
    | k :: r =>
        match a, k with
        | MNull, (MStr _ | MInt _ | MFlt _) => s_getpath r MNull
        | MObj m, MStr s => s_getpath r (match mget m s with Some v => v | None => MNull end)
        | MArr l, (MInt _ | MFlt _) =>
            match as_index k with
            | Some i => let j := if i <? 0 then i + mlen l else i in
                        s_getpath r (if (0 <=? j) && (j <? mlen l) then nth (Z.to_nat j) l MNull else MNull)
            | None => None
            end
        | (MObj _ | MArr _ | MNull), (MArr _ | MObj _) => None      (* slices / sub-array search: not in this spec *)
        | _, _ => Some SErr
        end
    end.

  (* slices .[s:e]: integer bounds (null = open), negative counted from the end, clamped to the value;
     strings are sliced by code points.  Fractional bounds are outside this spec. *)
  Definition s_bound (len : Z) (dflt : Z) (b : mv) : option (option Z) :=
    (* None: not a bound (error); Some None: outside the spec; Some (Some i) *)
    match b with
    | MNull => Some (Some dflt)
    | MInt _ => match as_index b with
                | Some i => Some (Some (Z.max 0 (Z.min len (if i <? 0 then i + len else i))))
                | None => None
                end
    | MFlt _ => Some None
    | _ => None
    end.
  Definition s_slice (a e s : mv) : option sres :=
    let go (len : Z) (cut : Z -> Z -> mv) : option sres :=
      match s_bound len 0 s with
      | None => Some SErr
      | Some None => None
      | Some (Some st) =>
          match s_bound len len e with
          | None => Some SErr
          | Some None => None
          | Some (Some en) => Some (SVal (cut st (Z.max st en)))
          end
      end in
    match a with
    | MNull => Some (SVal MNull)
    | MArr l => go (mlen l) (fun st en => MArr (firstn (Z.to_nat (en - st)) (skipn (Z.to_nat st) l)))
    | MStr t => if valid_utf8 t then
                  go (mlen (runes t)) (fun st en => MStr (encode_runes (firstn (Z.to_nat (en - st)) (skipn (Z.to_nat st) (runes t)))))
                else None
    | _ => Some SErr
    end.
  (* slices with EVERY kind of bound, of arrays and of arbitrary byte strings (by characters: well-formed UTF-8
     sequences, every other byte counting as one character and kept as it is).  A bound is null (open), an integer,
     or a double: the start is truncated toward zero, the end rounded up, BEFORE a negative bound is counted from the
     end (the manual is silent about fractional bounds; jq adds the length first) *)
  Definition s_int_bound (is_end : bool) (b : mv) : option Z :=
    match b with
    | MInt _ => as_index b
    | MFlt f => Some (if is_end then float_to_int (fnearbyint mode_UP f) else float_to_int f)
    | _ => None
    end.
  Definition clampz (len lo i : Z) : Z := Z.max lo (Z.max 0 (Z.min len (if i <? 0 then i + len else i))).
  Definition s_slice_any (a e s : mv) : sres :=
    let go (len : Z) (cut : Z -> Z -> mv) : sres :=
      match (match s with MNull => Some 0 | _ => option_map (clampz len 0) (s_int_bound false s) end) with
      | None => SErr
      | Some st =>
          match (match e with MNull => Some len | _ => option_map (clampz len st) (s_int_bound true e) end) with
          | None => SErr
          | Some en => SVal (cut st en)
          end
      end in
    match a with
    | MNull => SVal MNull
    | MArr l => go (mlen l) (fun st en => MArr (firstn (Z.to_nat (en - st)) (skipn (Z.to_nat st) l)))
    | MStr t => go (mlen (chunks t))
                   (fun st en => MStr (flat_map snd (firstn (Z.to_nat (en - st)) (skipn (Z.to_nat st) (chunks t)))))
    | _ => SErr
    end.
  (* .[k] *)
  Definition s_index2 (a k : mv) : option sres :=
    match k with
    | MStr s => match a with
                | MNull => Some (SVal MNull)
                | MObj m => Some (SVal (match mget m s with Some v => v | None => MNull end))
                | _ => Some SErr
                end
    | MInt _ | MFlt _ =>
        match a, as_index k with
        | MNull, _ => Some (SVal MNull)
        | MArr l, Some i => let j := if i <? 0 then i + mlen l else i in
                            Some (SVal (if (0 <=? j) && (j <? mlen l) then nth (Z.to_nat j) l MNull else MNull))
        | MStr t, Some i => if valid_utf8 t then
                              let rs := runes t in
                              let j := if i <? 0 then i + mlen rs else i in
                              Some (SVal (if (0 <=? j) && (j <? mlen rs) then MStr (encode_rune (nth (Z.to_nat j) rs 0%N)) else MNull))
                            else None
        | _, _ => Some SErr
        end
    | MObj m => match a with
                | MNull => Some (SVal MNull)
                | _ => match mget m (codes "start"), mget m (codes "end") with
                       | Some s, Some e => Some (s_slice_any a e s)
                       | _, _ => Some SErr
                       end
                end
    | MArr n => Some (match a with         (* .[array]: the positions where it occurs as a sub-array (= indices) *)
                      | MNull => SVal MNull
                      | MArr l => SVal (MArr (map mnat (positions l n)))
                      | _ => SErr
                      end)
    | _ => Some SErr
    end.

  (* getpath with EVERY key type: the fold of .[k] (null / arrays / objects are indexed; anything else is an error) *)
  Fixpoint s_getpath_any (p : list mv) (a : mv) : option sres :=
    match p with
    | [] => Some (SVal a)
    | k :: r =>
        match a with
        | MNull | MArr _ | MObj _ =>
            match s_index2 a k with
            | Some (SVal w) => s_getpath_any r w
            | Some SErr => Some SErr
            | None => None
            end
        | _ => Some SErr
        end
    end.
  (* tonumber: numbers are returned; a string must be a number text of the jq lexer
     ([+-]? digits [. digits] [e [+-] digits], a leading or trailing dot allowed) and is then the number it
     writes: an integer when it has integer syntax, otherwise the double ParseFloat reads *)
  Definition s_tonumber (a : mv) : option sres :=
    match a with
    | MInt _ | MFlt _ => Some (SVal a)
    | MStr t => Some (if valid_number_text t then SVal (denote_num (NLit t)) else SErr)
    | _ => Some SErr
    end.
  (* min_by / max_by on (values, keys) of equal length: the value of the FIRST minimal / LAST maximal key *)
  Definition s_minmax_by (is_min : bool) (a x : mv) : sres :=
    match a, x with
    | MArr vs, MArr ks =>
        if negb (Nat.eqb (List.length vs) (List.length ks)) then SErr
        else match combine vs ks with
             | [] => SVal MNull
             | p :: r => SVal (fst (fold_left (fun m y => if Bool.eqb (mgtb (snd m) (snd y)) is_min then y else m) r p))
             end
    | _, _ => SErr
    end.
  Definition s_abs (a : mv) : sres :=
    match a with MInt z => SVal (MInt (Z.abs z)) | MFlt f => SVal (MFlt (fabs f)) | _ => SErr end.
  Definition s_toboolean (a : mv) : sres :=
    match a with
    | MBool _ => SVal a
    | MStr s => if bytes_eqb s (codes "true") then SVal (MBool true)
                else if bytes_eqb s (codes "false") then SVal (MBool false) else SErr
    | _ => SErr
    end.
  (* unary + and - *)
  Definition s_plus (a : mv) : sres := if is_mnum a then SVal a else SErr.
  Definition s_negate (a : mv) : sres :=
    match a with MInt z => SVal (MInt (- z)) | MFlt f => SVal (MFlt (fneg f)) | _ => SErr end.
  (* number predicates: on the double a number denotes *)
  Definition s_isnan (a : mv) : sres :=
    if is_mnum a then SVal (MBool (fis_nan (dbl a))) else match a with MNull => SVal (MBool false) | _ => SErr end.
  Definition s_isinfinite (a : mv) : sres := SVal (MBool (is_mnum a && fis_inf (dbl a))).
  Definition s_isfinite (a : mv) : sres := SVal (MBool (is_mnum a && negb (fis_inf (dbl a)))).
  Definition s_isnormal (a : mv) : sres :=
    SVal (MBool (is_mnum a && match dbl a with B754_finite _ m _ _ => (2 ^ 52 <=? Z.pos m) | _ => false end)).
  (* the math functions: a function of the double the argument(s) denote; [fn] is the correctly rounded
     operation (Flocq) for floor ceil trunc round rint nearbyint fabs sqrt fmax fmin, libm otherwise *)
  Definition s_math1 (fn : float -> float) (a : mv) : sres := if is_mnum a then SVal (MFlt (fn (dbl a))) else SErr.
  Definition s_math2 (fn : float -> float -> float) (a b : mv) : sres :=
    if is_mnum a then (if is_mnum b then SVal (MFlt (fn (dbl a) (dbl b))) else SErr) else SErr.
  Definition s_math3 (fn : float -> float -> float -> float) (a b c : mv) : sres :=
    if is_mnum a then (if is_mnum b then (if is_mnum c then SVal (MFlt (fn (dbl a) (dbl b) (dbl c))) else SErr) else SErr) else SErr.
  (* trimming white space (unicode.IsSpace) from a valid UTF-8 string *)
  Fixpoint drop_sp (rs : list N) : list N :=
    match rs with r :: rs' => if is_space_rune r then drop_sp rs' else rs | [] => [] end.
  Definition s_trim (left right : bool) (a : mv) : option sres :=
    match a with
    | MStr s => if valid_utf8 s then
                  let rs := runes s in
                  let rs := if left then drop_sp rs else rs in
                  let rs := if right then rev (drop_sp (rev rs)) else rs in
                  Some (SVal (MStr (encode_runes rs)))
                else None
    | _ => Some SErr
    end.
  Definition s_cmp (test : comparison -> bool) (a b : mv) : sres := SVal (MBool (test (mcmp a b))).

  (* ---- bsearch(t): on an array whose elements below t (documented order) all come before the others -- in
     particular on every sorted array -- the index of the first element not below t when that element
     equals t, otherwise -1 - (that insertion point).  Other arrays: not documented (None). *)
  Fixpoint s_lower (t : mv) (l : list mv) : nat :=
    match l with x :: r => if mltb x t then S (s_lower t r) else O | [] => O end.
  Definition s_partitioned (t : mv) (l : list mv) : bool :=
    forallb (fun x => negb (mltb x t)) (skipn (s_lower t l) l).
  Definition s_bsearch (a t : mv) : option sres :=
    match a with
    | MArr l =>
        if s_partitioned t l then
          let i := s_lower t l in
          Some (SVal (MInt (match nth_error l i with
                            | Some x => if meq x t then Z.of_nat i else -1 - Z.of_nat i
                            | None => -1 - Z.of_nat i
                            end)))
        else None
    | _ => Some SErr
    end.

  (* ---- @html @uri @urid @base64 @base64d on strings (sequences of bytes < 256); other inputs are first
     converted by tostring, whose number text is C10's subject: no entry ------------------------------ *)
  Definition is_bytes (s : bytes) : bool := forallb (fun c => (c <? 256)%N) s.
  Definition in_text (c : N) (t : string) : bool := existsb (N.eqb c) (codes t).
  Fixpoint pos_in (c : N) (l : list N) : option N :=
    match l with
    | [] => None
    | x :: r => if N.eqb c x then Some 0%N else option_map N.succ (pos_in c r)
    end.
  Definition s_html (s : bytes) : bytes :=
    flat_map (fun c => if (c =? 60)%N then codes "&lt;" else if (c =? 62)%N then codes "&gt;"
                       else if (c =? 38)%N then codes "&amp;" else if (c =? 39)%N then codes "&apos;"
                       else if (c =? 34)%N then codes "&quot;" else [c]) s.
  (* RFC 3986 unreserved characters are kept, every other byte becomes %XX (upper-case hex) *)
  Definition s_hexdigit (n : N) : N := nth (N.to_nat n) (codes "0123456789ABCDEF") 0%N.
  Definition s_uri (s : bytes) : bytes :=
    flat_map (fun c => if in_text c "ABCDEFGHIJKLMNOPQRSTUVWXYZabcdefghijklmnopqrstuvwxyz0123456789-_.~" then [c]
                       else [37%N; s_hexdigit (c / 16); s_hexdigit (c mod 16)]) s.
  Definition s_hexval (c : N) : option N :=
    match pos_in c (codes "0123456789ABCDEF") with
    | Some v => Some v
    | None => pos_in c (codes "0123456789abcdef")
    end.
  (* every %XX becomes the byte XX; a % not followed by two hex digits is an error *)
  Fixpoint s_urid (s : bytes) : option bytes :=
    match s with
    | [] => Some []
    | c :: r =>
        if (c =? 37)%N then
          match r with
          | a :: b :: r' => match s_hexval a, s_hexval b, s_urid r' with
                            | Some x, Some y, Some t => Some ((16 * x + y)%N :: t)
                            | _, _, _ => None
                            end
          | _ => None
          end
        else option_map (cons c) (s_urid r)
    end.
  (* RFC 4648: 24-bit groups cut into four 6-bit indices into the alphabet; '=' padding *)
  Definition s_b64c (n : N) : N :=
    nth (N.to_nat n) (codes "ABCDEFGHIJKLMNOPQRSTUVWXYZabcdefghijklmnopqrstuvwxyz0123456789+/") 0%N.
  Fixpoint s_b64 (s : bytes) : bytes :=
    (match s with
     | a :: b :: c :: r =>
         let n := a * 65536 + b * 256 + c in
         s_b64c (n / 262144) :: s_b64c ((n / 4096) mod 64) :: s_b64c ((n / 64) mod 64) :: s_b64c (n mod 64) :: s_b64 r
     | [a; b] => let n := a * 65536 + b * 256 in [s_b64c (n / 262144); s_b64c ((n / 4096) mod 64); s_b64c ((n / 64) mod 64); 61]
     | [a] => let n := a * 65536 in [s_b64c (n / 262144); s_b64c ((n / 4096) mod 64); 61; 61]
     | [] => []
     end)%N.
  (* @base64d: "the inverse of @base64": on a text that IS the encoding of a byte string, that byte string.
     [s_b64_cand] only proposes the candidate; the entry is guarded by re-encoding it.  Other texts (missing
     padding, line breaks, stray bits): not documented (None). *)
  Fixpoint s_b64_cand (fuel : nat) (t : bytes) : bytes :=
    (match fuel with
     | O => []
     | S f =>
         let v c := match pos_in c (codes "ABCDEFGHIJKLMNOPQRSTUVWXYZabcdefghijklmnopqrstuvwxyz0123456789+/") with
                    | Some n => n | None => 0 end in
         match t with
         | a :: b :: c :: d :: r =>
             let n := v a * 262144 + v b * 4096 + v c * 64 + v d in
             if c =? 61 then [n / 65536]
             else if d =? 61 then [n / 65536; (n / 256) mod 256]
             else n / 65536 :: (n / 256) mod 256 :: n mod 256 :: s_b64_cand f r
         | _ => []
         end
     end)%N.
  Definition s_b64d (t : bytes) : option bytes :=
    let s := s_b64_cand (List.length t) t in
    if is_bytes s && bytes_eqb (s_b64 s) t then Some s else None.
  Definition s_text (f : bytes -> option sres) (a : mv) : option sres :=
    match a with MStr s => if is_bytes s then f s else None | _ => None end.

  (* fmax / fmin as C99 documents them: a NaN argument is ignored; of two zeros, fmax prefers +0, fmin -0 *)
  Definition s_fmax (x y : float) : float :=
    if fis_nan x then y else if fis_nan y then x
    else match Bcompare x y with
         | Some Lt => y | Some Gt => x
         | _ => if fsign x then y else x
         end.
  Definition s_fmin (x y : float) : float :=
    if fis_nan x then y else if fis_nan y then x
    else match Bcompare x y with
         | Some Lt => x | Some Gt => y
         | _ => if fsign x then x else y
         end.

  Definition spec_call (name : string) (v : jv) (args : list jv) : option sres :=
    let a := denote v in
    let xs := map denote args in
    let is (s : string) := String.eqb name s in
    (match xs with
    | [] =>
        if is "length" then Some (s_length a) else if is "keys" then Some (s_keys a)
        else if is "add" then Some (s_add_all a) else if is "reverse" then Some (s_reverse a)
        else if is "type" then Some (s_type a) else if is "flatten" then s_flatten a None
        else if is "min" then Some (s_min a) else if is "max" then Some (s_max a)
        else if is "sort" then s_sort a else if is "unique" then s_unique a
        else if is "transpose" then Some (s_transpose a)
        else if is "explode" then Some (s_explode a) else if is "implode" then Some (s_implode_any a)
        else if is "ascii_downcase" then Some (s_ascii_any false a) else if is "ascii_upcase" then Some (s_ascii_any true a)
        else if is "utf8bytelength" then Some (s_utf8bytelength a)
        else if is "tonumber" then s_tonumber a else if is "abs" then Some (s_abs a)
        else if is "toboolean" then Some (s_toboolean a)
        else if is "_plus" then Some (s_plus a) else if is "_negate" then Some (s_negate a)
        else if is "isnan" then Some (s_isnan a) else if is "isinfinite" then Some (s_isinfinite a)
        else if is "isfinite" then Some (s_isfinite a) else if is "isnormal" then Some (s_isnormal a)
        else if is "ltrim" then s_trim true false a else if is "rtrim" then s_trim false true a
        else if is "trim" then s_trim true true a
        else if is "floor" then Some (s_math1 (fnearbyint mode_DN) a) else if is "ceil" then Some (s_math1 (fnearbyint mode_UP) a)
        else if is "trunc" then Some (s_math1 (fnearbyint mode_ZR) a) else if is "round" then Some (s_math1 (fnearbyint mode_NA) a)
        else if is "rint" then Some (s_math1 (fnearbyint mode_NE) a) else if is "nearbyint" then Some (s_math1 (fnearbyint mode_NE) a)
        else if is "fabs" then Some (s_math1 fabs a) else if is "sqrt" then Some (s_math1 fsqrt a)
        else if is "infinite" then Some (SVal (MFlt (finf false))) else if is "nan" then Some (SVal (MFlt fnan))
        else if is "_tohtml" then s_text (fun s => Some (SVal (MStr (s_html s)))) a
        else if is "_touri" then s_text (fun s => Some (SVal (MStr (s_uri s)))) a
        else if is "_tourid" then s_text (fun s => Some (match s_urid s with Some t => SVal (MStr t) | None => SErr end)) a
        else if is "_tobase64" then s_text (fun s => Some (SVal (MStr (s_b64 s)))) a
        else if is "_tobase64d" then s_text (fun s => option_map (fun t => SVal (MStr t)) (s_b64d s)) a
        else if is "error" then Some SErr else if is "halt" then Some SErr else if is "halt_error" then Some SErr
        else None
    | [x] =>
        if is "has" then Some (s_has a x)
        else if is "contains" then Some (match s_contains a x with Some b => SVal (MBool b) | None => SErr end)
        else if is "inside" then Some (match s_contains x a with Some b => SVal (MBool b) | None => SErr end)
        else if is "indices" then Some (s_indices a x) else if is "index" then Some (s_index a x)
        else if is "rindex" then Some (s_rindex a x)
        else if is "startswith" then Some (s_str2 (fun s t => MBool (s_startswith s t)) a x)
        else if is "endswith" then Some (s_str2 (fun s t => MBool (s_endswith s t)) a x)
        else if is "ltrimstr" then Some (s_str2 (fun s t => MStr (s_ltrimstr s t)) a x)
        else if is "rtrimstr" then Some (s_str2 (fun s t => MStr (s_rtrimstr s t)) a x)
        else if is "trimstr" then Some (s_str2 (fun s t => MStr (s_rtrimstr (s_ltrimstr s t) t)) a x)
        else if is "_sort_by" then s_sort_by a x else if is "_group_by" then s_group_by a x
        else if is "_unique_by" then s_unique_by a x
        else if is "_min_by" then Some (s_minmax_by true a x) else if is "_max_by" then Some (s_minmax_by false a x)
        else if is "flatten" then s_flatten a (Some x)
        else if is "bsearch" then s_bsearch a x
        else if is "error" then Some SErr else if is "halt_error" then Some SErr
        else if is "getpath" then match x with MArr p => s_getpath_any p a | _ => Some SErr end
        else if is "split" then match a, x with
                                | MStr s, MStr t => option_map (fun ps => SVal (MArr (map MStr ps))) (s_split s t)
                                | _, _ => Some SErr
                                end
        else None
    | [x; y] =>
        if is "_add" then Some (s_add x y) else if is "_subtract" then Some (s_sub x y)
        else if is "_multiply" then Some (s_mul x y) else if is "_divide" then Some (s_div x y)
        else if is "_modulo" then Some (s_mod x y)
        else if is "_equal" then Some (s_cmp (fun c => match c with Eq => true | _ => false end) x y)
        else if is "_notequal" then Some (s_cmp (fun c => match c with Eq => false | _ => true end) x y)
        else if is "_less" then Some (s_cmp (fun c => match c with Lt => true | _ => false end) x y)
        else if is "_greater" then Some (s_cmp (fun c => match c with Gt => true | _ => false end) x y)
        else if is "_lesseq" then Some (s_cmp (fun c => match c with Gt => false | _ => true end) x y)
        else if is "_greatereq" then Some (s_cmp (fun c => match c with Lt => false | _ => true end) x y)
        else if is "_alternative" then Some (SVal (match x with MNull | MBool false => y | _ => x end))
        else if is "_index" then s_index2 x y
        else if is "fmax" then Some (s_math2 s_fmax x y) else if is "fmin" then Some (s_math2 s_fmin x y)
        else None
    | [x; y; z] => if is "_slice" then Some (s_slice_any x y z) else None
    | _ => None
    end)%string.
End Spec.
