(* C03 — ONE statement over the list of natives proved to meet their documented function: for every name of
   [proved_list], whenever Spec.v has an entry for the call (spec_call ... = Some s), the dispatcher call_native
   (= internalFuncs[name].callback) returns a value denoting s, or an error where an error is documented.
   One lemma [meets "name"] per name, assembled by Forall. *)
From Coq Require Import List ZArith NArith Bool String Lia.
From Flocq Require Import IEEE754.BinarySingleNaN.
From Verif Require Import common.Sexp common.Int64 c03.JV c03.Core c03.Ops c03.Natives c03.Dispatch c03.Spec c03.Wf
  c03.Denote c03.CompareDoc c03.OpsDoc c03.NativesDoc c03.NativesDoc2 c03.NativesDoc3 c03.ContainsDoc c03.IndicesDoc
  c03.StringsDoc c03.SimpleDoc c03.BsearchDoc c03.EncodeDoc c03.AnyDoc c03.LiteralDoc c03.PathDoc c03.SliceAllDoc c03.IndexAllDoc c03.FlattenDoc c03.FlattenAllDoc c03.GetpathFullDoc.
Import ListNotations.
Open Scope Z_scope.

Lemma go_index_0 {A} (a : A) l : go_index (a :: l) 0 = Val a.
Proof. unfold go_index. cbn [List.length]. rewrite Nat2Z.inj_succ. destruct (Z.succ (Z.of_nat (List.length l)) <=? 0) eqn:E; [apply Z.leb_le in E; lia|reflexivity]. Qed.
Lemma go_index_1 {A} (a b : A) l : go_index (a :: b :: l) 1 = Val b.
Proof. unfold go_index. cbn [List.length]. rewrite !Nat2Z.inj_succ. destruct (Z.succ (Z.succ (Z.of_nat (List.length l))) <=? 1) eqn:E; [apply Z.leb_le in E; lia|reflexivity]. Qed.
Lemma go_index_2 {A} (a b c : A) l : go_index (a :: b :: c :: l) 2 = Val c.
Proof. unfold go_index. cbn [List.length]. rewrite !Nat2Z.inj_succ. destruct (Z.succ (Z.succ (Z.succ (Z.of_nat (List.length l)))) <=? 2) eqn:E; [apply Z.leb_le in E; lia|reflexivity]. Qed.

Open Scope string_scope.

Section Listed.
  Variable pf : bytes -> option float.
  Variable ff : float -> bytes.
  Variable l1 : string -> float -> float.
  Variable l2 : string -> float -> float -> float.
  Variable l3 : string -> float -> float -> float -> float.
  Variable jd : bytes -> jv + bool.
  Variable lp : string -> float -> jv.
  Hypothesis pf_bigint : forall z, big_to_float pf z = Z2F z.
  Notation denote := (denote pf).
  Notation agrees := (agrees pf).

  Definition verdict (o : option (outcome res)) (s : sres) : Prop :=
    match o, s with
    | Some (Val (ROne x)), SVal m => denote x = m
    | Some (Err _), SErr => True
    | _, _ => False
    end.
  Definition meets (name : string) : Prop :=
    forall fuel v args s, wf v = true -> forallb wf args = true ->
      spec_call pf name v args = Some s -> verdict (call_native pf ff l1 l2 l3 jd lp fuel name v args) s.

  Lemma verdict_one o s : agrees o s -> verdict (Some (do x <- o; Val (ROne x))) s.
  Proof. destruct o, s; simpl; auto. Qed.
  Lemma verdict_opt o s s' : ragrees pf o s -> s = Some s' -> verdict (Some (do x <- o; Val (ROne x))) s'.
  Proof. intros H ->. apply verdict_one. exact H. Qed.

  (* reduce the two dispatch chains on a closed name *)
  Ltac chains :=
    cbv beta iota zeta delta [spec_call call_native String.eqb Ascii.eqb Bool.eqb mem existsb math1_names math2_names math3_names map].
  Ltac chains_in H :=
    cbv beta iota zeta delta [spec_call String.eqb Ascii.eqb Bool.eqb map] in H.
  Ltac start :=
    intros fuel v args s WV WA H;
    destruct args as [|a [|b [|c [|d args]]]]; chains_in H; try discriminate;
    cbn [forallb] in WA; repeat (let W := fresh "W" in apply andb_true_iff in WA as [W WA]);
    chains; rewrite ?go_index_0, ?go_index_1, ?go_index_2; cbn [bind].
  Ltac inv_spec := match goal with H : Some _ = Some _ |- _ => inversion H; subst; clear H end.
  Ltac fin lemma := inv_spec; apply verdict_one; apply lemma; auto.

  (* ---- operators ---- *)
  Lemma meets_add : meets "_add". Proof. start. fin (op_add_doc pf pf_bigint). Qed.
  Lemma meets_subtract : meets "_subtract". Proof. start. fin (op_sub_doc pf pf_bigint). Qed.
  Lemma meets_multiply : meets "_multiply". Proof. start. fin (op_mul_doc pf pf_bigint). Qed.
  Lemma meets_divide : meets "_divide". Proof. start. fin (op_div_doc_all pf pf_bigint). Qed.
  Lemma meets_modulo : meets "_modulo". Proof. start. fin (op_mod_doc pf pf_bigint). Qed.
  Ltac cmp := start; inv_spec; apply verdict_one; apply (op_cmp_doc pf pf_bigint); auto; intros []; reflexivity.
  Lemma meets_equal : meets "_equal". Proof. cmp. Qed.
  Lemma meets_notequal : meets "_notequal". Proof. cmp. Qed.
  Lemma meets_less : meets "_less". Proof. cmp. Qed.
  Lemma meets_greater : meets "_greater". Proof. cmp. Qed.
  Lemma meets_lesseq : meets "_lesseq". Proof. cmp. Qed.
  Lemma meets_greatereq : meets "_greatereq". Proof. cmp. Qed.
  Lemma meets_alternative : meets "_alternative". Proof. start. fin (op_alt_doc pf). Qed.
  Lemma meets_plus : meets "_plus". Proof. start. fin (op_plus_doc pf). Qed.

  (* ---- natives ---- *)
  Lemma meets_keys : meets "keys". Proof. start. fin (f_keys_doc pf). Qed.
  Lemma meets_has : meets "has". Proof. start. fin (f_has_doc pf). Qed.
  Lemma meets_reverse : meets "reverse". Proof. start. fin (f_reverse_doc pf). Qed.
  Lemma meets_type : meets "type". Proof. start. fin (f_type_doc pf). Qed.
  Lemma meets_explode : meets "explode". Proof. start. fin (f_explode_doc pf). Qed.
  Lemma meets_utf8bytelength : meets "utf8bytelength". Proof. start. fin (f_utf8bytelength_doc pf). Qed.
  Lemma meets_startswith : meets "startswith". Proof. start. fin (f_startswith_doc pf). Qed.
  Lemma meets_endswith : meets "endswith". Proof. start. fin (f_endswith_doc pf). Qed.
  Lemma meets_ltrimstr : meets "ltrimstr". Proof. start. fin (f_ltrimstr_doc pf). Qed.
  Lemma meets_rtrimstr : meets "rtrimstr". Proof. start. fin (f_rtrimstr_doc pf). Qed.
  Lemma meets_trimstr : meets "trimstr". Proof. start. fin (f_trimstr_doc pf). Qed.
  Lemma meets_min : meets "min". Proof. start. fin (f_min_doc pf pf_bigint). Qed.
  Lemma meets_max : meets "max". Proof. start. fin (f_max_doc pf pf_bigint). Qed.
  Lemma meets_min_by : meets "_min_by". Proof. start. fin (f_minmax_by_doc pf pf_bigint true). Qed.
  Lemma meets_max_by : meets "_max_by". Proof. start. fin (f_minmax_by_doc pf pf_bigint false). Qed.
  Lemma meets_add_all : meets "add". Proof. start. fin (f_add_doc pf pf_bigint). Qed.
  Lemma meets_tonumber : meets "tonumber".
  Proof.
    start. pose proof (f_tonumber_doc pf v WV) as D. destruct (s_tonumber pf (denote v)); [|discriminate].
    inversion H; subst. apply verdict_one. exact D.
  Qed.
  Lemma meets_transpose : meets "transpose". Proof. start. fin (f_transpose_doc pf). Qed.
  Lemma contains_verdict x y : wf x = true -> wf y = true ->
    agrees (f_contains pf x y) (match s_contains (denote x) (denote y) with Some b => SVal (MBool b) | None => SErr end).
  Proof.
    intros WX WY. pose proof (contains_doc pf pf_bigint x y WX WY) as D. unfold f_contains.
    destruct (contains pf x y), (s_contains (denote x) (denote y)); simpl in *; try contradiction; subst; auto.
  Qed.
  Lemma meets_contains : meets "contains". Proof. start. fin contains_verdict. Qed.
  Lemma meets_inside : meets "inside". Proof. start. inversion H; subst; clear H. apply verdict_one. unfold f_inside. apply contains_verdict; auto. Qed.
  Lemma meets_indices : meets "indices". Proof. start. fin (f_indices_doc pf pf_bigint). Qed.
  Lemma meets_index : meets "index". Proof. start. fin (f_index_doc pf pf_bigint). Qed.
  Lemma meets_rindex : meets "rindex". Proof. start. fin (f_rindex_doc pf pf_bigint). Qed.
  Lemma meets_toboolean : meets "toboolean". Proof. start. fin (f_toboolean_doc pf). Qed.
  Lemma meets_isnan : meets "isnan". Proof. start. fin (f_isnan_doc pf pf_bigint). Qed.
  Lemma meets_isinfinite : meets "isinfinite". Proof. start. fin (f_isinfinite_doc pf pf_bigint). Qed.
  Lemma meets_isfinite : meets "isfinite". Proof. start. fin (f_isfinite_doc pf pf_bigint). Qed.
  Lemma meets_isnormal : meets "isnormal". Proof. start. fin (f_isnormal_doc pf pf_bigint). Qed.

  (* error / halt / halt_error: always an error (the payloads: C03_error_dispatch) *)
  Lemma meets_error : meets "error". Proof. start; inversion H; subst; exact I. Qed.
  Lemma meets_halt : meets "halt". Proof. start; inversion H; subst; exact I. Qed.
  Lemma meets_halt_error : meets "halt_error".
  Proof. start; inversion H; subst; unfold f_halt_error; try exact I. destruct (to_int pf a); exact I. Qed.

  (* ---- math natives computed exactly ---- *)
  Ltac m1 name := start; inv_spec; apply verdict_one; apply (f_math1_doc pf pf_bigint l1 name); assumption.
  Lemma meets_floor : meets "floor". Proof. m1 "floor". Qed.
  Lemma meets_ceil : meets "ceil". Proof. m1 "ceil". Qed.
  Lemma meets_trunc : meets "trunc". Proof. m1 "trunc". Qed.
  Lemma meets_round : meets "round". Proof. m1 "round". Qed.
  Lemma meets_rint : meets "rint". Proof. m1 "rint". Qed.
  Lemma meets_nearbyint : meets "nearbyint". Proof. m1 "nearbyint". Qed.
  Lemma meets_fabs : meets "fabs". Proof. m1 "fabs". Qed.
  Lemma meets_sqrt : meets "sqrt". Proof. m1 "sqrt". Qed.
  Lemma fmax_doc x y : fmax_go x y = s_fmax x y.
  Proof.
    unfold fmax_go, s_fmax, flt. destruct (fis_nan x); [reflexivity|]. destruct (fis_nan y); [reflexivity|].
    rewrite (Bcompare_swap _ _ x y). destruct (Bcompare x y) as [[]|]; reflexivity.
  Qed.
  Lemma fmin_doc x y : fmin_go x y = s_fmin x y.
  Proof.
    unfold fmin_go, s_fmin, flt. destruct (fis_nan x); [reflexivity|]. destruct (fis_nan y); [reflexivity|].
    rewrite (Bcompare_swap _ _ x y). destruct (Bcompare x y) as [[]|]; reflexivity.
  Qed.
  Lemma meets_fmax : meets "fmax".
  Proof.
    start. inversion H; subst; clear H. apply verdict_one.
    pose proof (f_math2_doc pf pf_bigint l2 "fmax" a b W W0) as D.
    replace (s_math2 s_fmax (denote a) (denote b)) with (s_math2 (math2 l2 "fmax") (denote a) (denote b)); [exact D|].
    unfold s_math2. destruct (is_mnum (denote a)), (is_mnum (denote b)); try reflexivity. do 2 f_equal. apply fmax_doc.
  Qed.
  Lemma meets_fmin : meets "fmin".
  Proof.
    start. inversion H; subst; clear H. apply verdict_one.
    pose proof (f_math2_doc pf pf_bigint l2 "fmin" a b W W0) as D.
    replace (s_math2 s_fmin (denote a) (denote b)) with (s_math2 (math2 l2 "fmin") (denote a) (denote b)); [exact D|].
    unfold s_math2. destruct (is_mnum (denote a)), (is_mnum (denote b)); try reflexivity. do 2 f_equal. apply fmin_doc.
  Qed.

  (* ---- bsearch, infinite, nan, the text formats ---- *)
  Lemma meets_infinite : meets "infinite". Proof. start. inversion H; subst. reflexivity. Qed.
  Lemma meets_nan : meets "nan". Proof. start. inversion H; subst. reflexivity. Qed.
  Lemma meets_bsearch : meets "bsearch".
  Proof. start. eapply verdict_opt; [apply (f_bsearch_doc pf pf_bigint); auto|exact H]. Qed.
  Lemma num_not_str n k : match denote_num pf n with MStr t => k t | _ => @None sres end = None.
  Proof. rewrite denote_num_norm. destruct (norm_num pf n); reflexivity. Qed.
  Ltac fmt2 :=
    start; unfold s_text in *;
    match goal with v : jv |- _ => destruct v end;
    match goal with H : _ = Some _ |- _ => cbn [Spec.denote] in H; try discriminate; try (rewrite num_not_str in H; discriminate) end;
    match goal with H : context [is_bytes ?t] |- _ => destruct (is_bytes t) eqn:B; try discriminate; cbv beta in H end;
    apply verdict_one;
    match goal with B : is_bytes ?t = true |- _ => destruct (formats_meet_doc pf ff t B) as (F1 & F2 & F3 & F4 & F5) end.
  Lemma meets_tohtml : meets "_tohtml". Proof. fmt2. inv_spec. exact F1. Qed.
  Lemma meets_touri : meets "_touri". Proof. fmt2. inv_spec. exact F2. Qed.
  Lemma meets_tourid : meets "_tourid". Proof. fmt2. inv_spec. exact F3. Qed.
  Lemma meets_tobase64 : meets "_tobase64". Proof. fmt2. inv_spec. exact F4. Qed.
  Lemma meets_tobase64d : meets "_tobase64d".
  Proof. fmt2. match goal with H : option_map _ (s_b64d ?t) = _ |- _ => destruct (s_b64d t) eqn:E; cbn [option_map] in H; [|discriminate H] end. inv_spec. apply F5. reflexivity. Qed.

  (* ---- without the former sub-domain restrictions ---- *)
  Ltac fin2 X := inv_spec; apply verdict_one; first [apply (X pf pf_bigint) | apply (X pf)]; auto.
  Lemma meets_ascii_downcase : meets "ascii_downcase". Proof. start. fin2 f_ascii_downcase_any. Qed.
  Lemma meets_ascii_upcase : meets "ascii_upcase". Proof. start. fin2 f_ascii_upcase_any. Qed.
  Lemma meets_implode : meets "implode". Proof. start. fin2 f_implode_any. Qed.
  (* flatten/0 on every input (no nesting bound); flatten/1 wherever Spec.v has an entry (integer depth, |d| < 1000) *)
  Lemma meets_flatten : meets "flatten".
  Proof.
    start.
    - pose proof (f_flatten0_all pf v WV) as D. destruct (s_flatten (denote v) None); [|discriminate].
      inv_spec. apply verdict_one. exact D.
    - eapply verdict_opt; [apply (f_flatten1_doc pf pf_bigint); auto|]. match goal with H : _ = Some _ |- _ => exact H end.
  Qed.
  (* json.Number literals included, given the sign symmetry of ParseFloat *)
  Lemma meets_length : pf_sign pf -> meets "length". Proof. intros PS. start. inv_spec. apply verdict_one. apply f_length_all; auto. Qed.
  Lemma meets_abs : pf_sign pf -> meets "abs". Proof. intros PS. start. inv_spec. apply verdict_one. apply f_abs_all; auto. Qed.
  Lemma meets_negate : pf_sign pf -> meets "_negate". Proof. intros PS. start. inv_spec. apply verdict_one. apply op_negate_all; auto. Qed.
  Definition proved_sign_list : list string := ["length"; "abs"; "_negate"].

  Definition proved_list : list string :=
    ["_add"; "_subtract"; "_multiply"; "_divide"; "_modulo"; "_equal"; "_notequal"; "_less"; "_greater"; "_lesseq";
     "_greatereq"; "_alternative"; "_plus"; "keys"; "has"; "reverse"; "type"; "explode"; "utf8bytelength"; "startswith";
     "endswith"; "ltrimstr"; "rtrimstr"; "trimstr"; "min"; "max"; "_min_by"; "_max_by"; "add"; "tonumber"; "transpose";
     "contains"; "inside"; "indices"; "index"; "rindex"; "toboolean"; "isnan"; "isinfinite"; "isfinite"; "isnormal";
     "error"; "halt"; "halt_error"; "floor"; "ceil"; "trunc"; "round"; "rint"; "nearbyint"; "fabs"; "sqrt"; "fmax"; "fmin";
     "infinite"; "nan"; "bsearch"; "_tohtml"; "_touri"; "_tourid"; "_tobase64"; "_tobase64d"; "ascii_downcase"; "ascii_upcase"; "implode"; "flatten"].

  Theorem meets_doc_listed : Forall meets proved_list.
  Proof.
    unfold proved_list.
    apply Forall_cons; [exact meets_add|].
    apply Forall_cons; [exact meets_subtract|].
    apply Forall_cons; [exact meets_multiply|].
    apply Forall_cons; [exact meets_divide|].
    apply Forall_cons; [exact meets_modulo|].
    apply Forall_cons; [exact meets_equal|].
    apply Forall_cons; [exact meets_notequal|].
    apply Forall_cons; [exact meets_less|].
    apply Forall_cons; [exact meets_greater|].
    apply Forall_cons; [exact meets_lesseq|].
    apply Forall_cons; [exact meets_greatereq|].
    apply Forall_cons; [exact meets_alternative|].
    apply Forall_cons; [exact meets_plus|].
    apply Forall_cons; [exact meets_keys|].
    apply Forall_cons; [exact meets_has|].
    apply Forall_cons; [exact meets_reverse|].
    apply Forall_cons; [exact meets_type|].
    apply Forall_cons; [exact meets_explode|].
    apply Forall_cons; [exact meets_utf8bytelength|].
    apply Forall_cons; [exact meets_startswith|].
    apply Forall_cons; [exact meets_endswith|].
    apply Forall_cons; [exact meets_ltrimstr|].
    apply Forall_cons; [exact meets_rtrimstr|].
    apply Forall_cons; [exact meets_trimstr|].
    apply Forall_cons; [exact meets_min|].
    apply Forall_cons; [exact meets_max|].
    apply Forall_cons; [exact meets_min_by|].
    apply Forall_cons; [exact meets_max_by|].
    apply Forall_cons; [exact meets_add_all|].
    apply Forall_cons; [exact meets_tonumber|].
    apply Forall_cons; [exact meets_transpose|].
    apply Forall_cons; [exact meets_contains|].
    apply Forall_cons; [exact meets_inside|].
    apply Forall_cons; [exact meets_indices|].
    apply Forall_cons; [exact meets_index|].
    apply Forall_cons; [exact meets_rindex|].
    apply Forall_cons; [exact meets_toboolean|].
    apply Forall_cons; [exact meets_isnan|].
    apply Forall_cons; [exact meets_isinfinite|].
    apply Forall_cons; [exact meets_isfinite|].
    apply Forall_cons; [exact meets_isnormal|].
    apply Forall_cons; [exact meets_error|].
    apply Forall_cons; [exact meets_halt|].
    apply Forall_cons; [exact meets_halt_error|].
    apply Forall_cons; [exact meets_floor|].
    apply Forall_cons; [exact meets_ceil|].
    apply Forall_cons; [exact meets_trunc|].
    apply Forall_cons; [exact meets_round|].
    apply Forall_cons; [exact meets_rint|].
    apply Forall_cons; [exact meets_nearbyint|].
    apply Forall_cons; [exact meets_fabs|].
    apply Forall_cons; [exact meets_sqrt|].
    apply Forall_cons; [exact meets_fmax|].
    apply Forall_cons; [exact meets_fmin|].
    apply Forall_cons; [exact meets_infinite|].
    apply Forall_cons; [exact meets_nan|].
    apply Forall_cons; [exact meets_bsearch|].
    apply Forall_cons; [exact meets_tohtml|].
    apply Forall_cons; [exact meets_touri|].
    apply Forall_cons; [exact meets_tourid|].
    apply Forall_cons; [exact meets_tobase64|].
    apply Forall_cons; [exact meets_tobase64d|].
    apply Forall_cons; [exact meets_ascii_downcase|].
    apply Forall_cons; [exact meets_ascii_upcase|].
    apply Forall_cons; [exact meets_implode|].
    apply Forall_cons; [exact meets_flatten|].
    apply Forall_nil.
  Qed.
  (* containers and strings shorter than 2^63 (every Go slice / string is): _slice and _index on all inputs *)
  Definition meets_sized (name : string) : Prop :=
    forall fuel v args s, wf v = true -> forallb wf args = true -> sized v = true -> forallb sized args = true ->
      spec_call pf name v args = Some s -> verdict (call_native pf ff l1 l2 l3 jd lp fuel name v args) s.
  Lemma meets_meets_sized name : meets name -> meets_sized name.
  Proof. intros M fuel v args s WV WA _ _. apply M; auto. Qed.
  Ltac start_sized :=
    intros fuel v args s WV WA SV SA H;
    destruct args as [|a [|b [|c [|d args]]]]; chains_in H; try discriminate;
    cbn [forallb] in WA, SA; repeat (let W := fresh "W" in apply andb_true_iff in WA as [W WA]);
    repeat (let S := fresh "S" in apply andb_true_iff in SA as [S SA]);
    chains; rewrite ?go_index_0, ?go_index_1, ?go_index_2; cbn [bind].
  Lemma meets_slice : meets_sized "_slice".
  Proof. start_sized. inv_spec. apply verdict_one. apply (f_slice_all pf pf_bigint); auto. Qed.
  Lemma meets_index2 : meets_sized "_index".
  Proof. start_sized. eapply verdict_opt; [apply (f_index2_all pf pf_bigint); auto|]. match goal with H : _ = Some _ |- _ => exact H end. Qed.
  Lemma meets_getpath : meets_sized "getpath".
  Proof.
    start_sized. eapply verdict_opt; [apply (f_getpath_full pf pf_bigint); auto|].
    match goal with H : _ = Some _ |- _ => exact H end.
  Qed.
  Definition proved_sized_list : list string := ["_slice"; "_index"; "getpath"].

  Theorem meets_doc_listed_in name :
    In name proved_list \/ (pf_sign pf /\ In name proved_sign_list) \/ In name proved_sized_list -> meets_sized name.
  Proof.
    intros [I|[[PS I]|I]].
    - apply meets_meets_sized. exact (proj1 (Forall_forall meets proved_list) meets_doc_listed name I).
    - apply meets_meets_sized. unfold proved_sign_list in I. cbn [In] in I. destruct I as [<-|[<-|[<-|[]]]].
      + exact (meets_length PS). + exact (meets_abs PS). + exact (meets_negate PS).
    - unfold proved_sized_list in I. cbn [In] in I. destruct I as [<-|[<-|[<-|[]]]].
      + exact meets_slice. + exact meets_index2. + exact meets_getpath.
  Qed.
End Listed.
