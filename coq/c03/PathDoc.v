(* C03 meets_doc: .[k] (_index) on string / integer keys and getpath, for values whose arrays and strings
   are shorter than 2^63 (true of every Go value) and keys that do not denote a float (a float index is
   truncated by toInt; judged by the correspondence run). *)
From Coq Require Import List ZArith NArith Bool String Lia.
From Flocq Require Import IEEE754.BinarySingleNaN.
From Verif Require Import common.Sexp common.Int64 c03.JV c03.Core c03.Ops c03.Natives c03.Spec c03.Wf c03.Denote
  c03.CompareDoc c03.OpsDoc c03.NativesDoc c03.NativesDoc2 c03.NativesDoc3 c03.StringsDoc c03.NoPanic2.
Import ListNotations.
Open Scope Z_scope.

(* lengths fit a Go int *)
Fixpoint sized (v : jv) : bool :=
  match v with
  | JStr s => llen s <=? max_int
  | JArr l => (llen l <=? max_int) && forallb sized l
  | JObj m => forallb (fun kv => sized (snd kv)) m
  | _ => true
  end.

Lemma go_index_nth_d {A} (l : list A) k d : 0 <= k < llen l -> go_index l k = Val (nth (Z.to_nat k) l d).
Proof.
  intros H. apply go_index_nth; auto. unfold llen in H. apply nth_error_nth'. lia.
Qed.

Section PathDoc.
  Variable pf : bytes -> option float.
  Hypothesis pf_bigint : forall z, big_to_float pf z = Z2F z.
  Notation denote := (denote pf).
  Notation agrees := (agrees pf).
  Notation ragrees := (ragrees pf).

  Definition pick {A} (l : list A) (d : A) (i : Z) : A :=
    let j := if i <? 0 then i + llen l else i in
    if (0 <=? j) && (j <? llen l) then nth (Z.to_nat j) l d else d.

  Lemma clamp_m1 i len : in_int i -> 0 <= len <= max_int ->
    let j := if i <? 0 then i + len else i in
    let c := clamp_index i (-1) len in
    ((0 <=? c) && (c <? len)) = ((0 <=? j) && (j <? len)) /\ ((0 <=? j) && (j <? len) = true -> c = j).
  Proof.
    intros HI HL. unfold clamp_index. cbv zeta.
    assert (W : i < 0 -> wrap64 (i + len) = i + len).
    { intros. apply wrap64_id. unfold in_int, min_int, max_int in *. lia. }
    destruct (Z.ltb_spec i 0) as [L|L]; [rewrite (W L)|];
      repeat match goal with
      | |- context [?a <? ?b] => destruct (Z.ltb_spec a b)
      | |- context [?a <=? ?b] => destruct (Z.leb_spec a b)
      end; simpl; split; intros; try reflexivity; try discriminate; try lia.
  Qed.

  Lemma index_arr_doc vs i : in_int i -> llen vs <= max_int -> index_arr vs i = Val (pick vs JNull i).
  Proof.
    intros HI HL. unfold index_arr, pick. cbv zeta.
    destruct (clamp_m1 i (llen vs) HI ltac:(pose proof (llen_nonneg vs); lia)) as [E1 E2]. cbv zeta in *.
    rewrite E1. destruct ((0 <=? (if i <? 0 then i + llen vs else i)) && _) eqn:C; [|reflexivity].
    rewrite (E2 eq_refl). apply andb_true_iff in C as [C1 C2]. apply Z.leb_le in C1. apply Z.ltb_lt in C2.
    apply go_index_nth_d. lia.
  Qed.
  Lemma index_str_doc s i : in_int i -> llen (chunks s) <= max_int ->
    index_str s i = Val (let rs := runes s in
                         let j := if i <? 0 then i + llen rs else i in
                         if (0 <=? j) && (j <? llen rs) then JStr (encode_rune (nth (Z.to_nat j) rs 0%N)) else JNull).
  Proof.
    intros HI HL. unfold index_str. cbv zeta.
    assert (LR : llen (runes s) = llen (chunks s)) by (unfold runes, llen; rewrite map_length; reflexivity).
    rewrite LR.
    destruct (clamp_m1 i (llen (chunks s)) HI ltac:(pose proof (llen_nonneg (chunks s)); lia)) as [E1 E2]. cbv zeta in *.
    rewrite E1. destruct ((0 <=? (if i <? 0 then i + llen (chunks s) else i)) && _) eqn:C; [|reflexivity].
    rewrite (E2 eq_refl). apply andb_true_iff in C as [C1 C2]. apply Z.leb_le in C1. apply Z.ltb_lt in C2.
    rewrite (go_index_nth_d (chunks s) _ ((0%N, []) : N * bytes)) by lia. cbn [bind]. unfold vstr. f_equal. f_equal. f_equal.
    unfold runes. change 0%N with (fst ((0%N, []) : N * bytes)) at 2. rewrite map_nth. reflexivity.
  Qed.

  (* integer keys: toInt of the key is the documented index *)
  Definition int_key (x : jv) : Prop := exists z, denote x = MInt z.
  Lemma int_key_index n z : wf_num n = true -> denote (JNum n) = MInt z ->
    in_int (pnum_to_int (norm_num pf n)) /\ as_index (MInt z) = Some (pnum_to_int (norm_num pf n)).
  Proof.
    intros W E. rewrite denote_jnum in E. pose proof (norm_num_wf pf n W) as WP.
    destruct (norm_num pf n); simpl in *; inversion E; subst.
    - apply in_intb_spec in WP. split; auto. f_equal. unfold in_int, min_int, max_int in *. lia.
    - split.
      + unfold in_int. destruct (in_intb z) eqn:B; [apply in_intb_spec in B; auto|]. unfold min_int, max_int. destruct (0 <? z); lia.
      + f_equal. unfold in_intb, min_int, max_int.
        destruct (- 2 ^ 63 <=? z) eqn:E1; destruct (z <=? 2 ^ 63 - 1) eqn:E2; simpl;
          try apply Z.leb_le in E1; try apply Z.leb_le in E2; try apply Z.leb_gt in E1; try apply Z.leb_gt in E2;
          try (destruct (0 <? z) eqn:E3; [apply Z.ltb_lt in E3|apply Z.ltb_ge in E3]); lia.
  Qed.

  Lemma sized_arr l : sized (JArr l) = true -> llen l <= max_int.
  Proof. simpl. intros H. apply andb_true_iff in H as [H _]. apply Z.leb_le in H. exact H. Qed.

  Lemma denote_pick l i : denote (pick l JNull i) = pick (map denote l) MNull i.
  Proof.
    unfold pick. unfold llen. rewrite map_length. destruct ((0 <=? _) && (_ <? _)); [|reflexivity].
    change MNull with (denote JNull). rewrite map_nth. reflexivity.
  Qed.
  Lemma obj_get_doc m k : denote (match obj_get m k with Some w => w | None => JNull end)
                          = match mget (mapd pf m) k with Some v => v | None => MNull end.
  Proof. rewrite (mget_mapd pf). destruct (obj_get m k); reflexivity. Qed.

  (* one step of a path on null / array / object with a string or integer key *)
  Definition step_spec (a k : mv) : sres :=
    match k with
    | MStr s => match a with
                | MNull => SVal MNull
                | MObj m => SVal (match mget m s with Some v => v | None => MNull end)
                | _ => SErr
                end
    | MInt _ => match a, as_index k with
                | MNull, _ => SVal MNull
                | MArr l, Some i => SVal (pick l MNull i)
                | _, _ => SErr
                end
    | _ => SErr
    end.
  Lemma f_index2_step v x : wf v = true -> wf x = true -> sized v = true ->
    (match v with JStr _ => False | _ => True end) ->
    (forall f, denote x <> MFlt f) -> (forall l, denote x <> MArr l) -> (forall m, denote x <> MObj m) ->
    agrees (f_index2 pf v x) (step_spec (denote v) (denote x)).
  Proof.
    intros WV WX SZ NS NF NA NO. unfold f_index2.
    destruct x as [|b|n|k|xl|xm|]; try discriminate.
    - destruct v; try reflexivity; try discriminate; destruct NS.
    - destruct v; try reflexivity; try discriminate; destruct NS.
    - (* number key *)
      destruct (denote (JNum n)) eqn:E; try (rewrite denote_jnum in E; destruct (norm_num pf n); discriminate).
      2:{ exfalso. eapply NF; eauto. }
      destruct (int_key_index n z WX E) as [HI AS]. cbn [step_spec]. rewrite AS.
      destruct v as [| |vn| |l| |]; try discriminate; try reflexivity; try destruct NS.
      + cbn [Spec.denote]. rewrite denote_num_norm. destruct (norm_num pf vn); reflexivity.
      + rewrite index_arr_doc by (auto using sized_arr). unfold OpsDoc.agrees. cbn [Spec.denote]. apply denote_pick.
    - (* string key *)
      cbn [Spec.denote step_spec]. destruct v as [| |vn| | |m|]; try discriminate; try reflexivity; try destruct NS.
      + cbn [Spec.denote]. rewrite denote_num_norm. destruct (norm_num pf vn); reflexivity.
      + unfold OpsDoc.agrees. cbn [Spec.denote]. apply obj_get_doc.
    - exfalso. eapply NA. reflexivity.
    - exfalso. eapply NO. reflexivity.
  Qed.

  (* what .[k] returns is again well-formed and sized *)
  Lemma obj_get_in {A} (m : list (bytes * A)) k w : obj_get m k = Some w -> In (k, w) m \/ exists k', In (k', w) m.
  Proof. induction m as [|[k' v] m IH]; simpl; [discriminate|]. destruct (bytes_eqb k k'); intros H; [inversion H; subst; right; eexists; left; reflexivity|]. destruct (IH H) as [I|[k2 I]]; [left; right; auto|right; exists k2; right; auto]. Qed.
  Lemma f_index2_keeps v x w : wf v = true -> sized v = true ->
    (match x with JStr _ | JNum _ => True | _ => False end) -> (match v with JStr _ => False | _ => True end) ->
    f_index2 pf v x = Val w -> wf w = true /\ sized w = true.
  Proof.
    intros WV SZ KX NS. unfold f_index2. destruct x as [| |n|k| | |]; try destruct KX.
    - destruct v as [| |vn| |l| |]; try discriminate; try destruct NS.
      + intros H; inversion H; auto.
      + unfold index_arr. destruct (_ && _); [|intros H; inversion H; auto].
        intros H. apply go_index_val in H as [_ I]. simpl in WV, SZ. apply andb_true_iff in SZ as [_ SZ].
        rewrite forallb_forall in WV, SZ. auto.
    - destruct v as [| |vn| | |m|]; try discriminate; try destruct NS.
      + intros H; inversion H; auto.
      + intros H; inversion H; subst. destruct (obj_get m k) eqn:E; [|auto].
        simpl in WV, SZ. apply andb_true_iff in WV as [_ WV]. rewrite forallb_forall in WV, SZ.
        destruct (obj_get_in _ _ _ E) as [I|[k' I]]; [split; [apply (WV _ I)|apply (SZ _ I)]|split; [apply (WV _ I)|apply (SZ _ I)]].
  Qed.

  (* path keys of this theorem: strings and integer-denoting numbers, plus null / booleans (errors) *)
  Definition pkey (x : jv) : Prop :=
    wf x = true /\ (forall f, denote x <> MFlt f) /\ (forall l, denote x <> MArr l) /\ (forall m, denote x <> MObj m).

  Lemma s_getpath_step k r a :
    (forall f, k <> MFlt f) -> (forall l, k <> MArr l) -> (forall m, k <> MObj m) ->
    s_getpath (k :: r) a =
    match a with
    | MNull | MArr _ | MObj _ => match step_spec a k with SVal w => s_getpath r w | SErr => Some SErr end
    | _ => Some SErr
    end.
  Proof.
    intros NF NA NO. destruct k; try (exfalso; eapply NF; reflexivity); try (exfalso; eapply NA; reflexivity);
      try (exfalso; eapply NO; reflexivity); destruct a; try reflexivity.
  Qed.

  Theorem getpath_loop_doc path : forall v, wf v = true -> sized v = true -> Forall pkey path ->
    ragrees (getpath_loop pf path v) (s_getpath (map denote path) (denote v)).
  Proof.
    induction path as [|x r IH]; intros v WV SZ PK; [simpl; reflexivity|].
    inversion PK as [|? ? [WX [NF [NA NO]]] PR]; subst. cbn [map]. rewrite s_getpath_step by auto.
    cbn [getpath_loop].
    destruct v as [|b|n|s|l|m|] eqn:EV; try discriminate;
      try (cbn [Spec.denote]; rewrite ?denote_num_norm; try destruct (norm_num pf n); exact I).
    - pose proof (f_index2_step JNull x WV WX SZ I NF NA NO) as ST.
      destruct (f_index2 pf JNull x) as [w| |] eqn:E; destruct (step_spec (denote JNull) (denote x)) eqn:E2; simpl in ST; try contradiction; [|exact I].
      cbn [Spec.denote] in *. try rewrite E2. cbv iota. subst m.
      assert (KX : match x with JStr _ | JNum _ => True | _ => False end).
      { destruct x as [| |xn| | | |]; auto; simpl in E2; try discriminate. }
      destruct (f_index2_keeps JNull x w WV SZ KX I E). apply IH; auto.
    - pose proof (f_index2_step (JArr l) x WV WX SZ I NF NA NO) as ST.
      destruct (f_index2 pf (JArr l) x) as [w| |] eqn:E; destruct (step_spec (denote (JArr l)) (denote x)) eqn:E2; simpl in ST; try contradiction; [|cbn [Spec.denote] in *; try rewrite E2; exact I].
      cbn [Spec.denote] in *. try rewrite E2. cbv iota. subst m.
      assert (KX : match x with JStr _ | JNum _ => True | _ => False end).
      { destruct x as [| |xn| | | |]; auto; simpl in E2; try discriminate. }
      destruct (f_index2_keeps (JArr l) x w WV SZ KX I E). apply IH; auto.
    - pose proof (f_index2_step (JObj m) x WV WX SZ I NF NA NO) as ST.
      destruct (f_index2 pf (JObj m) x) as [w| |] eqn:E; destruct (step_spec (denote (JObj m)) (denote x)) eqn:E2; simpl in ST; try contradiction; [|cbn [Spec.denote] in *; try rewrite E2; exact I].
      cbn [Spec.denote] in *. try rewrite E2. cbv iota. subst m0.
      assert (KX : match x with JStr _ | JNum _ => True | _ => False end).
      { destruct x as [| |xn| | | |]; auto; simpl in E2; try discriminate. }
      destruct (f_index2_keeps (JObj m) x w WV SZ KX I E). apply IH; auto.
  Qed.
  Theorem f_getpath_doc v path : wf v = true -> sized v = true -> Forall pkey path ->
    ragrees (f_getpath pf v (JArr path)) (s_getpath (map denote path) (denote v)).
  Proof. intros. apply getpath_loop_doc; auto. Qed.
End PathDoc.
