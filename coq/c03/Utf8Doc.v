(* C03 — UTF-8 facts: every chunk of Go's decoding is either a well-formed sequence (which re-encodes to
   itself) or a single invalid byte; a string is valid UTF-8 iff no chunk is invalid. *)
From Coq Require Import List ZArith NArith Bool Lia ZifyN ZifyBool.
From Verif Require Import common.Sexp c03.JV.
Import ListNotations.
Open Scope N_scope.

Ltac nbool :=
  repeat match goal with
  | H : (_ && _)%bool = true |- _ => apply andb_true_iff in H; destruct H
  | H : (_ <=? _) = true |- _ => apply N.leb_le in H
  | H : (_ <=? _) = false |- _ => apply N.leb_gt in H
  | H : (_ <? _) = true |- _ => apply N.ltb_lt in H
  | H : (_ <? _) = false |- _ => apply N.ltb_ge in H
  | H : (_ =? _) = true |- _ => apply N.eqb_eq in H
  | H : (_ =? _) = false |- _ => apply N.eqb_neq in H
  end.

Lemma enc2 b0 b1 : 194 <= b0 <= 223 -> 128 <= b1 <= 191 -> encode_rune ((b0 - 192) * 64 + (b1 - 128)) = [b0; b1].
Proof.
  intros H0 H1. unfold encode_rune. set (r := (b0 - 192) * 64 + (b1 - 128)).
  assert (128 <= r < 2048) by (subst r; lia).
  destruct (r <? 128) eqn:E1; [apply N.ltb_lt in E1; lia|]. destruct (r <? 2048) eqn:E2; [|apply N.ltb_ge in E2; lia].
  assert (r / 64 = b0 - 192) by (subst r; rewrite N.div_add_l by lia; rewrite N.div_small by lia; lia).
  assert (r mod 64 = b1 - 128) by (subst r; rewrite N.add_comm, N.mod_add by lia; apply N.mod_small; lia).
  rewrite H2, H3. f_equal; [lia|f_equal; lia].
Qed.

Lemma digits3 a b c : b < 64 -> c < 64 ->
  let r := a * 4096 + b * 64 + c in r / 4096 = a /\ (r / 64) mod 64 = b /\ r mod 64 = c.
Proof.
  intros Hb Hc r. assert (R : r = (a * 64 + b) * 64 + c) by (subst r; lia).
  assert (D : r / 64 = a * 64 + b) by (rewrite R, N.div_add_l by lia; rewrite N.div_small by lia; lia).
  repeat split.
  - change 4096 with (64 * 64). rewrite <- N.div_div by lia. rewrite D, N.div_add_l by lia. rewrite N.div_small by lia. lia.
  - rewrite D, N.add_comm, N.mod_add by lia. apply N.mod_small; lia.
  - rewrite R, N.add_comm, N.mod_add by lia. apply N.mod_small; lia.
Qed.
Lemma digits4 a b c d : b < 64 -> c < 64 -> d < 64 ->
  let r := a * 262144 + b * 4096 + c * 64 + d in
  r / 262144 = a /\ (r / 4096) mod 64 = b /\ (r / 64) mod 64 = c /\ r mod 64 = d.
Proof.
  intros Hb Hc Hd r. assert (R : r = (a * 64 + b) * 4096 + c * 64 + d) by (subst r; lia).
  destruct (digits3 (a * 64 + b) c d Hc Hd) as (D1 & D2 & D3). rewrite <- R in *.
  repeat split; auto.
  - change 262144 with (4096 * 64). rewrite <- N.div_div by lia. rewrite D1, N.div_add_l by lia. rewrite N.div_small by lia. lia.
  - rewrite D1, N.add_comm, N.mod_add by lia. apply N.mod_small; lia.
Qed.

Lemma enc3 b0 b1 b2 : 224 <= b0 <= 239 -> (if b0 =? 224 then 160 else 128) <= b1 -> b1 <= (if b0 =? 237 then 159 else 191) ->
  128 <= b2 <= 191 -> encode_rune ((b0 - 224) * 4096 + (b1 - 128) * 64 + (b2 - 128)) = [b0; b1; b2].
Proof.
  intros H0 H1 H1' H2.
  assert (B1 : 128 <= b1 <= 191) by (destruct (b0 =? 224), (b0 =? 237); lia).
  destruct (digits3 (b0 - 224) (b1 - 128) (b2 - 128) ltac:(lia) ltac:(lia)) as (D1 & D2 & D3).
  set (r := (b0 - 224) * 4096 + (b1 - 128) * 64 + (b2 - 128)) in *.
  assert (R : 2048 <= r < 65536 /\ ~ (55296 <= r <= 57343)).
  { subst r. destruct (N.eqb_spec b0 224), (N.eqb_spec b0 237); lia. }
  unfold encode_rune.
  destruct (r <? 128) eqn:E1; [apply N.ltb_lt in E1; lia|]. destruct (r <? 2048) eqn:E2; [apply N.ltb_lt in E2; lia|].
  destruct (((55296 <=? r) && (r <=? 57343) || (1114111 <? r))%bool) eqn:E3.
  { apply orb_true_iff in E3 as [E3|E3]; nbool; lia. }
  destruct (r <? 65536) eqn:E4; [|apply N.ltb_ge in E4; lia].
  rewrite D1, D2, D3. repeat (f_equal; try lia).
Qed.
Lemma enc4 b0 b1 b2 b3 : 240 <= b0 <= 244 -> (if b0 =? 240 then 144 else 128) <= b1 -> b1 <= (if b0 =? 244 then 143 else 191) ->
  128 <= b2 <= 191 -> 128 <= b3 <= 191 ->
  encode_rune ((b0 - 240) * 262144 + (b1 - 128) * 4096 + (b2 - 128) * 64 + (b3 - 128)) = [b0; b1; b2; b3].
Proof.
  intros H0 H1 H1' H2 H3.
  assert (B1 : 128 <= b1 <= 191) by (destruct (b0 =? 240), (b0 =? 244); lia).
  destruct (digits4 (b0 - 240) (b1 - 128) (b2 - 128) (b3 - 128) ltac:(lia) ltac:(lia) ltac:(lia)) as (D1 & D2 & D3 & D4).
  set (r := (b0 - 240) * 262144 + (b1 - 128) * 4096 + (b2 - 128) * 64 + (b3 - 128)) in *.
  assert (R : 65536 <= r <= 1114111).
  { subst r. destruct (N.eqb_spec b0 240), (N.eqb_spec b0 244); lia. }
  unfold encode_rune.
  destruct (r <? 128) eqn:E1; [apply N.ltb_lt in E1; lia|]. destruct (r <? 2048) eqn:E2; [apply N.ltb_lt in E2; lia|].
  destruct (((55296 <=? r) && (r <=? 57343) || (1114111 <? r))%bool) eqn:E3.
  { apply orb_true_iff in E3 as [E3|E3]; nbool; lia. }
  destruct (r <? 65536) eqn:E4; [apply N.ltb_lt in E4; lia|].
  rewrite D1, D2, D3, D4. repeat (f_equal; try lia).
Qed.

(* a chunk is good when it re-encodes to its own bytes; otherwise it is one byte that re-encodes to the
   three bytes of U+FFFD *)
Definition good (c : N * bytes) : bool := bytes_eqb (encode_rune (fst c)) (snd c).
Definition chunk_ok (c : N * bytes) : Prop :=
  encode_rune (fst c) = snd c \/ (List.length (snd c) = 1%nat /\ List.length (encode_rune (fst c)) = 3%nat).

Lemma chunks_ok_aux n : forall s, (List.length s <= n)%nat -> Forall chunk_ok (chunks s).
Proof.
  induction n; intros s HL.
  - destruct s; [constructor|simpl in HL; lia].
  - destruct s as [|b0 r]; [constructor|].
    assert (IH : forall t, (List.length t <= List.length r)%nat -> Forall chunk_ok (chunks t)).
    { intros; apply IHn; simpl in HL; lia. }
    assert (BAD : chunk_ok (rune_error, [b0])) by (right; split; reflexivity).
    cbn [chunks]. unfold is_cont.
    destruct r as [|b1 [|b2 [|b3 r3]]];
      repeat match goal with |- context [if ?c then _ else _] => destruct c eqn:? end;
      (constructor;
       [ first [ exact BAD
               | left; cbn [fst snd]; nbool;
                 first [ unfold encode_rune; match goal with H : b0 < 128 |- _ => apply N.ltb_lt in H; rewrite H; reflexivity end
                       | apply enc2; lia | apply enc3; auto; lia | apply enc4; auto; lia ] ]
       | first [ apply IH; simpl; lia | constructor ] ]).
Qed.
Lemma chunks_ok s : Forall chunk_ok (chunks s).
Proof. eapply chunks_ok_aux; eauto. Qed.

Lemma ok_count cs : Forall chunk_ok cs ->
  exists k, List.length (flat_map (fun c => encode_rune (fst c)) cs) = (List.length (flat_map snd cs) + 2 * k)%nat
            /\ (k = 0%nat -> Forall (fun c => encode_rune (fst c) = snd c) cs).
Proof.
  induction 1 as [|c cs Hc Hcs [k [L HZ]]]; [exists 0%nat; split; [reflexivity|constructor]|].
  destruct Hc as [E|[L1 L3]]; unfold bytes in *.
  - exists k. cbn [flat_map]. rewrite !app_length, E, L. split; [lia|]. intros K. constructor; auto.
  - exists (S k). cbn [flat_map]. rewrite !app_length, L1, L3, L. split; [lia|discriminate].
Qed.

Lemma unchunk_chunks' s : flat_map snd (chunks s) = s.
Proof.
  assert (G : forall n s, (List.length s <= n)%nat -> flat_map snd (chunks s) = s).
  { induction n; intros t HL.
    - destruct t; [reflexivity|simpl in HL; lia].
    - destruct t as [|b0 r]; [reflexivity|].
      assert (IH : forall u, (List.length u <= List.length r)%nat -> flat_map snd (chunks u) = u).
      { intros; apply IHn; simpl in HL; lia. }
      cbn [chunks].
      destruct r as [|b1 [|b2 [|b3 r3]]];
        repeat match goal with |- context [if ?c then _ else _] => destruct c end;
        cbn [flat_map snd app]; rewrite ?IH by (simpl; lia); reflexivity. }
  eapply G; eauto.
Qed.

