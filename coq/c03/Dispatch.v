(* C03 — the table of natives as the model sees it: call_native dispatches a name and an argument
   slice exactly like `internalFuncs[name].callback(v, args)`; model_table records, per modelled
   name, the arity mask / iter flag / Go callee the model was written against, and table_check
   compares it with the table TRANSLATED from func.go (coq/gen/GenFuncTable.v).  Definitions only. *)
From Coq Require Import List ZArith NArith Bool String Ascii.
From Flocq Require Import IEEE754.BinarySingleNaN.
From Verif Require Import common.Sexp common.Int64 c03.JV c03.Core c03.Ops c03.Natives.
Import ListNotations.
Open Scope Z_scope.
Open Scope string_scope.

(* a native returns one value, or (iter natives) a sequence: the first outputs and whether the model
   stopped enumerating (fuel) before the iterator ended *)
Inductive res := ROne (v : jv) | RSeq (l : list jv) (cut : bool).

(* mathFunc / mathFunc2 / mathFunc3 names *)
Definition math1_names : list string :=
  ["sin"; "cos"; "tan"; "asin"; "acos"; "atan"; "sinh"; "cosh"; "tanh"; "asinh"; "acosh"; "atanh";
   "floor"; "round"; "nearbyint"; "rint"; "ceil"; "trunc"; "significand"; "fabs"; "sqrt"; "cbrt";
   "exp"; "exp10"; "exp2"; "expm1"; "log"; "log10"; "log1p"; "log2"; "logb"; "gamma"; "tgamma";
   "lgamma"; "erf"; "erfc"; "j0"; "j1"; "y0"; "y1"].
Definition math2_names : list string :=
  ["atan2"; "copysign"; "drem"; "fdim"; "fmax"; "fmin"; "fmod"; "hypot"; "jn"; "nextafter";
   "nexttoward"; "remainder"; "ldexp"; "scalb"; "scalbln"; "yn"; "pow"].
Definition math3_names : list string := ["fma"].
(* computed exactly by the model (the others are libm oracles: only dispatch, argument conversion
   and result class are modelled) *)
Definition exact_math : list string :=
  ["floor"; "round"; "nearbyint"; "rint"; "ceil"; "trunc"; "fabs"; "sqrt"; "fmax"; "fmin"].
Definition mem (s : string) (l : list string) : bool := existsb (String.eqb s) l.

Section Dispatch.
  Variable parse_float : bytes -> option float.
  Variable fmt_float : float -> bytes.
  Variable libm1 : string -> float -> float.
  Variable libm2 : string -> float -> float -> float.
  Variable libm3 : string -> float -> float -> float -> float.
  Variable json_decode : bytes -> jv + bool.
  Variable libm_pair : string -> float -> jv.

  Notation compare := (compare parse_float).

  Definition call_native (fuel : nat) (name : string) (v : jv) (args : list jv) : option (outcome res) :=
    let one (o : outcome jv) : option (outcome res) := Some (do x <- o; Val (ROne x)) in
    let arg (k : Z) : outcome jv := go_index args k in
    let f0 (f : jv -> outcome jv) := one (f v) in
    let f1 (f : jv -> jv -> outcome jv) := one (do a <- arg 0; f v a) in
    let op2 (f : jv -> jv -> outcome jv) := one (do a <- arg 0; do b <- arg 1; f a b) in
    let is (s : string) := String.eqb name s in
    if is "abs" then f0 f_abs
    else if is "length" then f0 f_length
    else if is "utf8bytelength" then f0 f_utf8bytelength
    else if is "keys" then f0 f_keys
    else if is "has" then f1 (f_has parse_float)
    else if is "add" then f0 (f_add parse_float)
    else if is "toboolean" then f0 f_toboolean
    else if is "tonumber" then f0 (f_tonumber parse_float)
    else if is "tostring" then f0 (f_tostring fmt_float)
    else if is "type" then f0 f_type
    else if is "reverse" then f0 f_reverse
    else if is "contains" then f1 (f_contains parse_float)
    else if is "inside" then f1 (f_inside parse_float)
    else if is "indices" then f1 (f_indices parse_float)
    else if is "index" then f1 (f_index parse_float)
    else if is "rindex" then f1 (f_rindex parse_float)
    else if is "startswith" then f1 f_startswith
    else if is "endswith" then f1 f_endswith
    else if is "ltrimstr" then f1 f_ltrimstr
    else if is "rtrimstr" then f1 f_rtrimstr
    else if is "trimstr" then f1 f_trimstr
    else if is "ltrim" then f0 f_ltrim
    else if is "rtrim" then f0 f_rtrim
    else if is "trim" then f0 f_trim
    else if is "explode" then f0 f_explode
    else if is "implode" then f0 (f_implode parse_float)
    else if is "split" then f1 f_split
    else if is "join" then f1 (f_join parse_float fmt_float)
    else if is "ascii_downcase" then f0 f_ascii_downcase
    else if is "ascii_upcase" then f0 f_ascii_upcase
    else if is "tojson" then f0 (f_tojson fmt_float)
    else if is "fromjson" then f0 (f_fromjson json_decode)
    else if is "format" then f1 (f_format fmt_float)
    else if is "_tohtml" then f0 (f_tohtml fmt_float)
    else if is "_touri" then f0 (f_touri fmt_float)
    else if is "_tourid" then f0 (f_tourid fmt_float)
    else if is "_tocsv" then f0 (f_tocsv fmt_float)
    else if is "_totsv" then f0 (f_totsv fmt_float)
    else if is "_tosh" then f0 (f_tosh fmt_float)
    else if is "_tobase64" then f0 (f_tobase64 fmt_float)
    else if is "_tobase64d" then f0 (f_tobase64d fmt_float)
    else if is "_index" then op2 (f_index2 parse_float)
    else if is "_slice" then one (do a <- arg 0; do b <- arg 1; do c <- arg 2; f_slice parse_float a b c)
    else if is "_plus" then f0 op_plus
    else if is "_negate" then f0 op_negate
    else if is "_add" then op2 (op_add parse_float)
    else if is "_subtract" then op2 (op_sub parse_float)
    else if is "_multiply" then op2 (op_mul parse_float)
    else if is "_divide" then op2 (op_div parse_float)
    else if is "_modulo" then op2 (op_mod parse_float)
    else if is "_alternative" then op2 op_alt
    else if is "_equal" then op2 (op_cmp parse_float (fun c => (c =? 0)%Z))
    else if is "_notequal" then op2 (op_cmp parse_float (fun c => negb (c =? 0)%Z))
    else if is "_greater" then op2 (op_cmp parse_float (fun c => (0 <? c)%Z))
    else if is "_less" then op2 (op_cmp parse_float (fun c => (c <? 0)%Z))
    else if is "_greatereq" then op2 (op_cmp parse_float (fun c => (0 <=? c)%Z))
    else if is "_lesseq" then op2 (op_cmp parse_float (fun c => (c <=? 0)%Z))
    else if is "flatten" then one (f_flatten parse_float v args)
    else if is "_range" then Some (do r <- f_range parse_float fuel args; Val (RSeq (fst r) (snd r)))
    else if is "min" then f0 (f_minmax parse_float true)
    else if is "_min_by" then f1 (f_minmax_by parse_float true)
    else if is "max" then f0 (f_minmax parse_float false)
    else if is "_max_by" then f1 (f_minmax_by parse_float false)
    else if is "sort" then one (f_sort_by parse_float false v v)
    else if is "_sort_by" then f1 (f_sort_by parse_float true)
    else if is "_group_by" then f1 (f_group_by parse_float)
    else if is "unique" then one (f_unique_by parse_float false v v)
    else if is "_unique_by" then f1 (f_unique_by parse_float true)
    else if mem name math1_names then f0 (f_math1 parse_float libm1 name)
    else if mem name math2_names then op2 (f_math2 parse_float libm2 name)
    else if mem name math3_names then one (do a <- arg 0; do b <- arg 1; do c <- arg 2; f_math3 parse_float libm3 name a b c)
    else if is "frexp" then f0 (f_pair parse_float libm_pair name)
    else if is "modf" then f0 (f_pair parse_float libm_pair name)
    else if is "infinite" then one (Val (jflt (finf false)))
    else if is "nan" then one (Val (jflt fnan))
    else if is "isfinite" then f0 (f_isfinite parse_float)
    else if is "isinfinite" then f0 (f_isinfinite parse_float)
    else if is "isnan" then f0 (f_isnan parse_float)
    else if is "isnormal" then f0 (f_isnormal parse_float)
    else if is "setpath" then one (do a <- arg 0; do b <- arg 1; f_setpath parse_float v a b)
    else if is "delpaths" then f1 (f_delpaths parse_float)
    else if is "getpath" then f1 (f_getpath parse_float)
    else if is "transpose" then f0 f_transpose
    else if is "bsearch" then f1 (f_bsearch parse_float)
    else if is "error" then one (f_error v args)
    else if is "halt" then one (Err (EHalt JNull 0))
    else if is "halt_error" then one (f_halt_error parse_float v args)
    else None.
End Dispatch.

(* what the model was written against: name, arity mask, iter flag, Go callee (for mathFunc: the
   function passed to it) *)
Definition model_table : list (string * (N * bool * string)) :=
  [("abs", (1%N, false, "funcAbs")); ("length", (1%N, false, "funcLength"));
   ("utf8bytelength", (1%N, false, "funcUtf8ByteLength")); ("keys", (1%N, false, "funcKeys"));
   ("has", (2%N, false, "funcHas")); ("add", (1%N, false, "funcAdd"));
   ("toboolean", (1%N, false, "funcToBoolean")); ("tonumber", (1%N, false, "funcToNumber"));
   ("tostring", (1%N, false, "funcToString")); ("type", (1%N, false, "funcType"));
   ("reverse", (1%N, false, "funcReverse")); ("contains", (2%N, false, "funcContains"));
   ("inside", (2%N, false, "funcInside")); ("indices", (2%N, false, "funcIndices"));
   ("index", (2%N, false, "funcIndex")); ("rindex", (2%N, false, "funcRindex"));
   ("startswith", (2%N, false, "funcStartsWith")); ("endswith", (2%N, false, "funcEndsWith"));
   ("ltrimstr", (2%N, false, "funcLtrimstr")); ("rtrimstr", (2%N, false, "funcRtrimstr"));
   ("trimstr", (2%N, false, "funcTrimstr")); ("ltrim", (1%N, false, "funcLtrim"));
   ("rtrim", (1%N, false, "funcRtrim")); ("trim", (1%N, false, "funcTrim"));
   ("explode", (1%N, false, "funcExplode")); ("implode", (1%N, false, "funcImplode"));
   ("split", (2%N, false, "funcSplit")); ("join", (2%N, false, "funcJoin"));
   ("ascii_downcase", (1%N, false, "funcASCIIDowncase")); ("ascii_upcase", (1%N, false, "funcASCIIUpcase"));
   ("tojson", (1%N, false, "funcToJSON")); ("fromjson", (1%N, false, "funcFromJSON"));
   ("format", (2%N, false, "funcFormat")); ("_tohtml", (1%N, false, "funcToHTML"));
   ("_touri", (1%N, false, "funcToURI")); ("_tourid", (1%N, false, "funcToURId"));
   ("_tocsv", (1%N, false, "funcToCSV")); ("_totsv", (1%N, false, "funcToTSV"));
   ("_tosh", (1%N, false, "funcToSh")); ("_tobase64", (1%N, false, "funcToBase64"));
   ("_tobase64d", (1%N, false, "funcToBase64d")); ("_index", (4%N, false, "funcIndex2"));
   ("_slice", (8%N, false, "funcSlice")); ("_plus", (1%N, false, "funcOpPlus"));
   ("_negate", (1%N, false, "funcOpNegate")); ("_add", (4%N, false, "funcOpAdd"));
   ("_subtract", (4%N, false, "funcOpSub")); ("_multiply", (4%N, false, "funcOpMul"));
   ("_divide", (4%N, false, "funcOpDiv")); ("_modulo", (4%N, false, "funcOpMod"));
   ("_alternative", (4%N, false, "funcOpAlt")); ("_equal", (4%N, false, "funcOpEq"));
   ("_notequal", (4%N, false, "funcOpNe")); ("_greater", (4%N, false, "funcOpGt"));
   ("_less", (4%N, false, "funcOpLt")); ("_greatereq", (4%N, false, "funcOpGe"));
   ("_lesseq", (4%N, false, "funcOpLe")); ("flatten", (3%N, false, "funcFlatten"));
   ("_range", (8%N, true, "funcRange")); ("min", (1%N, false, "funcMin"));
   ("_min_by", (2%N, false, "funcMinBy")); ("max", (1%N, false, "funcMax"));
   ("_max_by", (2%N, false, "funcMaxBy")); ("sort", (1%N, false, "funcSort"));
   ("_sort_by", (2%N, false, "funcSortBy")); ("_group_by", (2%N, false, "funcGroupBy"));
   ("unique", (1%N, false, "funcUnique")); ("_unique_by", (2%N, false, "funcUniqueBy"));
   ("sin", (1%N, false, "math.Sin")); ("cos", (1%N, false, "math.Cos")); ("tan", (1%N, false, "math.Tan"));
   ("asin", (1%N, false, "math.Asin")); ("acos", (1%N, false, "math.Acos")); ("atan", (1%N, false, "math.Atan"));
   ("sinh", (1%N, false, "math.Sinh")); ("cosh", (1%N, false, "math.Cosh")); ("tanh", (1%N, false, "math.Tanh"));
   ("asinh", (1%N, false, "math.Asinh")); ("acosh", (1%N, false, "math.Acosh")); ("atanh", (1%N, false, "math.Atanh"));
   ("floor", (1%N, false, "math.Floor")); ("round", (1%N, false, "math.Round"));
   ("nearbyint", (1%N, false, "math.RoundToEven")); ("rint", (1%N, false, "math.RoundToEven"));
   ("ceil", (1%N, false, "math.Ceil")); ("trunc", (1%N, false, "math.Trunc"));
   ("significand", (1%N, false, "funcSignificand")); ("fabs", (1%N, false, "math.Abs"));
   ("sqrt", (1%N, false, "math.Sqrt")); ("cbrt", (1%N, false, "math.Cbrt")); ("exp", (1%N, false, "math.Exp"));
   ("exp10", (1%N, false, "funcExp10")); ("exp2", (1%N, false, "math.Exp2")); ("expm1", (1%N, false, "math.Expm1"));
   ("log", (1%N, false, "math.Log")); ("log10", (1%N, false, "math.Log10")); ("log1p", (1%N, false, "math.Log1p"));
   ("log2", (1%N, false, "math.Log2")); ("logb", (1%N, false, "math.Logb")); ("gamma", (1%N, false, "math.Gamma"));
   ("tgamma", (1%N, false, "math.Gamma")); ("lgamma", (1%N, false, "funcLgamma")); ("erf", (1%N, false, "math.Erf"));
   ("erfc", (1%N, false, "math.Erfc")); ("j0", (1%N, false, "math.J0")); ("j1", (1%N, false, "math.J1"));
   ("y0", (1%N, false, "math.Y0")); ("y1", (1%N, false, "math.Y1"));
   ("atan2", (4%N, false, "math.Atan2")); ("copysign", (4%N, false, "math.Copysign")); ("drem", (4%N, false, "funcDrem"));
   ("fdim", (4%N, false, "math.Dim")); ("fmax", (4%N, false, "funcFmax")); ("fmin", (4%N, false, "funcFmin"));
   ("fmod", (4%N, false, "math.Mod")); ("hypot", (4%N, false, "math.Hypot")); ("jn", (4%N, false, "funcJn"));
   ("nextafter", (4%N, false, "math.Nextafter")); ("nexttoward", (4%N, false, "math.Nextafter"));
   ("remainder", (4%N, false, "math.Remainder")); ("ldexp", (4%N, false, "funcLdexp")); ("scalb", (4%N, false, "funcLdexp"));
   ("scalbln", (4%N, false, "funcLdexp")); ("yn", (4%N, false, "funcYn")); ("pow", (4%N, false, "math.Pow"));
   ("fma", (8%N, false, "math.FMA")); ("frexp", (1%N, false, "funcFrexp")); ("modf", (1%N, false, "funcModf"));
   ("infinite", (1%N, false, "funcInfinite")); ("nan", (1%N, false, "funcNan"));
   ("isfinite", (1%N, false, "funcIsfinite")); ("isinfinite", (1%N, false, "funcIsinfinite"));
   ("isnan", (1%N, false, "funcIsnan")); ("isnormal", (1%N, false, "funcIsnormal"));
   ("setpath", (4%N, false, "funcSetpath")); ("delpaths", (2%N, false, "funcDelpaths"));
   ("getpath", (2%N, false, "funcGetpath")); ("transpose", (1%N, false, "funcTranspose"));
   ("bsearch", (2%N, false, "funcBsearch")); ("error", (3%N, false, "funcError"));
   ("halt", (1%N, false, "funcHalt")); ("halt_error", (3%N, false, "funcHaltError"))].

(* natives deliberately outside this model: compiled specially (nil callback), regular expressions,
   time (C13/C14/C19), I/O *)
Definition excluded : list string :=
  ["empty"; "path"; "env"; "builtins"; "input"; "modulemeta"; "debug"; "_match"; "_captures";
   "gmtime"; "localtime"; "mktime"; "strftime"; "strflocaltime"; "strptime"; "now"].

Definition assoc {A} (k : string) (l : list (string * A)) : option A :=
  option_map snd (find (fun p => String.eqb (fst p) k) l).

(* every entry of the translated table is modelled with the same mask/iter/callee or excluded, and
   every modelled name is in the translated table: returns the offending names *)
Definition table_diff (gen : list (string * (N * bool * string * string))) : list string :=
  flat_map (fun e : string * (N * bool * string * string) =>
    let '(name, (mask, it, _, callee)) := e in
    match assoc name model_table with
    | Some (m, i, c) => if N.eqb m mask && Bool.eqb i it && String.eqb c callee then [] else [name]
    | None => if mem name excluded then [] else [name]
    end) gen
  ++ flat_map (fun e : string * (N * bool * string) =>
       match assoc (fst e) gen with Some _ => [] | None => [fst e] end) model_table.
