(* C03 — Compare (compare.go) is the documented total order of Spec.v on denotations. *)
From Coq Require Import List ZArith NArith Bool String Lia.
From Flocq Require Import IEEE754.BinarySingleNaN.
From Verif Require Import common.Sexp common.Int64 c03.JV c03.Core c03.Ops c03.Natives c03.Spec c03.Wf c03.Denote.
Import ListNotations.
Open Scope Z_scope.

(* ---- byte-string order facts ---- *)
Lemma bytes_cmp_eq a : forall b, bytes_cmp a b = Eq <-> bytes_eqb a b = true.
Proof.
  induction a as [|x a IH]; intros [|y b]; simpl; try (split; [reflexivity|reflexivity]); try (split; discriminate).
  unfold bytes_eqb in *. simpl. destruct (N.compare_spec x y) as [->|L|L].
  - rewrite N.eqb_refl. simpl. apply IH.
  - split; [discriminate|]. intros H. apply andb_true_iff in H as [H _]. apply N.eqb_eq in H. lia.
  - split; [discriminate|]. intros H. apply andb_true_iff in H as [H _]. apply N.eqb_eq in H. lia.
Qed.
Lemma bytes_cmp_antisym a : forall b, bytes_cmp b a = CompOpp (bytes_cmp a b).
Proof.
  induction a as [|x a IH]; intros [|y b]; simpl; try reflexivity.
  rewrite (N.compare_antisym x y). destruct (N.compare x y); simpl; auto.
Qed.
Lemma bytes_eqb_refl a : bytes_eqb a a = true.
Proof. apply bytes_cmp_eq. induction a; simpl; auto. rewrite N.compare_refl. auto. Qed.

Definition mapd (pf : bytes -> option float) (m : list (bytes * jv)) : list (bytes * mv) :=
  map (fun kv => (fst kv, denote pf (snd kv))) m.

(* the nested fixes of Spec.mcmp as stand-alone functions *)
Definition arr_cmp (f : mv -> mv -> comparison) : list mv -> list mv -> comparison :=
  fix go (x y : list mv) {struct x} : comparison :=
    match x, y with
    | [], [] => Eq | [], _ => Lt | _, [] => Gt
    | p :: x', q :: y' => match f p q with Eq => go x' y' | c => c end
    end.
Definition keys_cmp_m : list (bytes * mv) -> list (bytes * mv) -> comparison :=
  fix keys (x y : list (bytes * mv)) {struct x} : comparison :=
    match x, y with
    | [], [] => Eq | [], _ => Lt | _, [] => Gt
    | (k, _) :: x', (k', _) :: y' => match bytes_cmp k k' with Eq => keys x' y' | c => c end
    end.
Definition vals_cmp (f : mv -> mv -> comparison) : list (bytes * mv) -> list (bytes * mv) -> comparison :=
  fix vals (x y : list (bytes * mv)) {struct x} : comparison :=
    match x, y with
    | (_, p) :: x', (_, q) :: y' => match f p q with Eq => vals x' y' | c => c end
    | _, _ => Eq
    end.
Lemma mcmp_arr x y : mcmp (MArr x) (MArr y) = arr_cmp mcmp x y.
Proof. reflexivity. Qed.
Lemma mcmp_obj x y : mcmp (MObj x) (MObj y) = match keys_cmp_m x y with Eq => vals_cmp mcmp x y | c => c end.
Proof. reflexivity. Qed.

Lemma cmp_Z_eq0 c : (cmp_Z c =? 0) = match c with Eq => true | _ => false end.
Proof. destruct c; reflexivity. Qed.

Section CompareDoc.
  Variable pf : bytes -> option float.
  Hypothesis pf_bigint : forall z, big_to_float pf z = Z2F z.

  Lemma bcompare_nan_l y : Bcompare (fnan) y = None.
  Proof. destruct y; reflexivity. Qed.
  Lemma cmp_float_doc x y :
    cmp_float x y = cmp_Z (if fis_nan x then Lt else match Bcompare x y with Some c => c | None => Gt end).
  Proof.
    unfold cmp_float, go_lt, flt, feq.
    destruct x as [sx|sx| |sx mx ex Hx] eqn:EX; try (simpl fis_nan; cbv iota);
      try (destruct (Bcompare _ y) as [[]|]; reflexivity).
    all: try (rewrite bcompare_nan_l; reflexivity).
  Qed.

  Lemma cmp_pnum_doc p q : cmp_pnum pf p q = cmp_Z (num_cmp (mv_of_pnum p) (mv_of_pnum q)).
  Proof.
    destruct p, q; simpl; try reflexivity; rewrite ?pf_bigint; apply cmp_float_doc.
  Qed.

  Lemma rank_denote v : wf v = true -> rank (denote pf v) = type_index v.
  Proof.
    destruct v as [|[]|n| | | |]; simpl; try reflexivity; try discriminate.
    rewrite denote_num_norm. destruct (norm_num pf n); reflexivity.
  Qed.
  Lemma is_mnum_denote v : is_mnum (denote pf v) = match v with JNum _ => true | _ => false end.
  Proof. destruct v; try reflexivity. simpl. rewrite denote_num_norm. destruct (norm_num pf n); reflexivity. Qed.

  Lemma keys_cmp_doc a : forall b, keys_cmp a b = cmp_Z (keys_cmp_m (mapd pf a) (mapd pf b)).
  Proof.
    induction a as [|[k x] a IH]; intros [|[k' y] b]; simpl; try reflexivity.
    destruct (bytes_cmp k k'); auto.
  Qed.

  (* mismatched kinds: compared by rank *)
  Lemma mcmp_rank a b :
    match a, b with
    | MStr _, MStr _ | MArr _, MArr _ | MObj _, MObj _ => False
    | _, _ => True
    end -> mcmp a b = if is_mnum a && is_mnum b then num_cmp a b else Z.compare (rank a) (rank b).
  Proof. destruct a, b; simpl; intros H; try reflexivity; destruct H. Qed.

  Ltac mism n :=
    solve [ cbn [compare]; first [ reflexivity |
            rewrite mcmp_rank;
            [ rewrite !is_mnum_denote, !rank_denote by auto; reflexivity
            | cbn [denote]; try exact I; rewrite ?denote_num_norm;
              repeat match goal with |- context [norm_num pf ?x] => destruct (norm_num pf x) end; exact I ] ] ].

  Theorem compare_doc l : forall r, wf l = true -> wf r = true ->
    compare pf l r = cmp_Z (mcmp (denote pf l) (denote pf r)).
  Proof.
    induction l using jv_ind'; intros r WL WR.
    - destruct r; try discriminate; mism 0.
    - destruct r; try discriminate; mism 0.
    - destruct r as [| |m| | | |]; try discriminate; try mism 0.
      cbn [compare denote]. rewrite !denote_num_norm. rewrite cmp_pnum_doc.
      destruct (norm_num pf n), (norm_num pf m); reflexivity.
    - destruct r; try discriminate; try mism 0.
    - (* array *)
      destruct r as [| |n| |b| |]; try discriminate; try mism 0.
      cbn [denote]. rewrite mcmp_arr. cbn [compare]. simpl in WL, WR.
      revert b WR. induction H as [|x a Hx Ha IH]; intros [|y b] WR; simpl; try reflexivity.
      simpl in WL, WR. apply andb_true_iff in WL as [W1 W2]. apply andb_true_iff in WR as [W3 W4].
      rewrite (Hx y W1 W3). rewrite cmp_Z_eq0. destruct (mcmp (denote pf x) (denote pf y)); auto.
    - (* object *)
      destruct r as [| |n| | |b|]; try discriminate; try mism 0.
      cbn [denote]. fold (mapd pf m). fold (mapd pf b). rewrite mcmp_obj. cbn [compare].
      rewrite keys_cmp_doc. rewrite cmp_Z_eq0.
      destruct (keys_cmp_m (mapd pf m) (mapd pf b)); simpl negb; cbv iota; try reflexivity.
      simpl in WL, WR. apply andb_true_iff in WL as [_ WL]. apply andb_true_iff in WR as [_ WR].
      revert b WR. induction H as [|[k x] a Hx Ha IH]; intros [|[k' y] b] WR; simpl; try reflexivity.
      simpl in WL, WR. apply andb_true_iff in WL as [W1 W2]. apply andb_true_iff in WR as [W3 W4].
      simpl in Hx. rewrite (Hx y W1 W3). rewrite cmp_Z_eq0. destruct (mcmp (denote pf x) (denote pf y)); auto.
    - discriminate.
  Qed.

  (* Compare depends only on what the operands denote *)
  Theorem compare_rep l l' r r' : wf l = true -> wf l' = true -> wf r = true -> wf r' = true ->
    denote pf l = denote pf l' -> denote pf r = denote pf r' -> compare pf l r = compare pf l' r'.
  Proof. intros. rewrite !compare_doc by auto. congruence. Qed.
End CompareDoc.
