(* C03 — base facts tying the model's number handling to the denotation of Spec.v:
   parseNumber agrees with denote; the int kernels are exact; Compare is the documented order. *)
From Coq Require Import List ZArith NArith Bool String Lia.
From Flocq Require Import IEEE754.BinarySingleNaN.
From Verif Require Import common.Sexp common.Int64 c03.JV c03.Core c03.Ops c03.Natives c03.Spec c03.Wf.
Import ListNotations.
Open Scope Z_scope.

Definition mv_of_pnum (p : pnum) : mv :=
  match p with PInt z | PBig z => MInt z | PFlt f => MFlt f end.

(* a pnum produced from a well-formed number: PInt carries a machine int *)
Definition wf_pnum (p : pnum) : bool := match p with PInt z => in_intb z | _ => true end.

Lemma take_digits_all r d : take_digits r = (d, []) -> d = r /\ forallb is_digit r = true.
Proof.
  revert d. induction r as [|c r IH]; intros d H.
  - inversion H; auto.
  - cbn [take_digits] in H. destruct (is_digit c) eqn:E; [|inversion H].
    destruct (take_digits r) as [d' r'] eqn:E2. inversion H; subst.
    destruct (IH d' eq_refl) as [-> ?]. cbn [forallb]. rewrite E. auto.
Qed.
Lemma digit_not_dot c : is_digit c = true -> (N.eqb c 46 || N.eqb c 101 || N.eqb c 69)%bool = false.
Proof.
  unfold is_digit. intros H. apply andb_true_iff in H as [H1 H2]. apply N.leb_le in H1, H2.
  destruct (N.eqb_spec c 46); [lia|]. destruct (N.eqb_spec c 101); [lia|]. destruct (N.eqb_spec c 69); [lia|]. reflexivity.
Qed.
Lemma digits_no_dot r : forallb is_digit r = true -> has_dot_or_exp r = false.
Proof.
  unfold has_dot_or_exp. induction r; simpl; intros H; [reflexivity|].
  apply andb_true_iff in H as [H1 H2]. rewrite (digit_not_dot _ H1). simpl. auto.
Qed.
Lemma int_text_no_dot t z : int_text t = Some z -> has_dot_or_exp t = false.
Proof.
  unfold int_text. destruct (take_sign t) as [[neg sg] r] eqn:ES.
  destruct (take_digits r) as [d r'] eqn:ED. destruct d; [discriminate|]. destruct r'; [|discriminate]. intros _.
  apply take_digits_all in ED as [_ HD]. pose proof (digits_no_dot _ HD) as HN.
  unfold take_sign in ES. destruct t as [|c t']; [inversion ES; subst; auto|].
  unfold has_dot_or_exp in *.
  destruct (N.eqb_spec c 45); [inversion ES; subst; simpl; auto|].
  destruct (N.eqb_spec c 43); [inversion ES; subst; simpl; auto|].
  inversion ES; subst. auto.
Qed.

Section Denote.
  Variable pf : bytes -> option float.
  (* strconv.ParseFloat is correctly rounded on the decimal digits of an integer (Z2F is Flocq's
     round-to-nearest-even of the integer; beyond the double range ParseFloat fails and bigToFloat
     answers the infinity of the same sign, which is what Z2F gives) *)
  Hypothesis pf_bigint : forall z, big_to_float pf z = Z2F z.

  Lemma denote_num_norm n : denote_num pf n = mv_of_pnum (norm_num pf n).
  Proof.
    destruct n; try reflexivity. simpl. unfold parse_number.
    destruct (int_text t) as [z|] eqn:E.
    - rewrite (int_text_no_dot _ _ E). destruct (in_intb z); reflexivity.
    - destruct (if has_dot_or_exp t then pf t else None); reflexivity.
  Qed.
  Lemma norm_num_wf n : wf_num n = true -> wf_pnum (norm_num pf n) = true.
  Proof.
    destruct n; simpl; auto. intros _. unfold parse_number.
    destruct (int_text t) as [z|]; [destruct (in_intb z) eqn:E; [simpl; auto|]|];
      destruct (if has_dot_or_exp t then pf t else None); reflexivity.
  Qed.
  Lemma denote_norm v : denote pf (norm pf v) = denote pf v.
  Proof.
    destruct v as [| |[]| | | |]; try reflexivity. simpl norm. cbn [denote].
    rewrite (denote_num_norm (NLit t)). cbn [norm_num]. destruct (parse_number pf t); reflexivity.
  Qed.

  (* conversions depend on the denotation only *)
  Definition mv_float (m : mv) : option float := match m with MInt z => Some (Z2F z) | MFlt f => Some f | _ => None end.
  Definition mv_int (m : mv) : option Z :=
    match m with
    | MInt z => Some (if in_intb z then z else if 0 <? z then max_int else min_int)
    | MFlt f => Some (float_to_int f)
    | _ => None
    end.
  Lemma pnum_to_float_denote p : wf_pnum p = true -> Some (pnum_to_float pf p) = mv_float (mv_of_pnum p).
  Proof. destruct p; simpl; intros; try reflexivity. rewrite pf_bigint. reflexivity. Qed.
  Lemma pnum_to_int_denote p : wf_pnum p = true -> Some (pnum_to_int p) = mv_int (mv_of_pnum p).
  Proof. destruct p; simpl; intros H; try reflexivity. rewrite H. reflexivity. Qed.

  Lemma to_float_denote v : wf v = true -> to_float pf v = mv_float (denote pf v).
  Proof.
    destruct v; try reflexivity. simpl. intros H. rewrite denote_num_norm.
    apply pnum_to_float_denote. apply norm_num_wf; auto.
  Qed.
  Lemma to_int_denote v : wf v = true -> to_int pf v = mv_int (denote pf v).
  Proof.
    destruct v; try reflexivity. simpl. intros H. rewrite denote_num_norm.
    apply pnum_to_int_denote. apply norm_num_wf; auto.
  Qed.
  Definition mv_int_ceil (m : mv) : option Z :=
    match m with MFlt f => Some (float_to_int (fnearbyint mode_UP f)) | _ => mv_int m end.
  Lemma to_int_ceil_denote v : wf v = true -> to_int_ceil pf v = mv_int_ceil (denote pf v).
  Proof.
    destruct v; try reflexivity. simpl. intros H. rewrite denote_num_norm.
    pose proof (norm_num_wf n H). destruct (norm_num pf n); simpl in *; try reflexivity. rewrite H0. reflexivity.
  Qed.

  (* representation independence of the conversions *)
  Theorem to_float_rep v w : wf v = true -> wf w = true -> denote pf v = denote pf w -> to_float pf v = to_float pf w.
  Proof. intros. rewrite !to_float_denote by auto. congruence. Qed.
  Theorem to_int_rep v w : wf v = true -> wf w = true -> denote pf v = denote pf w -> to_int pf v = to_int pf w.
  Proof. intros. rewrite !to_int_denote by auto. congruence. Qed.
  Theorem to_int_ceil_rep v w : wf v = true -> wf w = true -> denote pf v = denote pf w -> to_int_ceil pf v = to_int_ceil pf w.
  Proof. intros. rewrite !to_int_ceil_denote by auto. congruence. Qed.
End Denote.

(* ---- the int kernels are exact (self-contained re-proof; C10 proves it for the TRANSLATED kernels) ---- *)
Lemma wrap64_id z : in_int z -> wrap64 z = z.
Proof. unfold in_int, wrap64, min_int, max_int. intros. rewrite Z.mod_small; lia. Qed.
Lemma wrap64_range z : in_int (wrap64 z).
Proof. unfold in_int, wrap64, min_int, max_int. pose proof (Z.mod_pos_bound (z + 2 ^ 63) (2 ^ 64) ltac:(lia)). lia. Qed.
Lemma wrap64_cases z : - 2 ^ 64 < z - wrap64 z < 2 ^ 64 -> wrap64 z = z \/ wrap64 z = z - 2 ^ 64 \/ wrap64 z = z + 2 ^ 64.
Proof.
  unfold wrap64. pose proof (Z.div_mod (z + 2 ^ 63) (2 ^ 64) ltac:(lia)).
  pose proof (Z.mod_pos_bound (z + 2 ^ 63) (2 ^ 64) ltac:(lia)). intros. nia.
Qed.

Definition num_int (n : num) : option Z := match n with NInt z | NBig z => Some z | _ => None end.
Definition num_wf_int (n : num) : Prop := match n with NInt z => in_int z | _ => True end.

Lemma add_int_exact l r : in_int l -> in_int r -> num_int (add_int l r) = Some (l + r) /\ num_wf_int (add_int l r).
Proof.
  intros Hl Hr. unfold add_int.
  destruct (Bool.eqb (l <=? wrap64 (l + r)) (0 <=? r)) eqn:E; [|simpl; auto].
  simpl. assert (wrap64 (l + r) = l + r); [|rewrite H; split; [auto|rewrite <- H; apply wrap64_range]].
  pose proof (wrap64_range (l + r)). unfold in_int, min_int, max_int in *.
  destruct (wrap64_cases (l + r)) as [?|[?|?]]; [lia|auto|exfalso..];
    apply Bool.eqb_prop in E; destruct (0 <=? r) eqn:E2; [apply Z.leb_le in E, E2|apply Z.leb_gt in E, E2|apply Z.leb_le in E, E2|apply Z.leb_gt in E, E2]; lia.
Qed.
Lemma sub_int_exact l r : in_int l -> in_int r -> num_int (sub_int l r) = Some (l - r) /\ num_wf_int (sub_int l r).
Proof.
  intros Hl Hr. unfold sub_int.
  destruct (Bool.eqb (wrap64 (l - r) <=? l) (0 <=? r)) eqn:E; [|simpl; auto].
  simpl. assert (wrap64 (l - r) = l - r); [|rewrite H; split; [auto|rewrite <- H; apply wrap64_range]].
  pose proof (wrap64_range (l - r)). unfold in_int, min_int, max_int in *.
  destruct (wrap64_cases (l - r)) as [?|[?|?]]; [lia|auto|exfalso..];
    apply Bool.eqb_prop in E; destruct (0 <=? r) eqn:E2; [apply Z.leb_le in E, E2|apply Z.leb_gt in E, E2|apply Z.leb_le in E, E2|apply Z.leb_gt in E, E2]; lia.
Qed.
Lemma negate_int_exact v : in_int v -> num_int (negate_int v) = Some (- v) /\ num_wf_int (negate_int v).
Proof.
  intros H. unfold negate_int. destruct (v =? min_int) eqn:E; simpl; [auto|].
  apply Z.eqb_neq in E. unfold in_int, min_int, max_int in *. split; [auto|lia].
Qed.
