(* C03 — shared core of the native model: outcomes, error classes, the oracles (strconv, libm,
   encoding/json decoder) as Section variables, parseNumber / toInt / toFloat / clampIndex,
   binopTypeSwitch, Compare, the JSON encoder.  Definitions only. *)
From Coq Require Import List ZArith NArith Bool String Ascii.
From Flocq Require Import IEEE754.BinarySingleNaN.
From Verif Require Import common.Sexp common.Int64 c03.JV.
Import ListNotations.
Open Scope Z_scope.

(* error classes = the Go error TYPES of error.go (messages are not modelled) *)
Inductive err :=
| EFunc0Type | EFunc1Type | EFunc2Type
| EFunc0Wrap (inner : err) | EFunc1Wrap (inner : err) | EFunc2Wrap (inner : err)
| EExt                               (* an error value made by a Go library (json, base64, url, errors.New) *)
| EExpectedObject | EExpectedArray | EArrayIndexNegative | EArrayIndexTooLarge | ERepeatTooLarge
| EObjectKeyNotString | EArrayIndexNotNumber | EStringIndexNotNumber | EExpectedStartEnd
| ELengthMismatch | EFlattenDepth | EUnaryType | EBinopType | EZeroDivision | EZeroModulo
| EFormatNotFound | EFormatRow
| EUser (v : jv)                     (* exitCodeError: error/0, error/1 *)
| EHalt (v : jv) (code : Z).         (* HaltError *)

(* Panic: a Go run-time panic (index out of range, slice bounds, failed type assertion, TypeOf on a
   non-value).  Every Go operation that can panic is an explicit Panic branch below. *)
Inductive outcome (A : Type) :=
| Val (a : A)
| Err (e : err)
| Panic (tag : string).
Arguments Val {A} a.
Arguments Err {A} e.
Arguments Panic {A} tag.

Definition bind {A B} (o : outcome A) (f : A -> outcome B) : outcome B :=
  match o with Val a => f a | Err e => Err e | Panic t => Panic t end.
Notation "'do' x <- o ; k" := (bind o (fun x => k)) (at level 200, x pattern, o at level 100, k at level 200).

Definition is_panic {A} (o : outcome A) : bool := match o with Panic _ => true | _ => false end.

(* Go: l[i] on a slice *)
Definition go_index {A} (l : list A) (i : Z) : outcome A :=
  if (i <? 0) || (Z.of_nat (List.length l) <=? i) then Panic "index out of range"
  else match nth_error l (Z.to_nat i) with Some x => Val x | None => Panic "index out of range" end.

(* Go: l[s:e] on a slice whose capacity is its length (value-level model) *)
Definition go_slice {A} (l : list A) (s e : Z) : outcome (list A) :=
  if (s <? 0) || (e <? s) || (Z.of_nat (List.length l) <? e) then Panic "slice bounds out of range"
  else Val (firstn (Z.to_nat (e - s)) (skipn (Z.to_nat s) l)).

Section Oracles.
  (* strconv.ParseFloat(text, 64): None = error (ErrSyntax or ErrRange) *)
  Variable parse_float : bytes -> option float.
  (* strconv.AppendFloat shortest formatting as laid out by encoder.go encodeFloat64 *)
  Variable fmt_float : float -> bytes.
  (* libm: math.Sin ... by the NAME in the table of natives *)
  Variable libm1 : string -> float -> float.
  Variable libm2 : string -> float -> float -> float.
  Variable libm3 : string -> float -> float -> float -> float.
  (* encoding/json Decoder with UseNumber on a string: value, or error (false = decode error,
     true = trailing tokens) *)
  Variable json_decode : bytes -> jv + bool.
  (* frexp / modf results *)
  Variable libm_pair : string -> float -> jv.

  (* func.go parseNumber *)
  Definition parse_number (t : bytes) : pnum :=
    match (match int_text t with Some z => if in_intb z then Some z else None | None => None end) with
    | Some z => PInt z
    | None =>
        match (if has_dot_or_exp t then parse_float t else None) with
        | Some f => PFlt f
        | None =>
            match int_text t with
            | Some z => PBig z
            | None => PFlt (finf (starts_minus t))
            end
        end
    end.

  (* binopTypeSwitch: `if n, ok := l.(json.Number); ok { l = parseNumber(n) }` *)
  Definition norm_num (n : num) : pnum :=
    match n with
    | NInt z => PInt z | NBig z => PBig z | NFlt f => PFlt f
    | NLit t => parse_number t
    end.
  Definition norm (v : jv) : jv :=
    match v with JNum (NLit t) => JNum (num_of_pnum (parse_number t)) | _ => v end.

  (* func.go bigToFloat *)
  Definition big_to_float (z : Z) : float :=
    if in_intb z then Z2F z
    else match parse_float (print_Z z) with
         | Some f => f
         | None => finf (z <? 0)
         end.

  Definition pnum_to_float (p : pnum) : float :=
    match p with PInt z => Z2F z | PFlt f => f | PBig z => big_to_float z end.
  Definition pnum_to_int (p : pnum) : Z :=
    match p with
    | PInt z => z
    | PFlt f => float_to_int f
    | PBig z => if in_intb z then z else if 0 <? z then max_int else min_int
    end.

  (* func.go toFloat / toInt / toIntCeil *)
  Definition to_float (v : jv) : option float :=
    match v with JNum n => Some (pnum_to_float (norm_num n)) | _ => None end.
  Definition to_int (v : jv) : option Z :=
    match v with JNum n => Some (pnum_to_int (norm_num n)) | _ => None end.
  Definition to_int_ceil (v : jv) : option Z :=
    match v with
    | JNum n => Some (match norm_num n with
                      | PFlt f => pnum_to_int (PFlt (fnearbyint mode_UP f))
                      | p => pnum_to_int p
                      end)
    | _ => None
    end.

  (* func.go clampIndex *)
  Definition clamp_index (i mn mx : Z) : Z :=
    let i := if i <? 0 then wrap64 (i + mx) else i in
    if i <? mn then mn else if i <? mx then i else mx.

  (* int kernels (operator.go), with the 64-bit wrap written in *)
  Definition negate_int (v : Z) : num := if v =? min_int then NBig (- v) else NInt (- v).
  Definition add_int (l r : Z) : num :=
    let v := wrap64 (l + r) in if Bool.eqb (l <=? v) (0 <=? r) then NInt v else NBig (l + r).
  Definition sub_int (l r : Z) : num :=
    let v := wrap64 (l - r) in if Bool.eqb (v <=? l) (0 <=? r) then NInt v else NBig (l - r).
  Definition mul_int (l r : Z) : num :=
    if r =? -1 then negate_int l
    else let v := wrap64 (l * r) in
         if (r =? 0) || (Z.quot v r =? l) then NInt v else NBig (l * r).

  (* ---------------------------------------------------------------------------------------- *)
  (* compare.go: typeIndex and Compare, through binopTypeSwitch *)
  Definition type_index (v : jv) : Z :=
    match v with
    | JNull | JHole => 0
    | JBool false => 1 | JBool true => 2
    | JNum _ => 3 | JStr _ => 4 | JArr _ => 5 | JObj _ => 6
    end.
  Definition cmp_Z (c : comparison) : Z := match c with Lt => -1 | Eq => 0 | Gt => 1 end.
  Definition cmp_float (l r : float) : Z := if go_lt l r then -1 else if feq l r then 0 else 1.

  Definition cmp_pnum (l r : pnum) : Z :=
    match l, r with
    | PInt a, PInt b => cmp_Z (Z.compare a b)
    | PInt a, PFlt b => cmp_float (Z2F a) b
    | PInt a, PBig b => cmp_Z (Z.compare a b)
    | PFlt a, PInt b => cmp_float a (Z2F b)
    | PFlt a, PFlt b => cmp_float a b
    | PFlt a, PBig b => cmp_float a (big_to_float b)
    | PBig a, PInt b => cmp_Z (Z.compare a b)
    | PBig a, PFlt b => cmp_float (big_to_float a) b
    | PBig a, PBig b => cmp_Z (Z.compare a b)
    end.

  Fixpoint keys_cmp (l r : list (bytes * jv)) : Z :=
    match l, r with
    | [], [] => 0
    | [], _ => -1
    | _, [] => 1
    | (k, _) :: l', (k', _) :: r' => match bytes_cmp k k' with Eq => keys_cmp l' r' | c => cmp_Z c end
    end.

  Fixpoint compare (l r : jv) {struct l} : Z :=
    match l, r with
    | JNum a, JNum b => cmp_pnum (norm_num a) (norm_num b)
    | JStr a, JStr b => cmp_Z (bytes_cmp a b)
    | JArr a, JArr b =>
        (fix go (a b : list jv) {struct a} : Z :=
           match a, b with
           | [], [] => 0
           | [], _ => -1
           | _, [] => 1
           | x :: a', y :: b' => let c := compare x y in if c =? 0 then go a' b' else c
           end) a b
    | JObj a, JObj b =>
        let kc := keys_cmp a b in
        if negb (kc =? 0) then kc
        else (fix go (a b : list (bytes * jv)) {struct a} : Z :=
                match a, b with
                | (_, x) :: a', (_, y) :: b' => let c := compare x y in if c =? 0 then go a' b' else c
                | _, _ => 0
                end) a b
    | _, _ => cmp_Z (Z.compare (type_index l) (type_index r))
    end.

  (* ---------------------------------------------------------------------------------------- *)
  (* encoder.go: jsonMarshal.  TypeOf/encode panic on a non-value (JHole). *)
  Definition hex_lower (n : N) : N := if (n <? 10)%N then (48 + n)%N else (87 + n)%N.

  Definition encode_string (s : bytes) : bytes :=
    34%N :: flat_map (fun ch : N * bytes =>
      let (r, bs) := ch in
      match bs with
      | [b] =>
          if (b <? 128)%N then
            if (b =? 34)%N then [92; 34]%N else if (b =? 92)%N then [92; 92]%N
            else if ((32 <=? b) && (b <=? 126))%N then [b]
            else if (b =? 8)%N then [92; 98]%N else if (b =? 12)%N then [92; 102]%N
            else if (b =? 10)%N then [92; 110]%N else if (b =? 13)%N then [92; 114]%N
            else if (b =? 9)%N then [92; 116]%N
            else [92; 117; 48; 48; hex_lower (b / 16); hex_lower (b mod 16)]%N
          else [92; 117; 102; 102; 102; 100]%N   (* invalid byte: RuneError with size 1 -> \ufffd *)
      | _ => bs
      end) (chunks s) ++ [34%N].

  Definition encode_num (n : num) : bytes :=
    match n with
    | NInt z => print_Z z | NBig z => print_Z z
    | NFlt f => fmt_float f
    | NLit t => t
    end.

  Fixpoint encode (v : jv) : outcome bytes :=
    match v with
    | JNull => Val (codes "null")
    | JBool true => Val (codes "true")
    | JBool false => Val (codes "false")
    | JNum n => Val (encode_num n)
    | JStr s => Val (encode_string s)
    | JArr l =>
        do body <- (fix go (l : list jv) (first : bool) : outcome bytes :=
                      match l with
                      | [] => Val []
                      | x :: r => do ex <- encode x; do er <- go r false;
                                  Val ((if first then [] else [44%N]) ++ ex ++ er)
                      end) l true;
        Val (91%N :: body ++ [93%N])
    | JObj m =>
        do body <- (fix go (m : list (bytes * jv)) (first : bool) : outcome bytes :=
                      match m with
                      | [] => Val []
                      | (k, x) :: r => do ex <- encode x; do er <- go r false;
                                       Val ((if first then [] else [44%N]) ++ encode_string k ++ 58%N :: ex ++ er)
                      end) m true;
        Val (123%N :: body ++ [125%N])
    | JHole => Panic "invalid type: struct {}"
    end.

  (* type.go TypeOf *)
  Definition type_of (v : jv) : outcome bytes :=
    match v with
    | JNull => Val (codes "null") | JBool _ => Val (codes "boolean") | JNum _ => Val (codes "number")
    | JStr _ => Val (codes "string") | JArr _ => Val (codes "array") | JObj _ => Val (codes "object")
    | JHole => Panic "invalid type: struct {}"
    end.

  (* Go interface equality l == r as used by the fallbacks (nil, bool, numbers after normalisation,
     strings compare by value; two slices or two maps would panic at run time) *)
  Definition iface_eq (l r : jv) : outcome bool :=
    match l, r with
    | JNull, JNull => Val true
    | JHole, JHole => Val true
    | JBool a, JBool b => Val (Bool.eqb a b)
    | JStr a, JStr b => Val (bytes_eqb a b)
    | JNum (NInt a), JNum (NInt b) => Val (a =? b)
    | JNum (NFlt a), JNum (NFlt b) => Val (feq a b)
    | JNum (NBig a), JNum (NBig b) => Val false          (* pointer comparison of distinct *big.Int *)
    | JNum (NLit a), JNum (NLit b) => Val (bytes_eqb a b)
    | JArr _, JArr _ => Panic "comparing uncomparable type []interface {}"
    | JObj _, JObj _ => Panic "comparing uncomparable type map[string]interface {}"
    | _, _ => Val false
    end.
End Oracles.
