(* C03 meets_doc: @html @uri @urid @base64 @base64d (funcToHTML, funcToURI, funcToURId, funcToBase64,
   funcToBase64d).
   * every one of them is  tostring  followed by a function of the text (xxx_is_tostring_then);
   * on strings (bytes < 256) that function is the documented one of Spec.v: the five-entity table, RFC 3986
     percent-encoding of everything but the unreserved characters, RFC 4648 base64 written with 24-bit groups
     and the alphabet as a string;
   * the decode-after-encode laws:  @uri | @urid  and  @base64 | @base64d  are the identity on byte strings;
     @base64d on a text that is the base64 encoding of s gives s (the Spec.v entry). *)
From Coq Require Import List ZArith NArith Bool String Lia ZifyN ZifyNat ZifyBool.
From Flocq Require Import IEEE754.BinarySingleNaN.
From Verif Require Import common.Sexp common.Int64 c03.JV c03.Core c03.Ops c03.Natives c03.Spec c03.Wf c03.Denote
  c03.CompareDoc c03.OpsDoc c03.NativesDoc3.
Import ListNotations.
Open Scope N_scope.

Lemma list_ind3 {A} (P : list A -> Prop) :
  P [] -> (forall a, P [a]) -> (forall a b, P [a; b]) -> (forall a b c r, P r -> P (a :: b :: c :: r)) -> forall l, P l.
Proof. intros H0 H1 H2 H3. fix IH 1. intros [|a [|b [|c r]]]; [apply H0|apply H1|apply H2|apply H3; apply IH]. Qed.

(* enumeration below a bound *)
Lemma below_enum (P : N -> bool) n : forallb P (map N.of_nat (seq 0 n)) = true -> forall c, c < N.of_nat n -> P c = true.
Proof.
  intros H c L. rewrite forallb_forall in H. apply H. rewrite in_map_iff. exists (N.to_nat c). split; [lia|].
  apply in_seq. lia.
Qed.

Lemma is_bytes_cons c s : is_bytes (c :: s) = true <-> c < 256 /\ is_bytes s = true.
Proof. unfold is_bytes. cbn [forallb]. rewrite andb_true_iff, N.ltb_lt. tauto. Qed.
Lemma is_bytes_app a b : is_bytes (a ++ b) = is_bytes a && is_bytes b.
Proof. unfold is_bytes. apply forallb_app. Qed.

Lemma existsb_above c l : forallb (fun x => x <? 128) l = true -> 128 <= c -> existsb (N.eqb c) l = false.
Proof.
  intros H L. induction l as [|x l IH]; [reflexivity|]. cbn [forallb] in H. apply andb_true_iff in H as [H1 H2].
  apply N.ltb_lt in H1. cbn [existsb]. rewrite IH by auto. destruct (N.eqb_spec c x); [lia|reflexivity].
Qed.
Lemma pos_in_above c l : forallb (fun x => x <? 128) l = true -> 128 <= c -> pos_in c l = None.
Proof.
  intros H L. induction l as [|x l IH]; [reflexivity|]. cbn [forallb] in H. apply andb_true_iff in H as [H1 H2].
  apply N.ltb_lt in H1. cbn [pos_in]. rewrite IH by auto. destruct (N.eqb_spec c x); [lia|reflexivity].
Qed.

Ltac list_arith :=
  repeat match goal with
         | |- _ :: _ = _ :: _ => apply f_equal2
         | |- s_b64c _ = s_b64c _ => apply f_equal
         | |- Some _ = Some _ => apply f_equal
         end; try reflexivity; try lia.

Section EncodeDoc.
  Variable pf : bytes -> option float.
  Variable ff : float -> bytes.
  Notation denote := (denote pf).
  Notation agrees := (agrees pf).

  (* ---- every format = tostring, then a function of the text -------------------------------------- *)
  Lemma tostring_text v : f_tostring ff v = (do s <- to_string_bytes ff v; vstr s).
  Proof. destruct v; try reflexivity. Qed.
  Definition then_text (v : jv) (k : bytes -> outcome jv) : outcome jv :=
    do t <- f_tostring ff v; match t with JStr s => k s | _ => Val t end.     (* funcToString(v).(type) *)
  Lemma then_text_eq v k : then_text v k = (do s <- to_string_bytes ff v; k s).
  Proof. unfold then_text. rewrite tostring_text. destruct (to_string_bytes ff v); reflexivity. Qed.

  Theorem formats_are_tostring_then v :
       f_tohtml ff v = then_text v (fun s => vstr (replace_bytes html_tbl s))
    /\ f_touri ff v = then_text v (fun s => vstr (flat_map (fun c => if uri_unreserved c then [c] else [37; hex_upper (c / 16); hex_upper (c mod 16)]) s))
    /\ f_tourid ff v = then_text v (fun s => match unescape s with Some t => vstr t | None => Err (EFunc0Wrap EExt) end)
    /\ f_tobase64 ff v = then_text v (fun s => vstr (b64_encode s))
    /\ f_tobase64d ff v = then_text v (fun s =>
         match all_some (map b64_val (filter (fun c => negb ((c =? 13) || (c =? 10))) (until_pad s))) with
         | Some vals => match b64_decode vals with Some t => vstr t | None => Err (EFunc0Wrap EExt) end
         | None => Err (EFunc0Wrap EExt)
         end).
  Proof. repeat split; rewrite then_text_eq; reflexivity. Qed.

  (* ---- @html ----------------------------------------------------------------------------------------- *)
  Lemma html_doc s : replace_bytes html_tbl s = s_html s.
  Proof.
    unfold replace_bytes, s_html. apply flat_map_ext. intros c. unfold html_tbl. cbn [find fst snd].
    rewrite (N.eqb_sym 60 c), (N.eqb_sym 62 c), (N.eqb_sym 38 c), (N.eqb_sym 39 c), (N.eqb_sym 34 c).
    destruct (c =? 60); [reflexivity|]. destruct (c =? 62); [reflexivity|]. destruct (c =? 38); [reflexivity|].
    destruct (c =? 39); [reflexivity|]. destruct (c =? 34); reflexivity.
  Qed.
  Theorem f_tohtml_doc s : f_tohtml ff (JStr s) = Val (JStr (s_html s)).
  Proof. unfold f_tohtml. cbn [to_string_bytes bind]. unfold vstr. rewrite html_doc. reflexivity. Qed.

  (* ---- @uri / @urid ---------------------------------------------------------------------------------- *)
  Definition unreserved_text : string := "ABCDEFGHIJKLMNOPQRSTUVWXYZabcdefghijklmnopqrstuvwxyz0123456789-_.~".
  Lemma unreserved_doc c : uri_unreserved c = in_text c unreserved_text.
  Proof.
    destruct (N.lt_ge_cases c 128) as [L|L].
    - apply eqb_prop. revert c L. apply (below_enum (fun c => Bool.eqb (uri_unreserved c) (in_text c unreserved_text)) 128).
      vm_compute. reflexivity.
    - unfold in_text. rewrite existsb_above; [|vm_compute; reflexivity|auto]. unfold uri_unreserved.
      repeat match goal with
             | |- context [?a <=? ?b] => (replace (a <=? b) with false by (symmetry; apply N.leb_gt; lia))
                                          || (replace (a <=? b) with true by (symmetry; apply N.leb_le; lia))
             | |- context [c =? ?b] => replace (c =? b) with false by (symmetry; apply N.eqb_neq; lia)
             end.
      reflexivity.
  Qed.
  Lemma hex_upper_doc n : n < 16 -> hex_upper n = s_hexdigit n.
  Proof.
    intros L. apply N.eqb_eq. revert n L. apply (below_enum (fun n => hex_upper n =? s_hexdigit n) 16). vm_compute. reflexivity.
  Qed.
  Lemma byte_nibbles c : c < 256 -> c / 16 < 16 /\ c mod 16 < 16 /\ c / 16 * 16 + c mod 16 = c.
  Proof. intros. lia. Qed.

  Definition uri_model (s : bytes) : bytes :=
    flat_map (fun c => if uri_unreserved c then [c] else [37; hex_upper (c / 16); hex_upper (c mod 16)]) s.
  Lemma uri_doc s : is_bytes s = true -> uri_model s = s_uri s.
  Proof.
    unfold uri_model, s_uri. induction s as [|c s IH]; intros B; [reflexivity|]. apply is_bytes_cons in B as [B1 B2].
    cbn [flat_map]. rewrite IH by auto. f_equal. fold unreserved_text. rewrite unreserved_doc.
    destruct (in_text c unreserved_text); [reflexivity|]. destruct (byte_nibbles c B1) as (H1 & H2 & _).
    rewrite !hex_upper_doc by auto. reflexivity.
  Qed.
  Theorem f_touri_doc s : is_bytes s = true -> f_touri ff (JStr s) = Val (JStr (s_uri s)).
  Proof. intros B. unfold f_touri. cbn [to_string_bytes bind]. unfold vstr. fold (uri_model s). rewrite uri_doc by auto. reflexivity. Qed.

  Lemma hex_any_doc c : hex_any c = s_hexval c.
  Proof.
    destruct (N.lt_ge_cases c 128) as [L|L].
    - assert (H : (match hex_any c, s_hexval c with Some x, Some y => x =? y | None, None => true | _, _ => false end) = true).
      { revert c L. apply (below_enum (fun c => match hex_any c, s_hexval c with Some x, Some y => x =? y | None, None => true | _, _ => false end) 128).
        vm_compute. reflexivity. }
      destruct (hex_any c), (s_hexval c); try discriminate; auto. apply N.eqb_eq in H. congruence.
    - unfold s_hexval. rewrite !pos_in_above; auto; try (vm_compute; reflexivity). unfold hex_any.
      repeat match goal with
             | |- context [?a <=? ?b] => (replace (a <=? b) with false by (symmetry; apply N.leb_gt; lia))
                                          || (replace (a <=? b) with true by (symmetry; apply N.leb_le; lia))
             end.
      reflexivity.
  Qed.
  Lemma unescape_other c r : c <> 37 -> unescape (c :: r) = option_map (cons c) (unescape r).
  Proof.
    intros H. destruct c as [|p]; [reflexivity|].
    do 7 (try (destruct p as [p|p|]; try reflexivity)). exfalso; apply H; reflexivity.
  Qed.
  Lemma unescape_doc n : forall s, (List.length s <= n)%nat -> unescape s = s_urid s.
  Proof.
    induction n; intros s L.
    - destruct s; [reflexivity|simpl in L; lia].
    - destruct s as [|c r]; [reflexivity|]. cbn [List.length] in L. cbn [s_urid]. destruct (N.eqb_spec c 37).
      + subst c. destruct r as [|a [|b r']]; try reflexivity. cbn [unescape]. rewrite !hex_any_doc.
        cbn [List.length] in L. rewrite (IHn r') by lia.
        destruct (s_hexval a) as [x|]; [|reflexivity]. destruct (s_hexval b) as [y|]; [|reflexivity].
        destruct (s_urid r'); [|reflexivity]. rewrite (N.mul_comm x 16). reflexivity.
      + rewrite unescape_other by auto. rewrite IHn by lia. reflexivity.
  Qed.
  Theorem f_tourid_doc s : f_tourid ff (JStr s) = match s_urid s with Some t => Val (JStr t) | None => Err (EFunc0Wrap EExt) end.
  Proof. unfold f_tourid. cbn [to_string_bytes bind]. rewrite (unescape_doc (List.length s)) by lia. reflexivity. Qed.

  (* decode after encode *)
  Lemma hex_any_upper n : n < 16 -> hex_any (hex_upper n) = Some n.
  Proof.
    intros L. assert (H : (match hex_any (hex_upper n) with Some x => x =? n | None => false end) = true).
    { revert n L. apply (below_enum (fun n => match hex_any (hex_upper n) with Some x => x =? n | None => false end) 16). vm_compute. reflexivity. }
    destruct (hex_any (hex_upper n)); [|discriminate]. apply N.eqb_eq in H. congruence.
  Qed.
  Lemma unreserved_not_percent c : uri_unreserved c = true -> c <> 37.
  Proof. intros H E. subst c. vm_compute in H. discriminate. Qed.
  Theorem urid_uri s : is_bytes s = true -> unescape (uri_model s) = Some s.
  Proof.
    unfold uri_model. induction s as [|c s IH]; intros B; [reflexivity|]. apply is_bytes_cons in B as [B1 B2].
    cbn [flat_map]. destruct (uri_unreserved c) eqn:U.
    - cbn [app]. rewrite unescape_other by (apply unreserved_not_percent; auto). rewrite IH by auto. reflexivity.
    - cbn [app unescape]. destruct (byte_nibbles c B1) as (H1 & H2 & H3). rewrite !hex_any_upper by auto.
      rewrite IH by auto. rewrite H3. reflexivity.
  Qed.
  Theorem f_tourid_touri s : is_bytes s = true ->
    (do u <- f_touri ff (JStr s); f_tourid ff u) = Val (JStr s).
  Proof.
    intros B. unfold f_touri, f_tourid. cbn [to_string_bytes bind]. unfold vstr. cbn [bind to_string_bytes].
    fold (uri_model s). rewrite urid_uri by auto. reflexivity.
  Qed.

  (* ---- @base64 / @base64d ---------------------------------------------------------------------------- *)
  Lemma b64_char_doc n : n < 64 -> b64_char n = s_b64c n.
  Proof.
    intros L. apply N.eqb_eq. revert n L. apply (below_enum (fun n => b64_char n =? s_b64c n) 64). vm_compute. reflexivity.
  Qed.
  Lemma b64_doc : forall s, is_bytes s = true -> b64_encode s = s_b64 s.
  Proof.
    apply (list_ind3 (fun s => is_bytes s = true -> b64_encode s = s_b64 s)).
    - reflexivity.
    - intros a B. apply is_bytes_cons in B as [A _]. cbn [b64_encode s_b64]. rewrite !b64_char_doc by lia.
      list_arith.
    - intros a b B. apply is_bytes_cons in B as [A B]. apply is_bytes_cons in B as [B _]. cbn [b64_encode s_b64].
      rewrite !b64_char_doc by lia. list_arith.
    - intros a b c r IH B. apply is_bytes_cons in B as [A B]. apply is_bytes_cons in B as [B C]. apply is_bytes_cons in C as [C R].
      cbn [b64_encode s_b64]. rewrite IH by auto. rewrite !b64_char_doc by lia. list_arith.
  Qed.
  Theorem f_tobase64_doc s : is_bytes s = true -> f_tobase64 ff (JStr s) = Val (JStr (s_b64 s)).
  Proof. intros B. unfold f_tobase64. cbn [to_string_bytes bind]. unfold vstr. rewrite b64_doc by auto. reflexivity. Qed.

  (* the 6-bit values and the padding of an encoding *)
  Fixpoint sextets (s : bytes) : list N :=
    match s with
    | a :: b :: c :: r => a / 4 :: (a mod 4) * 16 + b / 16 :: (b mod 16) * 4 + c / 64 :: c mod 64 :: sextets r
    | [a; b] => [a / 4; (a mod 4) * 16 + b / 16; (b mod 16) * 4]
    | [a] => [a / 4; (a mod 4) * 16]
    | [] => []
    end.
  Definition padding (s : bytes) : bytes :=
    match (List.length s mod 3)%nat with 1%nat => [61; 61] | 2%nat => [61] | _ => [] end.
  Lemma mod3_step n : (S (S (S n)) mod 3 = n mod 3)%nat.
  Proof. replace (S (S (S n))) with (n + 1 * 3)%nat by lia. apply Nat.mod_add. lia. Qed.
  Lemma b64_split : forall s, b64_encode s = map b64_char (sextets s) ++ padding s.
  Proof.
    apply (list_ind3 (fun s => b64_encode s = map b64_char (sextets s) ++ padding s)); try reflexivity.
    intros a b c r IH. cbn [b64_encode sextets map app]. rewrite IH. unfold padding. cbn [List.length]. rewrite mod3_step. reflexivity.
  Qed.
  Lemma sextets_small : forall s, is_bytes s = true -> Forall (fun v => v < 64) (sextets s).
  Proof.
    apply (list_ind3 (fun s => is_bytes s = true -> Forall (fun v => v < 64) (sextets s))).
    - constructor.
    - intros a B. apply is_bytes_cons in B as [A _]. cbn [sextets]. repeat constructor; lia.
    - intros a b B. apply is_bytes_cons in B as [A B]. apply is_bytes_cons in B as [B _]. cbn [sextets]. repeat constructor; lia.
    - intros a b c r IH B. apply is_bytes_cons in B as [A B]. apply is_bytes_cons in B as [B C]. apply is_bytes_cons in C as [C R].
      cbn [sextets]. repeat (constructor; [lia|]). auto.
  Qed.
  Lemma b64_decode_sextets : forall s, is_bytes s = true -> b64_decode (sextets s) = Some s.
  Proof.
    apply (list_ind3 (fun s => is_bytes s = true -> b64_decode (sextets s) = Some s)).
    - reflexivity.
    - intros a B. apply is_bytes_cons in B as [A _]. cbn [sextets b64_decode]. list_arith.
    - intros a b B. apply is_bytes_cons in B as [A B]. apply is_bytes_cons in B as [B _]. cbn [sextets b64_decode]. list_arith.
    - intros a b c r IH B. apply is_bytes_cons in B as [A B]. apply is_bytes_cons in B as [B C]. apply is_bytes_cons in C as [C R].
      cbn [sextets b64_decode]. rewrite IH by auto. cbn [option_map]. list_arith.
  Qed.
  Lemma b64_char_props v : v < 64 -> b64_char v <> 61 /\ b64_char v <> 13 /\ b64_char v <> 10 /\ b64_val (b64_char v) = Some v.
  Proof.
    intros L.
    assert (H : (negb (b64_char v =? 61) && negb (b64_char v =? 13) && negb (b64_char v =? 10)
                 && match b64_val (b64_char v) with Some x => x =? v | None => false end)%bool = true).
    { revert v L. apply (below_enum (fun v => (negb (b64_char v =? 61) && negb (b64_char v =? 13) && negb (b64_char v =? 10)
                 && match b64_val (b64_char v) with Some x => x =? v | None => false end)%bool) 64). vm_compute. reflexivity. }
    repeat (apply andb_true_iff in H as [H ?]). apply negb_true_iff in H, H1, H2. apply N.eqb_neq in H, H1, H2.
    repeat split; auto. destruct (b64_val (b64_char v)); [|discriminate]. apply N.eqb_eq in H0. congruence.
  Qed.
  Lemma until_pad_body vals pad : Forall (fun v => v < 64) vals -> (pad = [] \/ exists p, pad = 61 :: p) ->
    until_pad (map b64_char vals ++ pad) = map b64_char vals.
  Proof.
    intros F P. induction F as [|v vals L F IH]; cbn [map app until_pad].
    - destruct P as [->|[p ->]]; reflexivity.
    - destruct (b64_char_props v L) as (H & _). apply N.eqb_neq in H. rewrite H. rewrite IH. reflexivity.
  Qed.
  Lemma filter_body vals : Forall (fun v => v < 64) vals ->
    filter (fun c => negb ((c =? 13) || (c =? 10))) (map b64_char vals) = map b64_char vals.
  Proof.
    induction 1 as [|v vals L F IH]; cbn [map filter]; [reflexivity|].
    destruct (b64_char_props v L) as (_ & H1 & H2 & _). apply N.eqb_neq in H1, H2. rewrite H1, H2. cbn. rewrite IH. reflexivity.
  Qed.
  Lemma vals_body vals : Forall (fun v => v < 64) vals -> all_some (map b64_val (map b64_char vals)) = Some vals.
  Proof.
    induction 1 as [|v vals L F IH]; cbn [map all_some]; [reflexivity|].
    destruct (b64_char_props v L) as (_ & _ & _ & H). rewrite H, IH. reflexivity.
  Qed.
  Lemma padding_shape s : padding s = [] \/ exists p, padding s = 61 :: p.
  Proof. unfold padding. destruct (List.length s mod 3)%nat as [|[|[|]]]; eauto. Qed.

  (* @base64 | @base64d = identity on byte strings *)
  Theorem base64d_base64 s : is_bytes s = true -> f_tobase64d ff (JStr (b64_encode s)) = Val (JStr s).
  Proof.
    intros B. unfold f_tobase64d. cbn [to_string_bytes bind]. rewrite b64_split.
    pose proof (sextets_small s B) as F.
    rewrite until_pad_body by (auto using padding_shape). rewrite filter_body, vals_body by auto.
    rewrite b64_decode_sextets by auto. reflexivity.
  Qed.
  Theorem f_tobase64d_tobase64 s : is_bytes s = true ->
    (do u <- f_tobase64 ff (JStr s); f_tobase64d ff u) = Val (JStr s).
  Proof. intros B. unfold f_tobase64. cbn [to_string_bytes bind]. unfold vstr. cbn [bind]. apply base64d_base64; auto. Qed.
  (* the Spec.v entry of @base64d: on the encoding of s, s *)
  Theorem f_tobase64d_doc t s : s_b64d t = Some s -> f_tobase64d ff (JStr t) = Val (JStr s).
  Proof.
    unfold s_b64d. destruct (is_bytes (s_b64_cand (List.length t) t)) eqn:B; [|discriminate].
    destruct (bytes_eqb (s_b64 (s_b64_cand (List.length t) t)) t) eqn:E; [|discriminate]. cbn [andb].
    intros H; inversion H; subst. apply list_N_eqb_eq in E. rewrite <- E at 1. rewrite <- b64_doc by auto.
    apply base64d_base64; auto.
  Qed.
  (* ... and the spec is not vacuous: it has an entry for every encoding *)
  Example s_b64d_sample :
    map s_b64d [codes ""; codes "Zg=="; codes "Zm8="; codes "Zm9v"; codes "Zm9vYg=="; codes "Zm9vYmE="; codes "Zm9vYmFy"; codes "+/+/"]
    = [Some (codes ""); Some (codes "f"); Some (codes "fo"); Some (codes "foo"); Some (codes "foob"); Some (codes "fooba"); Some (codes "foobar"); Some [251; 255; 191]].
  Proof. vm_compute. reflexivity. Qed.

  (* ---- the five as agreement with spec_call's entries ------------------------------------------------ *)
  Theorem formats_meet_doc s : is_bytes s = true ->
       agrees (f_tohtml ff (JStr s)) (SVal (MStr (s_html s)))
    /\ agrees (f_touri ff (JStr s)) (SVal (MStr (s_uri s)))
    /\ agrees (f_tourid ff (JStr s)) (match s_urid s with Some t => SVal (MStr t) | None => SErr end)
    /\ agrees (f_tobase64 ff (JStr s)) (SVal (MStr (s_b64 s)))
    /\ (forall t, s_b64d s = Some t -> agrees (f_tobase64d ff (JStr s)) (SVal (MStr t))).
  Proof.
    intros B. repeat split.
    - rewrite f_tohtml_doc. reflexivity.
    - rewrite f_touri_doc by auto. reflexivity.
    - rewrite f_tourid_doc. destruct (s_urid s); reflexivity.
    - rewrite f_tobase64_doc by auto. reflexivity.
    - intros t H. rewrite (f_tobase64d_doc _ _ H). reflexivity.
  Qed.
End EncodeDoc.
