(* C03 meets_doc: _range (range/1,2,3) on integer arguments in any representation: the arithmetic
   progression from, from+by, ... that stops before reaching upto (by > 0), after (by < 0), and is empty
   for by = 0; exact beyond the int range (the running value is promoted to *big.Int). *)
From Coq Require Import List ZArith NArith Bool String Lia.
From Flocq Require Import IEEE754.BinarySingleNaN.
From Verif Require Import common.Sexp common.Int64 c03.JV c03.Core c03.Ops c03.Natives c03.Spec c03.Wf c03.Denote
  c03.CompareDoc c03.OpsDoc c03.NativesDoc c03.NativesDoc2.
Import ListNotations.
Open Scope Z_scope.

(* the documented progression, first [fuel] elements, and whether it was cut *)
Fixpoint zprog (fuel : nat) (x upto by_ : Z) : list Z * bool :=
  if 0 <=? Z.sgn by_ * Z.sgn (x - upto) then ([], false)
  else match fuel with
       | O => ([], true)
       | S f => let r := zprog f (x + by_) upto by_ in (x :: fst r, snd r)
       end.

Section RangeDoc.
  Variable pf : bytes -> option float.
  Hypothesis pf_bigint : forall z, big_to_float pf z = Z2F z.
  Notation denote := (denote pf).

  Lemma cmp_Z_sgn x y : cmp_Z (x ?= y) = Z.sgn (x - y).
  Proof. destruct (Z.compare_spec x y); simpl; [subst; rewrite Z.sub_diag; reflexivity| |]; [rewrite Z.sgn_neg by lia|rewrite Z.sgn_pos by lia]; reflexivity. Qed.
  Lemma compare_ints l r x y : wf l = true -> wf r = true -> denote l = MInt x -> denote r = MInt y ->
    compare pf l r = Z.sgn (x - y).
  Proof. intros WL WR EL ER. rewrite (compare_doc pf pf_bigint) by auto. rewrite EL, ER. simpl. apply cmp_Z_sgn. Qed.

  Lemma denote_int_num v x : denote v = MInt x -> exists n, v = JNum n.
  Proof. destruct v; simpl; intros H; try discriminate; eauto. Qed.
  Lemma op_add_ints l r x y : wf l = true -> wf r = true -> denote l = MInt x -> denote r = MInt y ->
    exists v, op_add pf l r = Val v /\ denote v = MInt (x + y) /\ wf v = true.
  Proof.
    intros WL WR EL ER.
    destruct (op_add_doc_weak pf pf_bigint l r (wf_numtop l WL) (wf_numtop r WR)) as [A P].
    { intros a b ->. simpl in EL. discriminate. }
    rewrite EL, ER in A. simpl in A. destruct (op_add pf l r) as [v| |] eqn:E; simpl in A; try contradiction.
    exists v. repeat split; auto. specialize (P v eq_refl).
    destruct (denote_int_num v _ A) as [n ->]. exact P.
  Qed.

  Theorem range_seq_doc fuel : forall v e s x upto by_, wf v = true -> wf e = true -> wf s = true ->
    denote v = MInt x -> denote e = MInt upto -> denote s = MInt by_ ->
    exists l cut, range_seq pf fuel v e s = Val (l, cut) /\ map denote l = map MInt (fst (zprog fuel x upto by_))
                  /\ cut = snd (zprog fuel x upto by_).
  Proof.
    induction fuel; intros v e s x upto by_ WV WE WS EV EE ES; cbn [range_seq zprog].
    - rewrite (compare_ints s (jint 0) by_ 0), (compare_ints v e x upto) by auto. rewrite Z.sub_0_r.
      destruct (0 <=? _); eexists; eexists; repeat split; reflexivity.
    - rewrite (compare_ints s (jint 0) by_ 0), (compare_ints v e x upto) by auto. rewrite Z.sub_0_r.
      destruct (0 <=? Z.sgn by_ * Z.sgn (x - upto)); [eexists; eexists; repeat split; reflexivity|].
      destruct (op_add_ints v s x by_ WV WS EV ES) as (v' & EA & DV & WV'). rewrite EA. cbn [bind].
      destruct (IHfuel v' e s (x + by_) upto by_ WV' WE WS DV EE ES) as (l & cut & ER & DL & DC).
      rewrite ER. cbn [bind fst snd]. exists (v :: l), cut. repeat split; auto. simpl. rewrite EV, DL. reflexivity.
  Qed.
End RangeDoc.
