(* C03 meets_doc, third batch: endswith rtrimstr trimstr, tonumber, _min_by _max_by, transpose, error /
   halt / halt_error dispatch. *)
From Coq Require Import List ZArith NArith Bool String Lia.
From Flocq Require Import IEEE754.BinarySingleNaN.
From Verif Require Import common.Sexp common.Int64 c03.JV c03.Core c03.Ops c03.Natives c03.Spec c03.Wf c03.Denote
  c03.CompareDoc c03.OpsDoc c03.NativesDoc c03.NativesDoc2 c03.NoPanic1 c03.NoPanic2 c03.NoPanic3.
Import ListNotations.
Open Scope Z_scope.

Lemma list_N_eqb_eq a : forall b, list_N_eqb a b = true <-> a = b.
Proof.
  induction a as [|x a IH]; intros [|y b]; simpl; split; intros H; try reflexivity; try discriminate.
  - apply andb_true_iff in H as [H1 H2]. apply N.eqb_eq in H1. apply IH in H2. congruence.
  - inversion H; subst. rewrite N.eqb_refl. simpl. apply IH. reflexivity.
Qed.
Lemma bytes_eqb_rev a b : bytes_eqb (rev a) (rev b) = bytes_eqb a b.
Proof.
  unfold bytes_eqb. destruct (list_N_eqb a b) eqn:E.
  - apply list_N_eqb_eq in E. subst. apply list_N_eqb_eq. reflexivity.
  - destruct (list_N_eqb (rev a) (rev b)) eqn:E2; auto. apply list_N_eqb_eq in E2.
    assert (a = b) by (rewrite <- (rev_involutive a), <- (rev_involutive b), E2; reflexivity).
    apply list_N_eqb_eq in H. congruence.
Qed.

Section NativesDoc3.
  Variable pf : bytes -> option float.
  Hypothesis pf_bigint : forall z, big_to_float pf z = Z2F z.
  Notation denote := (denote pf).
  Notation agrees := (agrees pf).

  (* ---- suffix predicates ---- *)
  Lemma suffix_spec s t :
    strip_prefix (rev t) (rev s) =
    if s_endswith s t then Some (rev (firstn (List.length s - List.length t) s)) else None.
  Proof.
    rewrite strip_prefix_spec. rewrite rev_length. unfold s_endswith.
    destruct (Nat.leb (List.length t) (List.length s)) eqn:L.
    - apply Nat.leb_le in L. rewrite firstn_rev, skipn_rev. rewrite bytes_eqb_rev. simpl.
      destruct (bytes_eqb _ t); reflexivity.
    - apply Nat.leb_gt in L. simpl.
      destruct (bytes_eqb (firstn (List.length t) (rev s)) (rev t)) eqn:E; [|reflexivity].
      apply list_N_eqb_eq in E. apply (f_equal (@List.length N)) in E.
      rewrite firstn_length, !rev_length in E. lia.
  Qed.
  Lemma has_suffix_doc s t : has_suffix s t = s_endswith s t.
  Proof. unfold has_suffix, has_prefix. rewrite suffix_spec. destruct (s_endswith s t); reflexivity. Qed.
  Lemma trim_suffix_doc s t : trim_suffix s t = s_rtrimstr s t.
  Proof.
    unfold trim_suffix, s_rtrimstr. rewrite suffix_spec. destruct (s_endswith s t); [rewrite rev_involutive|]; reflexivity.
  Qed.
  Theorem f_endswith_doc v x : wf v = true -> wf x = true ->
    agrees (f_endswith v x) (s_str2 (fun s t => MBool (s_endswith s t)) (denote v) (denote x)).
  Proof. intros. apply str2_doc; auto. intros. simpl. rewrite has_suffix_doc. reflexivity. Qed.
  Theorem f_rtrimstr_doc v x : wf v = true -> wf x = true ->
    agrees (f_rtrimstr v x) (s_str2 (fun s t => MStr (s_rtrimstr s t)) (denote v) (denote x)).
  Proof. intros. apply str2_doc; auto. intros. simpl. rewrite trim_suffix_doc. reflexivity. Qed.
  Theorem f_trimstr_doc v x : wf v = true -> wf x = true ->
    agrees (f_trimstr v x) (s_str2 (fun s t => MStr (s_rtrimstr (s_ltrimstr s t) t)) (denote v) (denote x)).
  Proof. intros. apply str2_doc; auto. intros. simpl. rewrite trim_suffix_doc, trim_prefix_doc. reflexivity. Qed.

  (* ---- tonumber ---- *)
  Theorem f_tonumber_doc v : wf v = true -> agrees (f_tonumber pf v) (match s_tonumber pf (denote v) with Some r => r | None => SErr end).
  Proof.
    intros W. destruct v as [| |n|s| | |]; try reflexivity; try discriminate.
    - simpl. rewrite denote_num_norm. destruct (norm_num pf n); reflexivity.
    - unfold f_tonumber. cbn [Spec.denote s_tonumber]. destruct (valid_number_text s); [|reflexivity].
      unfold OpsDoc.agrees. cbn [Spec.denote]. rewrite (denote_num_norm pf (NLit s)). cbn [norm_num].
      destruct (parse_number pf s); reflexivity.
  Qed.

  (* ---- error / halt / halt_error: the dispatch ---- *)
  Theorem f_error_doc v a : f_error v [] = Err (EUser v) /\ f_error v [a] = Err (EUser a).
  Proof. split; reflexivity. Qed.
  Theorem f_halt_error_doc v a :
    f_halt_error pf v [] = Err (EHalt v 5)
    /\ (wf a = true -> f_halt_error pf v [a] = match mv_int (denote a) with Some c => Err (EHalt v c) | None => Err EFunc0Type end).
  Proof. split; [reflexivity|]. intros W. unfold f_halt_error. rewrite (to_int_denote pf) by auto. reflexivity. Qed.

  (* ---- _min_by / _max_by ---- *)
  Definition pstep (is_min : bool) (m y : jv * jv) : jv * jv :=
    if Bool.eqb (0 <? compare pf (snd m) (snd y)) is_min then y else m.
  Lemma loop_pairs is_min (rest : list (jv * jv)) : forall pre j p,
    nth_error (pre ++ rest) (Z.to_nat j) = Some p -> 0 <= j < llen pre ->
    let k := min_max_loop pf is_min (map snd rest) (llen pre) j (snd p) in
    nth_error (pre ++ rest) (Z.to_nat k) = Some (fold_left (pstep is_min) rest p) /\ 0 <= k < llen (pre ++ rest).
  Proof.
    induction rest as [|y rest IH]; intros pre j p HN HJ; simpl.
    - rewrite app_nil_r in *. auto.
    - assert (EQ : pre ++ y :: rest = (pre ++ [y]) ++ rest) by (rewrite <- app_assoc; reflexivity).
      assert (L : llen (pre ++ [y]) = llen pre + 1) by (unfold llen; rewrite app_length; simpl; lia).
      unfold pstep at 2. destruct (Bool.eqb (0 <? compare pf (snd p) (snd y)) is_min).
      + specialize (IH (pre ++ [y]) (llen pre) y). rewrite <- EQ, L in IH. apply IH.
        * rewrite EQ. rewrite nth_error_app1 by (unfold llen in *; rewrite app_length; simpl; lia).
          unfold llen. rewrite Nat2Z.id. rewrite nth_error_app2 by lia. rewrite Nat.sub_diag. reflexivity.
        * pose proof (llen_nonneg pre). lia.
      + specialize (IH (pre ++ [y]) j p). rewrite <- EQ, L in IH. apply IH; [auto|lia].
  Qed.
  Lemma nth_error_combine_fst {A B} (l : list A) (l' : list B) k p :
    nth_error (combine l l') k = Some p -> nth_error l k = Some (fst p).
  Proof.
    revert l' k. induction l; intros [|b l'] [|k] H; simpl in *; try discriminate.
    - inversion H; reflexivity.
    - eauto.
  Qed.
  Lemma min_max_by_pairs is_min v0 x0 vs xs : List.length vs = List.length xs ->
    min_max_by pf is_min (v0 :: vs) (x0 :: xs) = Val (fst (fold_left (pstep is_min) (combine vs xs) (v0, x0))).
  Proof.
    intros HL. unfold min_max_by. change (go_index (x0 :: xs) 0) with (Val (A:=jv) x0). cbn [bind tl].
    assert (MS : map snd (combine vs xs) = xs).
    { clear -HL. revert xs HL. induction vs; intros [|x xs] HL; simpl in *; try discriminate; auto. f_equal. auto. }
    destruct (loop_pairs is_min (combine vs xs) [(v0, x0)] 0 (v0, x0)) as [H1 H2]; [reflexivity|unfold llen; simpl; lia|].
    change (llen [(v0, x0)]) with 1 in *. cbn [snd] in *. rewrite MS in *.
    apply go_index_nth.
    - change ([(v0, x0)] ++ combine vs xs) with (combine (v0 :: vs) (x0 :: xs)) in H1.
      apply nth_error_combine_fst in H1. exact H1.
    - unfold llen in *. rewrite app_length, combine_length in H2. simpl in *. lia.
  Qed.

  Lemma gt_doc' m y : wf m = true -> wf y = true -> (0 <? compare pf m y) = mgtb (denote m) (denote y).
  Proof. intros. rewrite (compare_doc pf pf_bigint) by auto. unfold mgtb. destruct (mcmp _ _); reflexivity. Qed.
  Definition dpair (p : jv * jv) : mv * mv := (denote (fst p), denote (snd p)).
  Lemma fold_pstep_doc is_min rest : forall p, wf (snd p) = true -> forallb (fun q => wf (snd q)) rest = true ->
    dpair (fold_left (pstep is_min) rest p)
    = fold_left (fun m y => if Bool.eqb (mgtb (snd m) (snd y)) is_min then y else m) (map dpair rest) (dpair p)
    /\ wf (snd (fold_left (pstep is_min) rest p)) = true.
  Proof.
    induction rest as [|y rest IH]; intros p WP WR; cbn [fold_left map]; [auto|].
    cbn [forallb] in WR. apply andb_true_iff in WR as [W1 W2].
    assert (E : dpair (pstep is_min p y) = (if Bool.eqb (mgtb (snd (dpair p)) (snd (dpair y))) is_min then dpair y else dpair p)).
    { unfold pstep. rewrite gt_doc' by auto. simpl. destruct (Bool.eqb _ _); reflexivity. }
    rewrite <- E. apply IH; auto. unfold pstep. destruct (Bool.eqb (0 <? _) _); auto.
  Qed.
  Lemma map_dpair_combine vs xs : map dpair (combine vs xs) = combine (map denote vs) (map denote xs).
  Proof. revert xs. induction vs; intros [|x xs]; simpl; auto. f_equal. auto. Qed.

  Theorem f_minmax_by_doc is_min v x : wf v = true -> wf x = true ->
    agrees (f_minmax_by pf is_min v x) (s_minmax_by is_min (denote v) (denote x)).
  Proof.
    intros WV WX. unfold f_minmax_by.
    destruct v as [| |n| |vs| |]; try discriminate;
      try (cbn [Spec.denote]; rewrite ?denote_num_norm; try destruct (norm_num pf n); destruct (Spec.denote pf x); reflexivity).
    destruct x as [| |n| |xs| |]; try discriminate; try reflexivity.
    - cbn [Spec.denote]. rewrite denote_num_norm. destruct (norm_num pf n); reflexivity.
    - cbn [Spec.denote s_minmax_by]. rewrite !map_length. unfold llen.
      destruct (Nat.eqb (List.length vs) (List.length xs)) eqn:E.
      + apply Nat.eqb_eq in E. replace (Z.of_nat (List.length vs) =? Z.of_nat (List.length xs)) with true by (symmetry; apply Z.eqb_eq; lia).
        cbn [negb]. destruct vs as [|v0 vs], xs as [|x0 xs]; try discriminate; [reflexivity|].
        simpl in E. injection E as E. rewrite min_max_by_pairs by auto.
        simpl in WV, WX. apply andb_true_iff in WV as [_ WV]. apply andb_true_iff in WX as [WX0 WX].
        cbn [map combine]. rewrite <- map_dpair_combine.
        destruct (fold_pstep_doc is_min (combine vs xs) (v0, x0)) as [H _]; [auto| |].
        * clear -WX E. revert xs WX E. induction vs; intros [|x xs] WX E; simpl in *; auto; try discriminate.
          apply andb_true_iff in WX as [? ?]. rewrite H. simpl. apply IHvs; auto.
        * unfold OpsDoc.agrees. change (denote v0, denote x0) with (dpair (v0, x0)). rewrite <- H. reflexivity.
      + apply Nat.eqb_neq in E. replace (Z.of_nat (List.length vs) =? Z.of_nat (List.length xs)) with false by (symmetry; apply Z.eqb_neq; lia).
        reflexivity.
  Qed.

  (* ---- transpose ---- *)
  Definition is_arr (v : jv) : bool := match v with JArr _ => true | _ => false end.
  Definition inner (v : jv) : list jv := match v with JArr r => r | _ => [] end.
  Lemma omap_lens rows : forallb is_arr rows = true ->
    omap (fun vs => match vs with JArr r => Val (llen r) | _ => Err EFunc0Type end) rows = Val (map (fun v => llen (inner v)) rows).
  Proof.
    induction rows as [|v rows IH]; simpl; intros H; [reflexivity|]. apply andb_true_iff in H as [H1 H2].
    destruct v; try discriminate. simpl. rewrite IH by auto. reflexivity.
  Qed.
  Lemma omap_lens_err rows : forallb is_arr rows = false ->
    exists e, omap (fun vs => match vs with JArr r => Val (llen r) | _ => @Err Z EFunc0Type end) rows = Err e.
  Proof.
    induction rows as [|v rows IH]; simpl; intros H; [discriminate|].
    destruct v; simpl in *; try (eexists; reflexivity).
    destruct (IH H) as [e E]. rewrite E. eexists; reflexivity.
  Qed.
  Lemma omap_rows rows l : forallb is_arr rows = true -> (forall v, In v rows -> llen (inner v) <= l) ->
    omap (fun vs => match vs with
                    | JArr r => if llen r <=? l then Val r else Panic "index out of range wss[j]"
                    | _ => Panic "interface conversion: not []interface {}"
                    end) rows = Val (map inner rows).
  Proof.
    induction rows as [|v rows IH]; simpl; intros H B; [reflexivity|]. apply andb_true_iff in H as [H1 H2].
    destruct v; try discriminate. simpl.
    replace (llen l0 <=? l) with true by (symmetry; apply Z.leb_le; apply (B (JArr l0)); left; reflexivity).
    simpl. rewrite IH; auto.
  Qed.
  Lemma fold_max_nat (ls : list (list jv)) : forall a : nat,
    Z.to_nat (fold_left Z.max (map (fun r => llen r) ls) (Z.of_nat a)) = fold_left Nat.max (map (@List.length jv) ls) a.
  Proof.
    induction ls as [|r ls IH]; intros a; simpl; [lia|].
    replace (Z.max (Z.of_nat a) (llen r)) with (Z.of_nat (Nat.max a (List.length r))) by (unfold llen; lia). apply IH.
  Qed.
  Lemma fold_right_left_max l : forall a, fold_left Nat.max l a = Nat.max a (fold_right Nat.max O l).
  Proof. induction l; intros; simpl; [lia|]. rewrite IHl. lia. Qed.

  Theorem f_transpose_doc v : wf v = true -> agrees (f_transpose v) (s_transpose (denote v)).
  Proof.
    intros W. destruct v as [| |n| |rows| |]; try reflexivity; try discriminate.
    - simpl. rewrite denote_num_norm. destruct (norm_num pf n); reflexivity.
    - destruct rows as [|v0 rows']; [reflexivity|]. set (rows := v0 :: rows') in *.
      unfold f_transpose. fold rows. replace (match rows with [] => Val (JArr []) | _ :: _ => _ end) with
        (do lens <- omap (fun vs => match vs with JArr r => Val (llen r) | _ => Err EFunc0Type end) rows;
         let l := fold_left Z.max lens 0 in
         do rws <- omap (fun vs => match vs with
                                   | JArr r => if llen r <=? l then Val r else Panic "index out of range wss[j]"
                                   | _ => Panic "interface conversion: not []interface {}"
                                   end) rows;
         Val (JArr (map (fun j => JArr (map (fun r => nth j r JNull) rws)) (seq 0 (Z.to_nat l))))) by reflexivity.
      cbn [Spec.denote s_transpose].
      assert (FA : forallb (fun r => match r with MArr _ => true | _ => false end) (map denote rows) = forallb is_arr rows).
      { clear. induction rows as [|x r IH]; simpl; auto. rewrite IH. f_equal.
        destruct x as [| |n| | | |]; try reflexivity. simpl. rewrite denote_num_norm. destruct (norm_num pf n); reflexivity. }
      rewrite FA. destruct (forallb is_arr rows) eqn:EA.
      + rewrite omap_lens by auto. cbn [bind]. cbv zeta.
        rewrite omap_rows; auto.
        2:{ intros x I. destruct (fold_max_ge (map (fun v => llen (inner v)) rows) 0) as [_ H]. apply H. apply in_map_iff. eauto. }
        cbn [bind]. unfold OpsDoc.agrees. cbn [Spec.denote]. f_equal.
        assert (RS : map (fun r => match r with MArr l => l | _ => [] end) (map denote rows) = map (map denote) (map inner rows)).
        { clear -EA. induction rows as [|x r IH]; simpl in *; auto. apply andb_true_iff in EA as [E1 E2].
          destruct x; try discriminate. simpl. f_equal. auto. }
        rewrite RS.
        assert (WD : Z.to_nat (fold_left Z.max (map (fun v => llen (inner v)) rows) 0)
                     = fold_right Nat.max O (map (@List.length mv) (map (map denote) (map inner rows)))).
        { replace (map (fun v : jv => llen (inner v)) rows) with (map (fun r => llen r) (map inner rows)) by (rewrite map_map; reflexivity).
          change 0 with (Z.of_nat 0). rewrite fold_max_nat.
          rewrite fold_right_left_max. cbn [Nat.max]. f_equal. rewrite (map_map (map denote)). apply map_ext. intros. rewrite map_length. reflexivity. }
        rewrite WD. rewrite map_map. apply map_ext. intros j. cbn [Spec.denote]. f_equal.
        rewrite !map_map. apply map_ext. intros r. change MNull with (denote JNull). rewrite map_nth. reflexivity.
      + destruct (omap_lens_err rows EA) as [e E]. rewrite E. exact I.
  Qed.
End NativesDoc3.
