(* C03 correspondence: one harness line -> verdict.
     (call NAME IN (ARG...) OUT)
   OUT = (ok V) | (seq (V...) done|cut|(err CLS)) | (err CLS) | (panic HEX)
   CLS = Go error type name | (funcNWrapError CLS) | (exitCodeError V) | (HaltError V CODE)
   Values: null true false (i z) (b z) (f bits) (l hex) (s hex) (a v...) (o (hexkey v)...)
   Verdict: ok | (skip NAME) (native outside the model) | (bad EXPECTED).
   Values are compared by what they DENOTE (int / *big.Int / integer literal are one integer; a float
   and a fraction/exponent literal that parses to it are one float); results of libm oracles are
   compared by class (a number); fromjson is judged with the RFC 8259 reference reader of C12.  (spec LINE) judges the line with coq/c03/Spec.v instead. *)
From Coq Require Import List ZArith NArith Bool String Ascii.
From Flocq Require Import IEEE754.BinarySingleNaN.
From Verif Require Import common.Sexp common.Int64 c03.JV c03.FloatText c03.Core c03.Ops c03.Natives c03.Dispatch c03.Spec.
From Verif Require c12.JsonRef.
Import ListNotations.
Open Scope Z_scope.

(* ---- the oracles of the executable model --------------------------------------------------- *)
Definition x_libm1 (_ : string) (_ : float) : float := fnan.
Definition x_libm2 (_ : string) (_ _ : float) : float := fnan.
Definition x_libm3 (_ : string) (_ _ _ : float) : float := fnan.
(* fromjson: the RFC 8259 reference reader of C12 (coq/c12/JsonRef.v, proved against the encoder there)
   plus what encoding/json adds: invalid UTF-8 inside strings becomes U+FFFD byte by byte, a repeated key
   keeps its last value, nesting deeper than 10000 is refused.  Error classes as funcFromJSON produces
   them: Decode fails (func0WrapError) when the first value is malformed or too deep; dec.Token() != io.EOF
   (func0TypeError) when anything but white space follows the first value (the scanner defers its
   complaint about a byte directly after a scalar to the next call, so Decode itself succeeds). *)
Fixpoint of_ref (v : JsonRef.jv) : jv :=
  match v with
  | JsonRef.JNull => JNull
  | JsonRef.JBool b => JBool b
  | JsonRef.JNum lit => JNum (NLit lit)
  | JsonRef.JStr s => JStr (encode_runes (runes s))
  | JsonRef.JArr l => JArr (map of_ref l)
  | JsonRef.JObj m =>
      JObj (fold_left (fun acc kv => obj_set acc (fst kv) (snd kv))
                      (map (fun kv => (encode_runes (runes (fst kv)), of_ref (snd kv))) m) [])
  end.
Fixpoint ref_depth (v : JsonRef.jv) : nat :=
  match v with
  | JsonRef.JArr l => S (fold_left Nat.max (map ref_depth l) O)
  | JsonRef.JObj m => S (fold_left Nat.max (map (fun kv => ref_depth (snd kv)) m) O)
  | _ => O
  end.
Definition max_nesting : nat := Z.to_nat 10000.
Definition x_json_decode (s : bytes) : jv + bool :=
  match JsonRef.pval (S (List.length s)) s with
  | None => inr false
  | Some (v, r) =>
      if Nat.ltb max_nesting (ref_depth v) then inr false
      else match JsonRef.skip_ws r with
           | [] => inl (of_ref v)
           | _ :: _ => inr true
           end
  end.
Definition x_libm_pair (_ : string) (_ : float) : jv := JArr [jflt fnan; jflt fnan].

Definition x_call := call_native parse_float_text fmt_float x_libm1 x_libm2 x_libm3 x_json_decode x_libm_pair.
Definition x_parse_number := parse_number parse_float_text.

(* ---- transport ------------------------------------------------------------------------------ *)
Fixpoint dec_val (e : sexp) : option jv :=
  match e with
  | Atom _ =>
      if atom_is "null" e then Some JNull else if atom_is "true" e then Some (JBool true)
      else if atom_is "false" e then Some (JBool false) else None
  | SList (t :: rest) =>
      if atom_is "a" t then
        option_map JArr ((fix go (l : list sexp) : option (list jv) :=
                            match l with
                            | [] => Some []
                            | x :: r => match dec_val x, go r with
                                        | Some v, Some vs => Some (v :: vs)
                                        | _, _ => None
                                        end
                            end) rest)
      else if atom_is "o" t then
        option_map JObj ((fix go (l : list sexp) : option (list (bytes * jv)) :=
                            match l with
                            | [] => Some []
                            | SList [Atom k; x] :: r =>
                                match parse_hexs k, dec_val x, go r with
                                | Some kb, Some v, Some m => Some (obj_set m kb v)
                                | _, _, _ => None
                                end
                            | _ => None
                            end) rest)
      else match rest with
           | [Atom a] =>
               if atom_is "i" t then option_map (fun z => JNum (NInt z)) (parse_Z a)
               else if atom_is "b" t then option_map (fun z => JNum (NBig z)) (parse_Z a)
               else if atom_is "f" t then option_map (fun z => JNum (NFlt (float_of_bits z))) (parse_Z a)
               else if atom_is "l" t then option_map (fun b => JNum (NLit b)) (parse_hexs a)
               else if atom_is "s" t then option_map JStr (parse_hexs a)
               else None
           | _ => None
           end
  | SList [] => None
  end.

Fixpoint enc_val (v : jv) : sexp :=
  match v with
  | JNull => A "null" | JBool true => A "true" | JBool false => A "false"
  | JNum (NInt z) => SList [A "i"; Atom (print_Z z)]
  | JNum (NBig z) => SList [A "b"; Atom (print_Z z)]
  | JNum (NFlt f) => SList [A "f"; Atom (print_Z (bits_of_float f))]
  | JNum (NLit t) => SList [A "l"; Atom (print_hexs t)]
  | JStr s => SList [A "s"; Atom (print_hexs s)]
  | JArr l => SList (A "a" :: map enc_val l)
  | JObj m => SList (A "o" :: map (fun kv => SList [Atom (print_hexs (fst kv)); enc_val (snd kv)]) m)
  | JHole => A "hole"
  end.

Fixpoint enc_err (e : err) : sexp :=
  match e with
  | EFunc0Type => A "func0TypeError" | EFunc1Type => A "func1TypeError" | EFunc2Type => A "func2TypeError"
  | EFunc0Wrap i => SList [A "func0WrapError"; enc_err i]
  | EFunc1Wrap i => SList [A "func1WrapError"; enc_err i]
  | EFunc2Wrap i => SList [A "func2WrapError"; enc_err i]
  | EExt => A "ext"
  | EExpectedObject => A "expectedObjectError" | EExpectedArray => A "expectedArrayError"
  | EArrayIndexNegative => A "arrayIndexNegativeError" | EArrayIndexTooLarge => A "arrayIndexTooLargeError"
  | ERepeatTooLarge => A "repeatStringTooLargeError" | EObjectKeyNotString => A "objectKeyNotStringError"
  | EArrayIndexNotNumber => A "arrayIndexNotNumberError" | EStringIndexNotNumber => A "stringIndexNotNumberError"
  | EExpectedStartEnd => A "expectedStartEndError" | ELengthMismatch => A "lengthMismatchError"
  | EFlattenDepth => A "flattenDepthError" | EUnaryType => A "unaryTypeError" | EBinopType => A "binopTypeError"
  | EZeroDivision => A "zeroDivisionError" | EZeroModulo => A "zeroModuloError"
  | EFormatNotFound => A "formatNotFoundError" | EFormatRow => A "formatRowError"
  | EUser v => SList [A "exitCodeError"; enc_val v]
  | EHalt v c => SList [A "HaltError"; enc_val v; Atom (print_Z c)]
  end.

(* ---- agreement by denotation ---------------------------------------------------------------- *)
Definition pnum_same (wild : bool) (a b : pnum) : bool :=
  wild ||
  match a, b with
  | PInt x, PInt y | PInt x, PBig y | PBig x, PInt y | PBig x, PBig y => x =? y
  | PFlt f, PFlt g => fsame f g
  | _, _ => false
  end.
Definition x_norm_num := norm_num parse_float_text.

Fixpoint val_agree (wild : bool) (m i : jv) {struct m} : bool :=
  match m, i with
  | JNull, JNull => true
  | JBool a, JBool b => Bool.eqb a b
  | JNum a, JNum b => pnum_same wild (x_norm_num a) (x_norm_num b)
  | JStr a, JStr b => bytes_eqb a b
  | JArr a, JArr b =>
      (fix go (a b : list jv) {struct a} : bool :=
         match a, b with
         | [], [] => true
         | x :: a', y :: b' => val_agree wild x y && go a' b'
         | _, _ => false
         end) a b
  | JObj a, JObj b =>
      (fix go (a b : list (bytes * jv)) {struct a} : bool :=
         match a, b with
         | [], [] => true
         | (k, x) :: a', (k', y) :: b' => bytes_eqb k k' && val_agree wild x y && go a' b'
         | _, _ => false
         end) a b
  | _, _ => false
  end.

Fixpoint err_agree (m : err) (i : sexp) : bool :=
  match m, i with
  | EFunc0Wrap e, SList [t; x] => atom_is "func0WrapError" t && err_agree e x
  | EFunc1Wrap e, SList [t; x] => atom_is "func1WrapError" t && err_agree e x
  | EFunc2Wrap e, SList [t; x] => atom_is "func2WrapError" t && err_agree e x
  | EUser v, SList [t; x] =>
      atom_is "exitCodeError" t && match dec_val x with Some w => val_agree false v w | None => false end
  | EHalt v c, SList [t; x; Atom cc] =>
      atom_is "HaltError" t && match dec_val x, parse_Z cc with
                               | Some w, Some c' => val_agree false v w && (c =? c')
                               | _, _ => false
                               end
  | _, Atom a => match enc_err m with Atom b => list_N_eqb a b | _ => false end
  | _, _ => false
  end.

Fixpoint dec_vals (l : list sexp) : option (list jv) :=
  match l with
  | [] => Some []
  | x :: r => match dec_val x, dec_vals r with Some v, Some vs => Some (v :: vs) | _, _ => None end
  end.

Fixpoint vals_agree (wild : bool) (a b : list jv) : bool :=
  match a, b with
  | [], [] => true
  | x :: a', y :: b' => val_agree wild x y && vals_agree wild a' b'
  | _, _ => false
  end.

Definition enc_outcome (o : outcome res) : sexp :=
  match o with
  | Val (ROne v) => SList [A "ok"; enc_val v]
  | Val (RSeq l cut) => SList [A "seq"; SList (map enc_val l); if cut then A "cut" else A "done"]
  | Err e => SList [A "err"; enc_err e]
  | Panic t => SList [A "panic"; Atom (print_hexs (codes t))]
  end.

Definition outcome_agree (wild : bool) (o : outcome res) (impl : sexp) : bool :=
  match o, impl with
  | Val (ROne v), SList [t; x] =>
      atom_is "ok" t && match dec_val x with Some w => val_agree wild v w | None => false end
  | Val (RSeq l cut), SList [t; SList xs; e] =>
      atom_is "seq" t && (if cut then atom_is "cut" e else atom_is "done" e)
      && match dec_vals xs with Some ws => vals_agree wild l ws | None => false end
  | Err e, SList [t; x] => atom_is "err" t && err_agree e x
  | _, _ => false
  end.

Definition string_of_codes (l : list N) : string :=
  fold_right (fun c s => String (ascii_of_N c) s) EmptyString l.

Definition range_fuel : nat := 40.

Definition class_only (name : string) : bool :=
  ((mem name math1_names || mem name math2_names || mem name math3_names) && negb (mem name exact_math))
  || String.eqb name "frexp" || String.eqb name "modf".

Definition judge_model (name : string) (v : jv) (args : list jv) (impl : sexp) : sexp :=
  match x_call range_fuel name v args with
  | None => SList [A "skip"; Atom (codes name)]
  | Some o =>
      if outcome_agree (class_only name) o impl then A "ok" else SList [A "bad"; enc_outcome o]
  end.

(* the independent oracle: documented functions over mathematical values (Spec.v) *)
Definition judge_spec (name : string) (v : jv) (args : list jv) (impl : sexp) : sexp :=
  match spec_call parse_float_text name v args with
  | None => A "ok"                             (* no crisp documented definition: nothing to judge *)
  | Some exp =>
      let ok := match exp, impl with
                | SVal m, SList [t; x] =>
                    atom_is "ok" t && match dec_val x with
                                      | Some w => mv_eqb m (denote parse_float_text w)
                                      | None => false
                                      end
                | SErr, SList [t; _] => atom_is "err" t
                | _, _ => false
                end in
      if ok then A "ok" else SList [A "bad"; match exp with SVal m => SList [A "ok"; enc_mv m] | SErr => A "error" end]
  end.

Definition run_sexp (spec : bool) (e : sexp) : sexp :=
  match e with
  | SList [k; Atom name; vin; SList args; impl] =>
      if atom_is "call" k then
        match dec_val vin, dec_vals args with
        | Some v, Some vs => (if spec then judge_spec else judge_model) (string_of_codes name) v vs impl
        | _, _ => A "undecodable"
        end
      else A "undecodable"
  | _ => A "undecodable"
  end.

Definition run_line (l : list N) : list N :=
  match parse l with
  | Some (SList [k; e]) => if atom_is "spec" k then print (run_sexp true e) else print (run_sexp false (SList [k; e]))
  | Some e => print (run_sexp false e)
  | None => codes "unparsable"
  end.
