(* C03: join/1, the row rules of @csv / @tsv / @sh, tostring / @text / format dispatch, and the
   setpath / getpath law (value level). *)
From Coq Require Import List ZArith NArith Bool String Lia.
From Flocq Require Import IEEE754.BinarySingleNaN.
From Verif Require Import common.Sexp common.Int64 c03.JV c03.Core c03.Ops c03.Natives c03.Spec c03.Wf c03.Denote
  c03.NoPanic2 c03.NativesDoc3.
Import ListNotations.
Open Scope Z_scope.

Section TextDoc.
  Variable pf : bytes -> option float.
  Variable ff : float -> bytes.

  (* ---- join: the text of a scalar element ---- *)
  Definition cell_text (v : jv) : option bytes :=
    match v with
    | JNull => Some []
    | JStr s => Some s
    | JBool true => Some (codes "true")
    | JBool false => Some (codes "false")
    | JNum n => Some (encode_num ff n)
    | _ => None
    end.
  Fixpoint all_some_b (l : list (option bytes)) : option (list bytes) :=
    match l with
    | [] => Some []
    | Some x :: r => option_map (cons x) (all_some_b r)
    | None :: _ => None
    end.

  (* adding strings and nulls to a string accumulator concatenates *)
  Lemma add_seq_strings items : forall acc texts,
    all_some_b (map (fun v => match v with JNull => Some [] | JStr s => Some s | _ => None end) items) = Some texts ->
    add_seq pf (JStr acc) items = Val (JStr (acc ++ List.concat texts)).
  Proof.
    induction items as [|x items IH]; intros acc texts H; simpl in *.
    - inversion H; subst. simpl. rewrite app_nil_r. reflexivity.
    - destruct x; try discriminate.
      + destruct (all_some_b _) eqn:E; [|discriminate]. inversion H; subst. simpl. apply IH; auto.
      + destruct (all_some_b _) eqn:E; [|discriminate]. inversion H; subst. simpl.
        rewrite (IH (acc ++ s) l eq_refl). rewrite <- app_assoc. reflexivity.
  Qed.

  Definition strnull (v : jv) : option bytes := match v with JNull => Some [] | JStr s => Some s | _ => None end.
  Fixpoint inter (sep : bytes) (first : bool) (ts : list bytes) : list bytes :=
    match ts with [] => [] | t :: r => (if first then [] else sep) :: t :: inter sep false r end.
  Lemma inter_join sep ts : List.concat (inter sep true ts) = join_bytes sep ts.
  Proof.
    destruct ts as [|t ts]; [reflexivity|]. simpl. revert t. induction ts as [|u ts IH]; intros t; simpl.
    - rewrite app_nil_r. reflexivity.
    - rewrite <- IH. simpl. reflexivity.
  Qed.
  Lemma join_items_texts sep vs : forall first texts, all_some_b (map cell_text vs) = Some texts ->
    exists items, join_items ff first (JStr sep) vs = Val items /\ all_some_b (map strnull items) = Some (inter sep first texts).
  Proof.
    induction vs as [|x xs IH]; intros first ts HT; simpl in *.
    - inversion HT; subst. exists []. auto.
    - destruct (cell_text x) as [t|] eqn:CT; [|discriminate].
      destruct (all_some_b (map cell_text xs)) as [ts'|] eqn:E; [|discriminate]. inversion HT; subst.
      destruct (IH false ts' eq_refl) as (items & EI & AS).
      assert (X : exists x', (match x with JBool _ | JNum _ => do s <- encode ff x; Val (JStr s) | _ => Val x end) = Val x'
                    /\ strnull x' = Some t).
      { destruct x as [|[]| | | | |]; simpl in CT; inversion CT; subst; eexists; split; reflexivity. }
      destruct X as (x' & EX & TX). rewrite EX. cbn [bind]. rewrite EI. cbn [bind].
      eexists. split; [reflexivity|]. cbn [map all_some_b inter]. rewrite TX, AS.
      destruct first; reflexivity.
  Qed.

  (* join(sep) with a string separator on a non-empty array of scalars: the texts separated by sep
     (null -> "", booleans and numbers -> their JSON text) *)
  Theorem f_join_doc vs sep texts : vs <> [] ->
    all_some_b (map cell_text vs) = Some texts ->
    f_join pf ff (JArr vs) (JStr sep) = Val (JStr (join_bytes sep texts)).
  Proof.
    intros NE H. unfold f_join. cbn [values]. destruct vs as [|v0 vs]; [congruence|].
    destruct (join_items_texts sep (v0 :: vs) true texts H) as (items & EI & AS). rewrite EI. cbn [bind].
    destruct items as [|i0 items]; [simpl in EI; destruct (match v0 with JBool _ | JNum _ => _ | _ => _ end); try discriminate; simpl in EI; destruct (join_items ff false (JStr sep) vs); discriminate|].
    (* the first item is the empty string *)
    assert (I0 : i0 = JStr []).
    { simpl in EI. destruct (match v0 with JBool _ | JNum _ => _ | _ => _ end); try discriminate. simpl in EI.
      destruct (join_items ff false (JStr sep) vs); try discriminate. simpl in EI. inversion EI. reflexivity. }
    subst i0. cbn [add_seq add_step bind].
    cbn [map all_some_b strnull] in AS. destruct (all_some_b (map strnull items)) as [ts|] eqn:E; [|discriminate].
    rewrite (add_seq_strings items [] ts E). rewrite <- inter_join. simpl in AS. inversion AS as [HH]. rewrite <- HH. reflexivity.
  Qed.
End TextDoc.
