(* C03: join/1, the row rules of @csv / @tsv / @sh, tostring / @text / format dispatch, and the
   setpath / getpath law (value level). *)
From Coq Require Import List ZArith NArith Bool String Lia.
From Flocq Require Import IEEE754.BinarySingleNaN.
From Verif Require Import common.Sexp common.Int64 c03.JV c03.Core c03.Ops c03.Natives c03.Spec c03.Wf c03.Denote
  c03.NoPanic2 c03.CompareDoc c03.NativesDoc3.
Import ListNotations.
Open Scope Z_scope.

Lemma go_index_nth_d' {A} (l : list A) k d : 0 <= k < llen l -> go_index l k = Val (nth (Z.to_nat k) l d).
Proof.
  intros H. unfold go_index, llen in *.
  destruct (k <? 0) eqn:E1; [apply Z.ltb_lt in E1; lia|].
  destruct (Z.of_nat (List.length l) <=? k) eqn:E2; [apply Z.leb_le in E2; lia|]. simpl.
  rewrite (nth_error_nth' l d) by lia. reflexivity.
Qed.
Lemma go_index_nth' {A} (l : list A) k x : nth_error l (Z.to_nat k) = Some x -> 0 <= k < llen l -> go_index l k = Val x.
Proof.
  intros HN HK. unfold go_index, llen in *.
  destruct (k <? 0) eqn:E1; [apply Z.ltb_lt in E1; lia|].
  destruct (Z.of_nat (List.length l) <=? k) eqn:E2; [apply Z.leb_le in E2; lia|]. simpl. rewrite HN. reflexivity.
Qed.
Lemma nth_error_Some_lt {A} (l : list A) i x : nth_error l i = Some x -> (i < List.length l)%nat.
Proof. intros H. apply nth_error_Some. congruence. Qed.

Lemma omap_cons {A B} (f : A -> outcome B) y vs : omap f (y :: vs) = (do c <- f y; do ys <- omap f vs; Val (c :: ys)).
Proof. reflexivity. Qed.

Section TextDoc.
  Variable pf : bytes -> option float.
  Variable ff : float -> bytes.

  (* ---- join: the text of a scalar element ---- *)
  Definition cell_text (v : jv) : option bytes :=
    match v with
    | JNull => Some []
    | JStr s => Some s
    | JBool true => Some (codes "true")
    | JBool false => Some (codes "false")
    | JNum n => Some (encode_num ff n)
    | _ => None
    end.
  Fixpoint all_some_b (l : list (option bytes)) : option (list bytes) :=
    match l with
    | [] => Some []
    | Some x :: r => option_map (cons x) (all_some_b r)
    | None :: _ => None
    end.

  (* adding strings and nulls to a string accumulator concatenates *)
  Lemma add_seq_strings items : forall acc texts,
    all_some_b (map (fun v => match v with JNull => Some [] | JStr s => Some s | _ => None end) items) = Some texts ->
    add_seq pf (JStr acc) items = Val (JStr (acc ++ List.concat texts)).
  Proof.
    induction items as [|x items IH]; intros acc texts H; simpl in *.
    - inversion H; subst. simpl. rewrite app_nil_r. reflexivity.
    - destruct x; try discriminate.
      + destruct (all_some_b _) eqn:E; [|discriminate]. inversion H; subst. simpl. apply IH; auto.
      + destruct (all_some_b _) eqn:E; [|discriminate]. inversion H; subst. simpl.
        rewrite (IH (acc ++ s) l eq_refl). rewrite <- app_assoc. reflexivity.
  Qed.

  Definition strnull (v : jv) : option bytes := match v with JNull => Some [] | JStr s => Some s | _ => None end.
  Fixpoint inter (sep : bytes) (first : bool) (ts : list bytes) : list bytes :=
    match ts with [] => [] | t :: r => (if first then [] else sep) :: t :: inter sep false r end.
  Lemma inter_join sep ts : List.concat (inter sep true ts) = join_bytes sep ts.
  Proof.
    destruct ts as [|t ts]; [reflexivity|]. simpl. revert t. induction ts as [|u ts IH]; intros t; simpl.
    - rewrite app_nil_r. reflexivity.
    - rewrite <- IH. simpl. reflexivity.
  Qed.
  Lemma join_items_texts sep vs : forall first texts, all_some_b (map cell_text vs) = Some texts ->
    exists items, join_items ff first (JStr sep) vs = Val items /\ all_some_b (map strnull items) = Some (inter sep first texts).
  Proof.
    induction vs as [|x xs IH]; intros first ts HT; simpl in *.
    - inversion HT; subst. exists []. auto.
    - destruct (cell_text x) as [t|] eqn:CT; [|discriminate].
      destruct (all_some_b (map cell_text xs)) as [ts'|] eqn:E; [|discriminate]. inversion HT; subst.
      destruct (IH false ts' eq_refl) as (items & EI & AS).
      assert (X : exists x', (match x with JBool _ | JNum _ => do s <- encode ff x; Val (JStr s) | _ => Val x end) = Val x'
                    /\ strnull x' = Some t).
      { destruct x as [|[]| | | | |]; simpl in CT; inversion CT; subst; eexists; split; reflexivity. }
      destruct X as (x' & EX & TX). rewrite EX. cbn [bind]. rewrite EI. cbn [bind].
      eexists. split; [reflexivity|]. cbn [map all_some_b inter]. rewrite TX, AS.
      destruct first; reflexivity.
  Qed.

  (* join(sep) with a string separator on a non-empty array of scalars: the texts separated by sep
     (null -> "", booleans and numbers -> their JSON text) *)
  Theorem f_join_doc vs sep texts : vs <> [] ->
    all_some_b (map cell_text vs) = Some texts ->
    f_join pf ff (JArr vs) (JStr sep) = Val (JStr (join_bytes sep texts)).
  Proof.
    intros NE H. unfold f_join. cbn [values]. destruct vs as [|v0 vs]; [congruence|].
    destruct (join_items_texts sep (v0 :: vs) true texts H) as (items & EI & AS). rewrite EI. cbn [bind].
    destruct items as [|i0 items]; [simpl in EI; destruct (match v0 with JBool _ | JNum _ => _ | _ => _ end); try discriminate; simpl in EI; destruct (join_items ff false (JStr sep) vs); discriminate|].
    (* the first item is the empty string *)
    assert (I0 : i0 = JStr []).
    { simpl in EI. destruct (match v0 with JBool _ | JNum _ => _ | _ => _ end); try discriminate. simpl in EI.
      destruct (join_items ff false (JStr sep) vs); try discriminate. simpl in EI. inversion EI. reflexivity. }
    subst i0. cbn [add_seq add_step bind].
    cbn [map all_some_b strnull] in AS. destruct (all_some_b (map strnull items)) as [ts|] eqn:E; [|discriminate].
    rewrite (add_seq_strings items [] ts E). rewrite <- inter_join. simpl in AS. injection AS as HH. unfold bytes in *. rewrite <- HH. reflexivity.
  Qed.

  (* ---- @csv / @tsv / @sh: the row rules ---- *)
  (* a cell: strings are escaped, null is empty (or the text null for @sh), booleans and numbers are their
     JSON text (a NaN, which prints as null, is empty too), arrays and objects are not allowed *)
  Definition row_cell (sh : bool) (escape : bytes -> bytes) (v : jv) : option bytes :=
    match v with
    | JStr s => Some (escape s)
    | JArr _ | JObj _ | JHole => None
    | _ => match cell_text v with
           | Some t => Some (if negb (bytes_eqb (match v with JNull => codes "null" | _ => t end) (codes "null")) || sh
                             then (match v with JNull => codes "null" | _ => t end) else [])
           | None => None
           end
    end.
  Theorem format_join_doc sh sep escape vs :
    format_join ff sh sep escape (JArr vs) =
    match all_some_b (map (row_cell sh escape) vs) with
    | Some cells => Val (JStr (join_bytes sep cells))
    | None => format_join ff sh sep escape (JArr vs)       (* some element is an array / object: an error *)
    end.
  Proof.
    destruct (all_some_b (map (row_cell sh escape) vs)) as [cells|] eqn:E; [|reflexivity].
    unfold format_join.
    assert (G : omap (fun x => match x with
                               | JArr _ | JObj _ => Err EFormatRow
                               | JStr s => Val (escape s)
                               | _ => do s <- encode ff x; Val (if negb (bytes_eqb s (codes "null")) || sh then s else [])
                               end) vs = Val cells).
    { revert cells E. induction vs as [|x vs IH]; intros cells E; simpl in *; [inversion E; reflexivity|].
      destruct (row_cell sh escape x) as [c|] eqn:RC; [|discriminate].
      destruct (all_some_b (map (row_cell sh escape) vs)) as [cs|] eqn:E2; [|discriminate]. inversion E; subst.
      rewrite (IH cs eq_refl).
      destruct x as [|[]|n| | | |]; simpl in RC; inversion RC; subst; reflexivity. }
    rewrite G. reflexivity.
  Qed.
  Theorem format_join_errors sh sep escape v :
    (match v with JArr _ => False | _ => True end -> format_join ff sh sep escape v = Err EFunc0Type)
    /\ (forall vs x, v = JArr vs -> In x vs -> (match x with JArr _ | JObj _ => True | _ => False end) ->
         hole_free v = true -> format_join ff sh sep escape v = Err EFormatRow).
  Proof.
    split.
    - destruct v; intros H; try reflexivity. destruct H.
    - intros vs x -> I BX HF. unfold format_join. simpl in HF.
      assert (G : omap (fun x => match x with
                               | JArr _ | JObj _ => Err EFormatRow
                               | JStr s => Val (escape s)
                               | _ => do s <- encode ff x; Val (if negb (bytes_eqb s (codes "null")) || sh then s else [])
                               end) vs = Err EFormatRow).
      { induction vs as [|y vs IH]; [destruct I|]. simpl in HF. apply andb_true_iff in HF as [H1 H2].
        destruct I as [->|I].
        - destruct x; try destruct BX; reflexivity.
        - specialize (IH I H2). rewrite omap_cons, IH.
          destruct y as [|[]|n| | | |]; try (discriminate H1); simpl; try reflexivity; destruct (encode_num ff n); reflexivity. }
      rewrite G. reflexivity.
  Qed.

  (* tostring / @text / @json / format: the dispatch *)
  Theorem tostring_dispatch v x :
    (forall s, f_tostring ff (JStr s) = Val (JStr s))
    /\ (match v with JStr _ => False | _ => True end -> f_tostring ff v = f_tojson ff v)
    /\ f_format ff v (JStr (codes "text")) = f_tostring ff v
    /\ f_format ff v (JStr (codes "json")) = f_tojson ff v
    /\ f_format ff v (JStr (codes "csv")) = f_tocsv ff v
    /\ f_format ff v (JStr (codes "tsv")) = f_totsv ff v
    /\ f_format ff v (JStr (codes "html")) = f_tohtml ff v
    /\ f_format ff v (JStr (codes "uri")) = f_touri ff v
    /\ f_format ff v (JStr (codes "sh")) = f_tosh ff v
    /\ f_format ff v (JStr (codes "base64")) = f_tobase64 ff v
    /\ f_format ff v (JStr (codes "base64d")) = f_tobase64d ff v
    /\ (match x with JStr _ => False | _ => True end -> f_format ff v x = Err EFunc0Type).
  Proof.
    repeat split; try reflexivity.
    - destruct v; intros H; try reflexivity. destruct H.
    - destruct x; intros H; try reflexivity. destruct H.
  Qed.

  (* ---- setpath then getpath: reading a path just written returns what was written ---- *)
  Definition simple_key (x : jv) : Prop :=
    match x with
    | JStr _ => True
    | JNum (NInt i) => 0 <= i
    | _ => False
    end.
  Lemma obj_get_set_same {A} (m : list (bytes * A)) k v : obj_get (obj_set m k v) k = Some v.
  Proof.
    induction m as [|[k' v'] m IH]; simpl.
    - rewrite bytes_eqb_refl. reflexivity.
    - destruct (bytes_cmp k k') eqn:E; simpl.
      + rewrite bytes_eqb_refl. reflexivity.
      + rewrite bytes_eqb_refl. reflexivity.
      + destruct (bytes_eqb k k') eqn:E2; [apply bytes_cmp_eq in E2; congruence|]. exact IH.
  Qed.
  Lemma nth_set_nth l : forall i u, nth_error (set_nth l i u) i = Some u.
  Proof. induction l as [|x l IH]; intros [|i] u; simpl; auto. clear. induction i; simpl; auto. Qed.

  Lemma hole_free_nth l i : forallb hole_free l = true -> hole_free (nth i l JNull) = true.
  Proof. revert i. induction l; intros [|i] H; simpl in *; auto; apply andb_true_iff in H as [? ?]; auto. Qed.
  Lemma hole_free_get m k : forallb (fun kv : bytes * jv => hole_free (snd kv)) m = true ->
    hole_free (match obj_get m k with Some w => w | None => JNull end) = true.
  Proof. induction m as [|[k' v'] m IH]; simpl; intros H; auto. apply andb_true_iff in H as [? ?]. destruct (bytes_eqb k k'); auto. Qed.

  Theorem setpath_getpath path : forall v n u, Forall simple_key path -> is_hole n = false -> hole_free v = true ->
    update pf path v n = Val u -> getpath_loop pf path u = Val n.
  Proof.
    induction path as [|p rest IH]; intros v n u SK NH HF H; [simpl in *; congruence|].
    inversion SK as [|? ? SP SR]; subst. cbn [update] in H. cbv zeta in H.
    destruct p as [| |[i| | |]|k| | |]; try (exfalso; exact SP). all: simpl in SP.
    - (* index i >= 0 *)
      cbn [norm_num pnum_to_int] in H.
      assert (G : forall l, (let j := clamp_index i (-1) (llen l) in
               if j <? 0 then (if is_hole n then Val v else Err EArrayIndexNegative)
               else if j <? llen l then do x <- go_index l j; do u0 <- update pf rest x n; Val (JArr (set_nth l (Z.to_nat j) u0))
               else if is_hole n then Val v else if 536870912 <=? i then Err EArrayIndexTooLarge
               else do u0 <- update pf rest JNull n; Val (JArr (set_nth l (Z.to_nat i) u0))) = Val u ->
               exists l' u', u = JArr l' /\ update pf rest (nth (Z.to_nat i) l JNull) n = Val u' /\ nth_error l' (Z.to_nat i) = Some u').
      { intros l. cbv zeta. unfold clamp_index. replace (i <? 0) with false by (symmetry; apply Z.ltb_ge; lia).
        replace (i <? -1) with false by (symmetry; apply Z.ltb_ge; lia).
        destruct (i <? llen l) eqn:E.
        - replace (i <? 0) with false by (symmetry; apply Z.ltb_ge; lia). rewrite E.
          apply Z.ltb_lt in E. rewrite (go_index_nth_d' l i JNull) by lia. cbn [bind].
          destruct (update pf rest (nth (Z.to_nat i) l JNull) n) as [u0| |] eqn:EU; try discriminate. cbn [bind].
          intros HH; inversion HH; subst. eexists; eexists; repeat split; eauto. apply nth_set_nth.
        - apply Z.ltb_ge in E. pose proof (llen_nonneg l).
          replace (llen l <? 0) with false by (symmetry; apply Z.ltb_ge; lia). rewrite Z.ltb_irrefl. rewrite NH.
          destruct (536870912 <=? i); [discriminate|].
          rewrite nth_overflow by (unfold llen in *; lia).
          destruct (update pf rest JNull n) as [u0| |] eqn:EU; try discriminate. cbn [bind].
          intros HH; inversion HH; subst. eexists; eexists; repeat split; eauto. apply nth_set_nth. }
      assert (F : forall l' u', nth_error l' (Z.to_nat i) = Some u' -> f_index2 pf (JArr l') (JNum (NInt i)) = Val u').
      { intros l' u' HN. unfold f_index2. cbn [norm_num pnum_to_int]. unfold index_arr, clamp_index.
        assert (LT : i < llen l') by (unfold llen; apply nth_error_Some_lt in HN; lia).
        assert (E0 : (i <? 0) = false) by (apply Z.ltb_ge; lia).
        assert (E1 : (i <? -1) = false) by (apply Z.ltb_ge; lia).
        assert (E2 : (i <? llen l') = true) by (apply Z.ltb_lt; lia).
        assert (E3 : (0 <=? i) = true) by (apply Z.leb_le; lia).
        rewrite ?E0, ?E1, ?E2, ?E3. cbn [andb]. rewrite ?E0, ?E1, ?E2, ?E3. cbn [andb].
        apply go_index_nth'; auto. }
      destruct v as [| |vn| |l| |]; try discriminate.
      + destruct (G [] H) as (l' & u' & -> & EU & HN). cbn [getpath_loop]. rewrite (F l' u' HN). apply (IH (nth (Z.to_nat i) [] JNull) n u'); auto. destruct (Z.to_nat i); reflexivity.
      + destruct (G l H) as (l' & u' & -> & EU & HN). cbn [getpath_loop]. rewrite (F l' u' HN). apply (IH (nth (Z.to_nat i) l JNull) n u'); auto. apply hole_free_nth; auto.
    - (* string key *)
      assert (G : forall m, match obj_get m k, is_hole n with
                            | None, true => Val v
                            | x, _ => do u0 <- update pf rest (match x with Some w => w | None => JNull end) n; Val (JObj (obj_set m k u0))
                            end = Val u ->
               exists u', u = JObj (obj_set m k u') /\ update pf rest (match obj_get m k with Some w => w | None => JNull end) n = Val u').
      { intros m. rewrite NH. destruct (obj_get m k) as [j|].
        - destruct (update pf rest j n) as [u0| |] eqn:EU; cbn [bind]; intros HH; try discriminate HH. inversion HH; subst; eauto.
        - destruct (update pf rest JNull n) as [u0| |] eqn:EU; cbn [bind]; intros HH; try discriminate HH. inversion HH; subst; eauto. }
      destruct v as [| |vn| | |m|]; try discriminate.
      + destruct (G [] H) as (u' & -> & EU). cbn [getpath_loop f_index2]. rewrite obj_get_set_same. eapply IH; eauto.
      + destruct (G m H) as (u' & -> & EU). cbn [getpath_loop f_index2]. rewrite obj_get_set_same. apply (IH (match obj_get m k with Some w => w | None => JNull end) n u'); auto. apply hole_free_get; auto.
  Qed.
End TextDoc.
