(* C03 rep_independent: results depend on what the operands DENOTE, not on the Go representation of
   their numbers (int / *big.Int / integer json.Number; float64 / fraction-exponent json.Number). *)
From Coq Require Import List ZArith NArith Bool String Lia.
From Flocq Require Import IEEE754.BinarySingleNaN.
From Verif Require Import common.Sexp common.Int64 c03.JV c03.FloatText c03.Core c03.Ops c03.Natives c03.Spec c03.Wf c03.Denote
  c03.CompareDoc c03.OpsDoc c03.NativesDoc c03.NativesDoc2 c03.NativesDoc3 c03.ContainsDoc c03.IndicesDoc c03.StringsDoc c03.PathDoc c03.FlattenDoc c03.SimpleDoc c03.NoPanic1.
Import ListNotations.
Open Scope Z_scope.

Section Rep.
  Variable pf : bytes -> option float.
  Variable ff : float -> bytes.
  Hypothesis pf_bigint : forall z, big_to_float pf z = Z2F z.
  Notation denote := (denote pf).
  Notation agrees := (agrees pf).

  (* same denoted value, or an error on both sides *)
  Definition oeq (o o' : outcome jv) : Prop :=
    match o, o' with
    | Val v, Val v' => denote v = denote v'
    | Err _, Err _ => True
    | _, _ => False
    end.
  Lemma agrees_oeq o o' s : agrees o s -> agrees o' s -> oeq o o'.
  Proof. destruct o, o', s; simpl; intros; auto; try contradiction; congruence. Qed.

  Definition rep2 (op : jv -> jv -> outcome jv) : Prop :=
    forall l r l' r', wf l = true -> wf r = true -> wf l' = true -> wf r' = true ->
      denote l = denote l' -> denote r = denote r' -> oeq (op l r) (op l' r').

  Lemma rep2_of_doc op sp : (forall l r, wf l = true -> wf r = true -> agrees (op l r) (sp (denote l) (denote r))) -> rep2 op.
  Proof.
    intros H l r l' r' W1 W2 W3 W4 E1 E2. eapply agrees_oeq; [apply H; auto|]. rewrite E1, E2. apply H; auto.
  Qed.

  Theorem op_add_rep : rep2 (op_add pf).
  Proof. eapply rep2_of_doc. apply op_add_doc; auto. Qed.
  Theorem op_sub_rep : rep2 (op_sub pf).
  Proof. eapply rep2_of_doc. apply op_sub_doc; auto. Qed.
  Theorem op_mul_rep : rep2 (op_mul pf).
  Proof. eapply rep2_of_doc. apply op_mul_doc; auto. Qed.
  Theorem op_mod_rep : rep2 (op_mod pf).
  Proof. eapply rep2_of_doc. apply op_mod_doc; auto. Qed.

  Lemma denote_str v s : denote v = MStr s -> v = JStr s.
  Proof.
    destruct v as [| |n| | | |]; simpl; intros H; try discriminate; try (inversion H; reflexivity).
    rewrite denote_num_norm in H. destruct (norm_num pf n); discriminate.
  Qed.
  Lemma both_str_dec l r : {exists s t, l = JStr s /\ r = JStr t} + {forall s t, l = JStr s -> r = JStr t -> False}.
  Proof. destruct l, r; try (right; intros; discriminate); left; eauto. Qed.
  Theorem op_div_rep : rep2 (op_div pf).
  Proof.
    intros l r l' r' W1 W2 W3 W4 E1 E2.
    destruct (both_str_dec l r) as [(s & t & -> & ->)|NS].
    - (* two strings: the operands are the same strings *)
      symmetry in E1, E2. apply denote_str in E1, E2. subst.
      destruct (op_div pf (JStr s) (JStr t)) eqn:E; simpl; auto.
      pose proof (op_div_np pf (JStr s) (JStr t)) as N. rewrite E in N. discriminate.
    - eapply agrees_oeq; [apply op_div_doc; auto|]. rewrite E1, E2. apply op_div_doc; auto.
      intros s t -> ->. apply denote_str in E1, E2. eapply NS; eauto.
  Qed.

  (* comparison operators, and everything decided by Compare *)
  Theorem op_cmp_rep t l r l' r' : wf l = true -> wf r = true -> wf l' = true -> wf r' = true ->
    denote l = denote l' -> denote r = denote r' -> op_cmp pf t l r = op_cmp pf t l' r'.
  Proof. intros. unfold op_cmp. erewrite compare_rep; eauto. Qed.

  (* the math functions (libm oracles included): the argument conversion is representation independent *)
  Theorem f_math1_rep l1 name v v' : wf v = true -> wf v' = true -> denote v = denote v' ->
    f_math1 pf l1 name v = f_math1 pf l1 name v'.
  Proof. intros. unfold f_math1. rewrite (to_float_rep pf pf_bigint v v') by auto. reflexivity. Qed.
  Theorem f_math2_rep l2 name x y x' y' : wf x = true -> wf y = true -> wf x' = true -> wf y' = true ->
    denote x = denote x' -> denote y = denote y' -> f_math2 pf l2 name x y = f_math2 pf l2 name x' y'.
  Proof.
    intros. unfold f_math2. rewrite (to_float_rep pf pf_bigint x x'), (to_float_rep pf pf_bigint y y') by auto. reflexivity.
  Qed.
  Theorem f_math3_rep l3 name a b c a' b' c' : wf a = true -> wf b = true -> wf c = true ->
    wf a' = true -> wf b' = true -> wf c' = true ->
    denote a = denote a' -> denote b = denote b' -> denote c = denote c' ->
    f_math3 pf l3 name a b c = f_math3 pf l3 name a' b' c'.
  Proof.
    intros. unfold f_math3.
    rewrite (to_float_rep pf pf_bigint a a'), (to_float_rep pf pf_bigint b b'), (to_float_rep pf pf_bigint c c') by auto. reflexivity.
  Qed.
  Theorem f_isnan_rep v v' : wf v = true -> wf v' = true -> denote v = denote v' -> oeq (f_isnan pf v) (f_isnan pf v').
  Proof.
    intros W W' E. unfold f_isnan. rewrite (to_float_rep pf pf_bigint v v') by auto.
    destruct (to_float pf v') eqn:T; [reflexivity|].
    assert (is_nil v = is_nil v').
    { destruct v as [| |n| | | |], v' as [| |n'| | | |]; try reflexivity; try discriminate; simpl in E;
        rewrite ?denote_num_norm in E; repeat match goal with H : context [norm_num pf ?x] |- _ => destruct (norm_num pf x) end; discriminate. }
    rewrite H. destruct (is_nil v'); reflexivity.
  Qed.
  Theorem f_has_rep : rep2 (f_has pf).
  Proof. eapply rep2_of_doc. apply f_has_doc; auto. Qed.

  (* unary natives proved to meet their documented function are representation independent *)
  Definition rep1 (f : jv -> outcome jv) : Prop :=
    forall v v', wf v = true -> wf v' = true -> denote v = denote v' -> oeq (f v) (f v').
  Lemma rep1_of_doc f sp : (forall v, wf v = true -> agrees (f v) (sp (denote v))) -> rep1 f.
  Proof. intros H v v' W W' E. eapply agrees_oeq; [apply H; auto|]. rewrite E. apply H; auto. Qed.
  Theorem natives_rep1 :
    rep1 f_utf8bytelength /\ rep1 f_keys /\ rep1 f_reverse /\ rep1 f_type /\ rep1 f_explode
    /\ rep1 (f_minmax pf true) /\ rep1 (f_minmax pf false) /\ rep1 (f_add pf).
  Proof.
    repeat split; eapply rep1_of_doc; intros;
      first [ apply f_utf8bytelength_doc | apply f_keys_doc | apply f_reverse_doc | apply f_type_doc | apply f_explode_doc
            | apply f_min_doc | apply f_max_doc | apply f_add_doc ]; auto.
  Qed.

  (* binary natives proved to meet their documented function *)
  Lemma f_contains_doc v x : wf v = true -> wf x = true ->
    agrees (f_contains pf v x) (match s_contains (denote v) (denote x) with Some b => SVal (MBool b) | None => SErr end).
  Proof.
    intros WV WX. pose proof (contains_doc pf pf_bigint v x WV WX) as C. unfold f_contains.
    destruct (contains pf v x), (s_contains (denote v) (denote x)); simpl in *; try contradiction; subst; auto.
  Qed.
  Theorem natives_rep2 :
    rep2 (f_contains pf) /\ rep2 (f_inside pf) /\ rep2 (f_indices pf) /\ rep2 (f_index pf) /\ rep2 (f_rindex pf)
    /\ rep2 f_startswith /\ rep2 f_endswith /\ rep2 f_ltrimstr /\ rep2 f_rtrimstr /\ rep2 f_trimstr
    /\ (forall b, rep2 (f_minmax_by pf b)) /\ rep1 (f_tonumber pf) /\ rep1 f_transpose.
  Proof.
    repeat split.
    - apply (rep2_of_doc _ (fun a b => match s_contains a b with Some b => SVal (MBool b) | None => SErr end)). intros; apply f_contains_doc; auto.
    - unfold rep2. intros l r l' r' W1 W2 W3 W4 E1 E2. unfold f_inside.
      eapply agrees_oeq; [apply f_contains_doc; auto|]. rewrite E1, E2. apply f_contains_doc; auto.
    - eapply rep2_of_doc. intros; apply f_indices_doc; auto.
    - eapply rep2_of_doc. intros; apply f_index_doc; auto.
    - eapply rep2_of_doc. intros; apply f_rindex_doc; auto.
    - eapply rep2_of_doc. intros; apply f_startswith_doc; auto.
    - eapply rep2_of_doc. intros; apply f_endswith_doc; auto.
    - eapply rep2_of_doc. intros; apply f_ltrimstr_doc; auto.
    - eapply rep2_of_doc. intros; apply f_rtrimstr_doc; auto.
    - eapply rep2_of_doc. intros; apply f_trimstr_doc; auto.
    - intros b. eapply rep2_of_doc. intros; apply f_minmax_by_doc; auto.
    - apply (rep1_of_doc _ (fun a => match s_tonumber pf a with Some r => r | None => SErr end)). intros; apply f_tonumber_doc; auto.
    - eapply rep1_of_doc. intros; apply f_transpose_doc; auto.
  Qed.

  Theorem natives_rep3 :
    rep1 f_toboolean /\ rep1 op_plus /\ rep1 (f_isnan pf) /\ rep1 (f_isinfinite pf) /\ rep1 (f_isfinite pf) /\ rep1 (f_isnormal pf).
  Proof.
    repeat split.
    - eapply rep1_of_doc. intros; apply f_toboolean_doc; auto.
    - eapply rep1_of_doc. intros; apply op_plus_doc; auto.
    - eapply rep1_of_doc. intros; apply f_isnan_doc; auto.
    - eapply rep1_of_doc. intros; apply f_isinfinite_doc; auto.
    - eapply rep1_of_doc. intros; apply f_isfinite_doc; auto.
    - eapply rep1_of_doc. intros; apply f_isnormal_doc; auto.
  Qed.

  (* natives whose Spec.v entry covers a documented domain only: independent of the representation wherever
     the entry says anything *)
  Definition orep (o o' : outcome jv) (s : option sres) : Prop := match s with Some _ => oeq o o' | None => True end.
  Lemma orep_of_doc o o' s : ragrees pf o s -> ragrees pf o' s -> orep o o' s.
  Proof. destruct s; simpl; auto. apply agrees_oeq. Qed.
  Theorem natives_rep_partial v v' x x' : wf v = true -> wf v' = true -> wf x = true -> wf x' = true ->
    denote v = denote v' -> denote x = denote x' ->
    orep (f_ascii_downcase v) (f_ascii_downcase v') (s_ascii false (denote v))
    /\ orep (f_ascii_upcase v) (f_ascii_upcase v') (s_ascii true (denote v))
    /\ orep (f_implode pf v) (f_implode pf v') (s_implode (denote v))
    /\ orep (f_split v x) (f_split v' x') (match denote v, denote x with
                                            | MStr s, MStr t => option_map (fun ps => SVal (MArr (map MStr ps))) (s_split s t)
                                            | _, _ => Some SErr end)
    /\ orep (f_flatten pf v [x]) (f_flatten pf v' [x']) (s_flatten (denote v) (Some (denote x))).
  Proof.
    intros W W' WX WX' E EX. repeat split; apply orep_of_doc;
      try (rewrite E; try rewrite EX);
      auto using f_ascii_downcase_doc, f_ascii_upcase_doc, f_implode_doc, f_split_doc, f_flatten1_doc.
    - rewrite <- E. apply f_ascii_downcase_doc; auto.
    - rewrite <- E. apply f_ascii_upcase_doc; auto.
    - rewrite <- E. apply f_implode_doc; auto.
    - rewrite <- E, <- EX. apply f_split_doc; auto.
    - rewrite <- E, <- EX. apply f_flatten1_doc; auto.
  Qed.

  (* ---- text-producing builtins: a json.Number prints its literal digits (C10), so representation
     independence holds for literals in CANONICAL text: the digits Go prints for the int / float ---- *)
  Definition canon_num (n : num) : num :=
    match n with
    | NInt z | NBig z => NLit (print_Z z)
    | NFlt f => NLit (ff f)
    | NLit t => NLit t
    end.
  Fixpoint canon (v : jv) : jv :=
    match v with
    | JNum n => JNum (canon_num n)
    | JArr l => JArr (map canon l)
    | JObj m => JObj (map (fun kv => (fst kv, canon (snd kv))) m)
    | _ => v
    end.
  Theorem encode_canon v : encode ff (canon v) = encode ff v.
  Proof.
    induction v using jv_ind'; try reflexivity.
    - destruct n; reflexivity.
    - cbn [canon encode]. f_equal.
      assert (G : forall first,
        (fix go (l0 : list jv) (first : bool) {struct l0} : outcome bytes :=
           match l0 with
           | [] => Val []
           | x :: r => do ex <- encode ff x; do er <- go r false; Val ((if first then [] else [44%N]) ++ ex ++ er)
           end) (map canon l) first =
        (fix go (l0 : list jv) (first : bool) {struct l0} : outcome bytes :=
           match l0 with
           | [] => Val []
           | x :: r => do ex <- encode ff x; do er <- go r false; Val ((if first then [] else [44%N]) ++ ex ++ er)
           end) l first).
      { induction H; intros; [reflexivity|]. simpl. rewrite H. rewrite IHForall. reflexivity. }
      rewrite G. reflexivity.
    - cbn [canon encode]. f_equal.
      assert (G : forall first,
        (fix go (m0 : list (bytes * jv)) (first : bool) {struct m0} : outcome bytes :=
           match m0 with
           | [] => Val []
           | (k, x) :: r => do ex <- encode ff x; do er <- go r false;
                            Val ((if first then [] else [44%N]) ++ encode_string k ++ 58%N :: ex ++ er)
           end) (map (fun kv => (fst kv, canon (snd kv))) m) first =
        (fix go (m0 : list (bytes * jv)) (first : bool) {struct m0} : outcome bytes :=
           match m0 with
           | [] => Val []
           | (k, x) :: r => do ex <- encode ff x; do er <- go r false;
                            Val ((if first then [] else [44%N]) ++ encode_string k ++ 58%N :: ex ++ er)
           end) m first).
      { induction H; intros; [reflexivity|]. destruct x as [k x]. simpl in *. rewrite H. rewrite IHForall. reflexivity. }
      rewrite G. reflexivity.
  Qed.
  (* tojson / tostring of two values with the same canonical form are the same text *)
  Theorem f_tojson_rep v v' : canon v = canon v' -> f_tojson ff v = f_tojson ff v'.
  Proof. intros E. unfold f_tojson. rewrite <- (encode_canon v), <- (encode_canon v'), E. reflexivity. Qed.
End Rep.

(* The unrestricted statement is FALSE for text-producing builtins: a fraction literal and the float it
   denotes print differently (witness for the executable oracles; the same holds for Go: `1.0` read
   from JSON prints as 1.0, the float 1 prints as 1).  Sanctioned by C10 (literals are not degraded). *)
Lemma tojson_rep_refuted :
  exists v v', wf v = true /\ wf v' = true /\
    mv_eqb (Spec.denote parse_float_text v) (Spec.denote parse_float_text v') = true /\
    f_tojson fmt_float v <> f_tojson fmt_float v'.
Proof.
  exists (JNum (NLit (codes "1.0"))), (JNum (NFlt (Z2F 1))).
  split; [vm_compute; reflexivity|]. split; [vm_compute; reflexivity|]. split; [vm_compute; reflexivity|].
  vm_compute. discriminate.
Qed.
