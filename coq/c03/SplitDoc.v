(* C03 meets_doc: split/1 and string / string (non-empty separator; the empty separator needs the UTF-8
   lemma of Utf8Doc.v). *)
From Coq Require Import List ZArith NArith Bool String Lia.
From Verif Require Import common.Sexp common.Int64 c03.JV c03.Core c03.Ops c03.Natives c03.Spec c03.Wf c03.Denote
  c03.NativesDoc c03.NativesDoc3.
Import ListNotations.

Lemma firstn_short {A} (l : list A) n : (List.length l <= n)%nat -> firstn n l = l.
Proof. intros. apply firstn_all2; auto. Qed.

Section SplitAux.
  Variable sep : bytes.
  Hypothesis sep_ne : sep <> [].
  Notation k := (List.length sep).
  Lemma k_pos : (0 < k)%nat.
  Proof. destruct sep; [congruence|simpl; lia]. Qed.

  Lemma no_match_short s : (List.length s < k)%nat -> strip_prefix sep s = None.
  Proof.
    intros H. rewrite strip_prefix_spec. rewrite firstn_short by lia.
    destruct (bytes_eqb s sep) eqn:E; auto. apply list_N_eqb_eq in E. subst. lia.
  Qed.
  Lemma split_short s : forall fuel cur, (List.length s < k)%nat -> (List.length s <= fuel)%nat ->
    split_aux fuel s sep cur = [rev cur ++ s].
  Proof.
    induction s as [|c s IH]; intros fuel cur H F; destruct fuel; simpl in *; try lia; try (rewrite app_nil_r; reflexivity); try reflexivity.
    change (match sep with [] => Some (c :: s) | x :: p' => if (x =? c)%N then strip_prefix p' s else None end)
      with (strip_prefix sep (c :: s)).
    rewrite no_match_short by (simpl; lia). rewrite IH by lia. simpl. rewrite <- app_assoc. reflexivity.
  Qed.

  Lemma split_aux_doc n : forall s cur, (List.length s <= n)%nat ->
    split_aux n s sep cur = s_split_aux (S n) s sep (rev cur).
  Proof.
    pose proof k_pos as KP.
    induction n; intros s cur H.
    - destruct s; [|simpl in H; lia]. cbn [split_aux s_split_aux].
      destruct sep; [congruence|reflexivity].
    - cbn [s_split_aux]. destruct (Nat.ltb (List.length s) k) eqn:L.
      + apply Nat.ltb_lt in L. apply split_short; auto.
      + apply Nat.ltb_ge in L. destruct s as [|c s']; [simpl in L; lia|].
        cbn [split_aux]. rewrite strip_prefix_spec.
        destruct (bytes_eqb (firstn k (c :: s')) sep) eqn:E.
        * f_equal. rewrite (IHn (skipn k (c :: s')) []); [reflexivity|]. rewrite skipn_length. cbn [List.length] in *. lia.
        * rewrite IHn by (cbn [List.length] in H; lia). reflexivity.
  Qed.
End SplitAux.

Lemma go_split_doc s sep : sep <> [] -> s_split s sep = Some (go_split s sep).
Proof.
  intros NE. unfold s_split, go_split. destruct sep; [congruence|]. f_equal. symmetry.
  rewrite (split_aux_doc (n :: sep)) by (auto; discriminate). reflexivity.
Qed.
