(* C03 — well-formedness of values (what a gojq iterator can carry) and shared proof infrastructure:
   no-panic predicate, nested induction principle for jv. *)
From Coq Require Import List ZArith NArith Bool String Lia.
From Verif Require Import common.Sexp common.Int64 c03.JV c03.Core.
Import ListNotations.
Open Scope Z_scope.

(* no struct{}{} placeholder inside *)
Fixpoint hole_free (v : jv) : bool :=
  match v with
  | JHole => false
  | JArr l => forallb hole_free l
  | JObj m => forallb (fun kv => hole_free (snd kv)) m
  | _ => true
  end.

(* ints are machine ints; json.Number texts are JSON number literals *)
Definition wf_num (n : num) : bool :=
  match n with
  | NInt z => in_intb z
  | NLit t => json_number_text t
  | _ => true
  end.
(* keys strictly increasing in byte order (the canonical form of a Go map in this model) *)
Fixpoint sorted_keys {A} (m : list (bytes * A)) : bool :=
  match m with
  | (k, _) :: (((k', _) :: _) as r) => bytes_ltb k k' && sorted_keys r
  | _ => true
  end.
Fixpoint wf (v : jv) : bool :=
  match v with
  | JHole => false
  | JNum n => wf_num n
  | JArr l => forallb wf l
  | JObj m => sorted_keys m && forallb (fun kv => wf (snd kv)) m
  | _ => true
  end.

Definition np {A} (o : outcome A) : Prop := is_panic o = false.

Lemma np_val {A} (a : A) : np (Val a). Proof. reflexivity. Qed.
Lemma np_err {A} e : np (@Err A e). Proof. reflexivity. Qed.
Lemma np_bind {A B} (o : outcome A) (k : A -> outcome B) :
  np o -> (forall a, o = Val a -> np (k a)) -> np (bind o k).
Proof. destruct o; simpl; intros; auto. Qed.
Lemma np_bind' {A B} (o : outcome A) (k : A -> outcome B) :
  np o -> (forall a, np (k a)) -> np (bind o k).
Proof. intros; apply np_bind; auto. Qed.

Section JvInd.
  Variable P : jv -> Prop.
  Hypothesis Hnull : P JNull.
  Hypothesis Hbool : forall b, P (JBool b).
  Hypothesis Hnum : forall n, P (JNum n).
  Hypothesis Hstr : forall s, P (JStr s).
  Hypothesis Harr : forall l, Forall P l -> P (JArr l).
  Hypothesis Hobj : forall m, Forall (fun kv => P (snd kv)) m -> P (JObj m).
  Hypothesis Hhole : P JHole.
  Fixpoint jv_ind' (v : jv) : P v :=
    match v with
    | JNull => Hnull | JBool b => Hbool b | JNum n => Hnum n | JStr s => Hstr s
    | JArr l => Harr l ((fix go (l : list jv) : Forall P l :=
                           match l with [] => Forall_nil _ | x :: r => Forall_cons _ (jv_ind' x) (go r) end) l)
    | JObj m => Hobj m ((fix go (m : list (bytes * jv)) : Forall (fun kv => P (snd kv)) m :=
                           match m with [] => Forall_nil _ | kv :: r => Forall_cons _ (jv_ind' (snd kv)) (go r) end) m)
    | JHole => Hhole
    end.
End JvInd.

Lemma go_index_np {A} (l : list A) i : 0 <= i < Z.of_nat (List.length l) -> np (go_index l i).
Proof.
  intros H. unfold go_index.
  destruct (i <? 0) eqn:E1; [apply Z.ltb_lt in E1; lia|].
  destruct (Z.of_nat (List.length l) <=? i) eqn:E2; [apply Z.leb_le in E2; lia|]. simpl.
  destruct (nth_error l (Z.to_nat i)) eqn:E3; [reflexivity|].
  apply nth_error_None in E3. lia.
Qed.
Lemma go_index_val {A} (l : list A) i x : go_index l i = Val x -> 0 <= i < Z.of_nat (List.length l) /\ In x l.
Proof.
  unfold go_index. destruct (i <? 0) eqn:E1; [discriminate|].
  destruct (Z.of_nat (List.length l) <=? i) eqn:E2; [discriminate|]. simpl.
  destruct (nth_error l (Z.to_nat i)) eqn:E3; [|discriminate]. intros H; inversion H; subst.
  apply Z.ltb_ge in E1. apply Z.leb_gt in E2. split; [lia|]. eapply nth_error_In; eauto.
Qed.
Lemma go_slice_np {A} (l : list A) s e : 0 <= s <= e -> e <= Z.of_nat (List.length l) -> np (go_slice l s e).
Proof.
  intros H1 H2. unfold go_slice.
  destruct (s <? 0) eqn:E1; [apply Z.ltb_lt in E1; lia|].
  destruct (e <? s) eqn:E2; [apply Z.ltb_lt in E2; lia|].
  destruct (Z.of_nat (List.length l) <? e) eqn:E3; [apply Z.ltb_lt in E3; lia|]. reflexivity.
Qed.
Lemma go_slice_val {A} (l : list A) s e w : go_slice l s e = Val w ->
  0 <= s <= e /\ e <= Z.of_nat (List.length l) /\ w = firstn (Z.to_nat (e - s)) (skipn (Z.to_nat s) l).
Proof.
  unfold go_slice. destruct (s <? 0) eqn:E1; [discriminate|]. destruct (e <? s) eqn:E2; [discriminate|].
  destruct (Z.of_nat (List.length l) <? e) eqn:E3; [discriminate|]. simpl. intros H; inversion H.
  apply Z.ltb_ge in E1, E2, E3. repeat split; lia.
Qed.
