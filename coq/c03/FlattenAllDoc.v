(* C03 meets_doc: flatten/0 without the nesting bound.  The Go code counts the remaining depth in a float64 starting
   at -1 and subtracting 1 per level; the counter stays a negative (hence non-zero) double for ever: it is -inf, or
   finite with real value <= -1 (Flocq: Bminus_correct, monotonicity of rounding, -2 is representable). *)
From Coq Require Import List ZArith NArith Bool String Reals Lia Lra.
From Flocq Require Import Core.Raux Core.Defs Core.Generic_fmt Core.FLT Core.Float_prop IEEE754.BinarySingleNaN.
From Verif Require Import common.Sexp common.Int64 c03.JV c03.Core c03.Ops c03.Natives c03.Spec c03.Wf c03.Denote
  c03.CompareDoc c03.OpsDoc c03.NativesDoc c03.StringsDoc c03.FlattenDoc.
Import ListNotations.

Definition negf (d : float) : Prop := d = B754_infinity true \/ (is_finite d = true /\ (B2R d <= -1)%R).

Lemma f_one_eq : f_one = @B754_finite 53 1024 false 4503599627370496 (-52) (@eq_refl bool true).
Proof. apply B2SF_inj. vm_compute. reflexivity. Qed.
Lemma B2R_f_one : B2R f_one = 1%R.
Proof. rewrite f_one_eq. unfold B2R, F2R. simpl. lra. Qed.
Lemma negf_start : negf (Z2F (-1)).
Proof.
  right. assert (E : Z2F (-1) = @B754_finite 53 1024 true 4503599627370496 (-52) (@eq_refl bool true)) by (apply B2SF_inj; vm_compute; reflexivity).
  rewrite E. split; [reflexivity|]. unfold B2R, F2R. simpl. lra.
Qed.
Lemma negf_nonzero d : negf d -> feq d (fzero false) = false.
Proof.
  intros [->|[F R]]; [reflexivity|]. unfold feq, fzero. rewrite Bcompare_correct by auto. simpl B2R.
  destruct (Rcompare_spec (B2R d) 0); try reflexivity; lra.
Qed.
Lemma finite_neg_sign (d : float) : is_finite d = true -> (B2R d < 0)%R -> Bsign d = true.
Proof.
  destruct d as [s|s| |s m e B]; try discriminate; simpl; intros _ H; [lra|].
  destruct s; [reflexivity|]. exfalso. unfold F2R in H. simpl in H.
  assert (0 < IZR (Z.pos m) * bpow Zaux.radix2 e)%R; [|lra].
  apply Rmult_lt_0_compat; [apply IZR_lt; reflexivity|apply bpow_gt_0].
Qed.
Lemma format_m2 : generic_format Zaux.radix2 (FLT_exp (3 - 1024 - 53) 53) (-2)%R.
Proof.
  replace (-2)%R with (- bpow Zaux.radix2 1)%R by (simpl; lra).
  apply generic_format_opp. apply generic_format_bpow. vm_compute. discriminate.
Qed.
Lemma negf_step d : negf d -> negf (fsub d f_one).
Proof.
  intros [->|[F R]].
  - left. rewrite f_one_eq. reflexivity.
  - assert (F1 : is_finite f_one = true) by (rewrite f_one_eq; reflexivity).
    pose proof (Bminus_correct 53 1024 _ _ mode_NE d f_one F F1) as C. rewrite B2R_f_one in C.
    destruct (Rlt_bool _ _).
    + destruct C as (C1 & C2 & _). right. split; [exact C2|]. unfold fsub. rewrite C1.
      apply Rle_trans with (round Zaux.radix2 (FLT_exp (3 - 1024 - 53) 53) (round_mode mode_NE) (-2)).
      * apply round_le; [apply FLT_exp_valid; reflexivity|apply valid_rnd_N|lra].
      * rewrite round_generic; [lra|apply valid_rnd_N|apply format_m2].
    + destruct C as (C1 & _). left. rewrite (finite_neg_sign d F ltac:(lra)) in C1. unfold fsub.
      destruct (Bminus mode_NE d f_one); simpl in C1; try discriminate. inversion C1; subst. reflexivity.
Qed.

Section FlattenAllDoc.
  Variable pf : bytes -> option float.
  Hypothesis pf_bigint : forall z, big_to_float pf z = Z2F z.
  Notation denote := (denote pf).
  Notation agrees := (agrees pf).

  Lemma flatten_none_all v : forall d, negf d -> map denote (flatten_v v d) = s_flat None (denote v).
  Proof.
    induction v using jv_ind'; intros d ND; try reflexivity.
    - simpl. pose proof (denote_not_arr_num pf n). destruct (denote_num pf n) eqn:E; try reflexivity. exfalso. eapply H. simpl. eauto.
    - cbn [flatten_v Spec.denote s_flat]. rewrite (negf_nonzero d ND). cbn [negb].
      rewrite flat_map_concat_map, concat_map, map_map, flat_map_concat_map, map_map. f_equal.
      apply map_ext_in. intros x I. rewrite Forall_forall in H. apply H; auto. apply negf_step; auto.
  Qed.

  Theorem f_flatten0_all v : wf v = true ->
    agrees (f_flatten pf v []) (match s_flatten (denote v) None with Some r => r | None => SErr end).
  Proof.
    intros W. unfold f_flatten, s_flatten. pose proof (values_elems pf v) as VE.
    destruct (values v) as [vs|] eqn:EV, (elems (denote v)) as [ms|] eqn:EE; try contradiction; [|exact I].
    subst ms. cbn [bind]. unfold OpsDoc.agrees. cbn [Spec.denote]. f_equal.
    rewrite flat_map_concat_map, concat_map, map_map, flat_map_concat_map, map_map. f_equal.
    apply map_ext_in. intros x I. apply flatten_none_all. apply negf_start.
  Qed.
End FlattenAllDoc.
