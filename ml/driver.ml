(* Generic glue between stdin/stdout lines and an extracted [run_line : n list -> n list].
   It moves bytes only: every interpretation of a line is done by extracted Gallina.
   The extracted N type is { N0 | Npos of positive } with positive = XI | XO | XH (ExtrOcamlBasic
   leaves them as inductives); the two conversions below are the whole trusted glue. *)
module Make (M : sig
  type positive = XI of positive | XO of positive | XH
  type n = N0 | Npos of positive
  val run_line : n list -> n list
end) = struct
  open M
  let rec pos_of_int i = if i = 1 then XH else if i land 1 = 0 then XO (pos_of_int (i lsr 1)) else XI (pos_of_int (i lsr 1))
  let n_of_int i = if i = 0 then N0 else Npos (pos_of_int i)
  let rec int_of_pos = function XH -> 1 | XO p -> 2 * int_of_pos p | XI p -> 2 * int_of_pos p + 1
  let int_of_n = function N0 -> 0 | Npos p -> int_of_pos p
  let main () =
    let buf = Buffer.create 4096 in
    (try
       while true do
         let l = input_line stdin in
         let codes = List.init (String.length l) (fun i -> n_of_int (Char.code l.[i])) in
         let out = run_line codes in
         Buffer.clear buf;
         List.iter (fun c -> Buffer.add_char buf (Char.chr (int_of_n c land 255))) out;
         Buffer.add_char buf '\n';
         print_string (Buffer.contents buf)
       done
     with End_of_file -> ());
    flush stdout
end
