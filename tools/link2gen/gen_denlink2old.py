#!/usr/bin/env python3
# DenLink2Old.v = the per-construct lemmas of DenLink.v (sim_leaves .. sim_label) for the syntax q2 of DenLink2.v
# Run from the framework root:  python3 tools/link2gen/gen_denlink2old.py
# Regenerates coq/sem/DenLink2Old.v from coq/sem/DenLink.v (line ranges 555-724, 805-1504, 1620-1720) by textual transcription (the target is a checked-in file; regenerate only when the
# source file changes, then rebuild: the proofs are re-checked by Coq, nothing here is trusted).
import re, os
ROOT = os.path.join(os.path.dirname(os.path.abspath(__file__)), '..', '..')
src = open(os.path.join(ROOT,'coq/sem/DenLink.v')).read().split('\n')
def lines(a,b): return '\n'.join(src[a-1:b])
def tr(t):
    t = t.replace('den0','den2').replace('Z0','Z2').replace('ok0','ok2').replace('q0','qz')
    t = re.sub(r'\bemb\b','emb2',t)
    t = re.sub(r'\bneed\b','need2',t)
    return t
head = r'''(* DenLink2Old.v — Sem = den2 for the constructs DenLink.q0 already has.  The proofs are those of DenLink.v
   (sim_pipe ... sim_label), transcribed for the larger syntax q2 / den2 / emb2 of DenLink2.v; the lemmas about
   continuations, frames and cells that do not mention the syntax are re-proved here in the same section. *)
From Coq Require Import String.
From Coq Require Import List ZArith NArith Bool Lia.
From Verif Require Import common.Sexp sem.JV sem.Syntax sem.Natives sem.Sem sem.SemProofs sem.DenLink sem.DenLink2.
Import ListNotations.

Section Link.
Variable bs : list funcdef.
Variable rs : bool.
Hypothesis Hempty : lookup_builtin bs (codes "empty") 0 = None.
Hypothesis Herror : lookup_builtin bs (codes "error") 0 = None.
Hypothesis Hlength : lookup_builtin bs (codes "length") 0 = None.

Local Notation sim := (sim2 bs rs).
Local Notation inv_ok := (DenLink.inv_ok rs).
Local Notation K_ok_of_eq := (DenLink.K_ok_of_eq rs).
Local Notation den2_brk := (DenLink2.den2_brk rs).
Local Notation den2_brk_lt := (DenLink2.den2_brk_lt rs).
Local Notation den2_depth0 := (DenLink2.den2_depth0 rs).
Local Notation den2_ren := (DenLink2.den2_ren rs).
Ltac trivb := let E := fresh "E" in intros ? E; cbn in E; congruence.
Ltac triv0 := let E := fresh "E" in intros ? ? ? E; cbn in E; congruence.

'''
body = tr(lines(555,724)) + '\n\n' + tr(lines(805,1504)) + '\n\n' + tr(lines(1620,1720))
open(os.path.join(ROOT,'coq/sem/DenLink2Old.v'),'w').write(head + body + '\n\nEnd Link.\n')
