#!/usr/bin/env python3
# VmLink2Rel.v = the relation R and its algebra of VmLink.v for the types of coq/c01vm2
# Run from the framework root:  python3 tools/link2gen/gen_vmlink2rel.py
# Regenerates coq/sem/VmLink2Rel.v from coq/sem/VmLink.v (line ranges 96-171, 173-189, 245-577, 579-587) by textual transcription (the target is a checked-in file; regenerate only when the
# source file changes, then rebuild: the proofs are re-checked by Coq, nothing here is trusted).
import re, os
ROOT = os.path.join(os.path.dirname(os.path.abspath(__file__)), '..', '..')
src = open(os.path.join(ROOT,'coq/sem/VmLink.v')).read().split('\n')
def lines(a,b): return '\n'.join(src[a-1:b])
def tr(t):
    t = t.replace('den0','den2').replace('Z0','Z2').replace('ok0','ok2').replace('q0','qz')
    t = re.sub(r'\bemb\b','emb2',t)
    t = re.sub(r'\bneed\b','need2',t)
    t = t.replace('[[e|lb]|]','[[e|lb|]|]')
    t = t.replace('VS.lookup','VD.lookup_v')
    t = t.replace('(VS.QReduce src x init upd)','(VS.QReduce src (VS.PVar x) init upd)').replace('(VS.QForeach src x init upd ext)','(VS.QForeach src (VS.PVar x) init upd ext)')
    t = t.replace("[[e|l']|]","[[e|l'|]|]")
    t = t.replace("destruct e' as [e'|lb]; [|contradiction].","destruct e' as [e'|lb|]; [|contradiction|contradiction].")
    t = t.replace("destruct e' as [e'|lb]; [contradiction|].","destruct e' as [e'|lb|]; [contradiction| |contradiction].")
    t = t.replace('VD.den nt','VD.den1 nt call').replace('VD.den]','VD.den1]')
    t = re.sub(r'Lemma (den_\w+_eq) nt ', r'Lemma \1 nt call ', t)
    t = t.replace('((x, w) :: rho)','((x, VD.BV w) :: rho)').replace('((x, w) :: rv)','((x, VD.BV w) :: rv)')
    return t
head = r'''(* VmLink2Rel.v — the relation R between results of the eager list semantics den2 (Sem's values) and results of
   c01vm2's denotation (c01vm2's values), and its algebra: transcribed from VmLink.v (which does the same for coq/c01vm),
   the exception type of c01vm2.Den having one more constructor (XFuel: related to nothing). *)
From Coq Require Import String.
From Coq Require Import List ZArith NArith Bool Lia.
From Verif Require Import common.Sexp sem.JV sem.Syntax sem.Natives sem.Sem sem.SemProofs sem.DenLink sem.DenLink2 sem.VmLink2Def.
From Verif Require c01vm2.Syntax c01vm2.Code c01vm2.Den.
Import ListNotations.

'''
body = tr(lines(96,171))   # erel .. R_rbind
# name_of lemmas 173-189
body += '\n\n' + tr(lines(173,189))
# renv 231-243 adapted by hand; try_s .. end Rel 245-587
body2 = tr(lines(245,577))
tail = tr(lines(579,587))
renv = r'''
(* environments: c01vm2 binds variable numbers (BV), Sem binds names *)
Definition renv (rs : env) (rv : VD.venv) : Prop :=
  vars_only rs /\
  forall x, lookup_var rs (name_of x) = option_map (fun w => plain (emb_v w)) (VD.lookup_v x rv).

Lemma renv_nil : renv [] [].
Proof. split; [exact I|reflexivity]. Qed.

Lemma renv_bind rs rv x w : renv rs rv -> renv (bind_env rs (name_of x) (emb_v w)) ((x, VD.BV w) :: rv).
Proof.
  intros [Hv Hl]. split; [exact Hv|]. intros y. unfold bind_env. cbn [lookup_var VD.lookup_v].
  rewrite name_of_eqb. rewrite N.eqb_sym. destruct (N.eqb y x); [reflexivity|apply Hl].
Qed.
'''
out = head + body + '\n' + renv + '\n' + body2 + '\n\n' + tail + '\n'
open(os.path.join(ROOT,'coq/sem/VmLink2Rel.v'),'w').write(out)
