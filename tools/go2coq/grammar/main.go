package main

// Translator for the front end tables of gojq into Gallina (coq/gen/GenGrammar.v):
//
//   prec_decls   the %left/%right/%nonassoc declarations of parser.go.y, exactly as declared, in order
//                (text parsing of the declaration section; every other '%' directive must be one of the
//                known forms, otherwise the translation fails)
//   bin_rules    every production of the form  X tok X  (X = query|expr|objectval) with the operator its
//                action stores ("OpAdd", or "$2" when the operator comes from the lexer's semantic value)
//   unary_rules  productions  tok term  of nonterminal term (unary sign)
//   suffix_toks  tokens that may follow a term inside nonterminal term (term tok ...): the suffix starters
//   keywords     the keywords map of lexer.go (go/ast)
//   lex_ops      every place in (*lexer).Lex that sets l.token to a string literal and returns a token
//                (text, token, Operator stored in lval.operator or "")
//   op_strings   Operator.String() of operator.go: (constant name, text)
//   action_texts the action text of every production of parser.go.y (whitespace-normalised, "" = none), in
//                production order: the key of the hand-transcribed action table of coq/c09/ParseActions.v
//
// Anything not understood is a translation failure: the tie between code and model is then broken.

import (
	"fmt"
	"go/ast"
	"go/parser"
	"go/token"
	"go2coq/g2c"
	"os"
	"path/filepath"
	"regexp"
	"strconv"
	"strings"
)

type gen struct {
	errs []string
}

func (g *gen) fail(f string, a ...any) { g.errs = append(g.errs, fmt.Sprintf(f, a...)) }

func coqStr(s string) string {
	// Coq string literal: only printable ASCII expected here; '"' is doubled
	for _, c := range []byte(s) {
		if c < 32 || c > 126 {
			return "\"<NONASCII>\""
		}
	}
	return "\"" + strings.ReplaceAll(s, "\"", "\"\"") + "\""
}

// ---------------------------------------------------------------------------------------------
// parser.go.y

type ysym struct {
	kind string // "id", "chr", ":", "|", "prec", "act", ";"
	text string
}

// ylex tokenises the rules section of a yacc file.
func (g *gen) ylex(src string) []ysym {
	var out []ysym
	i := 0
	isId := func(c byte) bool {
		return c == '_' || c == '.' || 'a' <= c && c <= 'z' || 'A' <= c && c <= 'Z' || '0' <= c && c <= '9'
	}
	for i < len(src) {
		c := src[i]
		switch {
		case c == ' ' || c == '\t' || c == '\n' || c == '\r':
			i++
		case c == '/' && i+1 < len(src) && src[i+1] == '/':
			for i < len(src) && src[i] != '\n' {
				i++
			}
		case c == '/' && i+1 < len(src) && src[i+1] == '*':
			j := strings.Index(src[i+2:], "*/")
			if j < 0 {
				g.fail("parser.go.y: unterminated comment")
				return out
			}
			i += j + 4
		case c == '\'':
			j := i + 1
			for j < len(src) && src[j] != '\'' {
				if src[j] == '\\' {
					j++
				}
				j++
			}
			if j >= len(src) {
				g.fail("parser.go.y: unterminated character literal")
				return out
			}
			out = append(out, ysym{"chr", src[i : j+1]})
			i = j + 1
		case c == '{':
			depth, j := 0, i
			for j < len(src) {
				switch src[j] {
				case '{':
					depth++
				case '}':
					depth--
				case '"', '\'', '`':
					q := src[j]
					j++
					for j < len(src) && src[j] != q {
						if src[j] == '\\' && q != '`' {
							j++
						}
						j++
					}
				}
				j++
				if depth == 0 {
					break
				}
			}
			if depth != 0 {
				g.fail("parser.go.y: unbalanced action")
				return out
			}
			out = append(out, ysym{"act", src[i:j]})
			i = j
		case c == ':':
			out = append(out, ysym{":", ":"})
			i++
		case c == '|':
			out = append(out, ysym{"|", "|"})
			i++
		case c == ';':
			out = append(out, ysym{";", ";"})
			i++
		case c == '%':
			if strings.HasPrefix(src[i:], "%prec") && (i+5 >= len(src) || !isId(src[i+5])) {
				out = append(out, ysym{"prec", "%prec"})
				i += 5
			} else {
				g.fail("parser.go.y: directive in the rules section not understood: %q", firstLine(src[i:]))
				return out
			}
		case isId(c):
			j := i
			for j < len(src) && isId(src[j]) {
				j++
			}
			out = append(out, ysym{"id", src[i:j]})
			i = j
		default:
			g.fail("parser.go.y: character %q in the rules section not understood", c)
			return out
		}
	}
	return out
}

func firstLine(s string) string {
	if i := strings.IndexByte(s, '\n'); i >= 0 {
		return s[:i]
	}
	return s
}

type yalt struct {
	lhs  string
	syms []ysym
	prec string
	act  string
}

func (g *gen) yrules(toks []ysym) []yalt {
	var alts []yalt
	i := 0
	for i < len(toks) {
		if toks[i].kind == ";" {
			i++
			continue
		}
		if toks[i].kind != "id" || i+1 >= len(toks) || toks[i+1].kind != ":" {
			g.fail("parser.go.y: expected 'name :' at rule start, got %q", toks[i].text)
			return alts
		}
		lhs := toks[i].text
		i += 2
		cur := yalt{lhs: lhs}
		for i < len(toks) {
			t := toks[i]
			if t.kind == "id" && i+1 < len(toks) && toks[i+1].kind == ":" {
				break // next rule
			}
			switch t.kind {
			case "|":
				alts = append(alts, cur)
				cur = yalt{lhs: lhs}
			case ";":
			case "prec":
				if i+1 >= len(toks) || (toks[i+1].kind != "id" && toks[i+1].kind != "chr") {
					g.fail("parser.go.y: %%prec without a token in rule %s", lhs)
					return alts
				}
				cur.prec = toks[i+1].text
				i++
			case "act":
				if cur.act != "" {
					g.fail("parser.go.y: mid-rule action in rule %s is not understood", lhs)
				}
				cur.act = t.text
			case "id", "chr":
				if cur.act != "" {
					g.fail("parser.go.y: symbol after action (mid-rule action) in rule %s is not understood", lhs)
				}
				cur.syms = append(cur.syms, t)
			default:
				g.fail("parser.go.y: unexpected %q in rule %s", t.text, lhs)
			}
			i++
		}
		alts = append(alts, cur)
	}
	return alts
}

var opRe = regexp.MustCompile(`\bOp:\s*(\$[0-9]+|Op[A-Za-z]+)`)
var unaryRe = regexp.MustCompile(`&Unary\{\s*(Op[A-Za-z]+)\s*,`)

func (g *gen) grammar(repo string) string {
	b, err := os.ReadFile(filepath.Join(repo, "parser.go.y"))
	if err != nil {
		g.fail("%v", err)
		return ""
	}
	src := string(b)
	parts := strings.Split(src, "\n%%")
	if len(parts) != 3 {
		g.fail("parser.go.y: expected exactly two %%%% separators, found %d", len(parts)-1)
		return ""
	}
	decl := parts[0]
	// drop the %{ ... %} prologue and the %union { ... } block
	if i, j := strings.Index(decl, "%{"), strings.Index(decl, "%}"); i >= 0 && j > i {
		decl = decl[:i] + decl[j+2:]
	}
	var sb strings.Builder
	sb.WriteString("Definition prec_decls : list (assoc * list string) :=\n  [")
	ndecl := 0
	lines := strings.Split(decl, "\n")
	inUnion := false
	for _, ln := range lines {
		t := strings.TrimSpace(ln)
		if inUnion {
			if t == "}" {
				inUnion = false
			}
			continue
		}
		if t == "" {
			continue
		}
		if !strings.HasPrefix(t, "%") {
			g.fail("parser.go.y: declaration line not understood: %q", t)
			continue
		}
		f := strings.Fields(t)
		var as string
		switch {
		case f[0] == "%union":
			inUnion = !strings.Contains(t, "}")
			continue
		case strings.HasPrefix(f[0], "%type"), strings.HasPrefix(f[0], "%token"):
			continue
		case f[0] == "%left":
			as = "ALeft"
		case f[0] == "%right":
			as = "ARight"
		case f[0] == "%nonassoc":
			as = "ANonassoc"
		default:
			g.fail("parser.go.y: declaration form not understood: %q", t)
			continue
		}
		if len(f) < 2 {
			g.fail("parser.go.y: precedence declaration without tokens: %q", t)
		}
		var names []string
		for _, x := range f[1:] {
			if regexp.MustCompile(`^'.'$`).MatchString(x) || regexp.MustCompile(`^[A-Za-z_][A-Za-z0-9_]*$`).MatchString(x) {
				names = append(names, coqStr(x))
			} else {
				g.fail("parser.go.y: token %q in %q not understood", x, t)
			}
		}
		if ndecl > 0 {
			sb.WriteString(";\n   ")
		}
		ndecl++
		fmt.Fprintf(&sb, "(%s, [%s])", as, strings.Join(names, "; "))
	}
	sb.WriteString("].\n\n")
	if ndecl == 0 {
		g.fail("parser.go.y: no precedence declarations found")
	}
	// rules
	alts := g.yrules(g.ylex(parts[1]))
	var bin, un, suf []string
	sufSeen := map[string]bool{}
	nonterm := map[string]bool{}
	for _, a := range alts {
		nonterm[a.lhs] = true
	}
	for _, a := range alts {
		n := len(a.syms)
		if n == 3 && a.syms[0].text == a.syms[2].text && a.syms[0].text == a.lhs && !nonterm[a.syms[1].text] &&
			(a.lhs == "query" || a.lhs == "expr" || a.lhs == "objectval") {
			if a.prec != "" {
				g.fail("parser.go.y: %%prec on binary rule %s %s %s is not understood", a.lhs, a.syms[1].text, a.lhs)
			}
			m := opRe.FindStringSubmatch(a.act)
			if m == nil {
				g.fail("parser.go.y: action of %s %s %s does not set Op", a.lhs, a.syms[1].text, a.lhs)
				continue
			}
			if strings.HasPrefix(m[1], "$") && m[1] != "$2" {
				g.fail("parser.go.y: action of %s %s %s takes Op from %s", a.lhs, a.syms[1].text, a.lhs, m[1])
			}
			if !strings.Contains(a.act, "Left: $1") || !strings.Contains(a.act, "Right: $3") {
				g.fail("parser.go.y: action of %s %s %s does not build Left: $1 / Right: $3", a.lhs, a.syms[1].text, a.lhs)
			}
			bin = append(bin, fmt.Sprintf("(%s, %s, %s)", coqStr(a.lhs), coqStr(a.syms[1].text), coqStr(m[1])))
		}
		if a.lhs == "term" && n == 2 && a.syms[0].kind == "chr" && a.syms[1].text == "term" {
			if a.prec != "" {
				g.fail("parser.go.y: %%prec on unary rule %s term is not understood", a.syms[0].text)
			}
			m := unaryRe.FindStringSubmatch(a.act)
			if m == nil {
				g.fail("parser.go.y: action of %s term does not build &Unary{Op, ...}", a.syms[0].text)
				continue
			}
			un = append(un, fmt.Sprintf("(%s, %s)", coqStr(a.syms[0].text), coqStr(m[1])))
		}
		if a.lhs == "term" && n >= 2 && a.syms[0].text == "term" {
			first := a.syms[1].text
			if first == "suffix" {
				for _, s := range alts {
					if s.lhs == "suffix" && len(s.syms) > 0 {
						if !sufSeen[s.syms[0].text] {
							sufSeen[s.syms[0].text] = true
							suf = append(suf, coqStr(s.syms[0].text))
						}
					}
				}
			} else if !sufSeen[first] {
				sufSeen[first] = true
				suf = append(suf, coqStr(first))
			}
		}
	}
	if len(bin) == 0 {
		g.fail("parser.go.y: no binary operator rules found")
	}
	// every production in order (goyacc numbers them from 1; 0 is $accept), with the class of its action
	var prods []string
	for _, a := range alts {
		var rhs []string
		for _, y := range a.syms {
			rhs = append(rhs, coqStr(y.text))
		}
		kind := "other"
		act := strings.Join(strings.Fields(a.act), " ")
		switch {
		case a.act == "":
			kind = "pass" // no action: $$ = $1
		case len(a.syms) == 3 && a.syms[0].text == a.lhs && a.syms[2].text == a.lhs && opRe.MatchString(a.act) &&
			strings.Contains(a.act, "Left: $1") && strings.Contains(a.act, "Right: $3") && !strings.Contains(a.act, "Patterns"):
			kind = "bin:" + opRe.FindStringSubmatch(a.act)[1]
		case act == "{ $$ = &Term{Type: TermTypeQuery, Query: $2.(*Query)} }":
			kind = "paren"
		case act == "{ $$ = &Term{Type: TermTypeFunc, Func: &Func{Name: $1}} }":
			kind = "func"
		case act == "{ $$ = &Query{Term: $1.(*Term)} }":
			kind = "wrapterm"
		case act == "{ query := $3.(*Query) query.Meta = $1.(*ConstObject) query.Imports = $2.([]*Import) yylex.(*lexer).result = query }":
			kind = "program"
		case act == "{ $$ = (*ConstObject)(nil) }" || act == "{ $$ = []*Import(nil) }":
			kind = "nil"
		}
		prods = append(prods, fmt.Sprintf("(%s, [%s], %s)", coqStr(a.lhs), strings.Join(rhs, "; "), coqStr(kind)))
	}
	fmt.Fprintf(&sb, "Definition productions : list (string * list string * string) :=\n  [%s].\n\n", strings.Join(prods, ";\n   "))
	// the action text of every production (whitespace-normalised, "" = no action), in the same order: the
	// full-grammar parser model (coq/c09/ParseActions.v) pins each text next to its hand transcription
	var acts []string
	for _, a := range alts {
		acts = append(acts, coqStr(strings.Join(strings.Fields(a.act), " ")))
	}
	fmt.Fprintf(&sb, "Definition action_texts : list string :=\n  [%s].\n\n", strings.Join(acts, ";\n   "))
	fmt.Fprintf(&sb, "Definition bin_rules : list (string * string * string) :=\n  [%s].\n\n", strings.Join(bin, ";\n   "))
	fmt.Fprintf(&sb, "Definition unary_rules : list (string * string) :=\n  [%s].\n\n", strings.Join(un, "; "))
	fmt.Fprintf(&sb, "Definition suffix_toks : list string :=\n  [%s].\n\n", strings.Join(suf, "; "))
	return sb.String()
}

// ---------------------------------------------------------------------------------------------
// lexer.go, operator.go

func strLit(e ast.Expr) (string, bool) {
	if l, ok := e.(*ast.BasicLit); ok && l.Kind == token.STRING {
		s, err := strconv.Unquote(l.Value)
		return s, err == nil
	}
	return "", false
}

func isSel(e ast.Expr, x, sel string) bool {
	s, ok := e.(*ast.SelectorExpr)
	if !ok {
		return false
	}
	id, ok := s.X.(*ast.Ident)
	return ok && id.Name == x && s.Sel.Name == sel
}

func (g *gen) lexer(repo string) string {
	fset := token.NewFileSet()
	f, err := parser.ParseFile(fset, filepath.Join(repo, "lexer.go"), nil, 0)
	if err != nil {
		g.fail("%v", err)
		return ""
	}
	var sb strings.Builder
	var kws []string
	var lexops []string
	foundKw, foundLex := false, false
	for _, d := range f.Decls {
		switch d := d.(type) {
		case *ast.GenDecl:
			for _, sp := range d.Specs {
				vs, ok := sp.(*ast.ValueSpec)
				if !ok || len(vs.Names) != 1 || vs.Names[0].Name != "keywords" || len(vs.Values) != 1 {
					continue
				}
				cl, ok := vs.Values[0].(*ast.CompositeLit)
				if !ok {
					g.fail("lexer.go: keywords is not a composite literal")
					continue
				}
				foundKw = true
				for _, el := range cl.Elts {
					kv, ok := el.(*ast.KeyValueExpr)
					if !ok {
						g.fail("%s: keywords element not understood", fset.Position(el.Pos()))
						continue
					}
					k, ok1 := strLit(kv.Key)
					v, ok2 := kv.Value.(*ast.Ident)
					if !ok1 || !ok2 {
						g.fail("%s: keywords element not understood", fset.Position(el.Pos()))
						continue
					}
					kws = append(kws, fmt.Sprintf("(%s, %s)", coqStr(k), coqStr(v.Name)))
				}
			}
		case *ast.FuncDecl:
			if d.Name.Name != "Lex" || d.Recv == nil {
				continue
			}
			foundLex = true
			var walk func(list []ast.Stmt)
			walk = func(list []ast.Stmt) {
				text, op, tok := "", "", ""
				has := false
				for _, s := range list {
					switch s := s.(type) {
					case *ast.AssignStmt:
						if len(s.Lhs) == 1 && len(s.Rhs) == 1 {
							if isSel(s.Lhs[0], "l", "token") {
								if t, ok := strLit(s.Rhs[0]); ok {
									text, has = t, true
								}
							}
							if isSel(s.Lhs[0], "lval", "operator") {
								if id, ok := s.Rhs[0].(*ast.Ident); ok {
									op = id.Name
								} else {
									g.fail("%s: lval.operator assignment not understood", fset.Position(s.Pos()))
								}
							}
						}
					case *ast.ReturnStmt:
						if has && len(s.Results) == 1 {
							if id, ok := s.Results[0].(*ast.Ident); ok {
								tok = id.Name
							}
						}
					case *ast.IfStmt:
						walk(s.Body.List)
						if s.Else != nil {
							if b, ok := s.Else.(*ast.BlockStmt); ok {
								walk(b.List)
							} else {
								walk([]ast.Stmt{s.Else})
							}
						}
					case *ast.SwitchStmt:
						for _, c := range s.Body.List {
							walk(c.(*ast.CaseClause).Body)
						}
					case *ast.BlockStmt:
						walk(s.List)
					case *ast.ForStmt:
						walk(s.Body.List)
					}
				}
				if has && text != "" {
					if tok == "" {
						g.fail("lexer.go: l.token = %q without a token return in the same block", text)
					} else {
						lexops = append(lexops, fmt.Sprintf("(%s, %s, %s)", coqStr(text), coqStr(tok), coqStr(op)))
					}
				}
			}
			walk(d.Body.List)
		}
	}
	if !foundKw {
		g.fail("lexer.go: keywords map not found")
	}
	if !foundLex || len(lexops) == 0 {
		g.fail("lexer.go: (*lexer).Lex operator cases not found")
	}
	fmt.Fprintf(&sb, "Definition keywords : list (string * string) :=\n  [%s].\n\n", strings.Join(kws, "; "))
	fmt.Fprintf(&sb, "Definition lex_ops : list (string * string * string) :=\n  [%s].\n\n", strings.Join(lexops, ";\n   "))
	return sb.String()
}

func (g *gen) operators(repo string) string {
	fset := token.NewFileSet()
	f, err := parser.ParseFile(fset, filepath.Join(repo, "operator.go"), nil, 0)
	if err != nil {
		g.fail("%v", err)
		return ""
	}
	var ops []string
	for _, d := range f.Decls {
		fd, ok := d.(*ast.FuncDecl)
		if !ok || fd.Name.Name != "String" || fd.Recv == nil || len(fd.Recv.List) != 1 {
			continue
		}
		if id, ok := fd.Recv.List[0].Type.(*ast.Ident); !ok || id.Name != "Operator" {
			continue
		}
		if len(fd.Body.List) != 1 {
			g.fail("operator.go: Operator.String body not a single switch")
			continue
		}
		sw, ok := fd.Body.List[0].(*ast.SwitchStmt)
		if !ok {
			g.fail("operator.go: Operator.String body not a single switch")
			continue
		}
		for _, c := range sw.Body.List {
			cc := c.(*ast.CaseClause)
			if cc.List == nil {
				continue // default: panic
			}
			if len(cc.Body) != 1 {
				g.fail("%s: case body not understood", fset.Position(cc.Pos()))
				continue
			}
			r, ok := cc.Body[0].(*ast.ReturnStmt)
			if !ok || len(r.Results) != 1 {
				g.fail("%s: case body not understood", fset.Position(cc.Pos()))
				continue
			}
			t, ok := strLit(r.Results[0])
			if !ok {
				g.fail("%s: case result not a string literal", fset.Position(cc.Pos()))
				continue
			}
			for _, e := range cc.List {
				id, ok := e.(*ast.Ident)
				if !ok {
					g.fail("%s: case label not understood", fset.Position(e.Pos()))
					continue
				}
				ops = append(ops, fmt.Sprintf("(%s, %s)", coqStr(id.Name), coqStr(t)))
			}
		}
	}
	if len(ops) == 0 {
		g.fail("operator.go: Operator.String not found")
	}
	return fmt.Sprintf("Definition op_strings : list (string * string) :=\n  [%s].\n", strings.Join(ops, "; "))
}

func (g *gen) toknums(repo string) string {
	fset := token.NewFileSet()
	f, err := parser.ParseFile(fset, filepath.Join(repo, "parser.go"), nil, 0)
	if err != nil {
		g.fail("%v", err)
		return ""
	}
	var xs []string
	for _, d := range f.Decls {
		gd, ok := d.(*ast.GenDecl)
		if !ok || gd.Tok != token.CONST {
			continue
		}
		for _, sp := range gd.Specs {
			vs := sp.(*ast.ValueSpec)
			if len(vs.Names) != 1 || len(vs.Values) != 1 || !strings.HasPrefix(vs.Names[0].Name, "tok") {
				continue
			}
			l, ok := vs.Values[0].(*ast.BasicLit)
			if !ok || l.Kind != token.INT {
				g.fail("parser.go: constant %s is not an integer literal", vs.Names[0].Name)
				continue
			}
			xs = append(xs, fmt.Sprintf("(%s, %s%%Z)", coqStr(vs.Names[0].Name), l.Value))
		}
	}
	if len(xs) == 0 {
		g.fail("parser.go: no tok constants found")
	}
	return fmt.Sprintf("\nDefinition tok_num : list (string * Z) :=\n  [%s].\n", strings.Join(xs, "; "))
}

func genGrammar(repo string) (string, []string) {
	g := &gen{}
	var sb strings.Builder
	sb.WriteString("(* GENERATED by tools/go2coq/grammar from parser.go.y, lexer.go and operator.go of the current /repo tree. Do not edit. *)\n")
	sb.WriteString("From Coq Require Import List String ZArith.\nFrom Verif Require Import c09.GrammarTypes.\nImport ListNotations.\nLocal Open Scope string_scope.\n\n")
	sb.WriteString(g.grammar(repo))
	sb.WriteString(g.lexer(repo))
	sb.WriteString(g.operators(repo))
	sb.WriteString(g.toknums(repo))
	return sb.String(), g.errs
}

func main() {
	g2c.Register("GenGrammar", genGrammar)
	g2c.Main()
}
