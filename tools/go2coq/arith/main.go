package main

// Translator for the pure int kernels of operator.go / func.go into Gallina (coq/gen/GenArith.v).
// Go int is translated to Z with the 64-bit wrap written in: a+b => wrap64 (a+b), etc.
// Anything outside the supported subset is a translation failure (reported with position):
// the tie between code and model is then broken, which the check reports.

import (
	"fmt"
	"go/ast"
	"go/parser"
	"go/token"
	"go2coq/g2c"
	"path/filepath"
	"strings"
)

type tr struct {
	fset *token.FileSet
	errs []string
	kind map[string]string // variable -> "int" | "big"
}

func (t *tr) fail(n ast.Node, f string, a ...any) string {
	msg := fmt.Sprintf("%s: %s", t.fset.Position(n.Pos()), fmt.Sprintf(f, a...))
	t.errs = append(t.errs, msg)
	return "(* UNSUPPORTED *) RUnsupported"
}

func isCmp(op token.Token) bool {
	switch op {
	case token.EQL, token.NEQ, token.LSS, token.LEQ, token.GTR, token.GEQ:
		return true
	}
	return false
}

func (t *tr) isBool(e ast.Expr) bool {
	switch e := e.(type) {
	case *ast.ParenExpr:
		return t.isBool(e.X)
	case *ast.BinaryExpr:
		return isCmp(e.Op) || e.Op == token.LAND || e.Op == token.LOR
	case *ast.UnaryExpr:
		return e.Op == token.NOT
	}
	return false
}

// intExpr translates an int-typed Go expression to a Z-valued Gallina term.
func (t *tr) intExpr(e ast.Expr) string {
	switch e := e.(type) {
	case *ast.ParenExpr:
		return t.intExpr(e.X)
	case *ast.Ident:
		return e.Name
	case *ast.BasicLit:
		if e.Kind == token.INT {
			return "(" + e.Value + ")"
		}
	case *ast.SelectorExpr:
		if x, ok := e.X.(*ast.Ident); ok && x.Name == "math" {
			switch e.Sel.Name {
			case "MinInt":
				return "min_int"
			case "MaxInt":
				return "max_int"
			}
		}
	case *ast.UnaryExpr:
		if e.Op == token.SUB {
			if l, ok := e.X.(*ast.BasicLit); ok && l.Kind == token.INT {
				return "(-" + l.Value + ")"
			}
			return "(wrap64 (- " + t.intExpr(e.X) + "))"
		}
	case *ast.BinaryExpr:
		a, b := t.intExpr(e.X), t.intExpr(e.Y)
		switch e.Op {
		case token.ADD:
			return "(wrap64 (" + a + " + " + b + "))"
		case token.SUB:
			return "(wrap64 (" + a + " - " + b + "))"
		case token.MUL:
			return "(wrap64 (" + a + " * " + b + "))"
		case token.QUO:
			return "(wrap64 (Z.quot " + a + " " + b + "))"
		case token.REM:
			return "(Z.rem " + a + " " + b + ")"
		}
	}
	t.fail(e, "unsupported int expression %T", e)
	return "0"
}

func (t *tr) boolExpr(e ast.Expr) string {
	switch e := e.(type) {
	case *ast.ParenExpr:
		return t.boolExpr(e.X)
	case *ast.UnaryExpr:
		if e.Op == token.NOT {
			return "(negb " + t.boolExpr(e.X) + ")"
		}
	case *ast.BinaryExpr:
		switch e.Op {
		case token.LAND:
			return "(" + t.boolExpr(e.X) + " && " + t.boolExpr(e.Y) + ")"
		case token.LOR:
			return "(" + t.boolExpr(e.X) + " || " + t.boolExpr(e.Y) + ")"
		}
		if isCmp(e.Op) {
			if t.isBool(e.X) || t.isBool(e.Y) {
				a, b := t.boolExpr(e.X), t.boolExpr(e.Y)
				switch e.Op {
				case token.EQL:
					return "(Bool.eqb " + a + " " + b + ")"
				case token.NEQ:
					return "(negb (Bool.eqb " + a + " " + b + "))"
				}
			} else {
				a, b := t.intExpr(e.X), t.intExpr(e.Y)
				switch e.Op {
				case token.EQL:
					return "(" + a + " =? " + b + ")"
				case token.NEQ:
					return "(negb (" + a + " =? " + b + "))"
				case token.LSS:
					return "(" + a + " <? " + b + ")"
				case token.LEQ:
					return "(" + a + " <=? " + b + ")"
				case token.GTR:
					return "(" + a + " >? " + b + ")"
				case token.GEQ:
					return "(" + a + " >=? " + b + ")"
				}
			}
		}
	}
	t.fail(e, "unsupported bool expression %T", e)
	return "false"
}

// bigOf recognises big.NewInt(int64(e)) and big-kinded variables; returns the exact Z term.
func (t *tr) bigOf(e ast.Expr) (string, bool) {
	switch e := e.(type) {
	case *ast.Ident:
		if t.kind[e.Name] == "big" {
			return e.Name, true
		}
	case *ast.CallExpr:
		if sel, ok := e.Fun.(*ast.SelectorExpr); ok {
			if x, ok := sel.X.(*ast.Ident); ok && x.Name == "big" && sel.Sel.Name == "NewInt" && len(e.Args) == 1 {
				if c, ok := e.Args[0].(*ast.CallExpr); ok {
					if f, ok := c.Fun.(*ast.Ident); ok && f.Name == "int64" && len(c.Args) == 1 {
						return t.intExpr(c.Args[0]), true
					}
				}
			}
		}
	}
	return "", false
}

// retExpr translates the operand of a return statement to a term of type res.
func (t *tr) retExpr(e ast.Expr) string {
	switch e := e.(type) {
	case *ast.UnaryExpr:
		if e.Op == token.AND {
			if cl, ok := e.X.(*ast.CompositeLit); ok {
				if id, ok := cl.Type.(*ast.Ident); ok {
					switch id.Name {
					case "zeroDivisionError":
						return "RZeroDiv"
					case "zeroModuloError":
						return "RZeroMod"
					}
				}
			}
			return t.fail(e, "unsupported composite return")
		}
	case *ast.CallExpr:
		if id, ok := e.Fun.(*ast.Ident); ok && id.Name == "negate" && len(e.Args) == 1 {
			return "(negate " + t.intExpr(e.Args[0]) + ")"
		}
		if sel, ok := e.Fun.(*ast.SelectorExpr); ok {
			// x.Add(x, y) / x.Sub / x.Mul on big values; new(big.Int).Neg(big.NewInt(int64(v)))
			var args []string
			for _, a := range e.Args {
				b, ok := t.bigOf(a)
				if !ok {
					return t.fail(a, "unsupported big operand")
				}
				args = append(args, b)
			}
			switch {
			case sel.Sel.Name == "Add" && len(args) == 2:
				return "(RBig (" + args[0] + " + " + args[1] + "))"
			case sel.Sel.Name == "Sub" && len(args) == 2:
				return "(RBig (" + args[0] + " - " + args[1] + "))"
			case sel.Sel.Name == "Mul" && len(args) == 2:
				return "(RBig (" + args[0] + " * " + args[1] + "))"
			case sel.Sel.Name == "Neg" && len(args) == 1:
				return "(RBig (- " + args[0] + "))"
			}
			return t.fail(e, "unsupported method %s", sel.Sel.Name)
		}
	case *ast.BinaryExpr:
		// float64(l) / float64(r)
		if e.Op == token.QUO {
			if a, ok := floatConv(e.X); ok {
				if b, ok := floatConv(e.Y); ok {
					return "(RFltDiv " + t.intExpr(a) + " " + t.intExpr(b) + ")"
				}
			}
		}
	}
	return "(RInt " + t.intExpr(e) + ")"
}

func floatConv(e ast.Expr) (ast.Expr, bool) {
	if c, ok := e.(*ast.CallExpr); ok {
		if f, ok := c.Fun.(*ast.Ident); ok && f.Name == "float64" && len(c.Args) == 1 {
			return c.Args[0], true
		}
	}
	return nil, false
}

// stmts translates a statement list (that must end in a return on every path) to a res term.
func (t *tr) stmts(ss []ast.Stmt) string {
	if len(ss) == 0 {
		return "RFallthrough"
	}
	s, rest := ss[0], ss[1:]
	switch s := s.(type) {
	case *ast.ReturnStmt:
		if len(s.Results) != 1 {
			return t.fail(s, "return arity")
		}
		return t.retExpr(s.Results[0])
	case *ast.AssignStmt:
		if s.Tok == token.DEFINE && len(s.Lhs) == len(s.Rhs) {
			out := ""
			for i := range s.Lhs {
				id, ok := s.Lhs[i].(*ast.Ident)
				if !ok {
					return t.fail(s, "assign lhs")
				}
				if b, ok := t.bigOf(s.Rhs[i]); ok {
					t.kind[id.Name] = "big"
					out += "let " + id.Name + " := " + b + " in "
				} else {
					t.kind[id.Name] = "int"
					out += "let " + id.Name + " := " + t.intExpr(s.Rhs[i]) + " in "
				}
			}
			return "(" + out + t.stmts(rest) + ")"
		}
		return t.fail(s, "unsupported assignment")
	case *ast.IfStmt:
		pre := ""
		if s.Init != nil {
			as, ok := s.Init.(*ast.AssignStmt)
			if !ok || as.Tok != token.DEFINE || len(as.Lhs) != 1 {
				return t.fail(s, "unsupported if-init")
			}
			id := as.Lhs[0].(*ast.Ident)
			t.kind[id.Name] = "int"
			pre = "let " + id.Name + " := " + t.intExpr(as.Rhs[0]) + " in "
		}
		thenT := t.stmts(s.Body.List)
		var elseT string
		if s.Else != nil {
			switch el := s.Else.(type) {
			case *ast.BlockStmt:
				elseT = t.stmts(el.List)
			case *ast.IfStmt:
				elseT = t.stmts([]ast.Stmt{el})
			}
			if len(rest) > 0 {
				return t.fail(s, "statements after if/else")
			}
		} else {
			elseT = t.stmts(rest)
		}
		return "(" + pre + "if " + t.boolExpr(s.Cond) + " then " + thenT + " else " + elseT + ")"
	case *ast.SwitchStmt:
		if s.Init != nil || s.Tag == nil {
			return t.fail(s, "unsupported switch form")
		}
		tag := t.intExpr(s.Tag)
		def := t.stmts(rest)
		type cl struct{ cond, body string }
		var cls []cl
		for _, c := range s.Body.List {
			cc := c.(*ast.CaseClause)
			if cc.List == nil {
				def = t.stmts(cc.Body)
				continue
			}
			var conds []string
			for _, v := range cc.List {
				conds = append(conds, "("+tag+" =? "+t.intExpr(v)+")")
			}
			cls = append(cls, cl{strings.Join(conds, " || "), t.stmts(cc.Body)})
		}
		out := def
		for i := len(cls) - 1; i >= 0; i-- {
			out = "(if " + cls[i].cond + " then " + cls[i].body + " else " + out + ")"
		}
		return out
	}
	return t.fail(s, "unsupported statement %T", s)
}

func findFunc(f *ast.File, name string) *ast.FuncDecl {
	for _, d := range f.Decls {
		if fd, ok := d.(*ast.FuncDecl); ok && fd.Name.Name == name && fd.Recv == nil {
			return fd
		}
	}
	return nil
}

// intCallback finds, inside function fn, the call binopTypeSwitch(l, r, <func lit>, ...) and returns
// its first callback (the int one).
func intCallback(fd *ast.FuncDecl) *ast.FuncLit {
	var lit *ast.FuncLit
	ast.Inspect(fd, func(n ast.Node) bool {
		if c, ok := n.(*ast.CallExpr); ok && lit == nil {
			if id, ok := c.Fun.(*ast.Ident); ok && id.Name == "binopTypeSwitch" && len(c.Args) >= 3 {
				if fl, ok := c.Args[2].(*ast.FuncLit); ok {
					lit = fl
				}
			}
		}
		return true
	})
	return lit
}

// intCase finds `case int:` of the top-level type switch of fd and returns its body.
func intCase(fd *ast.FuncDecl) []ast.Stmt {
	for _, s := range fd.Body.List {
		if ts, ok := s.(*ast.TypeSwitchStmt); ok {
			for _, c := range ts.Body.List {
				cc := c.(*ast.CaseClause)
				if len(cc.List) == 1 {
					if id, ok := cc.List[0].(*ast.Ident); ok && id.Name == "int" {
						return cc.Body
					}
				}
			}
		}
	}
	return nil
}

func main() { g2c.Register("GenArith", genArith); g2c.Main() }

func genArith(repo string) (string, []string) {
	t := &tr{fset: token.NewFileSet(), kind: map[string]string{}}
	opf, err := parser.ParseFile(t.fset, filepath.Join(repo, "operator.go"), nil, 0)
	if err != nil {
		return "", []string{err.Error()}
	}
	fnf, err := parser.ParseFile(t.fset, filepath.Join(repo, "func.go"), nil, 0)
	if err != nil {
		return "", []string{err.Error()}
	}
	var b strings.Builder
	b.WriteString("(* GENERATED by tools/go2coq from operator.go and func.go of the current /repo tree. Do not edit. *)\n")
	b.WriteString("From Verif Require Import common.Int64.\nFrom Coq Require Import ZArith Bool.\nOpen Scope Z_scope.\nOpen Scope bool_scope.\n\n")
	// negate
	if fd := findFunc(opf, "negate"); fd != nil && len(fd.Type.Params.List) == 1 {
		p := fd.Type.Params.List[0].Names[0].Name
		t.kind = map[string]string{p: "int"}
		// negate's own body must not refer to the Gallina negate: translate with a local name
		body := t.stmts(fd.Body.List)
		fmt.Fprintf(&b, "Definition negate (%s : Z) : res :=\n  %s.\n\n", p, body)
	} else {
		t.errs = append(t.errs, "operator.go: func negate(v int) not found")
	}
	for _, op := range []struct{ coq, gofn string }{
		{"add_int", "funcOpAdd"}, {"sub_int", "funcOpSub"}, {"mul_int", "funcOpMul"},
		{"div_int", "funcOpDiv"}, {"mod_int", "funcOpMod"}} {
		fd := findFunc(opf, op.gofn)
		if fd == nil {
			t.errs = append(t.errs, "operator.go: "+op.gofn+" not found")
			continue
		}
		lit := intCallback(fd)
		if lit == nil || len(lit.Type.Params.List) != 1 || len(lit.Type.Params.List[0].Names) != 2 {
			t.errs = append(t.errs, "operator.go: "+op.gofn+": int callback of binopTypeSwitch not found")
			continue
		}
		l, r := lit.Type.Params.List[0].Names[0].Name, lit.Type.Params.List[0].Names[1].Name
		t.kind = map[string]string{l: "int", r: "int"}
		body := t.stmts(lit.Body.List)
		fmt.Fprintf(&b, "Definition %s (%s %s : Z) : res :=\n  %s.\n\n", op.coq, l, r, body)
	}
	for _, fn := range []struct{ coq, gofn string }{{"abs_int", "funcAbs"}, {"length_int", "funcLength"}} {
		fd := findFunc(fnf, fn.gofn)
		if fd == nil {
			t.errs = append(t.errs, "func.go: "+fn.gofn+" not found")
			continue
		}
		body := intCase(fd)
		if body == nil {
			t.errs = append(t.errs, "func.go: "+fn.gofn+": case int not found")
			continue
		}
		t.kind = map[string]string{"v": "int"}
		fmt.Fprintf(&b, "Definition %s (v : Z) : res :=\n  %s.\n\n", fn.coq, t.stmts(body))
	}
	return b.String(), t.errs
}
