package main

// Translator for C05/C06: enumerates, from go/ast + go/types of the non-test default-build files of
// package gojq (repository root) and package cli,
//
//	range-map          every `range` over a map-typed expression (or an expression of unknown type)
//	call:<pkg.Fn>      every call of an imported package's function that receives a JSON container
//	                   ([]any, map[string]any, or any map) as an argument (maps.Copy, maps.Clone, sort.Slice,
//	                   slices.Values, reflect.ValueOf ...)
//	call:.<Method>     calls of the reflection methods MapRange / MapKeys on any receiver
//	append copy delete clear   builtin calls whose first argument is a JSON container      (root package only)
//	set-index          assignments / inc-dec whose left side indexes a JSON container      (root package only)
//	make-cap           make(T, len, cap) of a JSON container type: storage with capacity beyond its length
//	                   (an in-place append target if it is ever shared)                    (root package only)
//	code-const         every JSON container that becomes an instruction operand: the `v:` field of a `code{...}`
//	                   literal whose value has a JSON container type, with its expression text — `[]any{}`
//	                   (zero capacity) is what opappend's accumulators must start from     (root package only)
//
// as (file, enclosing top-level function, kind, expression text) into coq/gen/GenMapSites.v.  These are all
// the places where Go map iteration order can leak and all the places where a JSON container is written.
// The Coq side (coq/c05/Sites.v) holds the REVIEWED list with, per site, why it is order-independent /
// writes only into memory owned by the call.  A new, moved or removed site breaks `sites_ok`.
//
// Types come from go/types with an importer that knows no package (fast, offline): expressions whose type
// depends on an imported package are "unknown"; a range over such an expression is listed as range-unknown.
//
// It also reports the shape of deleteEmpty: `delete_empty_owned` is true when the function has a second
// parameter (the allocator) — the repaired variant whose model descends only into owned containers.

import (
	"fmt"
	"go/ast"
	"go/build/constraint"
	"go/parser"
	"go/printer"
	"go/token"
	"go/types"
	"go2coq/g2c"
	"os"
	"path/filepath"
	"sort"
	"strings"
)

func main() { g2c.Register("GenMapSites", gen); g2c.Main() }

type fakeImporter struct{ pkgs map[string]*types.Package }

func (f *fakeImporter) Import(path string) (*types.Package, error) {
	if p, ok := f.pkgs[path]; ok {
		return p, nil
	}
	name := path[strings.LastIndex(path, "/")+1:]
	name = strings.TrimSuffix(name, "-go")
	if name == "timefmt" || strings.HasPrefix(name, "timefmt") {
		name = "timefmt"
	}
	if strings.HasPrefix(name, "go-") {
		name = name[3:]
	}
	p := types.NewPackage(path, name)
	p.MarkComplete()
	f.pkgs[path] = p
	return p, nil
}

func defaultBuild(f *ast.File) bool {
	for _, cg := range f.Comments {
		if cg.Pos() > f.Package {
			break
		}
		for _, c := range cg.List {
			if constraint.IsGoBuild(c.Text) {
				x, err := constraint.Parse(c.Text)
				if err != nil {
					return true
				}
				return x.Eval(func(tag string) bool { return false })
			}
		}
	}
	return true
}

type site struct{ file, fn, kind, expr string }

func exprText(fset *token.FileSet, e ast.Expr) string {
	var b strings.Builder
	printer.Fprint(&b, fset, e)
	s := strings.Join(strings.Fields(b.String()), " ")
	if len(s) > 60 {
		s = s[:60]
	}
	return s
}

func isJSONContainer(t types.Type) bool {
	if t == nil {
		return false
	}
	switch u := t.Underlying().(type) {
	case *types.Slice:
		if i, ok := u.Elem().Underlying().(*types.Interface); ok && i.NumMethods() == 0 {
			return true
		}
	case *types.Map:
		return true
	}
	return false
}

func scan(dir, label string, writes bool) ([]site, bool, []string) {
	fset := token.NewFileSet()
	ents, err := os.ReadDir(dir)
	if err != nil {
		return nil, false, []string{err.Error()}
	}
	var files []*ast.File
	var errs []string
	for _, e := range ents {
		n := e.Name()
		if !strings.HasSuffix(n, ".go") || strings.HasSuffix(n, "_test.go") {
			continue
		}
		f, err := parser.ParseFile(fset, filepath.Join(dir, n), nil, parser.ParseComments)
		if err != nil {
			errs = append(errs, err.Error())
			continue
		}
		if !defaultBuild(f) {
			continue
		}
		files = append(files, f)
	}
	if len(errs) > 0 {
		return nil, false, errs
	}
	conf := types.Config{Importer: &fakeImporter{map[string]*types.Package{}}, Error: func(error) {}}
	info := &types.Info{Types: map[ast.Expr]types.TypeAndValue{}, Uses: map[*ast.Ident]types.Object{}}
	conf.Check(label, fset, files, info)
	typeOf := func(e ast.Expr) types.Type {
		if tv, ok := info.Types[e]; ok && tv.Type != nil && tv.Type != types.Typ[types.Invalid] {
			return tv.Type
		}
		return nil
	}
	var sites []site
	deOwned := false
	for _, f := range files {
		fname := filepath.Base(fset.File(f.Pos()).Name())
		if label == "cli" {
			fname = "cli/" + fname
		}
		for _, d := range f.Decls {
			fn := "<init>"
			var body ast.Node = d
			if fd, ok := d.(*ast.FuncDecl); ok {
				fn = fd.Name.Name
				if fd.Recv != nil && len(fd.Recv.List) > 0 {
					fn = exprText(fset, fd.Recv.List[0].Type) + "." + fn
					fn = strings.TrimPrefix(fn, "*")
				}
				if fd.Name.Name == "deleteEmpty" && fd.Recv == nil && fd.Type.Params != nil && fd.Type.Params.NumFields() >= 2 {
					deOwned = true
				}
			}
			add := func(kind string, e ast.Expr) {
				sites = append(sites, site{fname, fn, kind, exprText(fset, e)})
			}
			ast.Inspect(body, func(n ast.Node) bool {
				switch n := n.(type) {
				case *ast.RangeStmt:
					t := typeOf(n.X)
					if t == nil {
						// ranges over integers / function iterators / strings of known type are typed; unknown is listed
						add("range-unknown", n.X)
					} else if _, ok := t.Underlying().(*types.Map); ok {
						add("range-map", n.X)
					}
				case *ast.CallExpr:
					switch fun := n.Fun.(type) {
					case *ast.SelectorExpr:
						if fun.Sel.Name == "MapRange" || fun.Sel.Name == "MapKeys" {
							add("call:."+fun.Sel.Name, fun.X)
						}
						if id, ok := fun.X.(*ast.Ident); ok {
							if _, isPkg := info.Uses[id].(*types.PkgName); isPkg {
								for _, a := range n.Args {
									if isJSONContainer(typeOf(a)) {
										add("call:"+id.Name+"."+fun.Sel.Name, a)
									}
								}
							}
						}
					case *ast.Ident:
						if !writes {
							break
						}
						if fun.Name == "make" && len(n.Args) == 3 {
							if _, isBuiltin := info.Uses[fun].(*types.Builtin); isBuiltin && isJSONContainer(typeOf(n)) {
								add("make-cap", n)
							}
						}
						switch fun.Name {
						case "append", "copy", "delete", "clear":
							if _, isBuiltin := info.Uses[fun].(*types.Builtin); isBuiltin && len(n.Args) > 0 && isJSONContainer(typeOf(n.Args[0])) {
								add(fun.Name, n.Args[0])
							}
						}
					}
				case *ast.CompositeLit:
					if !writes {
						break
					}
					if id, ok := n.Type.(*ast.Ident); ok && id.Name == "code" {
						for _, el := range n.Elts {
							if kv, ok := el.(*ast.KeyValueExpr); ok {
								if k, ok := kv.Key.(*ast.Ident); ok && k.Name == "v" {
									if t := typeOf(kv.Value); isJSONContainer(t) {
										add("code-const", kv.Value)
									} else if t != nil {
										// an operand of static type `any` may hold a container at run time
										if it, ok := t.Underlying().(*types.Interface); ok && it.NumMethods() == 0 {
											add("code-const-any", kv.Value)
										}
									}
								}
							}
						}
					}
				case *ast.AssignStmt:
					if !writes {
						break
					}
					for _, l := range n.Lhs {
						if ix, ok := l.(*ast.IndexExpr); ok && isJSONContainer(typeOf(ix.X)) {
							add("set-index", ix.X)
						}
					}
				case *ast.IncDecStmt:
					if ix, ok := n.X.(*ast.IndexExpr); ok && writes && isJSONContainer(typeOf(ix.X)) {
						add("set-index", ix.X)
					}
				}
				return true
			})
		}
	}
	return sites, deOwned, nil
}

func q(s string) string { return "\"" + strings.ReplaceAll(s, "\"", "\"\"") + "\"" }

func gen(repo string) (string, []string) {
	root, deOwned, errs := scan(repo, "gojq", true)
	if errs != nil {
		return "", errs
	}
	cli, _, errs := scan(filepath.Join(repo, "cli"), "cli", false)
	if errs != nil {
		return "", errs
	}
	all := append(root, cli...)
	sort.SliceStable(all, func(i, j int) bool {
		a, b := all[i], all[j]
		if a.file != b.file {
			return a.file < b.file
		}
		if a.fn != b.fn {
			return a.fn < b.fn
		}
		if a.kind != b.kind {
			return a.kind < b.kind
		}
		return a.expr < b.expr
	})
	if len(root) < 20 {
		return "", []string{fmt.Sprintf("implausibly few sites in the root package: %d", len(root))}
	}
	var b strings.Builder
	b.WriteString("(* GENERATED by tools/go2coq/mapsites from the current /repo tree. Do not edit. *)\n")
	b.WriteString("From Coq Require Import String List.\nImport ListNotations.\nOpen Scope string_scope.\n\n")
	fmt.Fprintf(&b, "Definition delete_empty_owned : bool := %v.\n\n", deOwned)
	b.WriteString("(* (file, function, kind, expression) *)\n")
	b.WriteString("Definition gen_sites : list (string * string * string * string) := [\n")
	for i, s := range all {
		sep := ";"
		if i == len(all)-1 {
			sep = ""
		}
		fmt.Fprintf(&b, "  (%s, %s, %s, %s)%s\n", q(s.file), q(s.fn), q(s.kind), q(s.expr), sep)
	}
	b.WriteString("].\n")
	return b.String(), nil
}
