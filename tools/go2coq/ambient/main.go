package main

// Translator for C19 (no ambient authority): lists, from the go/ast of every non-test file of package
// gojq in the repository root that is part of the default build (files whose build constraint names the
// tags verif or gojq_debug are skipped, `!gojq_debug` is part of the default build),
//   ambient_files    the files scanned
//   ambient_imports  (file, import path) for every import that is not on the translator's list of pure
//                    packages (so a new import of an unknown package shows up for review)
//   ambient_refs     (file, enclosing top-level function, selector) for every reference to
//                      - any identifier of a sensitive package (os, os/*, io/ioutil, io/fs, path/filepath,
//                        net, net/* except net/url, syscall, runtime, runtime/*, plugin, unsafe, math/rand,
//                        math/rand/v2, crypto/*, log, embed, C, and every package not known as pure),
//                      - time.X for the clock / zone / timer entry points,
//                      - io.ReadAll / io.ReadFull / io.Copy… (reads of an open file),
//                      - fmt.Print* / fmt.Scan* (implicit stdout / stdin),
//                      - method calls .Local() .Zone() .Location() on any receiver (time.Time's zone access)
//   loader_inrefs    (file, function, identifier) for every use, outside module_loader.go, of an identifier
//                    declared at top level in module_loader.go (how the explicit loader can be reached)
//   time_dependent_builtins  jq names (internalFuncs keys and builtin.jq definitions, transitively) whose
//                    implementation reaches a function holding a time.* reference above
// into coq/gen/GenAmbient.v.  The Coq side (coq/c19/Ambient.v) holds the REVIEWED allow-list and proves
// by computation that every entry is on it.

import (
	"fmt"
	"go/ast"
	"go/parser"
	"go/token"
	"go2coq/g2c"
	"os"
	"path/filepath"
	"regexp"
	"sort"
	"strconv"
	"strings"
)

func main() { g2c.Register("GenAmbient", genAmbient); g2c.Main() }

var purePkgs = map[string]bool{
	"bytes": true, "cmp": true, "context": true, "encoding/base64": true, "encoding/json": true,
	"errors": true, "fmt": true, "io": true, "iter": true, "maps": true, "math": true, "math/big": true,
	"math/bits": true, "net/url": true, "reflect": true, "regexp": true, "slices": true, "sort": true,
	"strconv": true, "strings": true, "sync": true, "sync/atomic": true, "time": true, "unicode": true,
	"unicode/utf8": true, "unicode/utf16": true, "github.com/itchyny/timefmt-go": true,
}

// selectors of otherwise pure packages that touch the world
var impureSel = map[string]map[string]bool{
	"time": {"Now": true, "Local": true, "Since": true, "Until": true, "LoadLocation": true, "Sleep": true,
		"After": true, "AfterFunc": true, "Tick": true, "NewTimer": true, "NewTicker": true},
	"io": {"ReadAll": true, "ReadFull": true, "ReadAtLeast": true, "Copy": true, "CopyN": true, "CopyBuffer": true,
		"WriteString": true},
	"fmt": {"Print": true, "Printf": true, "Println": true, "Scan": true, "Scanf": true, "Scanln": true},
}

var zoneMethods = map[string]bool{"Local": true, "Zone": true, "Location": true, "ZoneBounds": true}

// buildExcluded: does the file's //go:build line require a non-default tag?  (only the simple forms
// `tag`, `!tag`, and && / || of them are evaluated; all tags are off in the default build)
func buildExcluded(f *ast.File, fset *token.FileSet) (bool, string) {
	for _, cg := range f.Comments {
		if cg.Pos() >= f.Package {
			break
		}
		for _, c := range cg.List {
			if strings.HasPrefix(c.Text, "//go:build ") {
				expr := strings.TrimSpace(strings.TrimPrefix(c.Text, "//go:build "))
				v, ok := evalBuild(expr)
				if !ok {
					return true, "unsupported build constraint: " + expr
				}
				return !v, ""
			}
		}
	}
	return false, ""
}

func evalBuild(s string) (bool, bool) {
	s = strings.TrimSpace(s)
	if i := strings.Index(s, "||"); i >= 0 {
		a, ok1 := evalBuild(s[:i])
		b, ok2 := evalBuild(s[i+2:])
		return a || b, ok1 && ok2
	}
	if i := strings.Index(s, "&&"); i >= 0 {
		a, ok1 := evalBuild(s[:i])
		b, ok2 := evalBuild(s[i+2:])
		return a && b, ok1 && ok2
	}
	if strings.HasPrefix(s, "!") {
		v, ok := evalBuild(s[1:])
		return !v, ok
	}
	if regexp.MustCompile(`^[A-Za-z_][A-Za-z0-9_.]*$`).MatchString(s) {
		switch s {
		case "linux", "amd64", "unix", "gc":
			return true, true
		}
		return false, true // every custom tag is off by default
	}
	return false, false
}

func sensitive(path string) bool {
	if purePkgs[path] {
		return false
	}
	return true // os, path/filepath, net, syscall, … and every unknown package
}

type ref struct{ file, fn, sel string }

func funcName(d *ast.FuncDecl) string {
	if d.Recv != nil && len(d.Recv.List) == 1 {
		t := d.Recv.List[0].Type
		if s, ok := t.(*ast.StarExpr); ok {
			t = s.X
		}
		if id, ok := t.(*ast.Ident); ok {
			return id.Name + "." + d.Name.Name
		}
	}
	return d.Name.Name
}

func q(s string) string { return strconv.Quote(s) }

func genAmbient(repo string) (string, []string) {
	var errs []string
	fset := token.NewFileSet()
	names, _ := filepath.Glob(filepath.Join(repo, "*.go"))
	sort.Strings(names)
	var files []string
	var imports [][2]string
	var refs []ref
	var inrefs []ref
	parsed := map[string]*ast.File{}
	for _, p := range names {
		base := filepath.Base(p)
		if strings.HasSuffix(base, "_test.go") {
			continue
		}
		f, err := parser.ParseFile(fset, p, nil, parser.ParseComments)
		if err != nil {
			errs = append(errs, err.Error())
			continue
		}
		if f.Name.Name != "gojq" {
			continue
		}
		ex, msg := buildExcluded(f, fset)
		if msg != "" {
			errs = append(errs, base+": "+msg)
		}
		if ex {
			continue
		}
		files = append(files, base)
		parsed[base] = f
	}
	// identifiers declared at top level of module_loader.go
	loaderDecl := map[string]bool{}
	if f := parsed["module_loader.go"]; f != nil {
		for _, d := range f.Decls {
			switch d := d.(type) {
			case *ast.FuncDecl:
				if d.Recv == nil {
					loaderDecl[d.Name.Name] = true
				}
			case *ast.GenDecl:
				for _, s := range d.Specs {
					switch s := s.(type) {
					case *ast.TypeSpec:
						loaderDecl[s.Name.Name] = true
					case *ast.ValueSpec:
						for _, n := range s.Names {
							loaderDecl[n.Name] = true
						}
					}
				}
			}
		}
	} else {
		errs = append(errs, "module_loader.go not found")
	}
	// per function: identifiers used (for the taint closure of time-dependent functions)
	uses := map[string]map[string]bool{}
	timeTainted := map[string]bool{}
	topFuncs := map[string]bool{}
	for _, base := range files {
		f := parsed[base]
		local := map[string]string{} // local package name -> import path
		for _, im := range f.Imports {
			path, _ := strconv.Unquote(im.Path.Value)
			name := path
			if i := strings.LastIndex(path, "/"); i >= 0 {
				name = path[i+1:]
			}
			if path == "github.com/itchyny/timefmt-go" {
				name = "timefmt"
			}
			if im.Name != nil {
				name = im.Name.Name
			}
			if name == "." || name == "_" {
				errs = append(errs, fmt.Sprintf("%s: dot/blank import of %s is not supported", base, path))
			}
			local[name] = path
			if sensitive(path) {
				imports = append(imports, [2]string{base, path})
			}
		}
		var visit func(fn string, n ast.Node)
		visit = func(fn string, n ast.Node) {
			ast.Inspect(n, func(n ast.Node) bool {
				switch e := n.(type) {
				case *ast.SelectorExpr:
					if id, ok := e.X.(*ast.Ident); ok && id.Obj == nil {
						if path, ok := local[id.Name]; ok {
							if sensitive(path) || impureSel[path][e.Sel.Name] {
								refs = append(refs, ref{base, fn, path + "." + e.Sel.Name})
								if path == "time" {
									timeTainted[fn] = true
								}
							}
							return false
						}
					}
					if zoneMethods[e.Sel.Name] {
						refs = append(refs, ref{base, fn, "(method)." + e.Sel.Name})
						timeTainted[fn] = true
					}
					visit(fn, e.X) // the selected field / method name is not a reference to a package-level identifier
					return false
				case *ast.Ident:
					if uses[fn] == nil {
						uses[fn] = map[string]bool{}
					}
					uses[fn][e.Name] = true
					if base != "module_loader.go" && loaderDecl[e.Name] && e.Obj == nil {
						inrefs = append(inrefs, ref{base, fn, e.Name})
					}
				}
				return true
			})
		}
		for _, d := range f.Decls {
			switch d := d.(type) {
			case *ast.FuncDecl:
				fn := funcName(d)
				if d.Recv == nil {
					topFuncs[d.Name.Name] = true
				}
				visit(fn, d)
			case *ast.GenDecl:
				if d.Tok == token.IMPORT {
					continue
				}
				visit("<toplevel>", d)
			}
		}
	}
	// closure: a top-level function that mentions a tainted top-level function is tainted
	delete(timeTainted, "<toplevel>")
	for changed := true; changed; {
		changed = false
		for fn, us := range uses {
			if timeTainted[fn] || fn == "<toplevel>" || fn == "init" {
				continue
			}
			for u := range us {
				if timeTainted[u] && topFuncs[u] {
					timeTainted[fn] = true
					changed = true
					break
				}
			}
		}
	}
	// jq names registered in internalFuncs with a tainted callback
	tdep := map[string]bool{}
	if f := parsed["func.go"]; f != nil {
		ast.Inspect(f, func(n ast.Node) bool {
			kv, ok := n.(*ast.KeyValueExpr)
			if !ok {
				return true
			}
			k, ok := kv.Key.(*ast.BasicLit)
			if !ok || k.Kind != token.STRING {
				return true
			}
			name, _ := strconv.Unquote(k.Value)
			ast.Inspect(kv.Value, func(m ast.Node) bool {
				if id, ok := m.(*ast.Ident); ok && timeTainted[id.Name] {
					tdep[name] = true
				}
				return true
			})
			return true
		})
	}
	// builtin.jq definitions mentioning a time-dependent name (textual, conservative), to a fixpoint
	if src, err := os.ReadFile(filepath.Join(repo, "builtin.jq")); err == nil {
		chunks := regexp.MustCompile(`(?m)^def `).Split(string(src), -1)
		word := regexp.MustCompile(`[A-Za-z_][A-Za-z0-9_]*`)
		for changed := true; changed; {
			changed = false
			for _, ch := range chunks[1:] {
				ws := word.FindAllString(ch, -1)
				if len(ws) == 0 || tdep[ws[0]] {
					continue
				}
				for _, w := range ws[1:] {
					if tdep[w] {
						tdep[ws[0]] = true
						changed = true
						break
					}
				}
			}
		}
	} else {
		errs = append(errs, err.Error())
	}
	sort.Slice(refs, func(i, j int) bool {
		a, b := refs[i], refs[j]
		if a.file != b.file {
			return a.file < b.file
		}
		if a.fn != b.fn {
			return a.fn < b.fn
		}
		return a.sel < b.sel
	})
	var b strings.Builder
	b.WriteString("(* GENERATED by tools/go2coq/ambient from the non-test, default-build files of package gojq in the\n   current /repo tree. Do not edit. *)\n")
	b.WriteString("From Coq Require Import List String.\nImport ListNotations.\nOpen Scope string_scope.\n\n")
	b.WriteString("Definition ambient_files : list string :=\n  [")
	for i, f := range files {
		if i > 0 {
			b.WriteString("; ")
		}
		b.WriteString(q(f))
	}
	b.WriteString("].\n\nDefinition ambient_imports : list (string * string) :=\n  [")
	for i, im := range imports {
		if i > 0 {
			b.WriteString(";\n   ")
		}
		fmt.Fprintf(&b, "(%s, %s)", q(im[0]), q(im[1]))
	}
	b.WriteString("].\n\n")
	writeRefs := func(name string, rs []ref) {
		fmt.Fprintf(&b, "Definition %s : list (string * string * string) :=\n  [", name)
		var last ref
		first := true
		for _, r := range rs {
			if !first && r == last {
				continue
			}
			if !first {
				b.WriteString(";\n   ")
			}
			fmt.Fprintf(&b, "(%s, %s, %s)", q(r.file), q(r.fn), q(r.sel))
			last, first = r, false
		}
		b.WriteString("].\n\n")
	}
	writeRefs("ambient_refs", refs)
	sort.Slice(inrefs, func(i, j int) bool {
		a, b := inrefs[i], inrefs[j]
		if a.file != b.file {
			return a.file < b.file
		}
		if a.fn != b.fn {
			return a.fn < b.fn
		}
		return a.sel < b.sel
	})
	writeRefs("loader_inrefs", inrefs)
	var td []string
	for n := range tdep {
		td = append(td, n)
	}
	sort.Strings(td)
	b.WriteString("Definition time_dependent_builtins : list string :=\n  [")
	for i, n := range td {
		if i > 0 {
			b.WriteString("; ")
		}
		b.WriteString(q(n))
	}
	b.WriteString("].\n")
	return b.String(), errs
}
