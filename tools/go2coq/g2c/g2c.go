// go2coq regenerates coq/gen/*.v from the current /repo working tree.
// Each generator returns Gallina text and a list of translation errors.  On errors the generated
// file contains a deliberately ill-typed definition so the dependent proofs fail (broken tie),
// and the messages are written to <out>/<name>.errors.
package g2c

import (
	"flag"
	"fmt"
	"os"
	"path/filepath"
	"sort"
	"strings"
)

type Generator func(repo string) (string, []string)

var generators = map[string]Generator{}

func Register(name string, g Generator) { generators[name] = g }

// Main runs all registered generators: go2coq-<x> -repo DIR -out DIR
func Main() {
	repo := flag.String("repo", "/repo", "gojq source tree")
	out := flag.String("out", "", "output directory (coq/gen)")
	only := flag.String("only", "", "comma-separated generator names (default all)")
	flag.Parse()
	if *out == "" {
		fmt.Fprintln(os.Stderr, "usage: go2coq -repo DIR -out DIR")
		os.Exit(2)
	}
	names := []string{}
	for n := range generators {
		if *only == "" || strings.Contains(","+*only+",", ","+n+",") {
			names = append(names, n)
		}
	}
	sort.Strings(names)
	bad := 0
	for _, n := range names {
		text, errs := generators[n](*repo)
		errFile := filepath.Join(*out, n+".errors")
		os.Remove(errFile)
		if len(errs) > 0 {
			bad++
			text = "(* TRANSLATION FAILED:\n" + strings.Join(errs, "\n") + "\n*)\nDefinition translation_failed : False := I.\n"
			os.WriteFile(errFile, []byte(strings.Join(errs, "\n")+"\n"), 0o644)
			fmt.Printf("FAILED %s: %s\n", n, strings.Join(errs, "; "))
		}
		p := filepath.Join(*out, n+".v")
		old, _ := os.ReadFile(p)
		if string(old) != text {
			if err := os.WriteFile(p, []byte(text), 0o644); err != nil {
				fmt.Fprintln(os.Stderr, err)
				os.Exit(2)
			}
			fmt.Printf("updated %s\n", p)
		} else {
			fmt.Printf("unchanged %s\n", p)
		}
	}
	if bad > 0 {
		os.Exit(1)
	}
}
