package main

// Semantic actions of the grammar: which dynamic type assertions `yyDollar[k].value.(T)` each action makes
// and what it stores into `yyVAL.value` (with the STATIC Go type of the stored expression, from go/types).
// Output (appended to GenTables.v):
//   yySem : list (rule, (asserts [(k, type id)], (kind, arg)))
//           kind 0 = stores a value of static type `arg`      kind 1 = stores yyDollar[arg].value unchanged
//           kind 2 = no store: goyacc's default $$ = $1       kind 3 = unknown (several different outcomes,
//                                                                      or a store of interface type)
//   type ids: 0 = the nil interface (token slots: the lexer never writes lval.value), -1 = unknown, k > 0 = a Go type
//   lexer_never_sets_value : bool

import (
	"fmt"
	"go/ast"
	"go/importer"
	"go/parser"
	"go/token"
	"go/types"
	"os"
	"path/filepath"
	"sort"
	"strings"
)

type fakeImporter struct{ real types.Importer }

func (f fakeImporter) Import(path string) (*types.Package, error) {
	if p, err := f.real.Import(path); err == nil {
		return p, nil
	}
	name := path[strings.LastIndex(path, "/")+1:]
	p := types.NewPackage(path, strings.ReplaceAll(name, "-", "_"))
	p.MarkComplete()
	return p, nil
}

func dollarValue(e ast.Expr) (int64, bool) {
	se, ok := e.(*ast.SelectorExpr)
	if !ok || se.Sel.Name != "value" {
		return 0, false
	}
	ie, ok := se.X.(*ast.IndexExpr)
	if !ok {
		return 0, false
	}
	if id, ok := ie.X.(*ast.Ident); !ok || id.Name != "yyDollar" {
		return 0, false
	}
	return intLit(ie.Index)
}

func isYyVALvalue(e ast.Expr) bool {
	se, ok := e.(*ast.SelectorExpr)
	if !ok || se.Sel.Name != "value" {
		return false
	}
	id, ok := se.X.(*ast.Ident)
	return ok && id.Name == "yyVAL"
}

func genSem(repo string) (string, []string) {
	var errs []string
	fset := token.NewFileSet()
	names, _ := filepath.Glob(filepath.Join(repo, "*.go"))
	sort.Strings(names)
	var files []*ast.File
	var parserFile, lexerFile *ast.File
	for _, n := range names {
		base := filepath.Base(n)
		if strings.HasSuffix(base, "_test.go") || strings.HasPrefix(base, "verif_") {
			continue
		}
		src, err := os.ReadFile(n)
		if err != nil {
			return "", []string{err.Error()}
		}
		if strings.Contains(string(src[:min(len(src), 400)]), "//go:build") {
			continue // debug.go / release.go variants etc.: not needed for the types of the actions
		}
		f, err := parser.ParseFile(fset, n, src, 0)
		if err != nil {
			return "", []string{err.Error()}
		}
		if f.Name.Name != "gojq" {
			continue
		}
		files = append(files, f)
		if base == "parser.go" {
			parserFile = f
		}
		if base == "lexer.go" {
			lexerFile = f
		}
	}
	if parserFile == nil || lexerFile == nil {
		return "", []string{"parser.go / lexer.go not found"}
	}
	info := &types.Info{Types: map[ast.Expr]types.TypeAndValue{}}
	conf := types.Config{Importer: fakeImporter{importer.ForCompiler(fset, "source", nil)}, Error: func(error) {}, FakeImportC: true}
	pkg, _ := conf.Check("github.com/itchyny/gojq", fset, files, info)
	qual := func(p *types.Package) string {
		if p == pkg {
			return ""
		}
		return p.Name()
	}
	typeIDs := map[string]int{}
	var typeNames []string
	idOf := func(t types.Type) int {
		s := types.TypeString(t, qual)
		if id, ok := typeIDs[s]; ok {
			return id
		}
		typeNames = append(typeNames, s)
		typeIDs[s] = len(typeNames)
		return len(typeNames)
	}

	// the lexer never writes lval.value (so a shifted token carries the nil interface)
	lexerSets := false
	ast.Inspect(lexerFile, func(n ast.Node) bool {
		if se, ok := n.(*ast.SelectorExpr); ok && se.Sel.Name == "value" {
			if id, ok := se.X.(*ast.Ident); ok && id.Name == "lval" {
				lexerSets = true
			}
		}
		if id, ok := n.(*ast.Ident); ok && id.Name == "yySymType" {
			_ = id
		}
		return true
	})

	var parse *ast.FuncDecl
	for _, d := range parserFile.Decls {
		if fd, ok := d.(*ast.FuncDecl); ok && fd.Name.Name == "Parse" && fd.Recv != nil {
			parse = fd
		}
	}
	if parse == nil {
		return "", []string{"parser.go: Parse not found"}
	}
	var actions *ast.SwitchStmt
	for _, st := range parse.Body.List {
		if sw, ok := st.(*ast.SwitchStmt); ok {
			if id, ok := sw.Tag.(*ast.Ident); ok && id.Name == "yynt" {
				actions = sw
			}
		}
	}
	if actions == nil {
		return "", []string{"parser.go: switch yynt not found"}
	}
	type outcome struct{ kind, arg int }
	var rows []string
	for _, cc := range actions.Body.List {
		cl, ok := cc.(*ast.CaseClause)
		if !ok || len(cl.List) != 1 {
			continue
		}
		n, ok := intLit(cl.List[0])
		if !ok {
			continue
		}
		var asserts []string
		seenAssert := map[string]bool{}
		var outs []outcome
		unconditional := false
		// the action text is the block after `yyDollar = yyS[...]`
		// walk returns whether the statement definitely executes a store into yyVAL.value
		var walk func(st ast.Stmt) bool
		visitExprs := func(node ast.Node) {
			ast.Inspect(node, func(x ast.Node) bool {
				switch x := x.(type) {
				case *ast.TypeAssertExpr:
					if k, ok := dollarValue(x.X); ok && x.Type != nil {
						t := info.TypeOf(x.Type)
						if t == nil {
							errs = append(errs, fmt.Sprintf("%s: no type for assertion", fset.Position(x.Pos())))
							return true
						}
						key := fmt.Sprintf("(%d, %d)", k, idOf(t))
						if !seenAssert[key] {
							seenAssert[key] = true
							asserts = append(asserts, key)
						}
					}
				case *ast.UnaryExpr:
					if x.Op == token.AND {
						if id, ok := x.X.(*ast.Ident); ok && (id.Name == "yyVAL" || id.Name == "yyDollar") {
							errs = append(errs, fmt.Sprintf("%s: address of %s taken in an action", fset.Position(x.Pos()), id.Name))
						}
					}
				}
				return true
			})
		}
		walk = func(st ast.Stmt) bool {
			switch s := st.(type) {
			case *ast.BlockStmt:
				def := false
				for _, c := range s.List {
					if walk(c) {
						def = true
					}
				}
				return def
			case *ast.AssignStmt:
				def := false
				for i, lhs := range s.Lhs {
					if id, ok := lhs.(*ast.Ident); ok && id.Name == "yyVAL" {
						outs = append(outs, outcome{3, 0})
						def = true
					}
					if isYyVALvalue(lhs) {
						o := outcome{3, 0}
						if len(s.Lhs) == len(s.Rhs) {
							rhs := s.Rhs[i]
							if k, ok := dollarValue(rhs); ok {
								o = outcome{1, int(k)}
							} else if t := info.TypeOf(rhs); t != nil && !types.IsInterface(t) && t != types.Typ[types.Invalid] && t != types.Typ[types.UntypedNil] {
								o = outcome{0, idOf(t)}
							}
						}
						outs = append(outs, o)
						def = true
					}
				}
				visitExprs(s)
				return def
			case *ast.IfStmt:
				visitExprs(s.Cond)
				if s.Init != nil {
					walk(s.Init)
				}
				d1 := walk(s.Body)
				d2 := false
				if s.Else != nil {
					d2 = walk(s.Else)
				}
				return d1 && d2
			case *ast.ForStmt, *ast.RangeStmt, *ast.SwitchStmt, *ast.TypeSwitchStmt, *ast.SelectStmt, *ast.LabeledStmt, *ast.GoStmt, *ast.DeferStmt:
				// other nested control flow: every store inside is conditional
				ast.Inspect(s, func(x ast.Node) bool {
					if as, ok := x.(*ast.AssignStmt); ok {
						walk(as)
						return false
					}
					return true
				})
				visitExprs(s)
				return false
			}
			visitExprs(st)
			return false
		}
		for i, st := range cl.Body {
			if i == 0 {
				continue // yyDollar = yyS[yypt-K : yypt+1]
			}
			if walk(st) {
				unconditional = true
			}
		}
		if !unconditional {
			outs = append(outs, outcome{2, 0})
		}
		res := outs[0]
		for _, o := range outs[1:] {
			if o != res {
				res = outcome{3, 0}
			}
		}
		rows = append(rows, fmt.Sprintf("(%d, ([%s], (%d, %d)))", n, strings.Join(asserts, "; "), res.kind, res.arg))
	}
	var b strings.Builder
	b.WriteString("\n(* semantic actions: dynamic type assertions and stored types (go/types over the package) *)\n")
	for i, s := range typeNames {
		fmt.Fprintf(&b, "(* type %d = %s *)\n", i+1, strings.ReplaceAll(s, "*", "ptr "))
	}
	fmt.Fprintf(&b, "Definition yyNtypes : Z := %d.\n", len(typeNames))
	fmt.Fprintf(&b, "Definition lexer_never_sets_value : bool := %v.\n", !lexerSets)
	b.WriteString("Definition yySem : list (Z * (list (Z * Z) * (Z * Z))) :=\n  [" + strings.Join(rows, ";\n   ") + "].\n")
	return b.String(), errs
}
