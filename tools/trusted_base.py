#!/usr/bin/env python3
"""Trusted-base inventory of /verif, machine-generated into docs/TRUSTED_BASE.md.

  tools/trusted_base.py [--build] [--coqchk] [--out docs/TRUSTED_BASE.md]

(a) compiles every coq/props/*.v with coqc and tabulates the Print Assumptions output per theorem;
(b) lists every coq/extract/Extract*.v with the extraction directives and Extr* libraries it uses;
(c) scans the whole development (comments stripped; lib/verif.py scan_forbidden) for Admitted / admit / Axiom /
    Parameter / Conjecture / Unset Guard / bypass_check / ... and for Variable|Hypothesis|Context outside Sections;
(d) lists the Section variables and hypotheses of every file: the modelled-not-verified assumptions live here;
(e) lists the hook files verif_*.go of the repository with their build constraint and exported entry points;
(f) with --coqchk: runs `coqchk -silent -o` on props/C10 + props/C10b and pastes its context summary.

--build first runs every translator and `make` on all props files (otherwise the existing .vo files are used and a
props file whose dependencies are not built is reported as NOT COMPILED).
Nothing here decides a verdict; the per-property checks do.  Exit status 1 if (c) finds something, a props file does
not compile, an extraction file uses a directive beyond ExtrOcamlBasic, or a hook file lacks `//go:build verif`."""
import argparse
import glob
import os
import re
import sys
import time

ROOT = os.path.dirname(os.path.dirname(os.path.abspath(__file__)))
sys.path.insert(0, os.path.join(ROOT, "lib"))
import verif as V  # noqa: E402


def strip_comments(txt):
    """Remove (possibly nested) Coq comments; string literals are respected."""
    out, depth, i, n, instr = [], 0, 0, len(txt), False
    while i < n:
        c = txt[i]
        if depth == 0 and c == '"':
            instr = not instr
            out.append(c)
            i += 1
        elif not instr and txt.startswith("(*", i):
            depth += 1
            i += 2
        elif not instr and depth > 0 and txt.startswith("*)", i):
            depth -= 1
            i += 2
        else:
            if depth == 0:
                out.append(c)
            elif c == "\n":
                out.append("\n")      # keep line numbers
            i += 1
    return "".join(out)


def sentences(txt):
    """(line, sentence) for every vernacular sentence (split at '.' followed by whitespace/EOF)."""
    res, start, line = [], 0, 1
    for m in re.finditer(r"\.(?=\s|$)", txt):
        s = txt[start:m.end()]
        lead = len(s) - len(s.lstrip())
        res.append((line + s[:lead].count("\n"), " ".join(s.split())))
        line += s.count("\n")
        start = m.end()
    return res


# ------------------------------------------------------------------------------------------------ (a)
def parse_assumptions_full(out):
    """Per-theorem assumption reports, in order.  Unlike lib/verif.py parse_assumptions this also handles axioms that
    coqc prints on two lines (`Name` newline `  : type`), e.g. ClassicalDedekindReals.sig_forall_dec."""
    reports, cur = [], None
    for line in out.splitlines():
        if line.startswith("Closed under the global context"):
            reports.append([])
            cur = None
        elif line.startswith("Axioms:"):
            cur = []
            reports.append(cur)
        elif cur is not None and line and not line[0].isspace():
            m = re.match(r"^([A-Za-z_][\w.']*)\s*(:|$)", line)
            if m:
                cur.append(m.group(1))
            else:
                cur = None
    return reports


def props_table(build):
    rows, problems = [], []
    files = sorted(os.path.relpath(p, V.COQ) for p in glob.glob(os.path.join(V.COQ, "props", "*.v")))
    if build:
        ok, log = V.regen(V.all_translators())
        if not ok:
            problems.append("translators: " + V.tail(log, 5))
        ok, log = V.coq_make(files, timeout=6000)
        if not ok:
            problems.append("make of props files failed:\n" + V.tail(log, 20))
    for f in files:
        names = V.theorem_names(f)
        t0 = time.time()
        ok, out = V.coqc_props(f, timeout=1200)
        dt = time.time() - t0
        reports = parse_assumptions_full(out)
        if not ok or len(reports) < len(names):
            problems.append("%s NOT COMPILED (dependencies not built, or broken): %s" % (f, V.tail(out, 3).replace("\n", " | ")))
            for n in names:
                rows.append((f, n, None))
            continue
        for n, r in zip(names, reports):
            rows.append((f, n, r))
        sys.stderr.write("  %s: %d theorems, %.1fs\n" % (f, len(names), dt))
    return files, rows, problems


# ------------------------------------------------------------------------------------------------ (b)
ALLOWED_EXTR_LIBS = {"Extraction", "ExtrOcamlBasic"}


def extraction_inventory():
    rows, problems = [], []
    for p in sorted(glob.glob(os.path.join(V.COQ, "extract", "*.v"))):
        rel = os.path.relpath(p, V.COQ)
        txt = strip_comments(open(p).read())
        libs, directives = [], []
        for _, s in sentences(txt):
            m = re.match(r"^(?:From\s+\S+\s+)?Require\s+(?:Import\s+|Export\s+)?(.*)\.$", s)
            if m:
                for mod in m.group(1).split():
                    if mod.startswith("Extr") or mod == "Extraction":
                        libs.append(mod)
                continue
            if re.match(r"^(Extract|Extraction|Recursive Extraction|Separate Extraction|Set Extraction|Unset Extraction)\b", s):
                directives.append(s)
        bad = [l for l in libs if l not in ALLOWED_EXTR_LIBS]
        bad += [d for d in directives if not re.match(r'^Extraction (Language OCaml|"[^"]+"( [\w.\']+)+)\.$', d)]
        if bad:
            problems.append("%s: beyond ExtrOcamlBasic: %s" % (rel, "; ".join(bad)))
        rows.append((rel, libs, directives, bad))
    return rows, problems


# ------------------------------------------------------------------------------------------------ (d)
def section_assumptions():
    """{file: [(section path, line, sentence)]} for Variable/Hypothesis/Context sentences inside Sections."""
    res = {}
    files = V.coq_files() + sorted(os.path.relpath(p, V.COQ) for p in glob.glob(os.path.join(V.COQ, "extract", "*.v")))
    for f in files:
        if f.startswith("gen" + os.sep):
            continue
        txt = strip_comments(open(os.path.join(V.COQ, f)).read())
        stack, items = [], []
        for line, s in sentences(txt):
            m = re.match(r"^Section\s+([\w']+)\s*\.$", s)
            if m:
                stack.append(m.group(1))
                continue
            m = re.match(r"^End\s+([\w']+)\s*\.$", s)
            if m and stack and stack[-1] == m.group(1):
                stack.pop()
                continue
            if stack and re.match(r"^(Variables?|Hypothes[ie]s|Context)\b", s):
                items.append((".".join(stack), line, s))
        if items:
            res[f] = items
    return res


# ------------------------------------------------------------------------------------------------ (e)
def hook_files():
    rows, problems = [], []
    paths = sorted(glob.glob(os.path.join(V.REPO, "verif_*.go")) + glob.glob(os.path.join(V.REPO, "*", "verif_*.go")))
    for p in paths:
        lines = open(p, encoding="utf-8", errors="replace").read().splitlines()
        tag = next((l.strip() for l in lines[:5] if l.startswith("//go:build") or l.startswith("// +build")), None)
        pkg = next((l.split()[1] for l in lines if l.startswith("package ")), "?")
        funcs = re.findall(r"^func\s+(?:\([^)]*\)\s*)?([A-Z]\w*)", "\n".join(lines), flags=re.M)
        if tag != "//go:build verif" and not (tag or "").startswith("//go:build verif"):
            problems.append("%s: first build constraint is %r, expected //go:build verif" % (p, tag))
        rows.append((os.path.relpath(p, V.REPO), tag, pkg, len(lines), funcs))
    return rows, problems


# ------------------------------------------------------------------------------------------------ (f)
def run_coqchk(timeout):
    cmd = ["coqchk", "-silent", "-o", "-Q", V.COQ, "Verif", "Verif.props.C10", "Verif.props.C10b"]
    t0 = time.time()
    rc, out = V.sh(cmd, cwd=V.COQ, timeout=timeout)
    return " ".join(cmd), rc, round(time.time() - t0, 1), out


def main():
    ap = argparse.ArgumentParser()
    ap.add_argument("--build", action="store_true")
    ap.add_argument("--coqchk", action="store_true")
    ap.add_argument("--coqchk-timeout", type=int, default=3000)
    ap.add_argument("--out", default=os.path.join(ROOT, "docs", "TRUSTED_BASE.md"))
    a = ap.parse_args()
    problems = []
    o = []
    w = o.append
    _, ver = V.sh(["coqc", "--version"])
    w("# Trusted base inventory (machine-generated by tools/trusted_base.py — do not edit by hand)")
    w("")
    w("Generated %s; %s; repository under check: `%s`.  Interpretation and the hand-curated list of"
      % (time.strftime("%Y-%m-%d"), " ".join(ver.split()), V.REPO))
    w("modelled-not-verified assumptions: `docs/INTEG.md`.")
    w("")

    # (a)
    files, rows, pr = props_table(a.build)
    problems += pr
    w("## (a) Print Assumptions of every theorem in coq/props/*.v")
    w("")
    nclosed = sum(1 for r in rows if r[2] == [])
    nax = sum(1 for r in rows if r[2])
    nbad = sum(1 for r in rows if r[2] is None)
    axset = sorted({x for r in rows if r[2] for x in r[2]})
    w("%d props files, %d theorems: %d closed under the global context, %d depending on standard-library axioms, %d not compiled."
      % (len(files), len(rows), nclosed, nax, nbad))
    w("")
    w("Axioms that occur (all from the Coq standard library, reached through Flocq / Reals; none declared in /verif):")
    w("")
    for x in axset:
        users = sorted({r[0] for r in rows if r[2] and x in r[2]})
        w("* `%s` — used in %s" % (x, ", ".join("`%s`" % u for u in users)))
    if not axset:
        w("* none")
    w("")
    w("| props file | theorem | assumptions |")
    w("|---|---|---|")
    for f, n, r in rows:
        if r is None:
            txt = "**NOT COMPILED**"
        elif not r:
            txt = "closed"
        else:
            txt = ", ".join("`%s`" % x for x in r)
        w("| %s | `%s` | %s |" % (f, n, txt))
    w("")

    # (b)
    erows, pr = extraction_inventory()
    problems += pr
    w("## (b) Extraction files (coq/extract/*.v)")
    w("")
    w("Allowed: `Require Import Extraction ExtrOcamlBasic`, `Extraction Language OCaml`, `Extraction \"file.ml\" names`. "
      "Anything else is flagged.")
    w("")
    w("| file | Extr* libraries | directives | flagged |")
    w("|---|---|---|---|")
    for rel, libs, directives, bad in erows:
        w("| %s | %s | %s | %s |" % (rel, ", ".join(libs) or "-", "<br>".join("`%s`" % d for d in directives) or "-",
                                     "; ".join(bad) or "-"))
    w("")

    # (c)
    bad = V.scan_forbidden()
    bad += V.scan_forbidden(sorted(os.path.relpath(p, V.COQ) for p in glob.glob(os.path.join(V.COQ, "extract", "*.v"))))
    w("## (c) Forbidden constructs in the development")
    w("")
    w("Pattern (comments stripped): `%s`; plus `Variable|Hypothesis|Context` outside a `Section`. Files scanned: %d "
      "(all of coq/ including gen/ and extract/)." % (V.FORBIDDEN.pattern.replace("|", " \\| "), len(V.coq_files()) + len(erows)))
    w("")
    if bad:
        problems += bad
        for b in bad:
            w("* `%s`" % b)
    else:
        w("None found.")
    w("")

    # (d)
    sec = section_assumptions()
    w("## (d) Section variables and hypotheses per file")
    w("")
    w("Every `Variable` / `Hypothesis` / `Context` inside a `Section` (comments stripped; coq/gen excluded).  External code "
      "(strconv, regexp, libm, encoding/json, UTF-8 decoders, terminal width, ...) is modelled this way; the list also contains "
      "ordinary generic parameters (induction-principle sections, abstract step functions, type parameters).  After the "
      "section is closed each item becomes an explicit `forall` of the lemmas that use it, so it is visible in the props "
      "statements.  %d files, %d items." % (len(sec), sum(len(v) for v in sec.values())))
    w("")
    for f in sorted(sec):
        w("### %s" % f)
        w("")
        for path, line, s in sec[f]:
            w("* `%s` l.%d: `%s`" % (path, line, s if len(s) <= 400 else s[:397] + "..."))
        w("")

    # (e)
    hrows, pr = hook_files()
    problems += pr
    w("## (e) Hook files in the repository (`verif_*.go`)")
    w("")
    w("New files only; each must start with `//go:build verif` so that the default build is byte-for-byte the original.")
    w("")
    w("| file | build constraint | package | lines | exported entry points |")
    w("|---|---|---|---|---|")
    for rel, tag, pkg, nl, funcs in hrows:
        w("| %s | `%s` | %s | %d | %s |" % (rel, tag, pkg, nl, ", ".join(funcs) or "-"))
    w("")

    # (f)
    w("## (f) coqchk")
    w("")
    if a.coqchk:
        cmd, rc, wall, out = run_coqchk(a.coqchk_timeout)
        w("`%s` — exit status %d, %.1f s wall%s." % (cmd, rc, wall, " (TIMEOUT)" if rc == 124 else ""))
        w("")
        w("```")
        for l in out.strip().splitlines():
            w(l.rstrip())
        w("```")
        if rc not in (0, 124):
            problems.append("coqchk failed")
    else:
        w("Not run in this invocation (use `--coqchk`).  The thorough tier of `bin/check C10` runs it and stores the summary "
          "under the evidence key `coverage.coqchk`.")
    w("")

    w("## Problems found by this script")
    w("")
    if problems:
        for p_ in problems:
            w("* %s" % p_)
    else:
        w("None.")
    w("")
    with open(a.out, "w") as f:
        f.write("\n".join(o))
    print("wrote %s: %d theorems (%d closed, %d with std-lib axioms, %d not compiled), %d extraction files, %d hook files, %d problems"
          % (a.out, len(rows), nclosed, nax, nbad, len(erows), len(hrows), len(problems)))
    return 1 if problems else 0


if __name__ == "__main__":
    sys.exit(main())
