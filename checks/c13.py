"""C13 — documented inverse pairs are exact inverses (docs/C13.md)."""
import hashlib, json, os, re, sys
import verif as V
import jqdefs
import c01

PROP = "C13"
PROPS = "props/C13.v"
PROPS_B = "props/C13b.v"   # integration with C12: tojson|fromjson, tostring|tonumber (coq/integ/TojsonFromjson.v)
PROPS_D = "props/C13d.v"   # paths / tostream of builtin.jq over coq/sem (coq/sem/StreamLaws*.v)
PROPS_C = "props/C13c.v"   # the jq-defined pairs over the reference semantics coq/sem applied to builtin.jq of the current tree
DEPS = ["c13/Utf8.v", "c13/Codec.v", "c13/Jv.v", "c13/Time.v", "c13/Run.v"]


# sha256[:16] of the builtin.jq text of every definition transcribed by hand in coq/c13/Jv.v and Date.v
JQ_TEXT = {
    "map/1": "f0de8cc258ea5e2b",
    "to_entries/0": "3a4f5ec1720075ad",
    "from_entries/0": "f36c0e00c014df82",
    "with_entries/1": "3fb0ba69b5bdfce6",
    "tostream/0": "686592c3334a1dbe",
    "fromstream/1": "cfee62a0d4082f8c",
    "paths/0": "fead631d6b41de85",
    "recurse/0": "c2fa0073ee5aa328",
    "recurse/1": "4b5cb9dc64e6034d",
    "todate/0": "0883af450c32524a",
    "fromdate/0": "07882fa324215695",
    "todateiso8601/0": "edff8982c0429730",
    "fromdateiso8601/0": "36d1d1c8790d8ba9",
}


def law_case(v):
    """'law=... input=... [arg=...] :: details' -> (case, details)"""
    case, _, det = v.partition(" :: ")
    return case, det


def candidates(mism):
    """From model-vs-implementation mismatches, the values on which the property's laws are worth
    evaluating: every argument of the mismatching line and the value the model expected."""
    cands = []
    for line, verdict in mism[:200]:
        m = re.match(r"^\(bad (.*)\)$", verdict)
        if m and m.group(1) not in ("error", "unsupported"):
            cands.append(m.group(1))
        depth, start = 0, None
        # top-level arguments of the line
        body = line[1:-1] if line.startswith("(") else line
        i = body.find(" ")
        rest = body[i + 1:] if i >= 0 else ""
        tok = ""
        for ch in rest:
            if ch == "(":
                depth += 1
            if ch == ")":
                depth -= 1
            if ch == " " and depth == 0:
                if tok:
                    cands.append(tok)
                tok = ""
            else:
                tok += ch
        if tok:
            cands.append(tok)
    out, seen = [], set()
    for c in cands:
        if c not in seen and not c.startswith("(err"):
            seen.add(c)
            out.append(c)
    return out[:400]


def run(tier, seed, only_cands=None):
    c = V.Check(PROP, tier, seed)
    c.assumptions += [
        "Go strings are byte sequences; `for range s`, []rune(s), utf8.AppendRune behave as modelled in c13/Utf8.v "
        "(checked by the explode/implode lines over all byte-class strings up to length 2 (3 thorough) and random longer ones)",
        "encoding/base64 Std/RawStd, net/url QueryEscape/QueryUnescape, strings.Split/ReplaceAll/TrimPrefix/TrimSuffix "
        "behave as modelled in c13/Codec.v (checked per function by the b64/b64d/uri/urid/split/join/trimstr lines)",
        "package time: time.Unix(...).UTC() field accessors and time.Date(...).Unix() follow the 'Computations on Times' "
        "arithmetic of Go 1.24 time.go as modelled in c13/Time.v (checked by the gmtime/mktime lines)",
        "to_entries/from_entries/with_entries/tostream/fromstream/paths: the Gallina functions are hand transcriptions of "
        "the builtin.jq text (checked against the implementation on the value universe and random nested values)",
        "tojson|fromjson and tostring|tonumber (props/C13b.v, derived from the C12 development): tojson/tostring are the "
        "C12 model of encoder.go; fromjson is the reference RFC 8259 reader of c12/JsonRef.v (the real one is encoding/json, "
        "outside /repo, compared with the reference reader by the C12 check); strconv.AppendFloat/ParseFloat are variables "
        "under the hypotheses fmt_shape and fmt_round (digits parse back to the float), checked on sampled floats by C12",
        "todate|fromdate and [paths]==[path(..)][1:] have no theorem; they are evaluated on the implementation only "
        "(laws stream), as are tojson|fromjson and tostring|tonumber on the real encoding/json and strconv",
        "props/C13c.v: to_entries/from_entries/with_entries(.)/map and the call laws are theorems about coq/sem's evaluator "
        "(tied to gojq by the C01 check) on the definitions of builtin.jq of the current tree (pins closed by computation on "
        "the regenerated coq/gen/GenBuiltins.v); objects of the model are sorted association lists",
        "returned-its-input is decided exactly on the Go side (integer inputs by exact value, double inputs as that double), never through gojq.Compare or ==",
    ]
    proved = c.prove(PROPS)
    proved = c.prove(PROPS_B) and proved
    # C13c: theorems about Sem.eval_q on the definitions of builtin.jq (coq/sem/BuiltinLaws*.v); the table
    # coq/gen/GenBuiltins.v is regenerated here from the current builtin.jq through gojq.Parse, so an edit of a
    # pinned definition (map, to_entries, from_entries, with_entries, ...) breaks the pin obligation of props/C13c.v
    exe_sem, slog = V.build_harness("sem")
    if exe_sem is None:
        c.broken_correspondence("harness-build:sem", None, V.tail(slog, 40))
    else:
        c01.regen_builtins(c, exe_sem)
    proved = c.prove(PROPS_C) and proved
    proved = c.prove(PROPS_D) and proved
    jqdefs.check(c, V.REPO, JQ_TEXT)
    exe_h, hlog = V.build_harness("c13")
    mism, st, lst = [], {}, {}
    law_viol = []
    if exe_h is None:
        c.broken_correspondence("harness-build", None, V.tail(hlog, 40))
        return c.finish("harness did not build")
    exe_m, mlog = V.build_model("c13", "extract/ExtractC13.v", "c13model", deps=DEPS)
    if exe_m is None:
        c.broken_correspondence("model-extraction", None, V.tail(mlog, 40))
    n = 400 if tier == "quick" else 20000
    # model vs implementation, one line per function application
    if exe_m is not None:
        rc, out, cases, st = V.run_harness("c13", "c13", seed, n, tier, name="c13")
        if rc != 0:
            c.broken_correspondence("harness-run", None, V.tail(out, 40))
        else:
            mism = V.compare_model(c, exe_m, cases, "c13")
    # the laws on the implementation alone
    rc, out, lcases, lst = V.run_harness("c13", "laws", seed, n if tier == "quick" else 4000, tier, name="c13laws")
    if rc != 0:
        c.broken_correspondence("laws-run", None, V.tail(out, 40))
    else:
        law_viol = list(lst.get("impl_violations") or [])
        c.evaluations += int(lst.get("law_evaluations") or 0)
        with open(lcases) as f:
            for l in f:
                c.distinct.add(hashlib.sha1(l.encode("utf-8", "replace")).digest()[:8])
    # a mismatch with the model: look for a law that fails on the values involved
    if mism:
        cands = candidates(mism)
        cf = os.path.join(V.BUILD, "cases", "c13.cands")
        with open(cf, "w") as f:
            f.write("\n".join(cands) + "\n")
        rc, out, _, sst = V.run_harness("c13", "laws", seed, 0, tier, extra=["cands=" + cf], name="c13search")
        if rc == 0:
            law_viol += list(sst.get("impl_violations") or [])
            c.notes.append("searched the laws on %d candidate values taken from %d mismatching lines" % (len(cands), len(mism)))
        else:
            c.notes.append("candidate search failed: " + V.tail(out, 5))
    seen = set()
    for v in law_viol:
        case, det = law_case(v)
        if case in seen:
            continue
        seen.add(case)
        c.failing_input("law fails on the implementation", case, det)
    found = any(v["found_input"] for v in c.violations)
    for line, verdict in mism[:10]:
        c.broken_correspondence("c13", line, "model verdict: " + verdict, found_input=False)
    rule = ("model stream: explode/@base64/@uri on every string over 38 byte classes up to length 2 (3 thorough), accept-range "
            "windows and random byte/valid strings; @base64d/@urid on every string over their alphabets (padding, CR/LF, '+', '%', "
            "stray bytes) up to length 3 and random longer; implode over scalar/surrogate/out-of-range/huge integers; "
            "split/join/ltrimstr/rtrimstr on overlapping and multi-byte separators; paths/tostream/fromstream/to_entries/"
            "from_entries/with_entries/getpath/setpath on the value universe and random nested values (all paths of the value, "
            "fresh keys, indices past the end, negative indices, descents through scalars); gmtime/mktime on boundary and "
            "random whole seconds of years 1..9999 and on unnormalised broken-down times. laws stream: every law of the "
            "property on the universe, random nested values, strings of every byte class, finite numbers of every "
            "representation, whole seconds of years 1..9999. distinct = distinct case lines")
    return c.finish(rule, extra_cov=dict(harness_stats=st, law_stats=dict((k, lst.get(k)) for k in ("law_evaluations", "law_failures", "distribution"))))


def replay(path):
    d = json.load(open(path))
    print(json.dumps(d, indent=1))
    case = d.get("case")
    if not case:
        return 1
    exe_h, hlog = V.build_harness("c13")
    if exe_h is None:
        print(hlog)
        return 2
    if case.startswith("law="):
        cf = os.path.join(V.BUILD, "cases", "c13.replay")
        m = re.match(r"^law=(.*?) input=(.*?)(?: arg=(.*))?$", case)
        with open(cf, "w") as f:
            f.write(m.group(2) + "\n")
        rc, out, _, st = V.run_harness("c13", "laws", d.get("seed", 1), 0, "quick", extra=["cands=" + cf], name="c13replay")
        viol = [v for v in (st.get("impl_violations") or []) if law_case(v)[0] == case]
        for v in viol:
            print("REPRODUCED:", v)
        if not viol:
            print("not reproduced on the current tree")
        return 1 if viol else 0
    # a model-vs-implementation line: re-run the stream with the recorded seed
    return run("quick", d.get("seed", 1))
