"""C01 is decided by two sub-checks: the reference semantics (checks/c01.py: coq/sem, correspondence of outputs on
generated programs + laws of the semantics) and the VM-level theorem (checks/c01vm.py: coq/c01vm, compile-correctness
of the compiler+VM model for fragment F + instruction-list correspondence).  Their evidence files are merged."""
import json, time
import verif as V


def _run(mod, name, tier, seed, prop="C01"):
    orig = V.Check
    def mk(p, t, s, evidence_name=None):
        return orig(prop, t, s, evidence_name=name)
    V.Check = mk
    try:
        if hasattr(mod, "PROP"):
            mod.PROP = prop
        return mod.run(tier, seed)
    finally:
        V.Check = orig


def run(tier, seed):
    t0 = time.time()
    import c01, c01vm
    rc1 = _run(c01, "C01sem", tier, seed)
    rc2 = _run(c01vm, "C01vm", tier, seed)
    V.merge_evidence("C01", ["C01sem", "C01vm"], tier, seed, time.time() - t0)
    return 1 if (rc1 or rc2) else 0


def replay(path):
    d = json.load(open(path))
    import c01, c01vm
    what = json.dumps(d)
    return (c01vm if "c01vm" in what else c01).replay(path)
