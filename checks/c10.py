"""C10 — integer arithmetic exact, literals not degraded (DESIGN.md §5 C10)."""
import json, os, re, sys
import verif as V

PROP = "C10"
PROPS = "props/C10.v"
PROPS_B = "props/C10b.v"   # integration with C12: output clause (valid JSON numbers, NaN -> null, Inf saturated, strconv digits)
COQCHK_TIMEOUT = 1500


def run_coqchk(c):
    """Thorough tier only: re-check the compiled C10 development (props/C10.vo, props/C10b.vo and everything they
    depend on, standard library included) with the independent checker coqchk and record its context summary under
    the evidence key `coqchk`.  A timeout is a note, not a violation; a checker error is a broken obligation."""
    import time
    t0 = time.time()
    cmd = ["coqchk", "-silent", "-o", "-Q", V.COQ, "Verif", "Verif.props.C10", "Verif.props.C10b"]
    rc, out = V.sh(cmd, cwd=V.COQ, timeout=COQCHK_TIMEOUT)
    wall = round(time.time() - t0, 1)
    ev = dict(cmd=" ".join(cmd), rc=rc, wall_s=wall)
    c.checker_cmds.append(" ".join(cmd))
    if rc == 124:
        ev["status"] = "timeout"
        c.notes.append("coqchk did not finish within %d s (note only)" % COQCHK_TIMEOUT)
        return ev
    summary = {}
    cur = None
    for line in out.splitlines():
        m = re.match(r"^\* ([^:]+):\s*(.*)$", line.strip())
        if m:
            cur = m.group(1).strip()
            summary[cur] = m.group(2).strip()
        elif cur and line.strip() and not line.startswith("="):
            summary[cur] = (summary[cur] + " " + line.strip()).strip()
        elif not line.strip():
            cur = None
    ev["summary"] = summary
    if rc != 0:
        ev["status"] = "error"
        c.obligations.append(("coqchk props/C10 props/C10b", False, None))
        c.broken_obligation("coqchk", V.tail(out, 40))
        return ev
    ev["status"] = "ok"
    ax = summary.get("Axioms", "")
    c.obligations.append(("coqchk props/C10 props/C10b", True, [] if ax == "<none>" else [ax]))
    if ax != "<none>":
        c.trusted.append("axioms reported by coqchk for props/C10, props/C10b: " + ax)
    return ev


def classify(line):
    """non-trivial: operand outside the int range or result promoted/zero-division"""
    return True


def run(tier, seed):
    c = V.Check(PROP, tier, seed)
    c.assumptions += [
        "Go int is 64-bit two's complement (wrap64 written into the translated kernels)",
        "math/big is exact integer arithmetic (RBig z / NBig z stand for its results)",
        "strconv.AppendInt / big.Int.Append print the canonical decimal (model print_Z); checked by the enc stream",
        "float results (inexact division) are compared by class only",
        "output clause (props/C10b.v, derived from the C12 development c12/Encode.v + c12/NumProofs.v): strconv.AppendFloat is a "
        "variable under the hypotheses fmt_shape (text shape) and fmt_round (digits parse back to the float); that its digits "
        "are the SHORTEST ones is Go's property and is not proved; the model of encodeFloat64 is tied to encoder.go and "
        "cli/encoder.go by the C12 check (floats stream), not by this one",
    ]
    ok, log = V.regen(["arith"])
    if not ok:
        c.notes.append("translator failed: " + V.tail(log, 10))
    proved = c.prove(PROPS)
    proved_b = c.prove(PROPS_B)
    coqchk_ev = None
    if tier == "thorough" and proved and proved_b:
        coqchk_ev = run_coqchk(c)
    # correspondence (impl vs model) and property oracle (impl vs exact integer arithmetic)
    exe_h, hlog = V.build_harness("c10")
    mism, smism, st = [], [], {}
    if exe_h is None:
        c.broken_correspondence("harness-build", None, V.tail(hlog, 40))
    else:
        # the specification oracle does not depend on the translated kernels: it still judges the
        # implementation when gen/GenArith.v fails to translate or compile
        exe_s, slog = V.build_model("c10spec", "extract/ExtractC10Spec.v", "c10spec", deps=["c10/SpecRun.v"])
        exe_m, mlog = V.build_model("c10", "extract/ExtractC10.v", "c10model", deps=["c10/Run.v"])
        if exe_m is None:
            c.broken_correspondence("model-extraction", None, V.tail(mlog, 40))
        if exe_s is None:
            c.broken_correspondence("spec-extraction", None, V.tail(slog, 40))
        n = 400 if tier == "quick" else 15000
        rc, out, cases, st = V.run_harness("c10", "c10", seed, n, tier)
        if rc != 0:
            c.broken_correspondence("harness-run", None, V.tail(out, 40))
        else:
            if exe_s:
                smism = V.compare_model(c, exe_s, cases, "c10:spec", count=(exe_m is None))
            if exe_m:
                mism = V.compare_model(c, exe_m, cases, "c10")
            for v in (st.get("impl_violations") or []):
                c.failing_input("impl-oracle", v, v)
    if not proved and exe_h and exe_m and exe_s and not smism:
        # a proof over the regenerated kernels broke and the generated cases show nothing: search the
        # translated model against exact arithmetic over the int64 boundary set, replay candidates on the impl
        cands = search_model(exe_m)
        c.notes.append("model-vs-Z search candidates: %s" % cands[:8])
        if cands:
            pairs = [("%s:%s" % (x[1], x[2] if len(x) > 2 else "1")) for x in cands]
            rc, out, cases, st2 = V.run_harness("c10", "c10", seed, 0, tier, extra=pairs, name="c10search")
            if rc == 0 and exe_s:
                smism = V.compare_model(c, exe_s, cases, "c10search")
    # impl != spec: the implementation violates the property on that input (replay = the case line)
    for line, verdict in smism[:10]:
        c.failing_input("implementation differs from exact integer arithmetic", line, "expected: " + verdict)
    # impl != model but impl == spec: the model is stale (harmless rewrite) -> broken correspondence
    sbad = set(l for l, _ in smism)
    for line, verdict in mism[:10]:
        if line not in sbad:
            c.broken_correspondence("c10", line, "model verdict: " + verdict)
    rule = ("operand pairs from the boundary set (0, ±1, ±2^k, ±2^k±1 for k<=130, int64 limits and neighbours, "
            "sqrt(2^63) neighbours, random 1..40-digit integers) x 5 operators + Compare x 9 representation pairs "
            "(int, *big.Int, json.Number); unary neg/abs/length and Marshal for every operand in every representation; "
            "distinct = distinct case lines")
    extra = dict(harness_stats=st)
    if coqchk_ev is not None:
        extra["coqchk"] = coqchk_ev
    return c.finish(rule, extra_cov=extra)


def replay(path):
    d = json.load(open(path))
    print(json.dumps(d, indent=1))
    case = d.get("case")
    if not case:
        return 1
    exe_h, hlog = V.build_harness("c10")
    print("replay of a single C10 case is done by re-running the stream with the recorded seed:", d.get("seed"))
    return run("quick", d.get("seed", 1))
