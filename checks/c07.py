"""C07 — Cancellation is prompt, prefix-consistent and terminal (docs/C07.md)."""
import json, os, re, sys
import verif as V

PROP = "C07"
PROPS = "props/C07.v"
PROPS_B = "props/C07b.v"   # one-shot iterators of Code.RunWithContext / Query.RunWithContext (coq/c07/OneShot.v)


def unhex(h):
    return "" if h == "-" else bytes.fromhex(h).decode("utf-8", "replace")


def case_of_line(line, verdict):
    """canonical replayable case text of a harness line (+ the k named by the model's verdict)"""
    m = re.match(r"^\(c07 (\S+) (\S+) ", line)
    k = re.search(r"\(k (\d+)\)", verdict or "")
    src, inp = (unhex(m.group(1)), unhex(m.group(2))) if m else ("?", "?")
    return "k=%s input=%s prog=%s" % (k.group(1) if k else "?", inp, src)


def case_of_viol(v):
    f = v.split("\t")
    if len(f) >= 5:
        return "%s k=%s input=%s prog=%s" % (f[0], f[3], f[2], f[1]), f[4]
    return v, v


def build_debug_harness():
    """second harness binary with the interpreter's own instruction trace compiled in (tags verif,gojq_debug):
    gives the pc / an instruction-fetch counter independent of ctx.Done()"""
    return V.build_harness("c07", tags="verif gojq_debug", out="harness-c07dbg")


def split_both(o):
    """'(both <model verdict> <spec verdict>)' -> the two verdict texts (balanced parentheses)"""
    if not o.startswith("(both "):
        return o, o
    body, parts, depth, cur = o[6:-1], [], 0, ""
    for ch in body:
        if ch == " " and depth == 0:
            parts.append(cur)
            cur = ""
            continue
        depth += ch == "("
        depth -= ch == ")"
        cur += ch
    parts.append(cur)
    return (parts[0], parts[1]) if len(parts) == 2 else (o, o)


def run_model_parallel(exe, lines, shards=12):
    """the extracted model over lines, in parallel shards (program lines are long: all cancellation points of one program)"""
    import subprocess, threading
    shards = max(1, min(shards, len(lines)))
    parts = [lines[i::shards] for i in range(shards)]
    outs = [None] * shards

    def work(i):
        p = subprocess.run(["bash", "-c", "ulimit -s unlimited 2>/dev/null || ulimit -s $(ulimit -Hs); exec \"$0\"", exe], input=("\n".join(parts[i]) + "\n").encode(), stdout=subprocess.PIPE, stderr=subprocess.PIPE, timeout=3000)
        outs[i] = p.stdout.decode("utf-8", "replace").split("\n")[:-1] if p.returncode == 0 else None
    ths = [threading.Thread(target=work, args=(i,)) for i in range(shards)]
    [t.start() for t in ths]
    [t.join() for t in ths]
    res = [None] * len(lines)
    for i in range(shards):
        if outs[i] is None or len(outs[i]) != len(parts[i]):
            return None
        res[i::shards] = outs[i]
    return res


def correspond(c, exe_m, prog, seed, n, tier, extra=None, name=None, oracles_only=False):
    name = name or prog
    rc, out, cases, st = V.run_harness(prog, "c07", seed, n, tier, extra=extra, name=name)
    if rc != 0:
        c.broken_correspondence("harness-run", None, V.tail(out, 40))
        return st
    for v in (st.get("impl_violations") or [])[:20]:
        case, what = case_of_viol(v)
        c.failing_input("impl-oracle: " + what, case, v)
    if st.get("aborted"):
        c.notes.append("harness stopped early: " + str(st.get("aborted")))
    if oracles_only:
        return st
    lines = [l for l in open(cases).read().split("\n") if l]
    outs = run_model_parallel(exe_m, ["(both " + l + ")" for l in lines])
    if outs is None:
        c.broken_correspondence(name, None, "extracted model failed or produced a wrong number of verdicts")
        return st
    nbad = 0
    for l, o in zip(lines, outs):
        c.note_case(l)
        if o == "ok":
            continue
        nbad += 1
        if nbad > 10:
            continue
        # the two verdicts: model (Cancel.next) and property statement (direct list computation)
        mv, sv = split_both(o)
        if sv != "ok":
            # impl != property statement (prefix of the uncancelled run, then ctx error at poll k, then false forever)
            c.failing_input("cancelled run is not <prefix of the uncancelled run> + ctx.Err() at poll k + (nil,false) forever",
                            case_of_line(l, sv), "expected by the property: " + sv[:600])
        else:
            c.broken_correspondence(name, case_of_line(l, mv), "model (Cancel.next) verdict: " + mv[:600])
    if lines:
        step = max(1, len(lines) // 4)
        for i in range(0, len(lines), step):
            c.samples.append(dict(stream=name, case=lines[i][:300], verdict=outs[i][:200]))
    return st


def oneshot(c, exe_m, seed, tier):
    """one-shot iterators (wrong variable counts, compile errors through Query.Run): model c07/OneShot.v"""
    rc, out, cases, st = V.run_harness("c07", "c07oneshot", seed, 0, tier, name="c07oneshot")
    if rc != 0:
        c.broken_correspondence("harness-run c07oneshot", None, V.tail(out, 40))
        return st
    for v in (st.get("impl_violations") or [])[:10]:
        c.failing_input("impl-oracle (one-shot iterator): " + v.split(":")[0], v, v)
    for line, verdict in V.compare_model(c, exe_m, cases, "c07oneshot")[:10]:
        # the model is the property statement here: one error value, then (nil,false) forever, no poll, never ctx.Err()
        c.failing_input("one-shot iterator (wrong variable count / compile error) is not <one error value, then (nil,false) forever, "
                        "no poll of ctx.Done()>", line[:400], "expected " + verdict[:400])
    return st


def run(tier, seed, extra=None):
    c = V.Check(PROP, tier, seed)
    c.assumptions += [
        "the abstract [step] stands for one instruction of execute.go incl. fork popping; nothing is assumed about it",
        "tie to the code = correspondence: the model instantiated with the implementation's uncancelled trace predicts every cancelled run "
        "(all k up to the poll cap: 160 quick / 400 thorough; infinite programs are cut at the cap)",
        "a custom context.Context whose Done() counts calls: call number = poll index (env.ctx != context.Background() enables polling)",
        "coq/c01vm (other slice) is the concrete VM model of fragment F; c07/VMLink.v packages its step as the abstract [step]; stream c07vm: "
        "24 F programs x 10 inputs, pc/backtrack of every instruction fetch (from debug.go's trace) = the model's, and every cancelled run "
        "(all k) = Cancel.calls over that concrete step, up to the first error value",
        "instruction fetches are counted through debug.go's env.debugState (build tag gojq_debug, hook verif_vm_debug.go), which is the first "
        "statement of the loop body; oracle: fetches == polls after every Next",
    ]
    c.prove(PROPS)
    c.prove(PROPS_B)
    exe_h, hlog = V.build_harness("c07")
    st, std, stv = {}, {}, {}
    if exe_h is None:
        c.broken_correspondence("harness-build", None, V.tail(hlog, 40))
    else:
        exe_m, mlog = V.build_model("c07", "extract/ExtractC07.v", "c07model", deps=["c07/Run.v"])
        if exe_m is None:
            c.broken_correspondence("model-extraction", None, V.tail(mlog, 40))
        else:
            n = 60 if tier == "quick" else 2000
            st = correspond(c, exe_m, "c07", seed, n, tier, extra=extra)
            if not extra:
                st["oneshot"] = oneshot(c, exe_m, seed, tier)
            exe_d, dlog = build_debug_harness()
            if exe_d is None:
                c.broken_correspondence("debug-harness-build", None, V.tail(dlog, 40))
            else:
                # same programs with fetch counting on a sample of the cancellation points (slow binary: the debug
                # trace formats the stack at every instruction); only its implementation oracles are used
                std = correspond(c, exe_m, "c07dbg", seed, n if tier == "quick" else 150, "quick", extra=extra, name="c07dbg", oracles_only=True)
                if not extra:
                    # the abstract machine instantiated with the concrete step of coq/c01vm (c07/VMLink.v) on fragment-F programs:
                    # pc/backtrack of every instruction fetch and every cancelled run must be reproduced by the model
                    rc, out, cases, stv = V.run_harness("c07dbg", "c07vm", seed, 0, tier, name="c07vm")
                    if rc != 0:
                        c.broken_correspondence("harness-run c07vm", None, V.tail(out, 40))
                    else:
                        for v in (stv.get("impl_violations") or [])[:5]:
                            c.broken_correspondence("c07vm", None, v)
                        for line, verdict in V.compare_model(c, exe_m, cases, "c07vm")[:10]:
                            m = re.match(r"^\(c07vm (.*?) \(pcs ", line)
                            c.broken_correspondence("c07vm", "ast+input=%s" % (m.group(1)[:300] if m else "?"),
                                                    "Cancel.calls over c01vm's step (VMLink.vm_fetch): " + verdict[:600])
    rule = ("programs: ~290 fixed (finite, error mid-stream, try/catch, label/break, limit/first/until/while/repeat/recurse/range, "
            "reduce/foreach, paths/updates, user functions, native Go iterators, inputs, 60 infinite forms) + seeded generator x wrapper "
            "compositions; for each program EVERY cancellation poll k = 0..N (N = polls of the finite run, or the cap) and 3 extra Next calls; "
            "distinct = distinct program lines")
    return c.finish(rule, extra_cov=dict(harness_stats=st, harness_stats_fetch_counting=std, harness_stats_c07vm=stv))


def replay(path):
    d = json.load(open(path))
    print(json.dumps(d, indent=1)[:3000])
    case = d.get("case") or ""
    m = re.search(r"input=(.*?) prog=(.*)$", case, flags=re.S)
    if not m:
        return run("quick", d.get("seed", 1))
    return run("quick", d.get("seed", 1), extra=[m.group(2) + "\t" + m.group(1)])
