"""C04 is decided by the source-level de-optimisation check over the reference semantics (checks/c04.py) and by the
VM-level theorems of coq/c01vm (peephole soundness; compile-correctness of the optimising compiler model against the
optimisation-free denotation for fragment F).  The c01vm sub-check (proofs + instruction-list correspondence with compiler.go) runs here in every tier as it does under C01."""
import json, time
import verif as V
from wrap_c01 import _run


def run(tier, seed):
    t0 = time.time()
    import c04, c01vm
    rc1 = _run(c04, "C04sem", tier, seed, prop="C04")
    # the peephole / folding / inlining rewrites live in compiler.go: the instruction-list correspondence of
    # coq/c01vm (model of the optimising compiler) against VerifDumpCode runs here too, in every tier
    rc2 = _run(c01vm, "C04vm", tier, seed, prop="C04")
    V.merge_evidence("C04", ["C04sem", "C04vm"], tier, seed, time.time() - t0)
    return 1 if (rc1 or rc2) else 0


def replay(path):
    import c04
    return c04.replay(path)
