"""C04 is decided by the source-level de-optimisation check over the reference semantics (checks/c04.py) and by the
VM-level theorems of coq/c01vm (peephole soundness; compile-correctness of the optimising compiler model against the
optimisation-free denotation for fragment F).  Quick tier re-proves props/C01vm.v; the instruction-list correspondence
that ties coq/c01vm to compiler.go runs under C01 in every tier and here in the thorough tier."""
import json, time
import verif as V
from wrap_c01 import _run


def run(tier, seed):
    t0 = time.time()
    import c04, c01vm
    rc1 = _run(c04, "C04sem", tier, seed, prop="C04")
    if tier == "thorough":
        rc2 = _run(c01vm, "C04vm", tier, seed, prop="C04")
    else:
        c = V.Check("C04", tier, seed, evidence_name="C04vm")
        c.assumptions.append("coq/c01vm is tied to compiler.go/execute.go by the instruction-list and output correspondence of check C01 (sub-check c01vm)")
        c.prove("props/C01vm.v")
        rc2 = c.finish("theorems of coq/props/C01vm.v re-checked (peephole soundness, compile correctness for fragment F)")
    V.merge_evidence("C04", ["C04sem", "C04vm"], tier, seed, time.time() - t0)
    return 1 if (rc1 or rc2) else 0


def replay(path):
    import c04
    return c04.replay(path)
