"""C09 — parsing follows jq's grammar and String() round-trips (DESIGN.md §5 C09, docs/C09.md).
Also hosts the lexer model and the theorems C08_lex_total / C17_lex_offset reused by C08 and C17."""
import json, os, re, sys
import verif as V

PROP = "C09"
PROPS = "props/C09.v"
PROPS_B = "props/C09b.v"
PROPS_C = "props/C09c.v"
MODEL_DEPS = ["c09/Run.v"]


def corpus_file():
    """every argument string of cli/test.yaml (queries, but also flags and values: any byte string is a
    legitimate input of Parse) as a JSON array"""
    import yaml
    path = os.path.join(V.BUILD, "cases", "c09corpus.json")
    os.makedirs(os.path.dirname(path), exist_ok=True)
    xs, seen = [], set()
    try:
        tests = yaml.safe_load(open(os.path.join(V.REPO, "cli", "test.yaml"), encoding="utf-8"))
    except Exception as e:  # the corpus is optional coverage, not part of the claim
        tests = []
    for t in tests or []:
        for a in (t.get("args") or []):
            if isinstance(a, str) and a not in seen:
                seen.add(a)
                xs.append(a)
    json.dump(xs, open(path, "w"))
    return path, len(xs)


def hexsrc(line):
    m = re.match(r"^\((?:lex|ops|full|parse) \(h([0-9a-f ]*)\)", line)
    if not m:
        return None
    return bytes.fromhex(m.group(1).replace(" ", ""))


def show(line):
    b = hexsrc(line)
    return json.dumps(b.decode("utf-8", "backslashreplace")) if b is not None else line[:200]


def split_violation(v):
    """'kind "src" :: details' -> (case, details); the case text is the KNOWN_FINDINGS key"""
    case, _, details = v.partition(" :: ")
    return case, details


def run(tier, seed, explicit=None):
    c = V.Check(PROP, tier, seed)
    c.assumptions += [
        "goyacc resolves the shift/reduce conflicts of `expr: expr op expr` by comparing the precedence of the rule "
        "with that of the lookahead token (left: reduce, right: shift, nonassoc: error); the operator-precedence "
        "parser of coq/c09/Ops.v is that rule, and the ops stream compares it with the tables in parser.go on all "
        "operator pairs and triples",
        "the parser's only feedback into the lexer (inString = true after the ')' closing an interpolation) is "
        "emulated in VerifLex/Lexer.v by parenthesis matching; checked against the real parse (emul oracle)",
        "Go evaluates l.offset-1 before l.scanIdent() in `l.source[l.offset-1 : l.scanIdent()]` (the Go spec leaves "
        "the order open; the gc compiler does, and the lex stream would show otherwise)",
        "json.Unmarshal never fails on a string literal whose escapes scanString has validated (tokInvalid from "
        "unquote is not modelled; token kinds are compared on every generated string)",
        "C09c: the decoded value of a string token is encoding/json's unquoteBytes as transcribed in coq/c09/Unquote.v "
        "and encoder.encodeString as transcribed in coq/c09/Printer.v (standard-library behaviour: utf8 validity, "
        "surrogate pairs); both are compared with the implementation on every string of the full stream",
        "C09c: the semantic value of a token is what Lex stores in lval (token text, text[1:] for tokIndex, unquoted "
        "string, operator) — hand transcription in coq/c09/ParseFull.v tokval, compared through the ASTs",
    ]
    ok, log = V.regen(["grammar", "yytables"])
    if not ok:
        c.notes.append("translator failed: " + V.tail(log, 10))
    proved = c.prove(PROPS)
    # C09b: the goyacc automaton over the tables of the current parser.go (c08/LR.v driver) against the spec parser,
    # finite checks by vm_compute (coq/c09/LRTieProofs.v, ~1 min when the tables or the grammar changed, cached
    # otherwise)
    proved = c.prove(PROPS_B) and proved
    exe_h, hlog = V.build_harness("c09")
    st_ops, st_lex = {}, {}
    n_ops = n_lex = 0
    if exe_h is None:
        c.broken_correspondence("harness-build", None, V.tail(hlog, 40))
        return c.finish("none")
    exe_m, mlog = V.build_model("c09", "extract/ExtractC09.v", "c09model", deps=MODEL_DEPS)
    if exe_m is None:
        c.broken_correspondence("model-extraction", None, V.tail(mlog, 40))
    corpus, ncorpus = corpus_file()
    quick = tier == "quick"
    impl_viol = []
    # ---- operator sublanguage: impl vs model (current tables) and impl vs jq's table (property oracle)
    rc, out, cases, st_ops = V.run_harness("c09", "ops", seed, 400 if quick else 60000, tier,
                                           extra=explicit and [e.hex() for e in explicit], name="c09ops")
    if rc != 0:
        c.broken_correspondence("harness-run ops", None, V.tail(out, 40))
    else:
        impl_viol += st_ops.get("impl_violations") or []
        if exe_m:
            mism = V.compare_model(c, exe_m, cases, "c09ops")
            smism = V.compare_model(c, exe_m, cases, "c09ops", spec=True)
            if explicit:  # replayed sources need not belong to the operator sublanguage
                mism = [(l, v) for l, v in mism if v != "undecodable"]
                smism = [(l, v) for l, v in smism if v != "undecodable"]
            sbad = set(l for l, _ in smism)
            for line, verdict in smism[:10]:
                what = ("String() differs from the printer of the property" if verdict.startswith("(bad print")
                        else "operators do not bind as in jq")
                c.failing_input(what, "ops " + show(line),
                                "implementation: %s; jq's table expects: %s" % (line, verdict))
            for line, verdict in mism[:10]:
                if line not in sbad:
                    c.broken_correspondence("c09ops", "ops " + show(line), "implementation: %s; model: %s" % (line, verdict))
        n_ops = st_ops.get("lines", 0)
    # ---- lexer: impl token streams vs Lexer.v; implementation-only oracles on the full surface grammar
    if not explicit:
        rc, out, cases, st_lex = V.run_harness("c09", "lex", seed, 1200 if quick else 50000, tier,
                                               extra=["corpus=" + corpus], name="c09lex")
    else:
        rc, out, cases, st_lex = V.run_harness("c09", "one", seed, 0, tier, extra=[e.hex() for e in explicit], name="c09one")
    if rc != 0:
        c.broken_correspondence("harness-run lex", None, V.tail(out, 40))
    else:
        impl_viol += st_lex.get("impl_violations") or []
        for m in (st_lex.get("emul_mismatch") or [])[:5]:
            c.broken_correspondence("VerifLex feedback emulation vs real parse", "emul " + m.split(": ")[0], m)
        if exe_m:
            mism = V.compare_model(c, exe_m, cases, "c09lex")
            for line, verdict in mism[:10]:
                c.broken_correspondence("c09lex", "lex " + show(line), "model verdict: %s; implementation: %s" % (verdict, line[:600]))
        n_lex = st_lex.get("lines", 0)
    # ---- C09c: gojq.Parse and Query.String() for the FULL grammar against the parser model (goyacc driver over the
    # tables of the current parser.go + the transcribed actions of parser.go.y + Lexer.v) and the printer model
    # (every writeTo of query.go); on every accepted case also the model-level round trip
    # parse_prog (print_prog ast) = ast.  Finite theorems over the real tables: coq/props/C09c.v (cached by .vo).
    proved = c.prove(PROPS_C) and proved
    st_full, n_full = {}, 0
    exe_c, clog = V.build_model("c09c", "extract/ExtractC09c.v", "c09cmodel", deps=["c09/RunFull.v"])
    if exe_c is None:
        c.broken_correspondence("model-extraction c09c", None, V.tail(clog, 40))
    else:
        rc, out, cases, st_full = V.run_harness("c09", "full", seed, 400 if quick else 6000, tier,
                                                extra=([e.hex() for e in explicit] if explicit else ["corpus=" + corpus]),
                                                name="c09full")
        if rc != 0:
            c.broken_correspondence("harness-run full", None, V.tail(out, 40))
        else:
            mism = V.compare_model(c, exe_c, cases, "c09full")
            for line, verdict in mism[:8]:
                # replay on the implementation: its own oracles (roundtrip: Parse(q.String()) DeepEqual q, respace,
                # error offset/token) decide whether the property is violated on this source
                src = hexsrc(line)
                found = []
                if src is not None:
                    rc2, _, _, st2 = V.run_harness("c09", "one", seed, 0, tier, extra=[src.hex()], name="c09replay")
                    found = (st2.get("impl_violations") or []) if rc2 == 0 else []
                if found:
                    case, details = split_violation(found[0])
                    c.failing_input("implementation-only oracle (replay of a full-grammar model mismatch)", case,
                                    details + " ;; model verdict: " + verdict[:300])
                else:
                    c.broken_correspondence("c09full", "full " + show(line),
                                            "model verdict: %s; implementation: %s" % (verdict[:600], line[:600]))
            n_full = st_full.get("lines", 0)
    for v in impl_viol[:20]:
        case, details = split_violation(v)
        c.failing_input("implementation-only oracle", case, details)
    rule = ("ops: all 24 + 24^2 x3 (plain, left-parenthesised, right-parenthesised) + 24^3 operator strings around atoms "
            "and random deeper ones; lex/oracles: %d corpus strings of cli/test.yaml, ~%d hand-picked adjacency cases, "
            "generated programs of the full surface grammar, 2-6 re-spacings and 2-8 token/byte mutations of each, "
            "random byte strings over a lexical alphabet; full: the same corpus/matrices/generated/re-spaced/mutated programs "
            "and the print of every accepted one, AST + ParseError + String() bytes + model-level round trip against the "
            "full-grammar parser and printer models; distinct = distinct case lines" % (ncorpus, 330))
    return c.finish(rule, extra_cov=dict(harness_stats=dict(ops=st_ops, lex=st_lex, full=st_full)))


def go_unquote(q):
    """bytes of a Go %q literal (also accepts JSON string syntax)"""
    assert q[0] == '"' and q[-1] == '"'
    out, i, body = bytearray(), 0, q[1:-1]
    simple = {"a": 7, "b": 8, "f": 12, "n": 10, "r": 13, "t": 9, "v": 11, "\\": 92, '"': 34, "'": 39, "/": 47}
    while i < len(body):
        ch = body[i]
        if ch != "\\":
            out += ch.encode("utf-8")
            i += 1
            continue
        e = body[i + 1]
        if e in simple:
            out.append(simple[e]); i += 2
        elif e == "x":
            out.append(int(body[i + 2:i + 4], 16)); i += 4
        elif e == "u":
            out += chr(int(body[i + 2:i + 6], 16)).encode("utf-8", "surrogatepass"); i += 6
        elif e == "U":
            out += chr(int(body[i + 2:i + 10], 16)).encode("utf-8", "surrogatepass"); i += 10
        elif e in "01234567":
            out.append(int(body[i + 1:i + 4], 8)); i += 4
        else:
            raise ValueError("bad escape in " + q)
    return bytes(out)


def replay(path):
    d = json.load(open(path))
    print(json.dumps(d, indent=1))
    case = d.get("case") or ""
    m = re.match(r'^(\w+) (".*")$', case, flags=re.S)
    if not m:
        print("no replayable source recorded; re-running the check with the recorded seed")
        return run(d.get("tier", "quick"), d.get("seed", 1))
    b = go_unquote(m.group(2))
    print("replaying source:", b)
    return run("quick", d.get("seed", 1), explicit=[b])
