"""C04 — compiler optimisations never change what a query outputs (GROUNDWORK; docs/C04.md).

No hook in compiler.go.  harness/sem (stream c04) compares every generated program with variants in which a
semantics-preserving SOURCE rewrite defeats the precondition of one optimisation (implementation-only oracle:
identical observations), and writes original and variants as ordinary cases judged by the extracted reference
semantics coq/sem.  coq/props/C04.v proves the rewrites semantics-preserving in Sem and the folder model sound."""
import json, os, re, sys
import verif as V
import c01

PROP = "C04"
PROPS = "props/C04.v"


def run(tier, seed):
    c = V.Check(PROP, tier, seed)
    c.assumptions += [
        "the de-optimising rewrites are semantics preserving (proved in the reference semantics for q -> (q|.) in operand, "
        "if, array/object-literal and index positions; assumed for function arguments and function bodies)",
        "a rewrite defeats the optimisation it targets (read off compiler.go: folding needs single opconst codes, "
        "constant index needs toIndexKey != nil, inlining needs a 2- or 3-instruction lambda, tail calls need the call to be last, "
        "if-simplification needs two opconst branches); optimizeCodeOps (peephole) and jump threading are only exercised, not toggled",
        "known finding F3: error class/message of a failing constant-path `=` (projected away narrowly, canonical case reported)",
    ]
    exe_h, hlog = V.build_harness("sem")
    st, mism, nskip, ntotal, reasons = {}, [], 0, 0, {}
    if exe_h is None:
        c.broken_correspondence("harness-build", None, V.tail(hlog, 40))
    else:
        c01.regen_builtins(c, exe_h)
    c.prove(PROPS)
    if exe_h is not None:
        exe_m, mlog = V.build_model("sem", "extract/ExtractSem.v", "semmodel", deps=["sem/Run.v"])
        if exe_m is None:
            c.broken_correspondence("model-extraction", None, V.tail(mlog, 40))
        else:
            n = 500 if tier == "quick" else 12000
            rc, out, cases, st = V.run_harness("sem", "c04", seed, n, tier, name="c04-%s-%d" % (tier, os.getpid()))
            if rc != 0:
                c.broken_correspondence("harness-run", None, V.tail(out, 40))
            else:
                mism, nskip, ntotal, reasons = c01.judge(c, exe_m, cases, "c04")
                if ntotal != st.get("lines"):
                    c.broken_correspondence("c04", None, "judged %s cases but the harness wrote %s" % (ntotal, st.get("lines")))
                c01.cleanup(cases)
                for v in (st.get("impl_violations") or []):
                    c.failing_input("optimised and de-optimised program differ (or panic)", v, v)
    for line, verdict in mism[:20]:
        c.failing_input("implementation output differs from the reference semantics", line, "model: " + verdict[:2000])
    rate = (nskip / ntotal) if ntotal else 0.0
    if ntotal and rate > c01.MAX_SKIP_RATE:
        c.broken_correspondence("c04", None, "skip rate %.3f above %.2f" % (rate, c01.MAX_SKIP_RATE))
    rule = ("programs biased to the preconditions of the optimisations (literal arrays/objects incl. nested and with one "
            "non-constant element, one-instruction arguments, self calls in and out of tail position, constant and near-constant "
            "paths, constant-branch ifs, signed literals) + random C01 programs + the queries of cli/test.yaml; each with the "
            "variants R1..R7 and all-of-R1..R6 x 3 inputs; distinct = distinct case lines (original and variants)")
    return c.finish(rule, extra_cov=dict(harness_stats={k: v for k, v in st.items() if k != "impl_violations"},
                                         cases=ntotal, skipped=nskip, skip_rate=round(rate, 4),
                                         skip_reasons=dict(sorted(reasons.items(), key=lambda kv: -kv[1])[:15]),
                                         mismatches=len(mism)))


def replay(path):
    d = json.load(open(path))
    print(json.dumps({k: (v if k != "case" else str(v)[:800]) for k, v in d.items()}, indent=1))
    return run("quick", d.get("seed", 1))
