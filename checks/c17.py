"""C17 — reported error positions point at the offending byte (docs/C17.md)."""
import json, os, re, sys
import verif as V

PROP = "C17"
PROPS = "props/C17.v"
PROPS_B = "props/C17b.v"    # integration with the lexer model of C09: query parse errors (coq/integ/QueryErrPos.v)
DEPS = ["c17/Run.v"]

# canonical keys of the case families known to fail on the unchanged tree (the lead records them in
# KNOWN_FINDINGS.txt or repairs the code); every member of a family is reported under its canonical
# key, but only while the canonical case itself still fails.
FAMILY_KEY = {
    "cr-window:seek": 'cr-window seek docsize=100 ndocs=200 term=CR err={"b": tru }',
    "cr-window:pipe": 'cr-window pipe docsize=100 ndocs=200 term=CR err={"b": tru } reads=full',
    "stream-offset": 'stream-offset seek input={"b": tru }',
}
WHAT = {
    "pipe-reset": "non-seekable input: the window trimming dropped read-ahead that contains the offending byte "
                  "(wrong line and/or empty excerpt) — D7, repaired by e216f69, reintroduced?",
    "cr-window": "input longer than the window with lone-CR line terminators: the bytes before the window are counted "
                 "with '\\n' only, getLineByOffset counts CR too (line number too small)",
    "yaml-char-index": "--yaml-input: go-yaml's ParserError/UnmarshalError.Index counts characters; the report is right for BYTE "
                       "number Index but not for the character (repaired by 652e0ad, reintroduced?)",
    "stream-offset": "--stream: the offset of a SyntaxError returned through dec.Token() is not the absolute 1-based "
                     "offset of the offending byte, cli/inputs.go uses it as such (wrong caret, often wrong line)",
}


def transport_of(line):
    m = re.match(r"^\(json \((\w+)", line)
    return m.group(1) if m else "?"


def short(line, n=3000):
    return line if len(line) <= n else line[:n] + "...[%d chars]" % len(line)


def stream(c, exe_m, name, n, tier, seed, extra=None, canon=False):
    """run one harness stream, judge impl vs model and impl vs spec; returns (cases, mism, smism, stats)"""
    rc, out, cases, st = V.run_harness("c17", name, seed, n, tier, extra=extra, name="c17" + name, timeout=3000)
    if rc != 0:
        c.broken_correspondence("harness-run:" + name, None, V.tail(out, 40))
        return None, [], [], st
    mism = V.compare_model(c, exe_m, cases, "c17" + name)
    smism = V.compare_model(c, exe_m, cases, "c17" + name, spec=True)
    return cases, mism, smism, st


def run(tier, seed):
    os.environ["RUNEWIDTH_EASTASIAN"] = "0"      # go-runewidth reads the locale otherwise
    c = V.Check(PROP, tier, seed)
    c.assumptions += [
        "go-runewidth StringWidth is an uninterpreted function of the byte string (Section variable swidth); the "
        "correspondence takes its values for the prefixes of the printed excerpt from the library itself",
        "unicode/utf8 DecodeRuneInString/RuneStart as modelled from the Go sources (coq/c17/ErrPos.v decode_rune)",
        "encoding/json reports the 1-based offset of the first offending byte (SyntaxError.Offset) / ErrUnexpectedEOF; "
        "the number of bytes it has read when it delivers a value is arbitrary (universally quantified in the "
        "theorems, observed by the harness reader in the correspondence)",
        "io.TeeReader/bytes.Buffer (Next keeps the unread tail)/io.LimitReader/io.Copy/Seek semantics as modelled in "
        "coq/c17/Window.v; dec.InputOffset() = bytes consumed, before the offending byte; reads of a "
        "seekable file do not fail and the file is not modified during the run",
        "go-yaml's ParserError.Index/UnmarshalError.Index and gojq.ParseError.Offset/Token are taken as given "
        "(the lexer is modelled by C08/C09; here: implementation-side oracle on generated bad queries)",
    ]
    proved = c.prove(PROPS)
    # C17b needs the lexer model of C09, which imports the grammar tables regenerated from the current sources
    ok, log = V.regen(["grammar", "yytables"])
    if not ok:
        c.notes.append("translator failed: " + V.tail(log, 10))
    proved = c.prove(PROPS_B) and proved
    exe_h, hlog = V.build_harness("c17")
    stats = {}
    if exe_h is None:
        c.broken_correspondence("harness-build", None, V.tail(hlog, 40))
        return c.finish(RULE, extra_cov=dict(harness_stats=stats))
    exe_m, mlog = V.build_model("c17", "extract/ExtractC17.v", "c17model", deps=DEPS)
    if exe_m is None:
        c.broken_correspondence("model-extraction", None, V.tail(mlog, 40))
        return c.finish(RULE, extra_cov=dict(harness_stats=stats))
    quick = tier == "quick"

    # 1. canonical cases of the known families (also the controls on which the property holds)
    cases, mism, smism, st = stream(c, exe_m, "canon", 0, tier, seed)
    stats["canon"] = st
    names = st.get("canon_names") or []
    canon_failing = set()
    if cases:
        lines = [l.rstrip("\n") for l in open(cases)]
        byline = dict(zip(lines, names))
        for line, verdict in smism:
            name = byline.get(line, short(line))
            canon_failing.add(name)
            fam = ("cr-window" if name.startswith("cr-window") else "stream-offset" if name.startswith("stream-offset")
                   else "yaml-char-index" if "yaml-char-index" in name
                   else "pipe-reset" if "pipe-reset" in name else None)
            c.failing_input(WHAT.get(fam, "reported position violates the property on a canonical case"), name,
                            "spec verdict %s on the canonical input; stderr is in the case line: %s" % (verdict, short(line, 1200)))
        for line, verdict in mism:
            c.broken_correspondence("c17canon", short(line), "model predicts a different stderr header: " + short(verdict, 400))

    # 2. generated streams
    members = {}
    # crwin: the fixed neighbourhood of finding cr-window (terminators CR / CR LF / LF / mixed x document sizes x
    # offsets around the thresholds of getContents x a terminator exactly at a chunk end x both transports, short
    # reads).  The harness observes which counting of the dropped bytes the tree under test uses (probe, atom
    # `lfcount` in the transport list) and the MODEL verdict is computed with that instance of Window.v, so the
    # model stream is silent on both the repaired and the unrepaired tree; on an unrepaired tree the SPEC verdict
    # fails for the CR members, which are then folded into the two canonical cr-window keys below.
    plan = [("lbo", 150 if quick else 500), ("json", 2000 if quick else 12000), ("crwin", 0),
            ("query", 0), ("tokens", 0), ("modules", 0), ("yaml", 0)]
    for name, n in plan:
        cases, mism, smism, st = stream(c, exe_m, name, n, tier, seed)
        stats[name] = st
        sbad = set(l for l, _ in smism)
        reported = 0
        for line, verdict in smism:
            fam = None
            m = re.match(r"^\(bad ([\w-]+)", verdict)
            if m and m.group(1) in ("stream-offset", "cr-window", "yaml-char-index"):
                fam = m.group(1)
            key = None
            if fam == "stream-offset":
                key = FAMILY_KEY[fam]
            elif fam == "cr-window":
                key = FAMILY_KEY.get("cr-window:" + ("pipe" if transport_of(line) == "pipe" else "seek"))
            if key and key in canon_failing:
                members[key] = members.get(key, 0) + 1     # already reported through its canonical case
            elif reported < 10:
                reported += 1
                c.failing_input("reported line/excerpt/caret differs from the specification (%s)" % verdict,
                                short(line), "spec verdict: " + verdict)
        nb = 0
        for line, verdict in mism:
            if line not in sbad and nb < 10:
                nb += 1
                c.broken_correspondence("c17" + name, short(line), "model expected: " + short(verdict, 600))
        # implementation-only oracles of the harness (lexer_offset_token)
        for v in (st.get("impl_violations") or []):
            what = ("ParseError Offset/Token or the command's caret do not identify the rejected token"
                    if v.startswith("token-position") or v.startswith("module-position") else "ParseError Offset/Token do not identify the offending token")
            m = re.search(r" ((?:q|file)=\".*)$", v)
            c.failing_input(what, (v.split(" :: ")[0] + " " + m.group(1)) if m else v, v)

    # 3. thorough: the built binary with real files and pipes
    if not quick:
        gbin = os.path.join(V.BUILD, "gojq-c17")
        rc, out = V.sh(["go", "build", "-o", gbin, "./cmd/gojq"], cwd=V.REPO, env=V.go_env(), timeout=600)
        if rc != 0:
            c.broken_correspondence("binary-build", None, V.tail(out, 30))
        else:
            cases, mism, smism, st = stream(c, exe_m, "bin", 400, tier, seed, extra=[gbin])
            stats["bin"] = st
            for line, verdict in smism[:10]:
                m = re.match(r"^\(bad ([\w-]+)", verdict)
                fam = m.group(1) if m else None
                key = FAMILY_KEY.get("cr-window:seek") if fam == "cr-window" else None
                if key and key in canon_failing:
                    members[key] = members.get(key, 0) + 1
                else:
                    c.failing_input("binary: reported position differs from the specification (%s)" % verdict, short(line), verdict)
            sbad = set(l for l, _ in smism)
            for line, verdict in mism[:10]:
                # on a real pipe the bytes read at the time of the error are not observable, so the quoted line may be
                # cut earlier than the model (given "everything read") predicts: judged against the spec only
                if line not in sbad and not line.startswith("(json (pipe real"):
                    c.broken_correspondence("c17bin", short(line), "model expected: " + short(verdict, 600))
    stats["family_members_seen"] = members
    return c.finish(RULE, extra_cov=dict(harness_stats=stats))


RULE = ("lbo: getLineByOffset through the hook on generated multi-line strings (ASCII / multi-byte, wide, combining, "
        "U+FFFD / invalid UTF-8; LF, CRLF, CR, mixed; line lengths around 0-3, 44-72, 100-240) x every offset from -1 to "
        "len+2 (long strings: line and window boundaries + random); json: well-formed multi-line documents (40 B - 66 KB, "
        "incl. one-long-line documents) x corruption positions (every byte for small, line boundaries/ends/random for "
        "large) x 4 corruption kinds (control byte, '?', '}', truncation) x preceding valid documents of 0 - 66 KB total "
        "in 10/100/1000/5000-byte documents x transport (bytes.Reader = seekable, non-seekable reader with 7 read "
        "policies, file argument; thorough: built binary with file / redirected file / real pipe) x LF/CRLF/CR; crwin: "
        "fixed neighbourhood of the cr-window finding: 12/100/1000/5000-byte documents terminated by CR / CR LF / LF / a "
        "mix (incl. CR CR LF, LF CR) x faulty document starting around 12288, 16384, 20480, 28672, 32768, 49152 x error on "
        "its first/second line x a terminator exactly at the end of getContents' first and second chunk (CR LF split "
        "there) x seekable / file / non-seekable with full and short reads; the model instance (counting of the dropped "
        "bytes before or after the repair) is selected by a harness probe of the tree under test; query: "
        "17 kinds of bad token injected at token boundaries of 7 multi-line queries + truncation at every byte, via the "
        "argument and via -f, plus gojq.Parse Offset/Token identity; tokens: 85 token texts (every operator incl. //= ?// |= "
        "+= .., brackets, keywords, identifiers/variables with and without module prefix, $__loc__, formats, number shapes, "
        ".foo, strings, interpolated-string openings) x 7 rejecting contexts (3 where the grammar admits a single token, "
        "after an operator, after a complete term; multi-line prefixes) x 3 continuations (end of query, more tokens, new "
        "line) x <arg>/-f: Offset/Token must be exactly the token from the harness table, caret column = display width "
        "before its first byte; modules: the rejected-token placements inside module files (import, include, ~/.jq) and -f "
        "files with 8 prefixes (UTF-8 BOM, comments, CR LF / CR lines, multi-byte and wide text on the same line): file name, "
        "line, excerpt and caret against the token's first byte in the file's bytes; data modules (.json with an injected "
        "fault, incl. BOM) through the compile-error path, judged by model and spec; yaml (LF/CRLF/CR, NEL/LS/PS in "
        "quoted and plain scalars and comments, tabs, BOM, wide text): 10 faults at character positions of 3 documents; "
        "every case judged by the extracted model (exact stderr header) and by the specification oracle; "
        "distinct = distinct case lines")


def replay(path):
    d = json.load(open(path))
    print(json.dumps(d, indent=1)[:6000])
    case = d.get("case") or ""
    os.environ["RUNEWIDTH_EASTASIAN"] = "0"
    exe_h, hlog = V.build_harness("c17")
    exe_m, mlog = V.build_model("c17", "extract/ExtractC17.v", "c17model", deps=DEPS)
    if exe_h is None or exe_m is None:
        print("cannot build harness/model")
        return 2
    c = V.Check(PROP, "quick", d.get("seed", 1))
    if case.startswith("(json ") and not case.endswith("chars]"):
        tmp = os.path.join(V.BUILD, "cases", "c17replay.in")
        os.makedirs(os.path.dirname(tmp), exist_ok=True)
        open(tmp, "w").write(case + "\n")
        rc, out, cases, st = V.run_harness("c17", "replay", d.get("seed", 1), 1, "quick", extra=[tmp], name="c17replay")
        if rc != 0:
            print(out)
            return 2
        mism = V.compare_model(c, exe_m, cases, "c17replay")
        smism = V.compare_model(c, exe_m, cases, "c17replay", spec=True)
        print("implementation re-run on the recorded input:")
        print("  model verdict:", mism[0][1][:400] if mism else "ok")
        print("  spec  verdict:", smism[0][1] if smism else "ok")
        return 1 if (mism or smism) else 0
    # canonical cases and the other streams are deterministic: re-run the stream that produced the case
    rc, out, cases, st = V.run_harness("c17", "canon", d.get("seed", 1), 0, "quick", name="c17canon")
    names = st.get("canon_names") or []
    if case in names:
        smism = V.compare_model(c, exe_m, cases, "c17canon", spec=True)
        lines = [l.rstrip("\n") for l in open(cases)]
        line = lines[names.index(case)]
        v = [x for x in smism if x[0] == line]
        print("canonical case %r: spec verdict %s" % (case, v[0][1] if v else "ok"))
        return 1 if v else 0
    print("re-running the check with the recorded seed:", d.get("seed"))
    return run("quick", d.get("seed", 1))
