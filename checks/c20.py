"""C20 — Iteration and tail recursion run in bounded interpreter space (docs/C20.md)."""
import json, os, re, sys
import verif as V

PROP = "C20"
PROPS = "props/C20.v"
COMPONENTS = ["forks", "stack.data", "scopes.data", "paths.data", "values", "stack-depth", "scope-depth", "path-depth", "offset"]


def unhex(h):
    return "" if h == "-" else bytes.fromhex(h).decode("utf-8", "replace")


def fp_fields(line):
    m = re.match(r"^\(fp (\S+) (\d+) (\S+) \(a ([^)]*)\) \(b ([^)]*)\)", line)
    if not m:
        return None
    return dict(src=unhex(m.group(1)), n=int(m.group(2)), mode=m.group(3),
                a=[int(x) for x in m.group(4).split()], b=[int(x) for x in m.group(5).split()])


def fp_case(line):
    f = fp_fields(line)
    return "n=%d mode=%s prog=%s" % (f["n"], f["mode"], f["src"]) if f else line[:200]


def gen_evm_forms(c):
    """coq/gen/GenEvmForms.v: the erased instruction lists of the C20 forms as the compiler of the current tree emits them
    (written by the harness, stream evmgen; rewritten only when the content changed)."""
    exe = os.path.join(V.BUILD, "harness-c20")
    tmp = os.path.join(V.BUILD, "GenEvmForms.v.new")
    rc, out = V.sh([exe, "evmgen", "-out", tmp], env=V.go_env(), timeout=600)
    if rc != 0 or not os.path.exists(tmp):
        c.notes.append("evmgen failed: " + V.tail(out, 10))
        return False
    dst = os.path.join(V.COQ, "gen", "GenEvmForms.v")
    os.makedirs(os.path.dirname(dst), exist_ok=True)
    new = open(tmp).read()
    if not os.path.exists(dst) or open(dst).read() != new:
        open(dst, "w").write(new)
    return True


def build_debug_harness():
    """second harness binary with the interpreter's own instruction trace compiled in (tags verif,gojq_debug):
    gives the pc / an instruction-fetch counter independent of ctx.Done()"""
    return V.build_harness("c20", tags="verif gojq_debug", out="harness-c20dbg")


def run(tier, seed, extra=None):
    c = V.Check(PROP, tier, seed)
    c.assumptions += [
        "vm/Stack.v is a hand transcription of stack.go and scope_stack.go (same code shape, one generic model); validated by the stk "
        "stream: random LIFO-disciplined push/pop/top/empty/save/restore sequences on the real types through the verif hook, state "
        "(index, limit, len data, returned value, chain) compared after EVERY operation, Go panic <-> model None",
        "c20/Frames.v is a hand transcription of opcall/opcallrec/opscope/opret/popscope of execute.go; it is not executed against the "
        "implementation in isolation (no hook can run opscope alone); its consequences (constant scope depth/offset under tail calls, "
        "growth under a pending fork) are what the fp stream measures",
        "footprint probe: a never-cancelled context.Context whose Done() (polled once per VM instruction) samples VerifFootprint of the "
        "live iterator; peak over every instruction of the run at loop count n and 8n; oracle: peak(8n) <= peak(n) + 2 (values: + 4) per component",
        "coq/c01vm (other slice) is the concrete VM/compiler model for fragment F; the vmf stream ties it to the implementation for the "
        "forms of c20/VMForms.v: instruction list (VerifDumpCode) = compile(AST) = compile(the Coq term of the theorem), and the "
        "per-instruction sequence (len forks, stack depth, scope depth, len values) + emitted values of the implementation = the model's, exactly",
        "c20/EVM.v (erased VM) is a hand transcription of execute.go's Next loop modulo data; tie to the implementation = stream evmtrace: "
        "for each generated form and n in {0,1,2,5,9} (thorough: +23,64) EVERY instruction fetch of the implementation (pc, backtrack from "
        "debug.go's trace; len forks, stack/scopes index, limit, len data, offset, len values from VerifFootprint) must be a path of the "
        "nondeterministic machine from einit, and within the certified bound; the code in the line must equal the generated constant",
        "'tail position' = the self call is reached with no fork pending above the frame (hypothesis of tailcall_frame_reuse); forms whose "
        "call follows a pending choice point (try, ?, label, first(..), left of //, left of comma) are measured and recorded, not judged",
    ]
    exe_h, hlog = V.build_harness("c20")
    if exe_h is not None:
        gen_evm_forms(c)       # before the proofs: props/C20.v is proved about the regenerated code
    c.prove(PROPS)
    st_fp, st_stk, st_vmf, st_evm, evm_bounds, pend, evm_cert = {}, {}, {}, {}, {}, [], {}
    if exe_h is None:
        c.broken_correspondence("harness-build", None, V.tail(hlog, 40))
    else:
        exe_m, mlog = V.build_model("c20", "extract/ExtractC20.v", "c20model", deps=["c20/Run.v"])
        if exe_m is None:
            c.broken_correspondence("model-extraction", None, V.tail(mlog, 40))
        else:
            # --- stack model vs the real stack / scopeStack
            if not extra:
                n = 3000 if tier == "quick" else 300000
                rc, out, cases, st_stk = V.run_harness("c20", "stk", seed, n, tier, name="c20stk")
                if rc != 0:
                    c.broken_correspondence("harness-run stk", None, V.tail(out, 40))
                else:
                    for line, verdict in V.compare_model(c, exe_m, cases, "c20stk")[:10]:
                        # impl != Stack.v: the theorems are about a stale model; try to turn it into a property violation
                        c.broken_correspondence("c20stk", line[:1500], "Stack.v verdict: " + verdict[:400])
            # --- the forms of coq/c20/VMForms.v on the concrete VM model (coq/c01vm): compiled code and per-instruction footprint
            if not extra:
                rc, out, cases, st_vmf = V.run_harness("c20", "vmf", seed, 6 if tier == "quick" else 300, tier, name="c20vmf")
                if rc != 0:
                    c.broken_correspondence("harness-run vmf", None, V.tail(out, 40))
                else:
                    for line, verdict in V.compare_model(c, exe_m, cases, "c20vmf")[:10]:
                        if "exceeds-certified-bound" in verdict:
                            c.failing_input("implementation footprint exceeds the bound proved for the compiled code of this form",
                                            line[:600], verdict[:300])
                        else:
                            c.broken_correspondence("c20vmf", line[:1500], "c01vm VM / compile model verdict: " + verdict[:600])
            # --- the erased VM (c20/EVM.v) against the implementation, instruction by instruction (fetch-tracing binary)
            if not extra:
                exe_d, dlog = build_debug_harness()
                if exe_d is None:
                    c.broken_correspondence("debug-harness-build", None, V.tail(dlog, 40))
                else:
                    rc, out, cases, st_evm = V.run_harness("c20dbg", "evmtrace", seed, 0, tier, name="c20evm")
                    if rc != 0:
                        c.broken_correspondence("harness-run evmtrace", None, V.tail(out, 40))
                    else:
                        for v in (st_evm.get("impl_violations") or [])[:5]:
                            c.broken_correspondence("c20evm", None, v)
                        for line, verdict in V.compare_model(c, exe_m, cases, "c20evm")[:10]:
                            m = re.match(r"^\(evmtrace (\S+) ", line)
                            if "exceeds-certified-bound" in verdict:
                                c.failing_input("implementation footprint exceeds the bound certified for the compiled code of this form",
                                                "evm form=%s %s" % (m.group(1) if m else "?", verdict), verdict)
                            else:
                                c.broken_correspondence("c20evm", "form=%s" % (m.group(1) if m else "?"),
                                                        "erased VM verdict: " + verdict[:400] + " ; line: " + line[:300])
                # certified bounds of the generated constants (evidence) and the precision check: growing forms are not certifiable
                names = re.findall(r'\("(\w+)"%string, code_', open(os.path.join(V.COQ, "gen", "GenEvmForms.v")).read())
                qf = os.path.join(V.BUILD, "cases", "c20evmbound.cases")
                open(qf, "w").write("".join("(evmbound %s 1)\n" % n for n in names))
                _, bounds = V.run_model(exe_m, qf)
                evm_bounds = dict(zip(names, bounds))
                for n, b in evm_bounds.items():
                    if n.startswith("grow_") and b != "none":
                        c.notes.append("precision: form %s (expected to grow) is now certified: %s" % (n, b))
                    if not n.startswith("grow_") and not b.startswith("(bound"):
                        c.broken_correspondence("c20evm", "form=%s" % n, "the generated code of this form is not certified bounded: " + b)
            # --- footprint at n and 8n
            ngen = 50 if tier == "quick" else 1500   # generated tail-recursive definitions
            rc, out, cases, st_fp = V.run_harness("c20", "fp", seed, ngen, tier, extra=extra, name="c20fp")
            if rc != 0:
                c.broken_correspondence("harness-run fp", None, V.tail(out, 40))
            else:
                # the verified certifier applied to the compiled code of every measured program (lines (evmcert ...)):
                # split them off, the fp judge sees the (fp ...) lines only
                cert_cases = cases + ".cert"
                fp_lines, cert_lines = [], []
                for l in open(cases):
                    (cert_lines if l.startswith("(evmcert ") else fp_lines).append(l)
                open(cases, "w").write("".join(fp_lines))
                open(cert_cases, "w").write("".join(cert_lines))
                mism_fp = V.compare_model(c, exe_m, cases, "c20fp")
                grows = set(f["src"] for f in (fp_fields(l) for l, _ in mism_fp) if f)
                pend_srcs = set(f["src"] for f in (fp_fields(l) for l in fp_lines) if f and f["mode"] == "pend")
                evm_cert = cert_stream(c, exe_m, cert_cases, grows, pend_srcs)
                for line, verdict in mism_fp[:10]:
                    f = fp_fields(line)
                    det = verdict
                    if f:
                        det += " ; peak at n=%d: %s ; at 8n=%d: %s" % (
                            f["n"], dict(zip(COMPONENTS, f["a"])), 8 * f["n"], dict(zip(COMPONENTS, f["b"])))
                    c.failing_input("VM footprint grows with the number of iterations", fp_case(line), det)
                for v in (st_fp.get("impl_violations") or [])[:10]:
                    f = v.split("\t")
                    case = "n=%s mode=%s prog=%s" % (f[2], f[3], f[1]) if len(f) >= 5 else v
                    c.failing_input("impl-oracle: " + (f[4] if len(f) >= 5 else v), case, v)
                for l in open(cases):
                    f = fp_fields(l)
                    if f and f["mode"] == "pend":
                        pend.append(dict(prog=f["src"], n=f["n"], peak_n=dict(zip(COMPONENTS, f["a"])),
                                         peak_8n=dict(zip(COMPONENTS, f["b"]))))
    rule = ("fp: 75 fixed iteration forms (range, while, until, repeat, recurse, limit, first, last, nth, skip, isempty/any/all, "
            "reduce, foreach, inputs via WithInputIter, a native Go iterator, label/break, tail-recursive parameterless definitions: "
            "under if/elif/else, `//` right side, comma right branch, after bindings and destructuring, nested and mutually nested "
            "definitions) + seeded generated tail-recursive definitions (guard form x step x nesting), each run at n and 8n with the peak "
            "footprint sampled at every instruction; stk: random operation sequences (3..72 ops, with and without pops of the empty stack); "
            "distinct = distinct case lines")
    return c.finish(rule, extra_cov=dict(harness_stats_fp=st_fp, harness_stats_stk=st_stk, harness_stats_vmf=st_vmf, harness_stats_evmtrace=st_evm, evm_certified_bounds=evm_bounds, evm_certified_programs=evm_cert,
                                         informational_pending_choice_point_forms=pend))


def cert_stream(c, exe_m, cert_cases, grows, pend_srcs):
    """Every program the fp stream measures goes, as the erased code the current compiler emits for it, through the extracted
    VERIFIED certifier (EVM.certify; theorem C20_evm_certify_sound_partial quantifies over all code): a certificate C is a
    proof that forks + stack.data + scopes.data + values <= C at every reachable state, i.e. for every loop count.  The
    implementation's measured peaks must lie within C (else the erased machine no longer describes execute.go), a program the
    fp oracle sees growing must not be certifiable, and a tail-recursive definition that does not grow must be certified."""
    lines, outs = V.run_model(exe_m, cert_cases)
    st = dict(programs=len(lines), certified=0, uncertified=0, skipped_unsupported=0, max_bound=0, uncertified_programs=[])
    if len(lines) != len(outs):
        c.broken_correspondence("c20cert", None, "model produced %d verdicts for %d cases" % (len(outs), len(lines)))
        return st
    for l, o in zip(lines, outs):
        m = re.match(r"^\(evmcert (\S+) ", l)
        src = bytes.fromhex(m.group(1)).decode("utf-8", "replace") if m and m.group(1) != "-" else ""
        c.note_case(l, True)
        mc = re.match(r"^\(certified (\d+)\)$", o)
        if mc:
            st["certified"] += 1
            st["max_bound"] = max(st["max_bound"], int(mc.group(1)))
            if src in grows:
                c.broken_correspondence("c20cert", "prog=%s" % src, "the footprint of this program grows on the implementation although its "
                                        "compiled code is certified bounded by %s: the erased machine is not execute.go" % mc.group(1))
        elif o == "uncertified":
            st["uncertified"] += 1
            st["uncertified_programs"].append(src[:200])
            # required: tail-recursive definitions whose step creates no data-dependent choice point (the erased machine forgets
            # the data, so `//`, `?//`, try, `?`, label, first/limit may leave a fork pending on an abstract path that no concrete
            # run takes: such programs are recorded as uncertified, not judged), that are not in the informational category
            # (mode pend) and that do not grow on the implementation
            choice = any(t in src for t in ("//", "try", "?", "label", "first(", "limit(", "isempty(", "any(", "all("))
            if src not in grows and src not in pend_srcs and not choice and re.match(r"^def [fg]: ", src):
                # a tail-recursive definition that does not grow at n and 8n: the certificate is a proof obligation of this run
                c.broken_correspondence("c20cert", "prog=%s" % src, "no certificate for the compiled code of this tail-recursive "
                                        "definition (its footprint at n and 8n does not grow): the bound for every n is no longer proved")
        elif o.startswith("(skip"):
            st["skipped_unsupported"] += 1
        elif "exceeds-certified-bound" in o:
            c.broken_correspondence("c20cert", "prog=%s" % src, "measured footprint exceeds the bound certified for the compiled code: " + o)
        else:
            c.broken_correspondence("c20cert", "prog=%s" % src, "certifier verdict: " + o[:300])
    if lines:
        c.samples.append(dict(stream="c20cert", case=lines[0][:600], verdict=outs[0]))
    st["uncertified_programs"] = st["uncertified_programs"][:40]
    return st


def replay(path):
    d = json.load(open(path))
    print(json.dumps(d, indent=1)[:3000])
    case = d.get("case") or ""
    m = re.match(r"^n=(\d+) mode=(\S+) prog=(.*)$", case, flags=re.S)
    if not m:
        return run("quick", d.get("seed", 1))
    return run("quick", d.get("seed", 1), extra=["%s\t%s\t%s" % (m.group(1), m.group(2), m.group(3))])
