"""C18 — modules behave as textual inclusion with namespacing (docs/C18.md)."""
import json, os, re, sys
import verif as V

PROP = "C18"
PROPS = "props/C18.v"

# Families of disagreement between the implementation and the lexical specification that exist on the
# unchanged tree; the table model (coq/c18/ModModel.v) reproduces them (props/C18.v: C18_leak_example).
# Each family is reported ONCE under a fixed case text (the fixed reproducers are the first trees of the stream).
LEAK_CASE = ('vis: main `import "f1" as m0; import "f2" as m1; m1::f1` with f1.jq `def f0: 101, [];` and f2.jq '
             '`def f1: 201, [[limit(2; m0::f0)]];` compiles and binds m0::f0 inside f2 to the importer\'s import of f1 '
             '(lexical reading: m0 is not visible inside f2, compile error); same with the importer\'s data variable: '
             'main `import "d0" as $d0; import "f1" as m1; m1::f1` with f1.jq `def f1: 101, [{v: $d0[0]}];`')
INCDATA_CASE = ('vis: main `include "f1"; {v: $d0[0]}` with f1.jq `import "d0" as $d0; def f0: 101, [];` is a compile error '
                '(variable not defined: $d0) although the included text imports $d0 (textual inclusion: visible)')


def run(tier, seed):
    c = V.Check(PROP, tier, seed)
    c.assumptions += [
        "path/filepath (Clean, Join, Base, Dir, IsAbs on Unix) is modelled lexically in PathModel.v and validated against Go "
        "by the (clean/join/base/dir) lines; os.Stat / os.ReadFile are the abstract file system w_exists / w_is_dir",
        "$ORIGIN search paths are not generated (the model's w_origin is None)",
        "function parameters and nested definitions are not part of the visibility model (the generator never calls a parameter)",
        "two data imports under one alias in ONE file are outside the modelled domain (pushVariable slot reuse)",
        "call sites are observed through marker outputs: a definition yields its id, then the list of what its call sites yield",
    ]
    proved = c.prove(PROPS)
    exe_h, hlog = V.build_harness("c18")
    mism, smism, st = [], [], {}
    exe_m = None
    if exe_h is None:
        c.broken_correspondence("harness-build", None, V.tail(hlog, 40))
    else:
        exe_m, mlog = V.build_model("c18", "extract/ExtractC18.v", "c18model", deps=["c18/Run.v"])
        if exe_m is None:
            c.broken_correspondence("model-extraction", None, V.tail(mlog, 40))
        else:
            n = 60 if tier == "quick" else 4000
            # the command itself (cli/cli.go default module paths): built from the current tree
            gojq = os.path.join(V.BUILD, "gojq-c18")
            rcb, outb = V.sh(["go", "build", "-o", gojq, "./cmd/gojq"], cwd=V.REPO, env=V.go_env(), timeout=900)
            extra = ["gojq=" + gojq] if rcb == 0 else []
            if rcb != 0:
                c.broken_correspondence("gojq-build", None, V.tail(outb, 30))
            rc, out, cases, st = V.run_harness("c18", "c18", seed, n, tier, extra=extra)
            if rc != 0:
                c.broken_correspondence("harness-run", None, V.tail(out, 40))
            else:
                mism = V.compare_model(c, exe_m, cases, "c18")
                smism = V.compare_model(c, exe_m, cases, "c18", spec=True)
                for v in (st.get("impl_violations") or []):
                    c.failing_input("impl-oracle", v, v)
    mbad = set(l for l, _ in mism)
    fam = {"leak": 0, "incdata": 0}
    for line, verdict in smism:
        if line in mbad:
            continue
        # implementation == table model != lexical specification: one of the modelled discrepancies
        if verdict == "(bad cerr)":
            fam["leak"] += 1
        else:
            fam["incdata"] += 1
    if fam["leak"]:
        c.failing_input("implementation differs from the lexical specification (importer's names leak into imported modules)",
                        LEAK_CASE, "%d generated call sites of this family" % fam["leak"])
    if fam["incdata"]:
        c.failing_input("implementation differs from the lexical specification (data import of an included module is dropped)",
                        INCDATA_CASE, "%d generated call sites of this family" % fam["incdata"])
    c.notes.append("spec-vs-implementation disagreements explained by the table model: %s" % fam)
    sm = dict(smism)
    n_rep = 0
    for line, verdict in mism:
        if n_rep >= 10:
            break
        n_rep += 1
        if line in sm:
            # the implementation differs from the model AND from the specification: a property violation
            c.failing_input("implementation differs from the specification (and from the model of the code)", line,
                            "model expected: %s ; specification expected: %s" % (verdict, sm[line]))
        else:
            c.broken_correspondence("c18", line, "model verdict: " + verdict)
    rule = ("paths: fixed boundary strings + random strings over {a,b,..,.,'',m.jq,.jq,~,…} for Clean/Base/Dir/Join; lookup: "
            "0..3 loader paths (relative, absolute, ~/, '.', '', ../, trailing slash) x names (m, x/m, m/m, ../m, x/../m, ./m) x "
            "{.jq,.json} x optional search (relative, absolute, ~/, '', written in the main program or inside a module file) x random "
            "subsets of candidate files and candidate-named directories; init: ~/.jq etc. as file / directory / missing; vis: 3 fixed "
            "reproducers + random forests of 2..6 module files (imports only forward, depth <= 3, include / import as / data, 3 names "
            "x 3 arities x 3 aliases so clashes and diamonds are frequent, optional ~/.jq) x (every main-visible name + 6 random "
            "calls), 30% of forests with one call aimed anywhere; meta: 0..6 defs over 11 names incl. _-prefixed x arities 0..2")
    return c.finish(rule, extra_cov=dict(harness_stats=st))


def replay(path):
    d = json.load(open(path))
    print(json.dumps(d, indent=1))
    print("replay of a C18 case re-runs the stream with the recorded seed:", d.get("seed"))
    return run("quick", d.get("seed", 1))
