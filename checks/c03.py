"""C03 — every builtin computes its documented function on all argument types (docs/C03.md)."""
import json, os, re, sys
import verif as V
import jqdefs

PROP = "C03"
PROPS = "props/C03.v"

# natives judged by the independent oracle coq/c03/Spec.v (spec_call)
SPEC_NAMES = set("""length keys add reverse type flatten min max sort unique transpose explode implode
ascii_downcase ascii_upcase utf8bytelength tonumber abs has contains inside indices index rindex startswith
endswith ltrimstr rtrimstr trimstr getpath split _add _subtract _multiply _divide _modulo _equal _notequal
_less _greater _lesseq _greatereq _alternative _index _slice _min_by _max_by _sort_by _group_by _unique_by _plus _negate toboolean isnan isinfinite isfinite isnormal ltrim rtrim trim floor ceil trunc round rint nearbyint fabs sqrt
infinite nan bsearch _tohtml _touri _tourid _tobase64 _tobase64d fmax fmin error halt halt_error""".split())

# machine-readable status of every native / operator (name/arity): how "model = documented function" is
# established.  proved: theorem in coq/props/C03.v on all well-formed inputs; proved-partial: theorem on a
# stated sub-domain (rest by correspondence with Spec.v or the model); correspondence: judged against
# Spec.v and the model on every run; model-only: judged against the model only (no Spec.v entry);
# proved-oracle: dispatch / conversion proved, the libm value compared by class; excluded: outside C03's model.
def _status():
    st = {}
    def put(kind, names):
        for n in names.split():
            st[n] = kind
    put("proved", """_add/2 _subtract/2 _multiply/2 _divide/2 _modulo/2 _equal/2 _notequal/2 _less/2 _greater/2 _lesseq/2
        _greatereq/2 _alternative/2 keys/0 has/1 reverse/0 type/0 explode/0 utf8bytelength/0 startswith/1 endswith/1
        ltrimstr/1 rtrimstr/1 trimstr/1 min/0 max/0 _min_by/1 _max_by/1 add/0 tonumber/0 transpose/0 contains/1 inside/1
        indices/1 index/1 rindex/1 error/0 error/1 halt/0 halt_error/0 halt_error/1 toboolean/0 _plus/0 isnan/0 isinfinite/0
        isfinite/0 isnormal/0 floor/0 round/0 nearbyint/0 rint/0 ceil/0 trunc/0 fabs/0 sqrt/0 fmax/2 fmin/2
        infinite/0 nan/0 bsearch/1 _tohtml/0 _touri/0 _tourid/0 _tobase64/0 _tobase64d/0
        ascii_downcase/0 ascii_upcase/0 implode/0 length/0 abs/0 _negate/0 _slice/3 _index/2 _range/3 flatten/0 getpath/1""")
    put("proved-partial", """split/1 flatten/1
        setpath/2 join/1 sort/0 _sort_by/1 unique/0 _unique_by/1 _group_by/1 _tocsv/0 _totsv/0 _tosh/0 tostring/0
        format/1 tojson/0 ltrim/0 rtrim/0 trim/0""")
    put("model-only", """fromjson/0 delpaths/1""")
    # proved-oracle: dispatch and argument conversion proved (C03_natives_meet_doc5); the function value is libm (class only)
    put("proved-oracle", """sin/0 cos/0 tan/0 asin/0 acos/0 atan/0 sinh/0 cosh/0 tanh/0 asinh/0 acosh/0 atanh/0 significand/0 cbrt/0 exp/0
        exp10/0 exp2/0 expm1/0 log/0 log10/0 log1p/0 log2/0 logb/0 gamma/0 tgamma/0 lgamma/0 erf/0 erfc/0 j0/0 j1/0 y0/0 y1/0
        atan2/2 copysign/2 drem/2 fdim/2 fmod/2 hypot/2 jn/2 nextafter/2 nexttoward/2 remainder/2 ldexp/2 scalb/2 scalbln/2 yn/2
        pow/2 fma/3""")
    put("oracle", "frexp/0 modf/0")
    put("excluded", """empty/0 path/1 env/0 builtins/0 input/0 modulemeta/0 debug/1 _match/3 _captures/0 gmtime/0 localtime/0 mktime/0
        strftime/1 strflocaltime/1 strptime/1 now/0""")
    return st


NATIVE_STATUS = _status()

CALL = re.compile(r"^\(call (\S+) ")


def case_key(line):
    """(call NAME IN (ARGS) OUT) -> (call NAME IN (ARGS)): the replayable, stable case text."""
    depth, i, n, parts = 0, 0, len(line), 0
    # find the end of the 4th top-level element
    assert line.startswith("(call ")
    i = 1
    elems = 0
    while i < n:
        ch = line[i]
        if ch == " " and depth == 0:
            i += 1
            continue
        # start of an element
        if ch == "(":
            d = 0
            while i < n:
                if line[i] == "(":
                    d += 1
                elif line[i] == ")":
                    d -= 1
                    if d == 0:
                        i += 1
                        break
                i += 1
        else:
            while i < n and line[i] not in " ()":
                i += 1
        elems += 1
        if elems == 4:
            return line[:i] + ")"
    return line


def interleave(path, k=16):
    """lib/verif.py shards a cases file into contiguous chunks; expensive natives come in runs, so
    deal the lines round-robin: chunk i gets every k-th line."""
    lines = open(path, "rb").read().split(b"\n")
    if lines and lines[-1] == b"":
        lines.pop()
    if len(lines) < 4000:
        return
    with open(path, "wb") as f:
        for i in range(k):
            part = lines[i::k]
            if part:
                f.write(b"\n".join(part) + b"\n")


def run_cases(c, exe_m, cases, stream, st):
    """model and spec judgement of a cases file; returns number of skipped lines"""
    interleave(cases)
    mism = V.compare_model(c, exe_m, cases, stream)
    skipped = {}
    real = []
    for l, o in mism:
        if o.startswith("(skip "):
            skipped[o[6:-1]] = skipped.get(o[6:-1], 0) + 1
        else:
            real.append((l, o))
    # spec: only the natives with a crisp documented definition
    sp = cases + ".sel"
    with open(cases) as f, open(sp, "w") as g:
        for l in f:
            m = CALL.match(l)
            if m and m.group(1) in SPEC_NAMES:
                g.write(l)
    smism = V.compare_model(c, exe_m, sp, stream, spec=True)
    sbad = set(l for l, _ in smism)
    for line, verdict in smism[:10]:
        c.failing_input("implementation differs from the documented function (coq/c03/Spec.v)", case_key(line),
                        "implementation: %s\ndocumented: %s" % (line, verdict))
    for line, verdict in real[:10]:
        if line in sbad:
            continue
        if "(panic " in line:
            continue  # reported by the harness oracle as a failing input
        c.broken_correspondence(stream, case_key(line), "implementation: %s\nmodel expected: %s" % (line, verdict))
    return skipped, len(real), len(smism)


def harness_violations(c, st):
    for v in (st.get("impl_violations") or []):
        case, _, details = v.partition(" :: ")
        c.failing_input("implementation-only oracle: " + case.split(":")[0], case, v)


def run(tier, seed):
    c = V.Check(PROP, tier, seed)
    c.assumptions += [
        "strconv.ParseFloat is correctly rounded and strconv.AppendFloat prints the shortest round-tripping digits "
        "(Section variables parse_float/fmt_float; the executable stand-ins of coq/c03/FloatText.v are compared with Go on every float of the run)",
        "libm functions (sin, exp, pow, gamma, ...) and frexp/modf are oracles: only dispatch, argument conversion and result class "
        "are modelled; fromjson is judged by the RFC 8259 reference reader coq/c12/JsonRef.v (plus encoding/json's U+FFFD replacement, "
        "last-key-wins and nesting limit) and, in the harness, against json.Valid / json.Decoder with UseNumber",
        "math/big is exact; Go int is 64-bit two's complement",
        "sort.SliceStable is modelled as the insertion sort it is for n <= 20; for a strict weak order any stable sort agrees",
        "values are compared by denotation (int / *big.Int / integer literal = one integer; float / fraction literal = one binary64); "
        "a json.Number reaching a text-producing builtin prints its literal digits (sanctioned by C10)",
        "setpath/delpaths are modelled at value level (the allocator only avoids copies; aliasing is C02's subject)",
    ]
    ok, log = V.regen(["functable"])
    if not ok:
        c.notes.append("translator failed: " + V.tail(log, 10))
    c.prove(PROPS)
    # jq-defined builtins "behave exactly as their published definitions in builtin.jq": the published text is pinned by a
    # recorded hash per definition (checks/builtin_jq.hashes.json, recorded from the tree the models were written against);
    # a changed, added or removed definition is a broken tie (the streams below then search for a failing input).
    try:
        want = json.load(open(os.path.join(V.ROOT, "checks", "builtin_jq.hashes.json")))
        changed = jqdefs.check(c, V.REPO, want)
        extra = sorted(set(jqdefs.definitions(V.REPO)) - set(want))
        for k in extra:
            c.broken_correspondence("builtin.jq:" + k, "builtin.jq def " + k, "definition not present when the hashes were recorded")
    except Exception as e:
        c.notes.append("builtin.jq hash comparison failed to run: %r" % (e,))
    exe_h, hlog = V.build_harness("c03")
    st, st_sync, st_hist, st_jq, skipped = {}, {}, {}, {}, {}
    if exe_h is None:
        c.broken_correspondence("harness-build", None, V.tail(hlog, 40))
        return c.finish("harness did not build")
    exe_m, mlog = V.build_model("c03", "extract/ExtractC03.v", "c03model", deps=["c03/Run.v"])
    if exe_m is None:
        c.broken_correspondence("model-extraction", None, V.tail(mlog, 40))
        return c.finish("model did not build")
    env_repo = dict(os.environ)
    os.environ["VERIF_REPO"] = V.REPO
    # builtin.go in sync with builtin.jq
    rc, out, cases, st_sync = V.run_harness("c03", "sync", seed, 0, tier, name="c03sync_%d" % os.getpid())
    cleanup = [cases]
    if rc != 0:
        c.broken_correspondence("harness-run sync", None, V.tail(out, 40))
    for v in (st_sync.get("impl_violations") or []):
        c.failing_input("builtin.go is not in sync with builtin.jq", v, v)
    c.evaluations += int(st_sync.get("definitions") or 0)
    # history independence of the natives with per-Code state (the regexp cache)
    rc, out, hcases, st_hist = V.run_harness("c03", "hist", seed, 0, tier, name="c03hist_%d" % os.getpid())
    cleanup.append(hcases)
    if rc != 0:
        c.broken_correspondence("harness-run hist", None, V.tail(out, 40))
    harness_violations(c, st_hist)
    c.evaluations += int(st_hist.get("calls") or 0)
    # jq-defined builtins with numeric parameters at fractional / negative / zero / huge / NaN counts, under a deadline
    rc, out, jcases, st_jq = V.run_harness("c03", "jqdef", seed, 0, tier, name="c03jq_%d" % os.getpid())
    cleanup.append(jcases)
    if rc != 0:
        c.broken_correspondence("harness-run jqdef", None, V.tail(out, 40))
    harness_violations(c, st_jq)
    c.evaluations += int(st_jq.get("calls") or 0)
    # natives and operators
    rc, out, cases, st = V.run_harness("c03", "c03", seed, 0, tier, timeout=3000, name="c03_%d" % os.getpid())
    cleanup.append(cases)
    nreal = nspec = 0
    if rc != 0:
        c.broken_correspondence("harness-run", None, V.tail(out, 40))
    else:
        harness_violations(c, st)
        skipped, nreal, nspec = run_cases(c, exe_m, cases, "c03", st)
    # case files are per process (concurrent runs of this check must not share them) and removed afterwards
    for cpath in cleanup:
        base = cpath[:-len(".cases")]
        for suffix in (".cases", ".cases.sel", ".cases.sel.spec", ".stats.json"):
            try:
                os.remove(base + suffix)
            except OSError:
                pass
    dist = st.pop("distribution", {}) if st else {}
    rule = ("for every native of internalFuncs with a callback (%d name/arity pairs; jq-defined builtins are covered by the sync "
            "comparison): all inputs of a %s-value universe for arity 0, core x core (%s values) plus sampled pairs for arity 1 and for the "
            "two arguments of arity 2 (operators), structured triples for _slice/_range/fma; every call repeated with each Go "
            "representation of its numbers; compiled path `f($a;$b)` against the direct call; distinct = distinct case lines"
            % (len(dist), st.get("universe"), st.get("core")))
    return c.finish(rule, extra_cov=dict(native_status=NATIVE_STATUS, harness_stats=st, sync_stats=st_sync, history_stats=st_hist, jqdef_stats=st_jq, skipped_by_model=skipped,
                                         model_mismatches=nreal, spec_mismatches=nspec,
                                         name_arity_pairs=len(dist)))


def replay(path):
    d = json.load(open(path))
    case = d.get("case")
    print(json.dumps({k: d[k] for k in d if k in ("property", "what", "case", "details")}, indent=1))
    if case and case.startswith("jqdef:"):
        exe_h, hlog = V.build_harness("c03")
        rc, out, jcases, st_jq = V.run_harness("c03", "jqdef", 1, 0, "quick", name="c03jqreplay")
        hits = [v for v in (st_jq.get("impl_violations") or []) if v.partition(" :: ")[0] == case]
        for v in hits:
            print("REPRODUCED:", v)
        return 1 if hits else 0
    if not case or ("(call " not in case and "(hist " not in case):
        print("no replayable native call in this record; re-running the check")
        return run("quick", d.get("seed", 1))
    c = V.Check(PROP, "replay", d.get("seed", 1))
    exe_h, hlog = V.build_harness("c03")
    exe_m, mlog = V.build_model("c03", "extract/ExtractC03.v", "c03model", deps=["c03/Run.v"])
    if exe_h is None or exe_m is None:
        print(V.tail(hlog or mlog, 30))
        return 2
    rc, out, cases, st = V.run_harness("c03", "replay", 1, 0, "quick", extra=[case], name="c03replay")
    print(open(cases).read())
    harness_violations(c, st)
    run_cases(c, exe_m, cases, "c03replay", st)
    for v in c.violations:
        print("REPRODUCED:", v["what"], "\n", v["details"])
    for k in c.known_hits:
        print("KNOWN-FINDING reproduced:", k)
    return 1 if c.violations else 0
