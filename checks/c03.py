"""C03 — every builtin computes its documented function on all argument types (docs/C03.md)."""
import json, os, re, sys
import verif as V

PROP = "C03"
PROPS = "props/C03.v"

# natives judged by the independent oracle coq/c03/Spec.v (spec_call)
SPEC_NAMES = set("""length keys add reverse type flatten min max sort unique transpose explode implode
ascii_downcase ascii_upcase utf8bytelength tonumber abs has contains inside indices index rindex startswith
endswith ltrimstr rtrimstr trimstr getpath split _add _subtract _multiply _divide _modulo _equal _notequal
_less _greater _lesseq _greatereq _alternative _index _slice _min_by _max_by""".split())

CALL = re.compile(r"^\(call (\S+) ")


def case_key(line):
    """(call NAME IN (ARGS) OUT) -> (call NAME IN (ARGS)): the replayable, stable case text."""
    depth, i, n, parts = 0, 0, len(line), 0
    # find the end of the 4th top-level element
    assert line.startswith("(call ")
    i = 1
    elems = 0
    while i < n:
        ch = line[i]
        if ch == " " and depth == 0:
            i += 1
            continue
        # start of an element
        if ch == "(":
            d = 0
            while i < n:
                if line[i] == "(":
                    d += 1
                elif line[i] == ")":
                    d -= 1
                    if d == 0:
                        i += 1
                        break
                i += 1
        else:
            while i < n and line[i] not in " ()":
                i += 1
        elems += 1
        if elems == 4:
            return line[:i] + ")"
    return line


def interleave(path, k=16):
    """lib/verif.py shards a cases file into contiguous chunks; expensive natives come in runs, so
    deal the lines round-robin: chunk i gets every k-th line."""
    lines = open(path, "rb").read().split(b"\n")
    if lines and lines[-1] == b"":
        lines.pop()
    if len(lines) < 4000:
        return
    with open(path, "wb") as f:
        for i in range(k):
            part = lines[i::k]
            if part:
                f.write(b"\n".join(part) + b"\n")


def run_cases(c, exe_m, cases, stream, st):
    """model and spec judgement of a cases file; returns number of skipped lines"""
    interleave(cases)
    mism = V.compare_model(c, exe_m, cases, stream)
    skipped = {}
    real = []
    for l, o in mism:
        if o.startswith("(skip "):
            skipped[o[6:-1]] = skipped.get(o[6:-1], 0) + 1
        else:
            real.append((l, o))
    # spec: only the natives with a crisp documented definition
    sp = cases + ".sel"
    with open(cases) as f, open(sp, "w") as g:
        for l in f:
            m = CALL.match(l)
            if m and m.group(1) in SPEC_NAMES:
                g.write(l)
    smism = V.compare_model(c, exe_m, sp, stream, spec=True)
    sbad = set(l for l, _ in smism)
    for line, verdict in smism[:10]:
        c.failing_input("implementation differs from the documented function (coq/c03/Spec.v)", case_key(line),
                        "implementation: %s\ndocumented: %s" % (line, verdict))
    for line, verdict in real[:10]:
        if line in sbad:
            continue
        if "(panic " in line:
            continue  # reported by the harness oracle as a failing input
        c.broken_correspondence(stream, case_key(line), "implementation: %s\nmodel expected: %s" % (line, verdict))
    return skipped, len(real), len(smism)


def harness_violations(c, st):
    for v in (st.get("impl_violations") or []):
        case, _, details = v.partition(" :: ")
        c.failing_input("implementation-only oracle: " + case.split(":")[0], case, v)


def run(tier, seed):
    c = V.Check(PROP, tier, seed)
    c.assumptions += [
        "strconv.ParseFloat is correctly rounded and strconv.AppendFloat prints the shortest round-tripping digits "
        "(Section variables parse_float/fmt_float; the executable stand-ins of coq/c03/FloatText.v are compared with Go on every float of the run)",
        "libm functions (sin, exp, pow, gamma, ...) and frexp/modf are oracles: only dispatch, argument conversion and result class "
        "are modelled; fromjson is judged by the RFC 8259 reference reader coq/c12/JsonRef.v (plus encoding/json's U+FFFD replacement, "
        "last-key-wins and nesting limit) and, in the harness, against json.Valid / json.Decoder with UseNumber",
        "math/big is exact; Go int is 64-bit two's complement",
        "sort.SliceStable is modelled as the insertion sort it is for n <= 20; for a strict weak order any stable sort agrees",
        "values are compared by denotation (int / *big.Int / integer literal = one integer; float / fraction literal = one binary64); "
        "a json.Number reaching a text-producing builtin prints its literal digits (sanctioned by C10)",
        "setpath/delpaths are modelled at value level (the allocator only avoids copies; aliasing is C02's subject)",
    ]
    ok, log = V.regen(["functable"])
    if not ok:
        c.notes.append("translator failed: " + V.tail(log, 10))
    c.prove(PROPS)
    exe_h, hlog = V.build_harness("c03")
    st, st_sync, st_hist, skipped = {}, {}, {}, {}
    if exe_h is None:
        c.broken_correspondence("harness-build", None, V.tail(hlog, 40))
        return c.finish("harness did not build")
    exe_m, mlog = V.build_model("c03", "extract/ExtractC03.v", "c03model", deps=["c03/Run.v"])
    if exe_m is None:
        c.broken_correspondence("model-extraction", None, V.tail(mlog, 40))
        return c.finish("model did not build")
    env_repo = dict(os.environ)
    os.environ["VERIF_REPO"] = V.REPO
    # builtin.go in sync with builtin.jq
    rc, out, cases, st_sync = V.run_harness("c03", "sync", seed, 0, tier, name="c03sync_%d" % os.getpid())
    cleanup = [cases]
    if rc != 0:
        c.broken_correspondence("harness-run sync", None, V.tail(out, 40))
    for v in (st_sync.get("impl_violations") or []):
        c.failing_input("builtin.go is not in sync with builtin.jq", v, v)
    c.evaluations += int(st_sync.get("definitions") or 0)
    # history independence of the natives with per-Code state (the regexp cache)
    rc, out, hcases, st_hist = V.run_harness("c03", "hist", seed, 0, tier, name="c03hist_%d" % os.getpid())
    cleanup.append(hcases)
    if rc != 0:
        c.broken_correspondence("harness-run hist", None, V.tail(out, 40))
    harness_violations(c, st_hist)
    c.evaluations += int(st_hist.get("calls") or 0)
    # natives and operators
    rc, out, cases, st = V.run_harness("c03", "c03", seed, 0, tier, timeout=3000, name="c03_%d" % os.getpid())
    cleanup.append(cases)
    nreal = nspec = 0
    if rc != 0:
        c.broken_correspondence("harness-run", None, V.tail(out, 40))
    else:
        harness_violations(c, st)
        skipped, nreal, nspec = run_cases(c, exe_m, cases, "c03", st)
    # case files are per process (concurrent runs of this check must not share them) and removed afterwards
    for cpath in cleanup:
        base = cpath[:-len(".cases")]
        for suffix in (".cases", ".cases.sel", ".cases.sel.spec", ".stats.json"):
            try:
                os.remove(base + suffix)
            except OSError:
                pass
    dist = st.pop("distribution", {}) if st else {}
    rule = ("for every native of internalFuncs with a callback (%d name/arity pairs; jq-defined builtins are covered by the sync "
            "comparison): all inputs of a %s-value universe for arity 0, core x core (%s values) plus sampled pairs for arity 1 and for the "
            "two arguments of arity 2 (operators), structured triples for _slice/_range/fma; every call repeated with each Go "
            "representation of its numbers; compiled path `f($a;$b)` against the direct call; distinct = distinct case lines"
            % (len(dist), st.get("universe"), st.get("core")))
    return c.finish(rule, extra_cov=dict(harness_stats=st, sync_stats=st_sync, history_stats=st_hist, skipped_by_model=skipped,
                                         model_mismatches=nreal, spec_mismatches=nspec,
                                         name_arity_pairs=len(dist)))


def replay(path):
    d = json.load(open(path))
    case = d.get("case")
    print(json.dumps({k: d[k] for k in d if k in ("property", "what", "case", "details")}, indent=1))
    if not case or ("(call " not in case and "(hist " not in case):
        print("no replayable native call in this record; re-running the check")
        return run("quick", d.get("seed", 1))
    c = V.Check(PROP, "replay", d.get("seed", 1))
    exe_h, hlog = V.build_harness("c03")
    exe_m, mlog = V.build_model("c03", "extract/ExtractC03.v", "c03model", deps=["c03/Run.v"])
    if exe_h is None or exe_m is None:
        print(V.tail(hlog or mlog, 30))
        return 2
    rc, out, cases, st = V.run_harness("c03", "replay", 1, 0, "quick", extra=[case], name="c03replay")
    print(open(cases).read())
    harness_violations(c, st)
    run_cases(c, exe_m, cases, "c03replay", st)
    for v in c.violations:
        print("REPRODUCED:", v["what"], "\n", v["details"])
    for k in c.known_hits:
        print("KNOWN-FINDING reproduced:", k)
    return 1 if c.violations else 0
