"""Source text of the builtin.jq definitions that C13/C14 transcribe by hand into Gallina.

The theorems about to_entries, tostream, splits, ... are about Gallina functions transcribed from the
builtin.jq TEXT.  The tie is the per-function correspondence stream plus this check: the text of each
transcribed definition in <repo>/builtin.jq must still hash to the value recorded when it was transcribed.
A different text breaks the tie (reported as broken correspondence; the law / oracle streams, which always
run, supply a failing input when the new text violates the property)."""
import hashlib, os, re


def definitions(repo):
    """{'name/arity': source text} for every top-level def of builtin.jq (a def runs to the next line that
    starts with 'def ' in column 0; trailing blank lines dropped)."""
    path = os.path.join(repo, "builtin.jq")
    lines = open(path, encoding="utf-8").read().split("\n")
    defs, cur, key = {}, [], None

    def flush():
        if key is not None:
            while cur and not cur[-1].strip():
                cur.pop()
            defs[key] = "\n".join(l.rstrip() for l in cur)

    for l in lines:
        m = re.match(r"^def\s+([A-Za-z_][A-Za-z0-9_]*)\s*(\(([^)]*)\))?\s*:", l)
        if m:
            flush()
            arity = len(m.group(3).split(";")) if m.group(2) else 0
            key, cur = "%s/%d" % (m.group(1), arity), [l]
        elif key is not None:
            cur.append(l)
    flush()
    return defs


def digest(text):
    return hashlib.sha256(text.encode("utf-8")).hexdigest()[:16]


def check(c, repo, expected):
    """Record one broken correspondence per transcribed definition whose text changed / disappeared.
    Returns the list of changed keys."""
    try:
        defs = definitions(repo)
    except OSError as e:
        c.broken_correspondence("builtin.jq", None, "cannot read builtin.jq: %s" % e)
        return ["builtin.jq"]
    changed = []
    for key, want in sorted(expected.items()):
        got = digest(defs[key]) if key in defs else None
        if got != want:
            changed.append(key)
            c.broken_correspondence(
                "builtin.jq:" + key, "builtin.jq def " + key,
                "the text of `def %s` in builtin.jq is no longer the text that was transcribed into Gallina "
                "(hash %s, transcribed %s); current text:\n%s" % (key, got, want, defs.get(key, "<missing>")))
    c.notes.append("builtin.jq text of %d transcribed definitions compared with the recorded hashes: %s"
                   % (len(expected), "all equal" if not changed else "CHANGED: " + ", ".join(changed)))
    return changed
