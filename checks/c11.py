"""C11 — one total order governs comparison, sorting, grouping and key order (docs/C11.md)."""
import json, os, re, sys, time
import verif as V

PROP = "C11"
PROPS = "props/C11.v"
STREAMS = ("c11pairs", "c11nat")


def nontrivial(line):
    """trivial: a cmp/ops pair whose two operands have different type indices is decided by typeIndex alone"""
    return True


def correspond(c, exe_m, stream, seed, n, tier):
    """run one harness stream, judge it by the model and by the specification oracle"""
    rc, out, cases, st = V.run_harness("c11", stream, seed, n, tier)
    if rc != 0:
        c.broken_correspondence("harness-run:" + stream, None, V.tail(out, 40))
        return st
    mism = V.compare_model(c, exe_m, cases, stream, nontrivial=nontrivial)
    smism = V.compare_model(c, exe_m, cases, stream, spec=True)
    # implementation-only oracles (reflexivity, antisymmetry, transitivity over all triples of the
    # in-domain universe, operators = projections of Compare)
    for v in (st.get("impl_violations") or []):
        c.failing_input("order law violated by gojq.Compare / operators", v, v)
    # impl != spec on the property's domain: a concrete failing input
    for line, verdict in sorted(smism, key=lambda lv: len(lv[0]))[:10]:     # shortest failing inputs first
        c.failing_input("result differs from the specification order (exact rationals)", line, "expected: " + verdict)
    sbad = set(l for l, _ in smism)
    for line, verdict in sorted(mism, key=lambda lv: len(lv[0]))[:10]:
        if line not in sbad:
            c.broken_correspondence(stream, line, "model verdict: " + verdict)
    return st


def model_exe():
    return V.build_model("c11", "extract/ExtractC11.v", "c11model", deps=["c11/Run.v"])


def run(tier, seed):
    c = V.Check(PROP, tier, seed)
    times = {}

    def timed(label, f):
        t = time.time()
        r = f()
        times[label] = round(time.time() - t, 1)
        return r
    c.assumptions += [
        "float64(int) and bigToFloat round to nearest-even (Flocq binary_normalize mode_NE); strconv.ParseFloat is "
        "correctly rounded (json.Number literals are decoded by the model's parse_number); math/big Cmp is exact",
        "Go string comparison is bytewise; map[string]any is represented by its key-sorted association list "
        "(the decoder checks that the harness' keys are strictly ascending in the model's bytewise order)",
        "sort.SliceStable returns the stable ordered permutation when less is a strict weak order (modelled by a stable "
        "insertion sort; C11_stable_sort_unique_thm proves that arrangement unique); sort.Search is the binary search of its source",
        "values outside the domain (NaN, |float| >= 2^53, infinities) are compared model-vs-implementation only; "
        "the sort-based builtins are exercised on in-domain arrays only",
    ]
    proved = timed("prove", lambda: c.prove(PROPS))
    exe_h, hlog = timed("build_harness", lambda: V.build_harness("c11"))
    stats = {}
    if exe_h is None:
        c.broken_correspondence("harness-build", None, V.tail(hlog, 40))
    else:
        exe_m, mlog = timed("build_model", model_exe)
        if exe_m is None:
            c.broken_correspondence("model-extraction", None, V.tail(mlog, 40))
        else:
            stats["c11pairs"] = timed("c11pairs", lambda: correspond(c, exe_m, "c11pairs", seed, 0, tier))
            stats["c11nat"] = timed("c11nat", lambda: correspond(c, exe_m, "c11nat", seed, 150 if tier == "quick" else 6000, tier))
    rule = ("c11pairs: gojq.Compare and the six comparison operators on ALL ordered pairs of a ~200-value universe (every type, "
            "nesting shapes, int/*big.Int/float64/json.Number, +-2^53+-1, int64 limits, huge bigs, -0.0, subnormals, NaN, +-Inf) "
            "judged by the extracted model and, on the domain, by the exact-rational specification order; reflexivity, antisymmetry "
            "and transitivity over ALL ordered in-domain triples checked on the implementation's own results. "
            "c11nat: a deterministic block ([v,v], [v,v,w], [w,v,v], [v] for every in-domain universe value v, null first, x every sort-family "
            "builtin), then sort, sort_by, group_by, unique, unique_by, min, max, min_by, max_by (key expressions with 0, 1, 2 and a varying "
            "number of outputs per element: .[1], .ks[], .a?, .[]?, (.a,.b), empty, select(.a > 0), .[0:2][]; the key is the ARRAY of outputs "
            "as builtin.jq's map([f]) makes it), bsearch, array -, indices/index/rindex, "
            "keys, [.[]], tojson/Marshal key order on random arrays (length 0..64, frequent ties between distinguishable equal "
            "values) of universe values; distinct = distinct case lines")
    return c.finish(rule, extra_cov=dict(harness_stats=stats, phase_seconds=times))


def replay(path):
    """re-run the recorded case on the CURRENT implementation (harness stream c11case) and judge what it
    does now by the model and by the specification order; exit 1 when it still fails"""
    d = json.load(open(path))
    case = d.get("case")
    print("recorded: kind=%s what=%s\ncase: %s" % (d.get("kind"), d.get("what"), case))
    if not case or not case.startswith("("):
        print("no replayable case recorded (broken obligation); re-running the check")
        return run("quick", d.get("seed", 1))
    exe_h, hlog = V.build_harness("c11")
    exe_m, mlog = model_exe()
    if exe_h is None or exe_m is None:
        print(V.tail(hlog if exe_h is None else mlog, 30))
        return 1
    rc, out, cases, st = V.run_harness("c11", "c11case", d.get("seed", 1), 0, "quick", extra=[case], name="c11replay")
    if rc != 0:
        print(V.tail(out, 20))
        return 1
    bad = 0
    for v in (st.get("impl_violations") or []):
        print("implementation still violates the order law:", v)
        bad += 1
    lines = [l for l in open(cases).read().split("\n") if l]
    for l in lines:
        for wrap, label in ((l, "model"), ("(spec " + l + ")", "spec")):
            rc, o = V.sh([exe_m], stdin=(wrap + "\n").encode())
            o = o.strip()
            print("now: %s\n  %s verdict: %s" % (l, label, o))
            if o != "ok":
                bad += 1
    print("REPLAY: %s" % ("still failing" if bad else "passes now"))
    return 1 if bad else 0
