"""C12 — every emitted value serialises to valid JSON that reads back equal (docs/C12.md, DESIGN.md §5 C12)."""
import json, os, re, resource, sys
import verif as V

PROP = "C12"
PROPS = "props/C12.v"
PROPS_C = "props/C12c.v"   # raw output modes exactly: verbatim bytes, NUL rejection iff, non-strings = JSON (coq/c12/RawExact.v)
PROPS_B = "props/C12b.v"   # integration with C15: layout pass / raw modes / terminators agree (coq/integ/RenderAgree.v)
STREAMS = ["longstrings", "strings", "floats", "containers", "run"]


def _stack():
    """The extracted model recurses over byte lists (non tail-recursive append on lines of several 100 KB)."""
    try:
        soft, hard = resource.getrlimit(resource.RLIMIT_STACK)
        resource.setrlimit(resource.RLIMIT_STACK, (hard, hard))
    except Exception:
        pass


def _balance(path):
    """run_model shards a cases file into contiguous blocks: deal the lines, longest first, round-robin into
    blocks of exactly the sizes run_model will use."""
    lines = open(path).read().split("\n")
    if lines and lines[-1] == "":
        lines.pop()
    n = len(lines)
    if n < 2000:
        return
    shards = min(16, os.cpu_count() or 4)
    chunk = (n + shards - 1) // shards
    sizes = [chunk] * (n // chunk) + ([n % chunk] if n % chunk else [])
    blocks = [[] for _ in sizes]
    bi = 0
    for i in sorted(range(n), key=lambda i: -len(lines[i])):
        while len(blocks[bi]) >= sizes[bi]:
            bi = (bi + 1) % len(sizes)
        blocks[bi].append(lines[i])
        bi = (bi + 1) % len(sizes)
    with open(path, "w") as f:
        for b in blocks:
            for l in b:
                f.write(l + "\n")


def sizes(tier):
    if tier == "quick":
        return dict(strings=1500, floats=1500, containers=40, run=40, yaml=150, retain=300, concurrent=0, longstrings=6)
    return dict(strings=60000, floats=120000, containers=600, run=1200, yaml=6000, retain=20000, concurrent=3000, longstrings=300)


def run(tier, seed):
    _stack()
    c = V.Check(PROP, tier, seed)
    c.assumptions += [
        "strconv.AppendFloat(f, fmt, -1, 64) is not gojq's code: Section variable fmt_float with hypotheses fmt_shape "
        "([-]d[.d+]e(+|-)dd+ for 'e', [-]d+[.d+] for 'f', no superfluous leading zero) and, for the value clause, "
        "fmt_round (the digits parse back to the same float); both are checked on every sampled float by the harness "
        "(shape by the model on the implementation's digit strings, round trip by strconv.ParseFloat)",
        "strconv.AppendInt / big.Int.Append print the canonical decimal (print_Z), as in C10",
        "non-negative float64 values are ordered like their bit patterns (fmt_is_e / clamp / is_nan are stated on bits); "
        "the constants 1e-6, 1e21, MaxFloat64 are checked against the implementation's bits (consts line)",
        "the io.Writer given to the command's encoder does not fail; a Go map has distinct keys",
        "unicode/utf8.DecodeRuneInString is modelled from the go1.24 source (table first[256], acceptRanges) in c12/Utf8.v",
        "json.Number values are valid JSON number literals (they come from encoding/json with UseNumber)",
        "--yaml-output/--yaml-input: go-yaml is outside /repo and is NOT modelled; only an implementation-level "
        "round trip on sample values is run (stream yaml)",
    ]
    import time
    t0 = time.time()
    phases = {}

    def mark(k):
        nonlocal t0
        phases[k] = round(phases.get(k, 0) + time.time() - t0, 1)
        t0 = time.time()
    proved = c.prove(PROPS)
    proved = c.prove(PROPS_B) and proved
    proved = c.prove(PROPS_C) and proved
    mark("prove")
    exe_h, hlog = V.build_harness("c12")
    mark("harness-build")
    stats = {}
    mism, smism = [], []
    exe_m = None
    if exe_h is None:
        c.broken_correspondence("harness-build", None, V.tail(hlog, 40))
    else:
        exe_m, mlog = V.build_model("c12", "extract/ExtractC12.v", "c12model", deps=["c12/Run.v"])
        if exe_m is None:
            c.broken_correspondence("model-extraction", None, V.tail(mlog, 40))
        mark("model-build")
    if exe_h and exe_m:
        n = sizes(tier)
        long_cases = None
        for s in STREAMS + ["yaml", "retain", "concurrent"]:
            rc, out, cases, st = V.run_harness("c12", s, seed, n[s], tier, name="c12-" + s)
            stats[s] = st
            mark("harness-run")
            if rc != 0:
                c.broken_correspondence("harness-run:" + s, None, V.tail(out, 40))
                continue
            for v in (st.get("impl_violations") or []):
                case, _, det = v.partition(" :: ")
                c.failing_input("implementation-only oracle (%s)" % s, short(case), det or v)
            if s in ("yaml", "retain", "concurrent"):
                c.evaluations += st.get("lines", 0)
                continue
            if s == "longstrings":
                # few, very long lines: judged together with the strings stream (run_model shards only big files)
                long_cases = cases
                continue
            if s == "strings" and long_cases:
                with open(cases, "a") as f, open(long_cases) as g:
                    for l in g:
                        f.write(l)
            _balance(cases)
            try:
                m = V.compare_model(c, exe_m, cases, "c12-" + s)
                sm = V.compare_model(c, exe_m, cases, "c12-" + s, spec=True)
            except RuntimeError as e:
                c.broken_correspondence("model-run:" + s, None, str(e))
                continue
            mark("model-run:" + s)
            mism += [(s, l, v) for l, v in m]
            smism += [(s, l, v) for l, v in sm]
    if exe_h and tier == "thorough":
        # 8 goroutines marshalling distinct values under the race detector
        exe_r, rlog = V.build_harness("c12", out="harness-c12-race", extra_flags=["-race"])
        if exe_r is None:
            c.notes.append("race build unavailable: " + V.tail(rlog, 5))
        else:
            rc, out, cases, st = V.run_harness("c12-race", "concurrent", seed, 1000, tier, name="c12-concurrent-race")
            stats["concurrent-race"] = st
            for v in (st.get("impl_violations") or []):
                case, _, det = v.partition(" :: ")
                c.failing_input("implementation-only oracle (concurrent, -race)", case, det or v)
            if rc != 0:
                c.failing_input("data race (go build -race)", "concurrent Marshal: 8 goroutines, distinct values",
                                "the race detector reports a data race (exit %s)\n%s" % (rc, V.tail(out, 40)))
            c.evaluations += st.get("lines", 0)
            mark("race")
    # impl != reference reader: the implementation's bytes violate the property on that input
    sbad = set()
    for s, line, verdict in smism[:10]:
        sbad.add(line)
        c.failing_input("output is not valid JSON reading back equal (%s)" % s, short(line), "reference reader: " + verdict + "\n" + line[:4000])
    # impl != model although the bytes still satisfy the reference reader: stale model / changed formatting
    for s, line, verdict in mism[:10]:
        if line not in sbad:
            c.broken_correspondence("c12-" + s, short(line), "model expected: " + verdict[:2000] + "\n" + line[:4000])
    rule = ("strings: all strings of length <= 2 over an 84-letter alphabet (every control byte, quote, backslash, DEL, "
            "UTF-8 lead/continuation bytes, multi-byte characters incl. U+2028/2029/FFFD, encoded surrogates, overlongs), "
            "length 3-4 over lead/continuation bytes, x[b]y for every byte b, random strings; each through Marshal, tojson, "
            "@json, @text, tostring, the command's encoder (plain and coloured), as object key and array element. "
            "floats: bit-pattern classes (subnormals, +-0, NaN payloads, +-Inf, neighbours of 1e-7/1e-6/1e21, e-09/e-10, "
            "powers of ten, random bits). containers: fixed and random values x {compact, indent 0..9, tab} x {plain, "
            "colour tables incl. nil entries}; indent counts n around 16/32/64/.../1024; deep nesting; values larger than the "
            "8 KiB flush threshold. run: the whole command with -c/--tab/--indent n/-C/-M/-r/-j/--raw-output0/GOJQ_COLORS. "
            "longstrings: strings of 2^9..2^17 (+-0..4) bytes with 2/3/4-byte characters, U+2028, escapes and invalid bytes straddling "
            "every offset 4096*k (incl. 8192, 65536), the start and the end, as values and keys, library + command encoders. "
            "yaml: --yaml-output then --yaml-input on sample values (implementation only). retained results: the slices returned by "
            "Marshal (not copies) and the strings returned by tojson/@json/@text/tostring are kept for a window of 64 calls in every "
            "stream and must equal the copy taken at return time after every later call (stream retain: result sizes 1 B..100 KB, "
            "shrinking and growing); concurrent: 8 goroutines marshal distinct values and verify their own results (with -race in the "
            "thorough tier). distinct = distinct case lines")
    return c.finish(rule, extra_cov=dict(harness_stats=stats, phases_s=phases))


def short(line):
    return line if len(line) <= 600 else line[:600] + "...[%d chars]" % len(line)


def replay(path):
    d = json.load(open(path))
    print(json.dumps(d, indent=1)[:4000])
    case = d.get("case") or ""
    m = re.match(r"^yaml indent=(\S+) value=(.*)$", case, flags=re.S)
    if m:
        # one canonical YAML case: run it on the implementation again
        _stack()
        exe_h, hlog = V.build_harness("c12")
        if exe_h is None:
            print(V.tail(hlog, 20))
            return 2
        rc, out, cases, st = V.run_harness("c12", "yamlcase", d.get("seed", 1), 0, "quick",
                                           extra=[m.group(1), m.group(2)], name="c12-yamlcase")
        viol = st.get("impl_violations") or []
        for v in viol:
            print("REPRODUCED:", v)
        if not viol:
            print("not reproduced: the round trip gives the value back")
        return 1 if viol else 0
    print("replay of a C12 model/spec case re-runs the streams with the recorded seed:", d.get("seed"))
    return run("quick", d.get("seed", 1))
