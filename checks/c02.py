"""C02 — paths and update operators equal their defining reductions (docs/C02.md)."""
import json, os, sys
import verif as V
import c01

PROP = "C02"
PROPS = "props/C02.v"

RULE = ("oracle: sentinel + fixed neighbourhood cases (all orders of overlapping index/slice alternatives x 5 bodies x 3 inputs) "
        "+ random cases: path expressions of the path-safe grammar (field/index/slice/iterate, .., recurse, select, if, //, "
        "first, limit, getpath, empty, error, ?, try, pipe, comma up to 3 alternatives, bindings), guided by the input, x "
        "random JSON inputs (depth<=3) under 9 sharing prefixes x 38 update bodies (7 return a prefix or inner slice of their input) / 14 assignment values / 6 arithmetic "
        "operators; systematic block: all ordered pairs and 1/8 (quick) or all (thorough) of the ordered triples of 20 "
        "alternatives (slices reaching the end .[k:] .[k:len] .[-k:], negative indices, negative bounds, out-of-range "
        "indices) on [0,1,2,3] x del / |= empty / |= partial-empty; kinds: path(p) vs p+getpath, |=, =, op=, del, delpaths, map_values, pick, paths, to_entries, "
        "with_entries, tostream vs their defining reductions in jq on the same implementation; invalid-path forms. "
        "nat: getpath/setpath/delpaths natives on random values and paths vs the extracted value model. "
        "heap: random Go heaps with aliasing x 1-4 update/delete/sweep/delpaths operations with new values aliasing the "
        "state vs the extracted heap model (result, every pre-existing container, and the result with every slice extended "
        "to its capacity = the hidden cells of the backing arrays); 1/5 of the heap cases are growth scenarios (an owned array "
        "replaced by a prefix slice of itself, then index writes at len..cap-1 and beyond). oracle block modify-grow: "
        "(A[i], A, A[j]) path lists and variants x 11 slice-returning update bodies x 4 inputs. A failing generated case is "
        "attributed to the D5/D9 family only if it still fails with the TOP-LEVEL container of the body's output copied and "
        "passes with the output deep-copied (docs/C02.md). distinct = distinct case lines")


def oracle(c, seed, n, tier, extra=None, name="oracle", stream="oracle"):
    rc, out, cases, st = V.run_harness("c02", stream, seed, n, tier, extra=extra, name="c02" + name, timeout=3000)
    if rc != 0:
        c.broken_correspondence("harness-run:" + stream, None, V.tail(out, 40))
        return None
    for v in st.get("oracle_violations") or []:
        det = "%s: %s" % (v.get("what"), v.get("detail"))
        if v.get("actual") and v.get("actual") != v.get("case"):
            det += " [generated case: %s]" % v["actual"]
        if v.get("what") == "harness":
            c.broken_correspondence("oracle-harness", v.get("case"), det)
        else:
            c.failing_input(v.get("what"), v.get("case"), det + " ##case-json## " + (v.get("json") or ""))
    for v in st.get("impl_violations") or []:
        c.failing_input("impl-oracle", v, v)
    for l in open(cases):
        c.note_case(l.rstrip("\n"))
    c.evaluations += int(st.get("cases") or 0) - int(st.get("lines") or 0)
    c.distinct.update(("%s-%d" % (name, i)).encode() for i in range(int(st.get("distinct_cases") or 0)))
    return st


def run(tier, seed):
    c = V.Check(PROP, tier, seed)
    c.assumptions += [
        "the defining reductions are the jq texts in harness/c02/gen.go (_mref/_aref/_dref/_ts/_pp), validated on the manual's examples; "
        "they run on the same implementation, so getpath/setpath/delpaths/reduce/path themselves are covered by the nat stream, by C01 and by the (i) oracle",
        "numbers in the Coq models are integers; errors are compared by class (error / no error), not by message",
        "heap model: Go slices are (address, offset, len, cap) headers, reflect Pointer() = address+offset; a zero-capacity make() "
        "gets a fresh address; GC address reuse of the allocator's uintptr keys is not modelled",
    ]
    proved = c.prove(PROPS)
    # C02b: path-tracking soundness of the reference semantics (coq/sem) on the navigation fragment; its
    # non-vacuity examples run on builtin.jq of the current tree (coq/gen/GenBuiltins.v, regenerated here)
    exe_sem, _ = V.build_harness("sem")
    if exe_sem is not None:
        c01.regen_builtins(c, exe_sem)
    c.prove("props/C02b.v")
    exe_h, hlog = V.build_harness("c02")
    stats = {}
    if exe_h is None:
        c.broken_correspondence("harness-build", None, V.tail(hlog, 40))
        return c.finish(RULE)
    quick = tier == "quick"
    # A: implementation-only oracles (the harness runs the cases in child processes)
    st = oracle(c, seed, 9000 if quick else 300000, tier)
    if st:
        stats["oracle"] = dict(cases=st.get("cases"), failing=st.get("oracle_failing_cases"), family_hits=st.get("family_hits"),
                               distribution=st.get("distribution"), grow_block_cases=st.get("grow_block_cases"),
                               grow_random_cases=st.get("grow_random_cases"))
    # nat + heap: extracted models
    exe_m, mlog = V.build_model("c02", "extract/ExtractC02.v", "c02model", deps=["c02/Run.v"])
    if exe_m is None:
        c.broken_correspondence("model-extraction", None, V.tail(mlog, 40))
        return c.finish(RULE, extra_cov=dict(streams=stats))
    any_mismatch = False
    for stream, n in (("nat", 20000 if quick else 500000), ("heap", 30000 if quick else 600000)):
        rc, out, cases, st = V.run_harness("c02", stream, seed, n, tier, name="c02" + stream)
        if rc != 0:
            c.broken_correspondence("harness-run:" + stream, None, V.tail(out, 40))
            continue
        for v in st.get("impl_violations") or []:
            c.failing_input("impl-oracle:" + stream, v, v)
        mism = V.compare_model(c, exe_m, cases, stream)
        found = 0
        if stream == "nat":
            # the natives against the second value-level specification of deletion (coq/c02/Dref.v = the
            # harness reference _dref: every path resolved against the ORIGINAL value, descending deletions)
            dm = V.compare_model(c, exe_m, cases, stream, spec=True)
            stats["nat_dref_mismatches"] = len(dm)
            mism_all = mism + [x for x in dm if x[0] not in set(l for l, _ in mism)]
        else:
            mism_all = mism
        any_mismatch = any_mismatch or bool(mism_all)
        if mism_all and stream == "nat":
            # search step 1: a native that disagrees with the value model is replayed at jq level against the
            # defining reduction (delpaths(ps) vs _dref(ps): every path resolved against the original value;
            # setpath then getpath) on the implementation: a disagreement there is a failing input
            idx = {}
            for i, l in enumerate(open(cases)):
                idx.setdefault(l.rstrip("\n"), i)
            want = sorted(set(idx[l] for l, _ in mism_all if l in idx))[:200]
            rc2, out2, rcases, _ = V.run_harness("c02", "nat", seed, n, tier, extra=["replay:" + ",".join(map(str, want))],
                                                 name="c02natreplay")
            js = [l.strip() for l in open(rcases)] if rc2 == 0 else []
            if js:
                before = len(c.violations) + len(c.known_hits)
                oracle(c, seed, 0, tier, extra=js, name="natoracle", stream="one")
                found = len(c.violations) + len(c.known_hits) - before
        for line, verdict in mism[:5]:
            c.broken_correspondence(stream, line, "model verdict: " + verdict)
        if stream == "nat":
            for line, verdict in [x for x in mism_all if x not in mism][:5]:
                c.broken_correspondence("nat:dref", line, "the natives differ from deletion against the original value: " + verdict)
        stats[stream] = dict(cases=st.get("lines"), mismatches=len(mism))
        if stream == "heap":
            stats[stream].update(grow_cases=st.get("grow_cases"), grow_cases_exposing=st.get("grow_cases_exposing"))
        if stream == "heap":
            # how often the natives deviate from VALUE semantics on aliased heaps (expected while the
            # allocator findings stand; informational, the jq-level consequences are the oracle's business)
            sm = V.compare_model(c, exe_m, cases, stream, spec=True)
            stats[stream]["value_semantics_deviations"] = len(sm)
            stats[stream]["deviation_samples"] = [l for l, _ in sm[:3]]
    # the statement left open for inner slices (docs/C02.md): update/deleteEmpty sequences whose new values are
    # free of containers made during the run, with slices followed by further components, against VALUE semantics
    rc, out, cases, st = V.run_harness("c02", "heapsafe", seed, 20000 if quick else 400000, tier, name="c02heapsafe")
    if rc != 0:
        c.broken_correspondence("harness-run:heapsafe", None, V.tail(out, 40))
    else:
        hm = V.compare_model(c, exe_m, cases, "heapsafe")
        hs = V.compare_model(c, exe_m, cases, "heapsafe", spec=True)
        for line, verdict in hm[:3]:
            c.broken_correspondence("heapsafe", line, "model verdict: " + verdict)
        for line, verdict in hs[:3]:
            c.broken_correspondence("heapsafe:value-semantics", line,
                                    "the natives deviate from value semantics although every new value is frozen: " + verdict)
        stats["heapsafe"] = dict(cases=st.get("lines"), mismatches=len(hm), value_semantics_deviations=len(hs))
        any_mismatch = any_mismatch or bool(hm) or bool(hs)
    if any_mismatch:
        # search step 2: the whole systematic block (all ordered triples) and more random cases through the oracle
        st = oracle(c, seed + 1, 4000 if quick else 50000, tier, extra=["search"], name="search")
        if st:
            stats["search"] = dict(cases=st.get("cases"), failing=st.get("oracle_failing_cases"))
    return c.finish(RULE, extra_cov=dict(streams=stats))


def replay(path):
    d = json.load(open(path))
    print(json.dumps(d, indent=1)[:4000])
    det = d.get("details") or ""
    if "##case-json##" not in det or not det.split("##case-json##", 1)[1].strip():
        print("no single case recorded; re-running the check with the recorded seed", d.get("seed"))
        return run("quick", d.get("seed", 1))
    cj = det.split("##case-json##", 1)[1].strip()
    exe_h, hlog = V.build_harness("c02")
    if exe_h is None:
        print(hlog)
        return 2
    c = V.Check(PROP, "replay", d.get("seed", 1))
    rc, out, cases, st = V.run_harness("c02", "one", 1, 0, "quick", extra=[cj], name="c02replay")
    print(out)
    print(open(cases).read())
    bad = st.get("oracle_violations") or []
    for v in bad:
        print("STILL FAILING:", v.get("case"), "::", v.get("what"), v.get("detail"))
    return 1 if bad else 0
