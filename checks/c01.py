"""C01 — query evaluation follows jq's backtracking-generator semantics (DESIGN.md §5 C01, docs/SEM.md).

regen (builtin.jq -> coq/gen/GenBuiltins.v) -> prove (coq/props/C01.v) -> correspond (harness/sem runs the
implementation on generated programs; the extracted reference semantics coq/sem judges every case)."""
import json, os, re, subprocess, sys
import verif as V

PROP = "C01"
PROPS = "props/C01.v"
PROPS_LINK = "props/C01link.v"     # end-to-end link Sem <-> coq/c01vm (VM on compiled code) on the fragment F0 /\ F
MAX_SKIP_RATE = 0.35          # the check fails its own sanity rule above this (reported in the evidence)


def regen_builtins(c, exe_h):
    out = os.path.join(V.COQ, "gen", "GenBuiltins.v")
    os.makedirs(os.path.dirname(out), exist_ok=True)
    rc, log = V.sh([exe_h, "gen-builtins", "-repo", V.REPO, "-out", out], timeout=300, env=V.go_env())
    if rc != 0:
        c.broken_correspondence("gen-builtins", None, V.tail(log, 20))
        return False
    return True


def with_big_stack(exe_m):
    """the extracted evaluator is not tail recursive: deep (fuel-bounded) recursion needs more than the default 8 MB stack"""
    sh = exe_m + ".sh"
    open(sh, "w").write('#!/bin/sh\nulimit -s unlimited 2>/dev/null || ulimit -s 4000000 2>/dev/null || ulimit -s 1000000 2>/dev/null\nexec "%s"\n' % exe_m)
    os.chmod(sh, 0o755)
    return sh


def cleanup(cases):
    for f in (cases, cases[:-len(".cases")] + ".stats.json"):
        try:
            os.remove(f)
        except OSError:
            pass


def judge(c, exe_m, cases, stream):
    """returns (mismatches, nskip, ntotal, skip reasons)"""
    try:
        lines, outs = V.run_model(with_big_stack(exe_m), cases)
    except RuntimeError as e:
        c.broken_correspondence(stream, None, "model run failed: %s" % e)
        return [], 0, 0, {}
    if len(lines) != len(outs):
        c.broken_correspondence(stream, None, "model produced %d verdicts for %d cases" % (len(outs), len(lines)))
        return [], 0, 0, {}
    mism, nskip, reasons = [], 0, {}
    for l, o in zip(lines, outs):
        c.note_case(l)
        if o == "ok":
            continue
        m = re.match(r"^\(skip ([^)]*)\)$", o)
        if m:
            nskip += 1
            try:
                why = bytes.fromhex(m.group(1)).decode("utf-8", "replace") if re.fullmatch(r"[0-9a-f]+", m.group(1)) else m.group(1)
            except Exception:
                why = m.group(1)
            reasons[why] = reasons.get(why, 0) + 1
            continue
        mism.append((l, o))
    if lines:
        step = max(1, len(lines) // 4)
        for i in range(0, len(lines), step):
            c.samples.append(dict(stream=stream, case=lines[i][:400], verdict=outs[i][:200]))
    return mism, nskip, len(lines), reasons


def run(tier, seed):
    c = V.Check(PROP, tier, seed)
    c.assumptions += [
        "the AST the model evaluates is the one gojq.Parse produced (serialised by harness/sem/ast.go); parsing itself is property C09",
        "number literals travel with the value strconv gave them (decimal->binary64 conversion is not modelled)",
        "error message texts are not observables; errors are compared by class (Go type) and carried value",
        "cases the model declines (skip: unsupported native, float formatting, Go-identity-dependent path checks, fuel) are counted, not judged",
        "ints are 64-bit; math/big exact (C10)",
    ]
    exe_h, hlog = V.build_harness("sem")
    st, mism, nskip, ntotal, reasons = {}, [], 0, 0, {}
    exe_m = None
    if exe_h is None:
        c.broken_correspondence("harness-build", None, V.tail(hlog, 40))
    else:
        regen_builtins(c, exe_h)
    proved = c.prove(PROPS)
    proved = c.prove(PROPS_LINK) and proved
    if exe_h is not None:
        exe_m, mlog = V.build_model("sem", "extract/ExtractSem.v", "semmodel", deps=["sem/Run.v"])
        if exe_m is None:
            c.broken_correspondence("model-extraction", None, V.tail(mlog, 40))
        else:
            n = 1500 if tier == "quick" else 40000
            # private file names: concurrent runs of this check must not read each other's cases
            rc, out, cases, st = V.run_harness("sem", "c01", seed, n, tier, name="c01-%s-%d" % (tier, os.getpid()))
            if rc != 0:
                c.broken_correspondence("harness-run", None, V.tail(out, 40))
            else:
                mism, nskip, ntotal, reasons = judge(c, exe_m, cases, "c01")
                if ntotal != st.get("lines"):
                    c.broken_correspondence("c01", None, "judged %s cases but the harness wrote %s" % (ntotal, st.get("lines")))
                cleanup(cases)
                for v in (st.get("impl_violations") or []):
                    c.failing_input("implementation-only oracle (panic / builtin.go out of sync with builtin.jq)", v, v)
    # every impl != Sem case is a concrete input on which the implementation departs from the
    # reference semantics: the case line is the replay
    for line, verdict in mism[:20]:
        c.failing_input("implementation output differs from the reference semantics", line, "model: " + verdict[:2000])
    rate = (nskip / ntotal) if ntotal else 0.0
    if ntotal and rate > MAX_SKIP_RATE:
        c.broken_correspondence("c01", None, "skip rate %.3f above %.2f: the model declines too much to be evidence" % (rate, MAX_SKIP_RATE))
    rule = ("programs: every program of the core grammar with <= 3 constructs (12 leaves, 19 unary, 43 binary forms) x the 12-value "
            "input set; random programs up to ~60 nodes biased to nested generators in operands, closures, shadowing, try/?//, "
            "reduce/foreach with generators and empty updates, label/break across functions, destructuring, paths and updates; "
            "the queries of cli/test.yaml with their inputs; token mutations of them.  inputs: 12-value set + 45 values over all "
            "Go number representations + random values.  distinct = distinct (program,input) case lines; first 50 outputs observed")
    return c.finish(rule, extra_cov=dict(harness_stats=st, cases=ntotal, skipped=nskip, skip_rate=round(rate, 4),
                                         skip_reasons=dict(sorted(reasons.items(), key=lambda kv: -kv[1])[:25]),
                                         mismatches=len(mism), max_skip_rate=MAX_SKIP_RATE))


def replay(path):
    """re-run the recorded case: its program text is not in the line (only the AST), so the stream is re-run with the seed;
    a single recorded line is also judged again by the current model"""
    d = json.load(open(path))
    print(json.dumps({k: (v if k != "case" else str(v)[:500]) for k, v in d.items()}, indent=1))
    case = d.get("case")
    exe_m, mlog = V.build_model("sem", "extract/ExtractSem.v", "semmodel", deps=["sem/Run.v"])
    if case and exe_m and case.startswith("(run "):
        p = subprocess.run([exe_m], input=(case + "\n").encode(), stdout=subprocess.PIPE)
        print("model verdict on the recorded observation:", p.stdout.decode().strip()[:2000])
    return run("quick", d.get("seed", 1))
