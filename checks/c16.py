"""C16 — input modes and argument flags mean what their in-language equivalents mean (docs/C16.md)."""
import json, os, re, sys
import verif as V

PROP = "C16"
PROPS = "props/C16.v"


def nontrivial(line):
    """non-trivial: anything but an empty / single-scalar stream"""
    return len(line) > 40


def correspond(c, seed, n, tier, extra=None, name="c16"):
    """harness on the implementation, then model and declarative oracle on the same lines.
    Returns (ok, mism, smism, stats)."""
    exe_h, hlog = V.build_harness("c16")
    if exe_h is None:
        c.broken_correspondence("harness-build", None, V.tail(hlog, 40))
        return False, [], [], {}
    exe_m, mlog = V.build_model("c16", "extract/ExtractC16.v", "c16model", deps=["c16/Run.v"])
    if exe_m is None:
        c.broken_correspondence("model-extraction", None, V.tail(mlog, 40))
        return False, [], [], {}
    rc, out, cases, st = V.run_harness("c16", "c16", seed, n, tier, extra=extra, name=name)
    if rc != 0:
        c.broken_correspondence("harness-run", None, V.tail(out, 40))
        return False, [], [], st
    mism = V.compare_model(c, exe_m, cases, name, nontrivial=nontrivial)
    smism = V.compare_model(c, exe_m, cases, name, spec=True)
    return True, mism, smism, st


def run(tier, seed, extra=None):
    c = V.Check(PROP, tier, seed)
    c.assumptions += [
        "encoding/json's Decoder.Token / Decode / More behave as documented (token sequence of the text, "
        "More = next byte is neither ] nor }); the harness tokenises every input with the same decoder",
        "the link between file bytes and (values, malformed?) is encoding/json's (C17 covers error positions)",
        "os.Open/os.ReadFile/io.ReadAll/bufio.ReadString read the bytes of the file",
        "Go map iteration order is irrelevant because mapKeys keeps flag names globally unique (proved: C16_args_binding)",
        "a cut inside a number literal whose prefix is a number is judged against the stream in which the literal ends "
        "at the cut (the truncated text is a truncation of both; no implementation can tell them apart)",
    ]
    proved = c.prove(PROPS)
    ok, mism, smism, st = correspond(c, seed, 120 if tier == "quick" else 6000, tier, extra=extra)
    for v in (st.get("impl_violations") or [])[:10]:
        case, _, what = v.partition(" :: ")
        c.failing_input("implementation-only oracle: " + what, case, v)
    # impl != declarative oracle: the implementation violates the property on that input
    for line, verdict in smism[:10]:
        c.failing_input("implementation differs from the declarative oracle", line, "expected: " + verdict)
    sbad = set(l for l, _ in smism)
    for line, verdict in mism[:10]:
        if line not in sbad:
            c.broken_correspondence("c16", line, "model verdict: " + verdict)
    rule = ("random multi-document JSON streams (scalars, nested arrays/objects to depth 3, duplicate-free keys in "
            "arbitrary order, escapes, random whitespace) fed to --stream whole and truncated at EVERY byte; the same "
            "streams split over 0..3 files and stdin under -n/-s/-R/-Rs/--stream/-f and [.,input]; malformed and missing "
            "files; raw lines and JSON documents of 4095..16384 bytes (thorough: ..70000) incl. CRLF and no final newline; "
            "--slurpfile/--rawfile/--argjson under every input mode; --arg/--argjson/--slurpfile/--rawfile with duplicate names, --args/--jsonargs switching; "
            "distinct = distinct case lines longer than 40 bytes")
    return c.finish(rule, extra_cov=dict(harness_stats=st))


def replay(path):
    d = json.load(open(path))
    print(json.dumps(d, indent=1))
    print("replay: re-running the C16 streams with the recorded seed:", d.get("seed"))
    return run("quick", d.get("seed", 1))
