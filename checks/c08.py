"""C08 — no query text or input can crash the library or the command (DESIGN.md §5 C08, docs/C08.md).

regen (yytables, flagtable) -> prove (coq/props/C08.v: LR driver, flag parser, Preview/encoder slicing)
-> crash search (implementation-only oracle, child-process pool) + correspondence streams lr / flags / preview
   judged by the extracted model -> verdict."""
import json, os, subprocess, sys
import verif as V

PROP = "C08"
PROPS = "props/C08.v"
TIE = "props/C08Tie.v"
DEPS = ["c08/Run.v"]


def build_gojq():
    """the command itself, for the child-process cases of the thorough tier"""
    exe = os.path.join(V.BUILD, "gojq-c08")
    rc, out = V.sh(["go", "build", "-o", exe, "./cmd/gojq"], cwd=V.REPO, env=V.go_env(), timeout=900)
    return (exe if rc == 0 else None), out


def model_stream(c, exe_m, stream, n, tier, seed, extra=None):
    """one correspondence stream: impl outcome per line, judged by the extracted model"""
    rc, out, cases, st = V.run_harness("c08", stream, seed, n, tier, extra=extra, name="c08" + stream)
    if rc != 0:
        c.broken_correspondence(stream + ":harness-run", None, V.tail(out, 30))
        return st
    for v in (st.get("impl_violations") or [])[:5]:
        # the implementation panicked inside the hook: a crash, whatever the model says
        c.failing_input("panic in the %s stream (recover() caught it)" % stream, v, replay_text(v))
    if exe_m is None:
        return st
    try:
        mism = V.compare_model(c, exe_m, cases, "c08" + stream)
    except RuntimeError as e:
        c.broken_correspondence(stream + ":model-run", None, str(e))
        return st
    for line, verdict in mism[:5]:
        c.broken_correspondence("c08" + stream, line, "model verdict: " + verdict)
    return st


def replay_text(case):
    """run one crash-search case in a fresh child process; returns class + detail"""
    exe = os.path.join(V.BUILD, "harness-c08")
    env = V.go_env()
    env["VERIF_REPO"] = V.REPO
    try:
        p = subprocess.run([exe, "replay", case], stdout=subprocess.PIPE, stderr=subprocess.STDOUT, timeout=120, env=env)
        return p.stdout.decode("utf-8", "replace")[:4000]
    except Exception as e:  # noqa
        return "replay failed: %s" % e


def run(tier, seed):
    c = V.Check(PROP, tier, seed)
    c.assumptions += [
        "the models cover the LR driver (control skeleton; semantic actions only through their yyDollar slicing), "
        "parseFlags, Preview/limitedWriter/encodeString/exponent clean-up; lexer, compiler, VM and natives are "
        "covered by the crash search only (their totality belongs to C09/C01/C03/C04/C07)",
        "type assertions yyDollar[i].value.(T) inside the grammar actions are not modelled (crash search only)",
        "utf8.DecodeLastRune/DecodeRuneInString return a size in 1..len for a non-empty input (proved for the "
        "executable decoders the model runs with; Go's are compared through the preview/encstr streams)",
        "cases exceeding the time/memory budget (context deadline, 2 GiB address space, 12 s watchdog) are "
        "counted as legitimately unbounded and skipped, not failed",
        "a dead worker whose stderr says out of memory is skipped; any other fatal error is a failure",
    ]
    os.environ["VERIF_REPO"] = V.REPO
    ok, log = V.regen(["yytables", "flagtable"])
    if not ok:
        c.notes.append("translator failed: " + V.tail(log, 10))
    # one make for everything (parallel), then the four statement files are re-checked concurrently with the
    # streams: each c.prove then finds its dependencies up to date and only recompiles its (small) props file
    ALLPROPS = [PROPS, TIE, "props/C08b.v", "props/C08c.v", "props/C08d.v", "props/C08e.v"]
    V.coq_make(DEPS + ["integ/CliTotalRun.v"] + ALLPROPS, timeout=3000)
    import threading
    pres = {}

    def prove_job(f):
        pres[f] = c.prove(f)
    pths = [threading.Thread(target=prove_job, args=(f,)) for f in ALLPROPS]
    for t in pths:
        t.start()
    exe_h, hlog = V.build_harness("c08")
    st_all = {}
    if exe_h is None:
        c.broken_correspondence("harness-build", None, V.tail(hlog, 40))
        for t in pths:
            t.join()
        return c.finish("none (harness did not build)")
    exe_m, mlog = V.build_model("c08", "extract/ExtractC08.v", "c08model", deps=DEPS)
    if exe_m is None:
        c.broken_correspondence("model-extraction", None, V.tail(mlog, 40))
    # ---- A: crash search -------------------------------------------------------------------------------
    extra = []
    if tier != "quick":
        gojq, glog = build_gojq()
        if gojq:
            extra.append("gojq=" + gojq)
        else:
            c.notes.append("could not build cmd/gojq for the child-process cases: " + V.tail(glog, 5))
    n = 24000 if tier == "quick" else 400000
    n = int(os.environ.get("C08_N", n))
    # the crash stream (all cores, but mostly waiting on deadlines/watchdogs at its tail) runs while the three
    # correspondence streams are produced and judged
    box = {}

    def crash_job():
        box["r"] = V.run_harness("c08", "crash", seed, n, tier, extra=extra, timeout=3300, name="c08crash")
    th = threading.Thread(target=crash_job)
    th.start()
    q = tier == "quick"
    st_all["lr"] = model_stream(c, exe_m, "lr", 6000 if q else 100000, tier, seed)
    st_all["flags"] = model_stream(c, exe_m, "flags", 5000 if q else 60000, tier, seed)
    st_all["preview"] = model_stream(c, exe_m, "preview", 4000 if q else 60000, tier, seed)
    # the command's top level against integ/CliTotal.v (own extracted judge: it depends on the C15 model)
    exe_c, clog = V.build_model("c08cmd", "extract/ExtractC08cmd.v", "c08cmdmodel", deps=["integ/CliTotalRun.v"])
    if exe_c is None:
        c.broken_correspondence("cmd:model-extraction", None, V.tail(clog, 30))
    st_all["cmd"] = model_stream(c, exe_c, "cmd", 4000 if q else 60000, tier, seed)
    th.join()
    for t in pths:
        t.join()
    proved = all(pres.get(f) for f in ALLPROPS)
    rc, out, cases, st = box.get("r") or (1, "crash stream did not run", None, {})
    st_all["crash"] = {k: v for k, v in st.items() if k not in ("failures",)}
    if rc != 0:
        c.broken_correspondence("crash:harness-run", None, V.tail(out, 40))
    else:
        fails = {f["case"]: f for f in (st.get("failures") or [])}
        for v in (st.get("impl_violations") or [])[:8]:
            f = fails.get(v, {})
            c.failing_input("crash search: %s in stream %s" % (f.get("class", "failure"), f.get("stream", "?")), v,
                            "%s\n%s\noriginal (before minimisation): %s" % (f.get("readable", ""), f.get("detail", ""), f.get("original", "")))
        try:
            keep = []
            with open(cases) as fh:
                for line in fh:
                    c.note_case(line.rstrip("\n"))
                    if len(keep) < 2000:
                        keep.append(line)
            with open(cases, "w") as fh:      # disk is limited: keep a sample of the case lines only
                fh.writelines(keep)
        except OSError:
            pass
        cl = st.get("classes") or {}
        agg = {}
        for k, v in cl.items():
            agg[k.split(":", 1)[1]] = agg.get(k.split(":", 1)[1], 0) + v
        c.notes.append("crash search outcome classes: %s" % json.dumps(agg, sort_keys=True))
        c.samples += [dict(stream="crash", case=s) for s in (st.get("skipped_unbounded") or [])[:4]]
    if not proved:
        c.notes.append("a proof obligation broke; failing inputs were searched by the crash stream (all cases run on the "
                       "implementation under recover()/child processes) and by the lr/flags/preview streams (model verdict "
                       "'panic' or an implementation panic in the hook)")
    rule = ("crash search: every corpus query (cli/test.yaml) on its own and on pool inputs; every builtin (from `builtins`) "
            "systematically with boundary/wrong-typed arguments; byte-level mutations of corpus queries (bit flips, insert/"
            "delete/duplicate/truncate/splice/wrap); grammar-generated queries; structured arguments (time arrays of length "
            "0..12 over every numeric representation, odd path arrays and slice objects, entries with missing/extra keys, "
            "dangling-%% formats, every regex flag letter, huge/negative/NaN counts, out-of-range code points, deep and "
            "nested containers) for the builtins that look inside their argument, each family at each size; inputs and variables over all Go "
            "representations (nil, bool, int, float64 incl. NaN/Inf/-0, *big.Int, json.Number, invalid UTF-8 strings, nil and "
            "deep []any / map[string]any); command lines + stdin + GOJQ_COLORS in-process through a hook and (thorough) "
            "the built binary in a child process under ulimit -v; each case in a child-process pool under recover(), "
            "context deadline and output cap, Next() called 3 more times after the end and after errors. "
            "Correspondence: lr = token numbers of corpus/mutated/generated queries through the real driver vs LR.v "
            "(accept/reject + error offset); flags = parseFlags outcome on corpus and random argument vectors vs Flags.v; "
            "preview = Preview/typeErrorPreview/jsonLimitedMarshal/Marshal(string)/float exponent vs Preview.v. "
            "distinct = distinct case lines")
    return c.finish(rule, extra_cov=dict(harness_stats=st_all))


def replay(path):
    d = json.load(open(path))
    print(json.dumps(d, indent=1)[:6000])
    case = d.get("case")
    if not case:
        return 1
    exe_h, hlog = V.build_harness("c08")
    if exe_h is None:
        print(V.tail(hlog, 20))
        return 1
    os.environ["VERIF_REPO"] = V.REPO
    if case.startswith("(lib ") or case.startswith("(cli ") or case.startswith("(bin "):
        txt = replay_text(case)
        print(txt)
        first = txt.split("\n", 1)[0]
        return 1 if first in ("PANIC", "VIOL", "FATAL") else 0
    # a correspondence line: judge it again with the current model
    exe_m, mlog = V.build_model("c08", "extract/ExtractC08.v", "c08model", deps=DEPS)
    if exe_m is None:
        print(V.tail(mlog, 20))
        return 1
    p = subprocess.run([exe_m], input=(case + "\n").encode(), stdout=subprocess.PIPE)
    verdict = p.stdout.decode().strip()
    print("model verdict on the recorded line:", verdict)
    return 0 if verdict == "ok" else 1
