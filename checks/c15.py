"""C15 — the command prints exactly what the library yields, with documented statuses (docs/C15.md)."""
import binascii, json, os, sys
import verif as V

PROP = "C15"
PROPS = "props/C15.v"
PROPS_B = "props/C15b.v"     # the command from argv (coq/c15/Main.v): parse_flags -> runInternal -> the run loop
GOJQ_BIN = os.path.join(V.BUILD, "gojq-c15")

# the documented tables, used only when the translator cannot read the current tree (the tie is then
# reported broken; the correspondence still runs so that a failing input can be found)
DOCUMENTED_TABLES = """(* FALLBACK written by checks/c15.py: the translator failed on the current tree; documented values *)
From Coq Require Import ZArith.
Open Scope Z_scope.
Definition exitCodeOK : Z := 0.
Definition exitCodeFalsyErr : Z := 1.
Definition exitCodeFlagParseErr : Z := 2.
Definition exitCodeCompileErr : Z := 3.
Definition exitCodeNoValueErr : Z := 4.
Definition exitCodeDefaultErr : Z := 5.
Definition compileError_ExitCode : Z := exitCodeCompileErr.
Definition emptyError_ExitCode (inner : option Z) : Z := match inner with Some c => c | None => exitCodeDefaultErr end.
Definition exitCodeError_ExitCode (code : Z) : Z := code.
Definition flagParseError_ExitCode : Z := exitCodeFlagParseErr.
Definition queryParseError_ExitCode : Z := exitCodeCompileErr.
Definition run_status (err : option (option Z)) : Z :=
  match err with None => exitCodeOK | Some (Some c) => c | Some None => exitCodeDefaultErr end.
Definition exitStatus_initial : Z := exitCodeNoValueErr.
Definition exitStatus_override (err : option (option Z)) (recorded : Z) : option (option Z) :=
  match err with Some (Some c) => Some (Some c) | _ => Some (Some recorded) end.
Definition exitStatus_after (falsy : bool) : Z := if falsy then exitCodeFalsyErr else exitCodeOK.
Definition lib_error_code : Z := 5.
Definition lib_halt_code : Z := 0.
Definition lib_halt_error_default_code : Z := 5.
Definition lib_exitCodeError_ExitCode (code : Z) : Z := code.
Definition lib_HaltError_ExitCode (code : Z) : Z := lib_exitCodeError_ExitCode code.
Definition lib_breakError_ExitCode : Z := 3.
Definition os_status (status : Z) : Z := status mod 256.
"""

ASSUMPTIONS = [
    "the library is abstracted: per input the model receives the outcomes of Code.Run's iterator (value | error with "
    "optional ExitCode | *HaltError), the Parse/Compile outcome and the decoded input stream; the harness obtains them "
    "from the public API (gojq.Parse/Compile/Run/Marshal, encoding/json with UseNumber) in the same process",
    "the query is deterministic (no input/inputs, $ENV, now, debug, stderr, input_filename in generated queries)",
    "values are rendered by re-indenting gojq.Marshal's compact text (model function reindent = layout of cli/encoder.go); "
    "scalar formatting is C12's subject",
    "writes to stdout/stderr do not fail (bytes.Buffer / pipe that is read to the end)",
    "the operating system passes the low 8 bits of the status given to os.Exit to the parent (os_status = mod 256); "
    "checked against the real binary in the thorough tier",
    "streams c15 / c15replay: the harness tells the model which cases are usage errors; stream c15argv: the flag parser model "
    "(coq/c08/Flags.v over the regenerated option table) and the pre-loop part of runInternal (coq/c15/Main.v) derive everything "
    "from the argument vector",
    "c15argv: colour and YAML renderings of single values are taken from the encoders (cli.VerifC12Encode, go-yaml) as world "
    "functions; the YAML encoder is assumed not to fail; queries mentioning input / debug / stderr are skipped",
    "message texts are passed through (library errors) or matched as 'gojq: <non-empty>\\n' (command's own wording)",
]


def load_cases(cases):
    cmds = []
    p = cases + ".cmds"
    if os.path.exists(p):
        cmds = open(p).read().split("\n")
    return cmds


def build_binary(c):
    rc, out = V.sh(["go", "build", "-o", GOJQ_BIN, "./cmd/gojq"], cwd=V.REPO, env=V.go_env(), timeout=1200)
    if rc != 0:
        c.broken_correspondence("gojq-binary-build", None, V.tail(out, 30))
        return None
    return GOJQ_BIN


def prepare(c):
    """regen -> prove -> build harness and model. Returns (proved, exe_h, exe_m)."""
    okf, logf = V.regen(["flagtable"])
    if not okf:
        c.broken_obligation("translator flagtable (type flagopts of cli/cli.go changed shape)", V.tail(logf, 15))
    ok, log = V.regen(["clitables"])
    if not ok:
        c.broken_obligation("translator clitables (cli/cli.go, cli/error.go, error.go, func.go changed shape)", V.tail(log, 15))
        open(os.path.join(V.COQ, "gen", "GenCliTables.v"), "w").write(DOCUMENTED_TABLES)
        c.notes.append("translator failed; documented tables substituted for the correspondence run")
    proved = c.prove(PROPS)
    proved = c.prove(PROPS_B) and proved
    exe_h, hlog = V.build_harness("c15")
    exe_m = None
    if exe_h is None:
        c.broken_correspondence("harness-build", None, V.tail(hlog, 40))
    else:
        # c15/MainRun.v judges the (argv ...) lines with cli_main and every other line exactly as c15/Run.v does
        exe_m, mlog = V.build_model("c15b", "extract/ExtractC15b.v", "c15bmodel", deps=["c15/MainRun.v"])
        if exe_m is None:
            c.broken_correspondence("model-extraction", None, V.tail(mlog, 40))
    return proved, exe_h, exe_m


def judge(c, exe_m, cases, stream):
    cmds = load_cases(cases)
    lines = [l for l in open(cases).read().split("\n") if l]
    idx = {}
    for i, l in enumerate(lines):
        idx.setdefault(l, i)

    def case_text(line):
        i = idx.get(line)
        if i is not None and i < len(cmds) and cmds[i]:
            return cmds[i]
        return line

    mism = V.compare_model(c, exe_m, cases, stream)
    smism = V.compare_model(c, exe_m, cases, stream, spec=True)
    sbad = set(l for l, _ in smism)
    for line, verdict in smism[:10]:
        c.failing_input("command differs from the specified function of the library's outcomes (stdout / status / stderr)",
                        case_text(line), "expected " + verdict[:400] + " ; case line: " + line[:1500])
    for line, verdict in mism[:10]:
        if line not in sbad:
            c.broken_correspondence(stream, case_text(line), "model verdict: " + verdict[:400] + " ; case line: " + line[:1500])
    return mism, smism


def judge_argv(c, exe_m, cases):
    cmds = load_cases(cases)
    lines = [l for l in open(cases).read().split("\n") if l]
    idx = {}
    for i, l in enumerate(lines):
        idx.setdefault(l, i)
    mism = V.compare_model(c, exe_m, cases, "c15argv")
    for line, verdict in mism[:10]:
        i = idx.get(line)
        case = cmds[i] if i is not None and i < len(cmds) and cmds[i] else line
        if verdict.startswith("(bad job"):
            c.broken_correspondence("c15argv", case, "the model derives another job (query source / bindings / files) from the argv "
                                    "than the harness read off the option struct: " + verdict[:600])
        elif verdict.startswith("(bad"):
            # by MainProofs.main_result the model IS the specified function of the library's outcomes for this argv
            c.failing_input("command started from this argument vector differs from the specified function of the library's "
                            "outcomes (stdout / status / stderr)", case, "expected " + verdict[:400] + " ; case line: " + line[:1500])
        else:
            c.broken_correspondence("c15argv", case, "model verdict: " + verdict[:400] + " ; case line: " + line[:1500])
    return mism


def run(tier, seed):
    c = V.Check(PROP, tier, seed)
    c.assumptions += ASSUMPTIONS
    proved, exe_h, exe_m = prepare(c)
    st = {}
    if exe_h and exe_m:
        extra = []
        if tier != "quick":
            b = build_binary(c)
            if b:
                extra = [b]
        n = 2000 if tier == "quick" else 60000
        rc, out, cases, st = V.run_harness("c15", "c15", seed, n, tier, extra=extra)
        if rc != 0:
            c.broken_correspondence("harness-run", None, V.tail(out, 40))
        else:
            judge(c, exe_m, cases, "c15")
            for v in (st.get("impl_violations") or []):
                c.failing_input("impl-oracle", v, v)
        # the command from argv: random argument vectors judged by the extracted cli_main
        na = 3000 if tier == "quick" else 80000
        rc, out, cases_a, st_a = V.run_harness("c15", "c15argv", seed, na, tier)
        st = dict(st, argv=st_a)
        if rc != 0:
            c.broken_correspondence("harness-run:c15argv", None, V.tail(out, 40))
        else:
            judge_argv(c, exe_m, cases_a)
    rule = ("(a) every combination of -r -j --raw-output0 -c --tab -e -n -s (256) x 9 key queries (error on one input, NUL "
            "string, halt mid-stream, halt_error 257, absent/falsy last output) x 3 (quick) or 8 (thorough) input streams, "
            "--indent n rotating over 0..9; (b) n random queries (1-4 comma items drawn from values / error / halt / "
            "halt_error with and without codes / input-conditional items) x random streams of 0-5 documents with optional "
            "malformed tail, over all 256 flag masks, plus n/2 without -n/-s; (c) usage, option-value, parse and compile "
            "errors under the flag masks; (d) thorough: n/20 cases on the built cmd/gojq binary (status as seen by the "
            "parent). Every case is judged twice by extracted Gallina: against the model (Cli.v) and against the "
            "declarative specification (Spec.v); (e) stream c15argv: 3000 (quick) / 80000 (thorough) random ARGUMENT VECTORS "
            "(boolean flags long / short / clustered incl. -C -M --yaml-output -R, --indent in and out of range with = / separate / "
            "missing value, --arg / --argjson / --slurpfile / --rawfile with good, undecodable and missing values, --args / --jsonargs, "
            "-f with good / bad / missing query files, -L, -h / --version, unknown flags, `--`, extra input files good / malformed / "
            "missing, rejected GOJQ_COLORS) run through cli.VerifRun and judged by the extracted cli_main (coq/c15/Main.v), which "
            "derives options, bindings, query source and input files from the argv itself (must equal the harness's reading of the "
            "option struct) and is given the library's outcomes observed in-process: stdout bytes, status, stderr. "
            "distinct = distinct case lines")
    return c.finish(rule, extra_cov=dict(harness_stats=st))


def replay(path):
    """Re-run one recorded command; the evidence file of the last full run is left untouched."""
    ev = os.path.join(V.ROOT, "evidence", PROP + ".json")
    saved = open(ev).read() if os.path.exists(ev) else None
    try:
        return _replay(path)
    finally:
        if saved is not None:
            open(ev, "w").write(saved)


def _replay(path):
    d = json.load(open(path))
    print(json.dumps(d, indent=1)[:3000])
    case = d.get("case")
    if not case:
        print("no replayable case in this file (broken obligation without failing input); re-running the check")
        return run("quick", d.get("seed", 1))
    try:
        desc = json.loads(case)
    except Exception:
        print("case is not a command descriptor; re-running the stream with the recorded seed")
        return run("quick", d.get("seed", 1))
    c = V.Check(PROP, "replay", d.get("seed", 1))
    proved, exe_h, exe_m = prepare(c)
    if not (exe_h and exe_m):
        return c.finish("replay")
    if desc.get("mode") == "os":
        b = build_binary(c)
        if not b:
            return c.finish("replay")
        desc["mode"] = "os:" + b
    arg = binascii.hexlify(json.dumps(desc).encode()).decode()
    rc, out, cases, st = V.run_harness("c15", "c15replay", d.get("seed", 1), 0, "quick", extra=[arg], name="c15replay")
    if rc != 0:
        c.broken_correspondence("harness-run", None, V.tail(out, 40))
    else:
        # the replay keeps the original case text as key
        lines = [l for l in open(cases).read().split("\n") if l]
        open(cases + ".cmds", "w").write("\n".join([case] * len(lines)) + "\n")
        mism, smism = judge(c, exe_m, cases, "c15replay")
        for l, v in smism:
            print("STILL FAILING (vs specification):", v[:300])
        for l, v in mism:
            print("model verdict:", v[:300])
        if not mism and not smism:
            print("replayed case now agrees with model and specification")
        for v in (st.get("impl_violations") or []):
            c.failing_input("impl-oracle", v, v)
    return c.finish("replay of one recorded command")
