"""C19 — no ambient authority by default; each compile option grants exactly its own (docs/C19.md)."""
import json, os, re, sys
import verif as V

PROP = "C19"
PROPS = "props/C19.v"


def time_dependent():
    """names the regenerated GenAmbient.v lists as time dependent (excluded from the ambient comparison)"""
    p = os.path.join(V.COQ, "gen", "GenAmbient.v")
    try:
        txt = open(p).read()
    except OSError:
        return []
    m = re.search(r"Definition time_dependent_builtins : list string :=\s*\[(.*?)\]\.", txt, flags=re.S)
    return re.findall(r'"([^"]*)"', m.group(1)) if m else []


def ambient_delta():
    """entries of the regenerated reference list that the reviewed allow-list would reject (for the report)"""
    p = os.path.join(V.COQ, "gen", "GenAmbient.v")
    try:
        txt = open(p).read()
    except OSError:
        return []
    m = re.search(r"Definition ambient_refs .*?:=\s*\[(.*?)\]\.", txt, flags=re.S)
    return re.findall(r'\("([^"]*)", "([^"]*)", "([^"]*)"\)', m.group(1)) if m else []


def run(tier, seed):
    c = V.Check(PROP, tier, seed)
    c.assumptions += [
        "the ambient-reference list is syntactic (go/ast): package-qualified selectors of os, path/filepath, net, syscall, "
        "runtime, unsafe, ... (every import not on the translator's pure list), time.Now/Local/..., io.ReadAll/Copy, "
        "fmt.Print*/Scan*, and .Local()/.Zone()/.Location() method calls; reflection or cgo would escape it (none imported: "
        "imports of non-pure packages are part of the checked list)",
        "dependencies (timefmt-go, the Go standard library) are outside the scan",
        "model of compileFunc's special names assumes the name is not shadowed by a user definition or variable",
        "native-vs-def interchangeability (paths, try, backtracking, argument order) is checked by the correspondence only "
        "(implementation-only oracle); it is not a theorem here",
        "negative arities are not generated (the model's arities are naturals); 0 <= min is the remaining panic condition",
    ]
    ok, log = V.regen(["ambient"])
    if not ok:
        c.notes.append("translator failed: " + V.tail(log, 10))
    proved = c.prove(PROPS)
    c.prove("props/C19b.v")      # native call = jq def with $value parameters in the built-in argument order (coq/c01vm2/NativeAsDef.v)
    if not proved:
        refs = ambient_delta()
        c.notes.append("regenerated ambient references: %s" % (refs,))
    exe_h, hlog = V.build_harness("c19")
    mism, smism, st, st2 = [], [], {}, {}
    exe_m = None
    if exe_h is None:
        c.broken_correspondence("harness-build", None, V.tail(hlog, 40))
    else:
        exe_m, mlog = V.build_model("c19", "extract/ExtractC19.v", "c19model", deps=["c19/Run.v"])
        if exe_m is None:
            c.broken_correspondence("model-extraction", None, V.tail(mlog, 40))
        else:
            n = 40 if tier == "quick" else 2500
            rc, out, cases, st = V.run_harness("c19", "c19", seed, n, tier)
            if rc != 0:
                c.broken_correspondence("harness-run", None, V.tail(out, 40))
            else:
                mism = V.compare_model(c, exe_m, cases, "c19")
                smism = V.compare_model(c, exe_m, cases, "c19", spec=True)
                for v in (st.get("impl_violations") or []):
                    c.failing_input("impl-oracle", v, v)
        n2 = 200 if tier == "quick" else 8000
        excl = ",".join(time_dependent())
        rc, out, cases2, st2 = V.run_harness("c19", "c19impl", seed, n2, tier, extra=["exclude=" + excl])
        if rc != 0:
            c.broken_correspondence("harness-run-impl", None, V.tail(out, 40))
        else:
            c.evaluations += int(st2.get("lines") or 0)
            for v in (st2.get("impl_violations") or []):
                if v.startswith("harness:"):
                    c.broken_correspondence("c19impl", v, v)
                else:
                    c.failing_input("impl-oracle", v, v)
    for line, verdict in smism[:10]:
        c.failing_input("implementation differs from the property's reading of the options", line, "expected: " + verdict)
    sbad = set(l for l, _ in smism)
    for line, verdict in mism[:10]:
        if line not in sbad:
            c.broken_correspondence("c19", line, "model verdict: " + verdict)
    rule = ("arity: random sequences of 1..4 registrations over 3 names (ranges within 0..30, boundary-biased, overlapping, "
            "some invalid / iterator clashes) x every call arity 0..33,62..65 + `builtins`; vars: 0..5 names (duplicates) x "
            "value counts k-2..k+2; env: random loader entries (no '=', leading '=', several '=', duplicates) and no loader under "
            "changed process environment; input: iterator lengths 0..5 x 0..7 calls; ambient: every builtin x 3 argument tuples x "
            "10 inputs + random compositions in two child processes with different env/cwd/HOME/TZ/stdin; custom: 13 Go "
            "functions (value, error, iterator, overlapping, arity 28..30) vs jq defs x 65 calling contexts x 6 inputs")
    return c.finish(rule, extra_cov=dict(harness_stats=st, impl_stats=st2))


def replay(path):
    d = json.load(open(path))
    print(json.dumps(d, indent=1))
    print("replay of a C19 case re-runs the streams with the recorded seed:", d.get("seed"))
    return run("quick", d.get("seed", 1))
