"""C14 — string positions are code points and regex builtins agree with match (docs/C14.md)."""
import hashlib, json, os, re, sys
import verif as V
import jqdefs

PROP = "C14"
PROPS = "props/C14.v"
DEPS = ["c13/Utf8.v", "c13/Codec.v", "c13/Jv.v", "c13/Time.v", "c13/Run.v", "c14/Pos.v", "c14/Run.v"]


# sha256[:16] of the builtin.jq text of every definition transcribed by hand in coq/c14/Pos.v
JQ_TEXT = {
    "match/1": "82915361c488a041",
    "match/2": "6cdac12cbd4b0b32",
    "test/1": "410d75930091e007",
    "test/2": "e1ebaeb431aecfbb",
    "capture/1": "d50160fe5096f117",
    "capture/2": "f93658d5acffba21",
    "scan/1": "f736fed380c06880",
    "scan/2": "6b43a36f6c01c762",
    "splits/1": "7f3cfd0c4db30869",
    "splits/2": "72155c688bde5ba6",
    "split/2": "4bad2a1e7f4718f3",
    "sub/2": "c954d4d804b85206",
    "sub/3": "7d099b395e73526e",
    "gsub/2": "4db71701da131bbe",
    "gsub/3": "4bf9e2610fda4398",
}


def split_case(v):
    case, _, det = v.partition(" :: ")
    return case, det


def top_args(line):
    body = line[1:-1] if line.startswith("(") else line
    i = body.find(" ")
    kind = body[:i] if i >= 0 else body
    rest = body[i + 1:] if i >= 0 else ""
    args, tok, depth = [], "", 0
    for ch in rest:
        if ch == "(":
            depth += 1
        if ch == ")":
            depth -= 1
        if ch == " " and depth == 0:
            if tok:
                args.append(tok)
            tok = ""
        else:
            tok += ch
    if tok:
        args.append(tok)
    return kind, args


def hexof(arg):
    """'(s <hex>)' -> '<hex>', 'null' -> 'null'"""
    m = re.match(r"^\(s (\S+)\)$", arg)
    return m.group(1) if m else ("null" if arg == "null" else None)


def candidate_cases(mism):
    """(subject, regex, flags) / (subject, needle) of the mismatching lines, as replayable oracle cases"""
    out, seen = [], set()
    for line, _ in mism[:300]:
        kind, a = top_args(line)
        txt = None
        if kind in ("match", "splits", "gsubid", "test", "capture", "scan", "split2") and len(a) >= 3:
            r, f, s = hexof(a[0]), hexof(a[1]), hexof(a[2])
            if r and f and s:
                txt = "subject=%s re=%s flags=%s" % (s, r, f)
        elif kind in ("indices", "index", "rindex") and len(a) >= 2:
            s, x = hexof(a[0]), hexof(a[1])
            if s and x:
                txt = "subject=%s needle=%s" % (s, x)
        elif kind in ("length", "slice", "at") and a:
            s = hexof(a[0])
            if s:
                txt = "subject=%s" % s
        if txt and txt not in seen:
            seen.add(txt)
            out.append(txt)
    return out


def run(tier, seed):
    c = V.Check(PROP, tier, seed)
    c.assumptions += [
        "Go's rune decoding (`for range s`, []rune(s), string(r)) behaves as modelled in c13/Utf8.v (checked by the "
        "length/slice/at/indices lines, which include strings with ill-formed bytes)",
        "regexp.FindAllStringSubmatchIndex is the engine parameter [re]: its results are taken from Go's regexp by the "
        "harness (with gojq's flag translation: i -> (?i) prefix, m -> (?s) prefix, g -> n = -1) and the hypotheses "
        "re_aligned (pairs are (-1,-1) or ordered, in range, on rune boundaries) and re_ordered (successive matches do "
        "not overlap) are CHECKED on every result by the extracted model (verdict hyp-violated otherwise)",
        "splits and sub/gsub theorems are about hand transcriptions of the builtin.jq foreach/reduce bodies (c14/Pos.v "
        "splits, sub_with), tied to the implementation by the splits/gsubid lines",
        "test, capture, scan, split/2 theorems are over transcriptions of their builtin.jq bodies (tied by the test/capture/"
        "scan/split2 lines); MatchString = 'a first match exists', FindAll(s,1) = first of FindAll(s,-1), unique group "
        "names and strictly increasing match ends (progress) are hypotheses CHECKED on every sampled regexp output",
        "termination: regexp.allMatches is modelled over a single-search engine exec with hypothesis exec_progress; exec "
        "itself is not observable through regexp's API, its consequences (orderedb, progressb) are checked on outputs; "
        "the implementation's queries additionally run under a 5 s timeout",
        "flag x is not accepted by gojq (error); flag sets range over g, i, m and null",
    ]
    proved = c.prove(PROPS)
    jqdefs.check(c, V.REPO, JQ_TEXT)
    exe_h, hlog = V.build_harness("c14")
    if exe_h is None:
        c.broken_correspondence("harness-build", None, V.tail(hlog, 40))
        return c.finish("harness did not build")
    exe_m, mlog = V.build_model("c14", "extract/ExtractC14.v", "c14model", deps=DEPS)
    if exe_m is None:
        c.broken_correspondence("model-extraction", None, V.tail(mlog, 40))
    mism, st, ost = [], {}, {}
    viol = []
    n = 200 if tier == "quick" else 5000
    if exe_m is not None:
        rc, out, cases, st = V.run_harness("c14", "c14", seed, n, tier, name="c14")
        if rc != 0:
            c.broken_correspondence("harness-run", None, V.tail(out, 40))
        else:
            mism = V.compare_model(c, exe_m, cases, "c14")
    rc, out, ocases, ost = V.run_harness("c14", "regex", seed, n, tier, name="c14regex")
    if rc != 0:
        c.broken_correspondence("regex-run", None, V.tail(out, 40))
    else:
        viol = list(ost.get("impl_violations") or [])
        c.evaluations += int(ost.get("oracle_cases") or 0)
        with open(ocases) as f:
            for l in f:
                c.distinct.add(hashlib.sha1(l.encode("utf-8", "replace")).digest()[:8])
    if mism:
        cands = candidate_cases(mism)
        cf = os.path.join(V.BUILD, "cases", "c14.cands")
        with open(cf, "w") as f:
            f.write("\n".join(cands) + "\n")
        rc, out, _, sst = V.run_harness("c14", "regex", seed, 0, tier, extra=["cases=" + cf], name="c14search")
        if rc == 0:
            viol += list(sst.get("impl_violations") or [])
            c.notes.append("evaluated the property's oracles on %d cases taken from %d mismatching lines" % (len(cands), len(mism)))
        else:
            c.notes.append("candidate search failed: " + V.tail(out, 5))
    seen = set()
    for v in viol:
        case, det = split_case(v)
        if case in seen:
            continue
        seen.add(case)
        c.failing_input("property oracle fails on the implementation", case, det)
    for line, verdict in mism[:10]:
        c.broken_correspondence("c14", line, "model verdict: " + verdict, found_input=False)
    rule = ("model stream: length, .[i:j] and .[i] for i, j in {null, 0, 1, 2, 3, 5, -1, -2, -3, -7, 100, -100}, indices/index/rindex "
            "with single, multi-byte, overlapping and ill-formed needles, on every subject over the 9-symbol alphabet "
            "(a b A e-acute euro emoji combining-acute newline space) up to length 2 plus random and ill-formed ones; match/"
            "splits/sub/gsub on every subject up to length 3 (4 thorough) and random longer ones x sampled (regex, flags) from "
            "~110 fixed regexes (literals, classes, anchors, named/unnamed groups, alternation, empty-matching) and random "
            "grammar regexes x {null, '', g, i, m, gi, gm, im, gim, ig}. regex stream: test-iff-match, match-slice, splits "
            "rebuild, split/2, sub/gsub identity, capture, scan, termination on the same space, and every fixed regex x "
            "every flag set on 8 multi-byte subjects. distinct = distinct case lines")
    return c.finish(rule, extra_cov=dict(harness_stats=st, oracle_stats=dict((k, ost.get(k)) for k in ("oracle_cases", "oracle_failures", "distribution"))))


def replay(path):
    d = json.load(open(path))
    print(json.dumps(d, indent=1))
    case = d.get("case")
    if not case:
        return 1
    exe_h, hlog = V.build_harness("c14")
    if exe_h is None:
        print(hlog)
        return 2
    if case.startswith("oracle="):
        cf = os.path.join(V.BUILD, "cases", "c14.replay")
        with open(cf, "w") as f:
            f.write(case.split(" ", 1)[1] + "\n")
        rc, out, _, st = V.run_harness("c14", "regex", d.get("seed", 1), 0, "quick", extra=["cases=" + cf], name="c14replay")
        viol = [v for v in (st.get("impl_violations") or []) if split_case(v)[0] == case]
        for v in viol:
            print("REPRODUCED:", v)
        if not viol:
            print("not reproduced on the current tree")
        return 1 if viol else 0
    return run("quick", d.get("seed", 1))
