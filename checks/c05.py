"""C05 — runs are isolated: inputs, variables, code constants and emitted values are never modified;
re-running yields identical output; nothing depends on Go map iteration order (docs/C05.md)."""
import concurrent.futures
import threading
import json
import os
import re
import sys

import verif as V
import c56util as U

PROP = "C05"
PROPS = "props/C05.v"
NSHARD = 12


def hist_stream(c, tier, seed, extra_args=None, n=None, corpus=True):
    """history observer on the implementation (oracle evaluated in the harness, no model involved)"""
    exe = os.path.join(V.BUILD, "harness-c05")
    if n is None:
        n = 1000 if tier == "quick" else 60000
    jobs = U.corpus_jobs() if corpus else []
    jp = U.write_jobs("c05_corpus.json" if corpus else "c05_nocorpus.json", jobs)
    args = ["-seed", str(seed), "-n", str(n), "-tier", tier, "jobs=" + jp] + (extra_args or [])

    def one(i):
        return U.drive(exe, "hist", args + ["shard=%d/%d" % (i, NSHARD)], env=V.go_env(),
                       timeout=300 if tier == "quick" else 2400)
    with concurrent.futures.ThreadPoolExecutor(NSHARD) as ex:
        rs = list(ex.map(one, range(NSHARD)))
    digests, viols, crashes, skipped, texts = {}, [], [], {}, {}
    for r in rs:
        crashes += r["crashes"]
        for line in r["records"]:
            if line.startswith("H "):
                parts = line.split(" ")
                if len(parts) != 6:
                    continue
                _, idx, mode, origin, nout, dig = parts
                digests[(int(idx), int(mode))] = (origin, nout, dig)
                c.note_case(line, nontrivial=nout != "0")
            elif line.startswith("J "):
                k, _, t = line[2:].partition("\t")
                texts[int(k)] = t
            elif line.startswith("V "):
                case, _, what = line[2:].partition("\t")
                viols.append((case, what))
            elif line.startswith("S "):
                k = line.split(" ")[2]
                skipped[k] = skipped.get(k, 0) + 1
    return dict(digests=digests, viols=viols, crashes=crashes, skipped=skipped, corpus=len(jobs), texts=texts,
                timed_out=any(r["timed_out"] for r in rs))


# canonical case of the family F2 (docs/C05.md): the TEXT of an emitted getpath/setpath/delpaths error drifts when
# the iterator is advanced after the error, because the error previews the update accumulator lazily
ERRTEXT_CANON = ('c05 alias=0 vars=[3,1,2] input={"a":{"b":0},"c":0} '
                 'program=(.c, .a, .a.b) |= (if type == "number" then empty else 1 end)')


def report_history_violations(c, viols):
    """failing inputs of the history observer; members of family F2 are represented by its canonical case when
    the canonical case itself showed in this run (same root cause), otherwise they are reported one by one"""
    fam = [(case, what) for case, what in viols if what.startswith("errtext:")]
    rest = [(case, what) for case, what in viols if not what.startswith("errtext:")]
    canon = [(case, what) for case, what in fam if case == ERRTEXT_CANON]
    if canon:
        c.failing_input("the message of an emitted getpath/setpath/delpaths error changes when the iterator is "
                        "advanced after the error (it previews the update accumulator lazily); no JSON value changes",
                        ERRTEXT_CANON, canon[0][1])
        others = sorted(set(case for case, _ in fam if re.sub(r"alias=\d", "alias=0", case) != ERRTEXT_CANON))
        if others:
            c.notes.append("%d further histories show only the same error-text drift (family F2), e.g. %s"
                           % (len(others), others[0][:300]))
    else:
        rest = fam + rest
    for case, what in rest[:10]:
        c.failing_input(what.split(":")[0], case, what)


def nprobes():
    try:
        txt = open(os.path.join(V.ROOT, "harness", "c56", "gen.go")).read()
        body = txt[txt.index("var Probes = []string{"):txt.index("var genPaths")]
        return body.count("`") // 2
    except Exception:
        return 0


def run(tier, seed):
    c = V.Check(PROP, tier, seed)
    c.assumptions += [
        "same-value writes into shared containers cannot be seen by value snapshots; they are observed by the "
        "C06 race observer (write detector) and predicted by the heap model (theorem C05_deleteEmpty_writes_refuted)",
        "Go's append growth policy is a Section variable of the model (grow c n >= n); sharing signatures "
        "compared with the implementation do not include spare capacity",
        "programs using now, input(s), local-time functions, env, modules, halt are excluded (property text)",
    ]
    ok, log = V.regen(["mapsites"])
    if not ok:
        c.notes.append("translator failed: " + V.tail(log, 10))
    exe_h, hlog = V.build_harness("c05")
    st = {}
    if exe_h is None:
        c.prove(PROPS)
        c.broken_correspondence("harness-build", None, V.tail(hlog, 40))
        return c.finish("none")
    # the history observer needs no Coq: it runs in the background while the proofs are checked
    cbg = V.Check(PROP, tier, seed)
    bg = {}

    def background():
        try:
            bg["h"] = hist_stream(cbg, tier, seed)
            bg["h2"] = hist_stream(cbg, tier, seed, n=0 if tier == "quick" else 5000, corpus=False)
        except Exception as e:   # reported below as a broken observer, never swallowed
            import traceback
            bg["error"] = traceback.format_exc()
    th = threading.Thread(target=background)
    th.start()
    proved = c.prove(PROPS)
    # 1. native sharing signatures judged by the extracted heap model
    exe_m, mlog = V.build_model("c05", "extract/ExtractC05.v", "c05model", deps=["c05/Run.v"])
    if exe_m is None:
        c.broken_correspondence("model-extraction", None, V.tail(mlog, 40))
    else:
        n = 3000 if tier == "quick" else 400000
        rc, out, cases, st = V.run_harness("c05", "nat", seed, n, tier)
        if rc != 0:
            c.broken_correspondence("harness-run", None, V.tail(out, 40))
        else:
            mism = V.compare_model(c, exe_m, cases, "c05nat")
            for line, verdict in mism[:10]:
                # the model predicts "no change of any argument": a changed argument or a wrong value is a
                # violation of the property itself; a different sharing signature is a stale model
                if "(bad post" in verdict or "(bad value" in verdict or "(bad err" in verdict:
                    c.failing_input("a native changed one of its arguments or returned a wrong value", line, verdict)
                else:
                    c.broken_correspondence("c05nat", line, "model verdict: " + verdict)
    # 2. histories
    th.join()
    c.evaluations += cbg.evaluations
    c.distinct |= cbg.distinct
    if "error" in bg or "h2" not in bg:
        c.broken_correspondence("hist", None, "history observer failed: " + bg.get("error", "?"))
        return c.finish("none")
    h, h2 = bg["h"], bg["h2"]
    report_history_violations(c, h["viols"])
    if h["timed_out"]:
        c.broken_correspondence("hist", None, "history stream timed out")
    for k, rc, tail in h["crashes"][:3]:
        c.notes.append("harness process ended abnormally at job %d rc=%s (crashes are C08's subject): %s" % (k, rc, tail[-400:]))
    # 3. determinism across processes: the same jobs in a second set of processes give the same digests
    if True:
        common = set(h["digests"]) & set(h2["digests"])
        # the second stream generates fewer random programs, so only probes (same indices) are comparable
        ndiff = 0
        for k in sorted(common):
            if h["digests"][k][0] == "probe" and h2["digests"][k][0] == "probe" and h["digests"][k] != h2["digests"][k]:
                ndiff += 1
                c.failing_input("outputs differ between two processes",
                                h["texts"].get(k[0], "c05 alias=%%d probe-index=%d" % k[0]) % k[1],
                                "%s vs %s" % (h["digests"][k], h2["digests"][k]))
        c.notes.append("cross-process digest comparison over %d probe histories: %d differ" % (len(common), ndiff))
    # 4. a broken obligation (e.g. a new map-iteration or container-write site): name the sites and search
    #    with a larger random history pass
    if not proved and exe_m:
        sp = os.path.join(V.BUILD, "cases", "c05_sites.cases")
        open(sp, "w").write("(sites)\n")
        try:
            _, outs = V.run_model(exe_m, sp)
            c.notes.append("site list vs reviewed list (hex): " + (outs[0] if outs else "")[:1500])
            for kind, hexes in re.findall(r"\((unreviewed|vanished)((?: \([0-9a-f\- ]+\))*)\)", outs[0] if outs else ""):
                for grp in re.findall(r"\(([0-9a-f\- ]+)\)", hexes):
                    c.notes.append(kind + " site: " + " | ".join(
                        bytes.fromhex(x).decode("utf-8", "replace") if x != "-" else "" for x in grp.split()))
        except Exception as e:
            c.notes.append("site diff failed: %r" % e)
        h3 = hist_stream(c, tier, seed + 1000, n=8000)
        report_history_violations(c, h3["viols"])
    rule = ("histories (run on aliased input; same object again; equal fresh copy; two live iterators interleaved "
            "with another input; again) x 3 aliasing modes (plain / hidden capacity / shared sub-containers and "
            "overlapping slices) x programs: %d hand-written sharing probes x inputs, random programs from the "
            "update/delete/add/sort/slice grammar, %d corpus programs of cli/test.yaml; native sharing signatures "
            "(result value, which argument container each result container is, arguments unchanged incl. hidden "
            "capacity) judged by the extracted heap model; distinct = distinct history/native case lines"
            % (nprobes(), h["corpus"]))
    return c.finish(rule, extra_cov=dict(harness_stats=st, histories=len(h["digests"]), skipped=h["skipped"],
                                         corpus_jobs=h["corpus"], crashes=len(h["crashes"])))


def replay(path):
    d = json.load(open(path))
    print(json.dumps(d, indent=1)[:3000])
    case = d.get("case")
    if not case:
        return 1
    exe_h, hlog = V.build_harness("c05")
    if exe_h is None:
        print(hlog)
        return 1
    if case.startswith("c05 "):
        r = U.drive(exe_h, "hist", ["-n", "-1", "replay=" + case], env=V.go_env(), timeout=120)
        bad = [l for l in r["records"] if l.startswith("V ")]
        for l in r["records"]:
            print(l)
        print("REPRODUCED" if bad else "not reproduced")
        return 1 if bad else 0
    print("native case: re-run through the model")
    return run("quick", d.get("seed", 1))
