"""C06 — a compiled query can be run from many goroutines at once (docs/C06.md).
Coq: ownership discipline (code_readonly, runs_commute).  Observer: -race harness as a write detector."""
import concurrent.futures
import threading
import json
import os
import re
import shutil
import sys

import verif as V
import c56util as U

PROP = "C06"
PROPS = "props/C06.v"
NSHARD = 6
G = 8

# canonical cases of the deleteEmpty family (DESIGN.md section 6, D6); always run first
CANON = [
    dict(program="{a:{q:1},b:{c:[1],d:{e:2}}} | del(.a.q)", input="null", origin="canon", mode="distinct"),
    dict(program="del(.zzz)", input='{"a":{"q":1},"b":{"c":[1],"d":{"e":2}}}', origin="canon", mode="shared"),
]


def build_race_harness():
    """go build -race of harness/c06 against the CURRENT /repo tree (Go's build cache makes the unchanged
    case cheap and rebuilds whenever a source file of /repo or of the harness changed)."""
    return V.build_harness("c06", extra_flags=["-race"], out="harness-c06race")


def split_reports(text):
    """race reports and fatal errors in one stderr chunk -> list of dict(kind, writers, text);
    an access is attributed to its innermost frame inside package gojq (runtime.mapassign etc. skipped)"""
    out = []
    for rep in re.findall(r"(?s)WARNING: DATA RACE\n.*?(?:==================|\Z)", text):
        writers, readers = [], []
        for blk in re.split(r"\n\s*\n", rep):
            m = re.match(r"\s*(?:WARNING: DATA RACE\n)?\s*(Previous write|Write|Previous read|Read|Previous atomic write|"
                         r"Atomic write|Previous atomic read|Atomic read) at \S+ by [^\n]*\n", blk)
            if not m:
                continue
            frames = re.findall(r"(?m)^\s+(\S+)\(\)\s*$", blk)
            fn = next((f for f in frames if f.startswith("github.com/itchyny/gojq.")), frames[0] if frames else "?")
            (writers if "rite" in m.group(1) else readers).append(fn)
        out.append(dict(kind="race", writers=writers, readers=readers, text=rep))
    for m in re.finditer(r"(?s)fatal error: ([^\n]*)\n(.*)", text):
        out.append(dict(kind="fatal", what=m.group(1), writers=[], readers=[], text=m.group(0)[:6000],
                        de="gojq.deleteEmpty" in text and "concurrent map" in text))
        break
    for m in re.finditer(r"(?s)^panic: ([^\n]*)\n(.*)", text, flags=re.M):
        out.append(dict(kind="panic", what=m.group(1), writers=[], readers=[], text=m.group(0)[:6000]))
        break
    return out


def in_delete_empty_family(rep):
    """the report is explained by deleteEmpty's writes: some write access has gojq.deleteEmpty as its innermost
    gojq frame and no write access has another gojq function there (blocks garbled by interleaved output of
    the runtime's fatal-error dump are ignored)"""
    if rep["kind"] == "race":
        gw = [w for w in rep["writers"] if w.startswith("github.com/itchyny/gojq.")]
        return bool(gw) and all(w.endswith("gojq.deleteEmpty") for w in gw)
    if rep["kind"] == "fatal":
        return bool(rep.get("de"))
    return False


def race_stream(c, tier, seed, replay_case=None):
    exe, log = build_race_harness()
    if exe is None:
        c.broken_correspondence("race-harness-build", None, V.tail(log, 40))
        return None
    env = V.go_env()
    env["GORACE"] = "halt_on_error=0 exitcode=0"
    env["GOTRACEBACK"] = "all"
    if replay_case:
        r = U.drive(exe, "race", ["replay=" + replay_case], env=env, timeout=300)
        return [r]
    n = 120 if tier == "quick" else 1200
    reps = 8 if tier == "quick" else 20
    corpus = U.corpus_jobs()
    if tier == "quick":
        corpus = corpus[seed % 4::4]
    jp = U.write_jobs("c06_corpus.json", corpus)
    cp = U.write_jobs("c06_canon.json", CANON)
    args = ["-seed", str(seed), "-n", str(n), "-tier", tier, "jobs=" + jp, "G=%d" % G, "R=%d" % reps]

    def one(i):
        if i < 0:
            # the canonical cases are repeated until they show (detection needs an actual overlap in time)
            acc = dict(records=[], crashes=[], stderr={}, timed_out=False)
            for attempt in range(2):
                r = U.drive(exe, "race", ["-n", "-2", "jobs=" + cp, "G=%d" % G, "R=120"], env=env, timeout=300)
                acc["records"] += r["records"]
                acc["crashes"] += r["crashes"]
                for k, v in r["stderr"].items():
                    acc["stderr"][k] = acc["stderr"].get(k, "") + v
                if all(any(k.startswith("%d." % j) and split_reports(v) for k, v in acc["stderr"].items())
                       for j in range(len(CANON))):
                    break
            return acc
        return U.drive(exe, "race", args + ["shard=%d/%d" % (i, NSHARD)], env=env,
                       timeout=400 if tier == "quick" else 3000, max_restarts=400)
    with concurrent.futures.ThreadPoolExecutor(NSHARD + 1) as ex:
        rs = list(ex.map(one, range(-1, NSHARD)))
    return rs


def judge(c, rs):
    """-> list of failures dict(case, what, details, family)"""
    fails, nres, statuses = [], 0, {}
    for r in rs:
        results = {}
        for line in r["records"]:
            if line.startswith("C "):
                head, case = (line.split("\t") + [""])[:2]
                _, idx, mode, origin = head.split(" ")
                results[idx + "." + mode] = (origin, "died", case, "")
                continue
            if not line.startswith("R "):
                continue
            head, detail = (line.split("\t") + [""])[:2]
            _, idx, mode, status = head.split(" ")
            origin, _, case, _ = results[idx + "." + mode]
            results[idx + "." + mode] = (origin, status, case, detail)
            statuses[status] = statuses.get(status, 0) + 1
            nres += 1
            c.note_case(case + mode, nontrivial=status != "skip")
            if status == "diff":
                fails.append(dict(case=case, what="a concurrent run yields something else than the run alone",
                                  details=detail, family=False))
            elif status == "timeout":
                fails.append(dict(case=case, what="concurrent runs did not finish (deadlock/livelock)", details=detail,
                                  family=False))
        for key, text in r["stderr"].items():
            reps = split_reports(text)
            if not reps:
                continue
            info = results.get(key)
            case = info[2] if info else "c06 job=%s (process died before the result line)" % key
            fam = all(in_delete_empty_family(x) for x in reps)
            kinds = sorted(set(x["kind"] if x["kind"] == "race" else x["kind"] + ": " + x.get("what", "") for x in reps))
            first = reps[0]["text"]
            what = "; ".join(kinds)
            if fam:
                what = ("gojq.deleteEmpty writes into a container shared between goroutines "
                        "(data race / fatal error: concurrent map write)")
            fails.append(dict(case=case, key=key, what=what, details=first[:3000], family=fam,
                              canon=(info[0] == "canon") if info else False))
        for k, rc, tail in r["crashes"]:
            # a crash whose stderr chunk was attributed above is already recorded; otherwise record it here
            if not any(str(k) + "." in (f.get("key") or "") for f in fails):
                fails.append(dict(case="c06 job=%s" % k, what="harness process ended abnormally rc=%s" % rc,
                                  details=tail[-3000:], family="gojq.deleteEmpty" in tail and "concurrent map" in tail))
    return fails, nres, statuses


def run(tier, seed):
    c = V.Check(PROP, tier, seed)
    c.assumptions += [
        "the Go scheduler, the Go memory model, sync.Map and the race detector are outside the Coq model: the proved "
        "content is the ownership discipline (writes only to memory allocated by the run) and its consequence "
        "(disjoint-footprint commutation); the race detector observes the implementation's write set on the "
        "schedules that actually occurred",
        "regexp compilation is a pure function of (pattern, flags): sharing the sync.Map cache cannot change results",
    ]
    # C06's theorems rest on C05's development, whose site list is regenerated from /repo (a new package-level
    # map or a new write into a JSON container breaks C05_sites_reviewed and with it these obligations)
    ok, log = V.regen(["mapsites"])
    if not ok:
        c.notes.append("translator failed: " + V.tail(log, 10))
    # the race observer needs no Coq: it runs while the proofs are checked
    box = {}
    th = threading.Thread(target=lambda: box.update(rs=race_stream(c, tier, seed)))
    th.start()
    c.prove(PROPS)
    th.join()
    rs = box.get("rs")
    if rs is None:
        return c.finish("none")
    fails, nres, statuses = judge(c, rs)
    # a runtime fatal error sometimes comes without the writer's stack ("stack unavailable") and before any race
    # report: such a case is re-run on its own until race reports (which carry both stacks) attribute it
    for f in fails:
        if f["family"] or not f["what"].startswith("fatal:") or not f["case"].startswith("c06 mode="):
            continue
        for attempt in range(3):
            rr = race_stream(c, tier, seed, replay_case=f["case"])
            if not rr:
                break
            reps = [x for r in rr for text in r["stderr"].values() for x in split_reports(text)]
            races = [x for x in reps if x["kind"] == "race"]
            if races:
                f["family"] = all(in_delete_empty_family(x) for x in reps if x["kind"] == "race" or x.get("de"))
                f["details"] += "\n--- re-run for attribution ---\n" + races[0]["text"][:2500]
                break
    canon_hit = set()
    for f in fails:
        if f.get("canon"):
            canon_hit.add(f["case"])
    folded = 0
    for f in fails:
        if f["family"] and not f.get("canon") and len(canon_hit) == len(CANON):
            folded += 1     # same root cause as the canonical cases, which are reported below
            continue
        c.failing_input(f["what"], f["case"], f["details"])
    if folded:
        c.notes.append("%d further (program, mode) cases raced only inside gojq.deleteEmpty (same-value writes into "
                       "containers the run does not own); they are represented by the %d canonical cases" % (folded, len(CANON)))
    if any(r["timed_out"] for r in rs):
        c.broken_correspondence("race", None, "race stream timed out")
    rule = ("(program x mode) cases: mode distinct (fresh input per run, shared *Code and shared variable value), "
            "shared (ONE input object for all goroutines), query (one parsed *Query, Run compiles per goroutine); "
            "%d goroutines x R repetitions + a reader goroutine deep-reading shared input, variable value and code "
            "constants (hidden capacity included); programs: literal-heavy, regex-heavy, sharing probes, random "
            "update/delete/add/sort grammar, cli/test.yaml corpus; failing = race report, runtime fatal error, "
            "timeout, or outputs differing from the sequential run; statuses %s" % (G, statuses))
    return c.finish(rule, extra_cov=dict(cases=nres, statuses=statuses, folded_into_canonical=folded))


def replay(path):
    d = json.load(open(path))
    print(json.dumps(d, indent=1)[:4000])
    case = d.get("case")
    if not case or not case.startswith("c06 mode="):
        return 1
    c = V.Check(PROP, "quick", d.get("seed", 1))
    rs = race_stream(c, "quick", 1, replay_case=case)
    if rs is None:
        return 1
    fails, nres, statuses = judge(c, rs)
    for f in fails:
        print("FAIL:", f["what"])
        print(f["details"][:2000])
    print("REPRODUCED" if fails else "not reproduced (%s)" % statuses)
    return 1 if fails else 0
