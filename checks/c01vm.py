"""C01vm — VM-level theorem of C01: compile-correctness of the bytecode compiler (incl. optimizeTailRec and
optimizeCodeOps) + backtracking frame VM for fragment F3 (closures, functions, parameters, recursion, object construction,
destructuring `as` / `reduce` / `foreach`, computed index / slices, string interpolation, error(msg), builtins written in jq as
definitions in front of the program; docs/C01vm.md).
Extra check contributing to C01 (and to C04 for the two optimisation passes)."""
import json, os, re, sys
import verif as V

PROP = "C01"          # a sub-check of C01 (and of C04 for the peephole theorem); evidence in evidence/C01vm.json
PROPS = "props/C01vm.v"
DEPS = ["c01vm2/Run.v"]


def classify(line):
    return True


def _prog_of(line):
    """(run <ast> <input> ...) / (code <ast> ...) -> the AST text (balanced parenthesis scan)"""
    i = line.find(" ")
    j = i + 1
    if j >= len(line):
        return line
    if line[j] != "(":
        k = line.find(" ", j)
        return line[j:k if k > 0 else None]
    depth = 0
    for k in range(j, len(line)):
        if line[k] == "(":
            depth += 1
        elif line[k] == ")":
            depth -= 1
            if depth == 0:
                return line[j:k + 1]
    return line[j:]


def run(tier, seed):
    c = V.Check(PROP, tier, seed, evidence_name="C01vm")
    c.assumptions += [
        "natives (funcIndex2, funcSlice, opiter's enumeration of a value, error/length/tostring/tojson, the format natives _tohtml _touri _tocsv _totsv "
        "_tosh _tobase64, keys, type, error/1, the 8 binary operators) are total "
        "functions value -> value + error; the theorems quantify over all of them; the executable correspondence "
        "instantiates them for integers, ASCII strings, arrays, objects (coq/c01vm2/Natives.v)",
        "data/scope/fork stacks are persistent lists; popscope's `free := index > limit` is stated at list level with a "
        "ghost push counter (frames and forks carry the counter value at their creation); the array-level refinement is "
        "coq/vm/StackProofs.v Stack_refines (other slice), cited, not imported",
        "env.expdepth, env.paths and context polling are not modelled (unobservable in the fragment: the paths stack is "
        "always empty; path(p) is outside the fragment, docs/C01vm.md Step 4)",
        "error message texts are not compared (projected away by the property); generated handlers never observe a "
        "message text; ValueError payloads of `error` are compared exactly",
        "the correspondence ties Compile.v to compiler.go per sampled program (exact instruction list of the final code, "
        "incl. optimizeTailRec and optimizeCodeOps) and VM.v/Den.v to execute.go per sampled (program, input); the "
        "denotation is run with fuel 400 (calls nested deeper than that are not generated)",
        "optimizeCodeOps is modelled twice (array updates = literal transcription; right fold = the version the theorems "
        "are about) and optimizeTailRec twice (Compile.tailrec = the Go scan; Compile.compg true = the compiler with the "
        "pass built in, the version the theorems are about); the model checks on every sampled program that the two "
        "versions coincide and that the side conditions of the peephole theorem hold (they are also proved)",
        "object construction: opobject's map building is the concrete Syntax.mk_obj (last pair wins, non-string key = "
        "error); compileObject's constant-folding test is modelled entry by entry (compiler.go tests flat positions)",
        "fragment restrictions of step 5 (not generated): the destructuring alternative ?// (its fork intercepts errors "
        "raised downstream of the whole expression: not expressible by the direct-style denotation), computed keys and "
        "repeated names in patterns, {\"a\\(q)\"} without a value, the formats @urid / @base64d and unknown formats, "
        "a function definition in front of a literal index",
        "builtins written in jq: the harness transcribes the definitions of builtin.jq that lie inside the fragment "
        "(map select not recurse/0,1,2 while until values nulls first/0,1 last isempty all any nth/1,2 limit skip "
        "combinations to_entries arrays objects booleans numbers strings), checks per program that the transcription compiles to the same instruction list as the text of "
        "builtin.jq's definitions, and judges the implementation's run of the program WITHOUT the definitions (builtins "
        "compiled on demand from builtin.go) against den of the program WITH them (runb lines); range (native iterator), "
        "paths (path), repeat (infinite) are not covered",
        "fragment restrictions (programs outside are not generated): a function body / an argument closure of a "
        "user-defined function sees no label of its context; a call of the enclosing parameterless function in the "
        "right side of //, a catch handler, the extract part of foreach or a label body (tail positions for the Go scan "
        "that the theorem does not cover)",
    ]
    proved = c.prove(PROPS)
    exe_h, hlog = V.build_harness("c01vm2")
    mism, smism, st = [], [], {}
    exe_m = None
    if exe_h is None:
        c.broken_correspondence("harness-build", None, V.tail(hlog, 40))
    else:
        exe_m, mlog = V.build_model("c01vm2", "extract/ExtractC01vm2.v", "c01vm2model", deps=DEPS)
        if exe_m is None:
            c.broken_correspondence("model-extraction", None, V.tail(mlog, 40))
        else:
            n = 2000 if tier == "quick" else 120000
            rc, out, cases, st = V.run_harness("c01vm2", "c01vm", seed, n, tier)
            if rc != 0:
                c.broken_correspondence("harness-run", None, V.tail(out, 40))
            else:
                for v in (st.get("impl_violations") or []):
                    c.broken_correspondence("generator", v, v)
                mism = V.compare_model(c, exe_m, cases, "c01vm")
                # the property oracle (den) on the run lines only
                runs = cases + ".runs"
                with open(cases) as f, open(runs, "w") as g:
                    for l in f:
                        if l.startswith("(run ") or l.startswith("(runb "):
                            g.write(l)
                smism = V.compare_model(c, exe_m, runs, "c01vm", spec=True)
    # focused search: programs whose instruction list differs but whose sampled outputs agree are re-run inside
    # contexts that expose a value left below the top of the stack (if/bind/reduce/foreach/array/alt around P)
    if exe_h and exe_m and mism and not smism:
        ords, k = [], 0
        badcode = set(l for l, _ in mism if l.startswith("(code "))
        with open(cases) as f:
            for l in f:
                if l.startswith("(code "):
                    k += 1
                    if l.rstrip("\n") in badcode:
                        ords.append(k)
        if ords:
            c.notes.append("focused search on %d programs with a differing instruction list" % len(ords))
            rc, out, cases2, st2 = V.run_harness("c01vm2", "c01vm", seed, n, tier,
                                                 extra=["wrap:%d" % o for o in ords[:400]], name="c01vmsearch")
            if rc == 0:
                smism = V.compare_model(c, exe_m, cases2, "c01vmsearch", spec=True)
                sm_progs = set(_prog_of(l) for l, _ in smism)
    # impl != den on a concrete (program, input): the implementation violates the property there
    for line, verdict in smism[:10]:
        c.failing_input("outputs differ from the generator semantics", line, "den: " + verdict)
    sbad_progs = set(_prog_of(l) for l, _ in smism)
    sbad = set(l for l, _ in smism)
    # instruction list differs / VM model differs but outputs agree with den: stale model (harmless rewrite)
    reported = 0
    for line, verdict in mism:
        if line in sbad:
            continue
        if line.startswith("(code ") and _prog_of(line) in sbad_progs:
            continue        # explained by a failing input of the same program
        if reported < 10:
            kind = "instruction-list" if line.startswith("(code ") else "vm-model"
            c.broken_correspondence(kind, line, "model: " + verdict[:2000])
            reported += 1
    rule = ("programs of fragment F3 (closures, definitions, filter/$value parameters, recursion templates incl. tail "
            "calls, object construction, destructuring as / reduce / foreach, computed index / slices, string interpolation, error(msg), calls of builtins written in jq): every AST with <= 3 nodes (4 in the thorough tier) over a small leaf set x all 12 "
            "inputs, a random sample of the next size, and random ASTs of 3..60 nodes x 4 inputs; per program one "
            "instruction-list comparison (implementation vs Compile.compile, exact) and per (program, input) a 3-way "
            "comparison implementation / VM model (raw and peepholed code) / den; distinct = distinct case lines")
    return c.finish(rule, extra_cov=dict(harness_stats=st))


def replay(path):
    d = json.load(open(path))
    print(json.dumps(d, indent=1)[:4000])
    case = d.get("case")
    if not case:
        return 1
    exe_m, mlog = V.build_model("c01vm2", "extract/ExtractC01vm2.v", "c01vm2model", deps=DEPS)
    if exe_m is None:
        print(mlog)
        return 1
    os.makedirs(os.path.join(V.BUILD, "cases"), exist_ok=True)
    p = os.path.join(V.BUILD, "cases", "c01vm.replay")
    with open(p, "w") as f:
        f.write(case + "\n")
        if case.startswith("(run ") or case.startswith("(runb "):
            f.write("(spec " + case + ")\n")
    lines, outs = V.run_model(exe_m, p)
    for l, o in zip(lines, outs):
        print("recorded case :", l[:300])
        print("model verdict :", o[:2000])
    print("note: the recorded line carries what the implementation did when the case was found; "
          "re-run `bin/check C01vm` with VERIF_SEED=%s to regenerate it on the current tree" % d.get("seed"))
    return 1 if any(o != "ok" for o in outs) else 0
