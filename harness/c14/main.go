// C14 harness: string positions are code points; regex builtins agree with match.
//
// Stream "c14":   model-vs-implementation lines for length, .[i:j], .[i], indices/index/rindex and match
//
//	(the match lines carry regexp.FindAllStringSubmatchIndex obtained from Go's regexp directly,
//	with gojq's flag translation, as the oracle value for the model's engine parameter).
//
// Stream "regex": the property's statements about test/capture/scan/split/splits/sub/gsub and about
//
//	positions, evaluated on the implementation alone through the public API, each query under
//	a timeout; a failure is an implementation violation with the canonical case text
//	"oracle=<name> subject=<hex> re=<hex> flags=<hex|null>".
//
// With arguments "cases=<file>" (lines "subject=<hex> re=<hex> flags=<hex|null>") the regex stream replays
// exactly those cases.
package main

import (
	"context"
	"encoding/hex"
	"fmt"
	"os"
	"regexp"
	"strings"
	"time"
	"unicode/utf8"
	. "verifharness/hlib"

	"github.com/itchyny/gojq"
)

func main() { Register("c14", runModel); Register("regex", runRegex); Main() }

var codeCache = map[string]*gojq.Code{}

func compile(src string, vars ...string) *gojq.Code {
	key := src + "\x00" + strings.Join(vars, ",")
	if c, ok := codeCache[key]; ok {
		return c
	}
	q, err := gojq.Parse(src)
	if err != nil {
		panic(fmt.Sprintf("parse %q: %v", src, err))
	}
	c, err := gojq.Compile(q, gojq.WithVariables(vars))
	if err != nil {
		panic(fmt.Sprintf("compile %q: %v", src, err))
	}
	codeCache[key] = c
	return c
}

type timeoutError struct{}

func (timeoutError) Error() string { return "timeout" }

const queryTimeout = 5 * time.Second

// runAll collects every output of the query; an error output ends the run and is returned as err;
// exceeding the timeout yields timeoutError
type panicError struct{ msg string }

func (p panicError) Error() string { return "panic: " + p.msg }

// panics of the implementation seen since the last reset (a panic is reported as an error result and logged)
var panicLog []string

func runAll(c *gojq.Code, in any, vals ...any) (outs []any, err error) {
	ctx, cancel := context.WithTimeout(context.Background(), queryTimeout)
	defer cancel()
	defer func() {
		if r := recover(); r != nil {
			msg := fmt.Sprint(r)
			panicLog = append(panicLog, msg)
			err = panicError{msg}
		}
	}()
	it := c.RunWithContext(ctx, in, vals...)
	for n := 0; ; n++ {
		v, ok := it.Next()
		if !ok {
			return outs, nil
		}
		if e, isErr := v.(error); isErr {
			if ctx.Err() != nil {
				return outs, timeoutError{}
			}
			return outs, e
		}
		outs = append(outs, v)
		if n > 100000 {
			return outs, timeoutError{}
		}
	}
}

func run1(c *gojq.Code, in any, vals ...any) any {
	outs, err := runAll(c, in, vals...)
	if err != nil {
		return err
	}
	if len(outs) != 1 {
		return fmt.Errorf("%d outputs", len(outs))
	}
	return outs[0]
}

func rs(v any) string {
	if _, ok := v.(error); ok {
		return "(err -)"
	}
	return SexpVal(v)
}

// ---------------------------------------------------------------------------------------------
// generators

// alphabet: ASCII letters of both cases, 2-, 3-, 4-byte characters, a combining mark, newline, space
var alphabet = []string{"a", "b", "A", "é", "€", "\U0001f600", "́", "\n", " "}

func subjectsUpTo(n int) []string {
	out := []string{""}
	prev := []string{""}
	for l := 1; l <= n; l++ {
		var cur []string
		for _, p := range prev {
			for _, a := range alphabet {
				cur = append(cur, p+a)
			}
		}
		out = append(out, cur...)
		prev = cur
	}
	return out
}

func randSubject(r *Rng, maxLen int) string {
	n := r.Intn(maxLen + 1)
	var sb strings.Builder
	for i := 0; i < n; i++ {
		sb.WriteString(alphabet[r.Intn(len(alphabet))])
	}
	return sb.String()
}

// fixed regexes: literals, classes, anchors, groups named and unnamed, alternation, empty-matching ones
var fixedRegexes = []string{
	"a", "b", "é", "€", "\U0001f600", "ab", "á", "́", "aé", "é€", " ",
	".", "..", "[ab]", "[^a]", "[é€]", "[^é]", "\\w", "\\W", "\\s", "\\S", "\\pL", "\\PL", "\\pM", "[a-z]", "[[:upper:]]", "\\n", ".\\n", "(?s:.)",
	"^", "$", "^a", "a$", "^$", "\\b", "\\B", "\\A", "\\z", "(?m:^)", "(?m:$)", "(?m:^a)",
	"(a)", "(a)(b)?", "(a)|(b)", "(?<x>a)", "(?<x>a)|(?<y>b)", "(?P<n>é)", "(a|b)", "(?:a)", "((a))", "(?<x>.)(?<y>.)", "(a)(é)(€)?", "(?<first>\\w)(?<rest>\\W*)",
	"a|b", "a|", "|a", "é|€", "a|ab", "ab|a",
	"", "a*", "(a*)", "b*?", "(?<x>a*)", "(|a)", "x*", "^|$", "(a|)*", "a?", "(a?)(b?)", "é*", "(?:)", "\\b|\\B", "a*?", "(a*)*", "()", "(?<e>)", ".*", ".*?", "(.*)", "[^a]*",
	"a+", "(ab)+", ".+", "a{2}", "a{0,1}", "(?i)a", "(?i:é)", "[aA]",
	// alternations of groups under * / +, optional, nested, overlapping and non-participating groups: captures whose
	// offsets are smaller than those of earlier-numbered groups, or that lie inside / before one another
	"(?:(a)|(b))*", "(?:(a)|(b))+", "((a)|(b))*", "(?:(é)|(b)|(€))*", "(?:(?<x>a)|(?<y>b))+", "(?:(a)|(é)|(\\s))+", "(?:(.)|(\\n))*",
	"(a)?(b)?", "(b)?(a)?", "((a)|b)*", "(.)(?:(a)|(b))*", "(?:(a)|(b)|(A))*$", "((.)(.))*", "(?:(\\w)|(\\W))+", "(?:(\\pL)|(\\pM)|(.))*",
	"(?:(€)|(\U0001f600)|(a))+", "((?:(a)|(é))+)(b)?", "(?:(a)(b)?|(b))*", "(?:(?<p>.)(?<q>a)?)*", "(?:()|(a))*", "(?:(a)|())+", "((a*)(b*))*", "(?:(b)|(a)|(é))*?$",
}

var flagSets = []any{nil, "", "g", "i", "m", "gi", "gm", "im", "gim", "ig"}

// random regex from a small grammar
func randRegex(r *Rng, depth int) string {
	atoms := []string{"a", "b", "é", "€", "\U0001f600", "́", ".", "[ab]", "[^a]", "\\w", "\\s", "\\pL", "^", "$", "\\b", "", "A", "\\n", " "}
	if depth <= 0 || r.Chance(2, 5) {
		return atoms[r.Intn(len(atoms))]
	}
	switch r.Intn(9) {
	case 7:
		// alternation of capturing groups under a repetition: later iterations re-bind earlier-numbered groups
		return "(?:(" + randRegex(r, depth-1) + ")|(" + randRegex(r, depth-1) + "))" + []string{"*", "+", "*?"}[r.Intn(3)]
	case 8:
		return "(" + randRegex(r, depth-1) + ")?(" + randRegex(r, depth-1) + ")?"
	case 0:
		return randRegex(r, depth-1) + randRegex(r, depth-1)
	case 1:
		return randRegex(r, depth-1) + "|" + randRegex(r, depth-1)
	case 2:
		return "(" + randRegex(r, depth-1) + ")"
	case 3:
		return fmt.Sprintf("(?<g%d>%s)", r.Intn(1000), randRegex(r, depth-1))
	case 4:
		return "(?:" + randRegex(r, depth-1) + ")" + []string{"*", "?", "+", "*?"}[r.Intn(4)]
	case 5:
		return "(" + randRegex(r, depth-1) + ")" + []string{"*", "?", "+"}[r.Intn(3)]
	default:
		return "(?:" + randRegex(r, depth-1) + ")"
	}
}

// gojq's flag translation (func.go compileRegexp); ok=false when gojq rejects the flags
func translate(re string, flags any) (pattern string, global bool, ok bool) {
	var fs string
	if flags != nil {
		fs = flags.(string)
	}
	for _, c := range fs {
		if c != 'g' && c != 'i' && c != 'm' {
			return "", false, false
		}
	}
	if strings.ContainsRune(fs, 'i') {
		re = "(?i)" + re
	}
	if strings.ContainsRune(fs, 'm') {
		re = "(?s)" + re
	}
	return re, strings.ContainsRune(fs, 'g'), true
}

var reCache = map[string]*regexp.Regexp{}

func goRegexp(pattern string) *regexp.Regexp {
	if r, ok := reCache[pattern]; ok {
		return r
	}
	r, err := regexp.Compile(pattern)
	if err != nil {
		r = nil
	}
	reCache[pattern] = r
	return r
}

func hexOrNull(v any) string {
	if v == nil {
		return "null"
	}
	return Hexs([]byte(v.(string)))
}

func caseText(subject, re string, flags any) string {
	return fmt.Sprintf("subject=%s re=%s flags=%s", Hexs([]byte(subject)), Hexs([]byte(re)), hexOrNull(flags))
}

// ---------------------------------------------------------------------------------------------
// stream c14: model vs implementation

func intsAny(xs []int) []any {
	out := make([]any, len(xs))
	for i, x := range xs {
		out[i] = x
	}
	return out
}

func runModel(c *Ctx) {
	r := c.Rng
	qLen, qSlice, qAt := compile("length"), compile(".[$i:$j]", "$i", "$j"), compile(".[$i]", "$i")
	qIndices, qIndex, qRindex := compile("indices($x)", "$x"), compile("index($x)", "$x"), compile("rindex($x)", "$x")
	qMatch := compile("[match($re; $flags)]", "$re", "$flags")
	qSplits := compile("[splits($re; $flags)]", "$re", "$flags")
	qGsubId := compile(`gsub("(?<zz>" + $re + ")"; .zz; $flags)`, "$re", "$flags")
	qSubId := compile(`sub("(?<zz>" + $re + ")"; .zz; $flags)`, "$re", "$flags")
	qTest := compile("test($re; $flags)", "$re", "$flags")
	qCapture := compile("[capture($re; $flags)]", "$re", "$flags")
	qScan := compile("[scan($re; $flags)]", "$re", "$flags")
	qSplit2 := compile("split($re; $flags)", "$re", "$flags")

	maxExh := 3
	if c.Tier == "thorough" {
		maxExh = 4
	}
	subjects := subjectsUpTo(maxExh)
	for i := 0; i < c.N; i++ {
		subjects = append(subjects, randSubject(r, 10))
	}
	// positions on valid subjects and on strings with ill-formed bytes (each counts as one position)
	posSubjects := append([]string{}, subjectsUpTo(2)...)
	for i := 0; i < c.N; i++ {
		posSubjects = append(posSubjects, randSubject(r, 8))
	}
	bad := []string{"\xff", "a\xffb", "\xc3", "\xc3\xa9\xa9", "\xe2\x82", "\xe2\x82\xac\x82", "\xf0\x9f\x98", "\xed\xa0\x80", "\xc0\x80", "é\xffé", "\xf4\x90\x80\x80", "a\xe2\x82b\xac"}
	posSubjects = append(posSubjects, bad...)
	idx := []any{nil, 0, 1, 2, 3, 5, -1, -2, -3, -7, 100, -100}
	for _, s := range posSubjects {
		c.Emit("(length %s %s)", SexpVal(s), rs(run1(qLen, s)))
		n := utf8.RuneCountInString(s)
		for _, i := range idx {
			if i != nil {
				c.Emit("(at %s %s %s)", SexpVal(s), SexpVal(i), rs(run1(qAt, s, i)))
			}
			for _, j := range idx {
				if n > 3 && r.Chance(2, 3) {
					continue
				}
				c.Emit("(slice %s %s %s %s)", SexpVal(s), SexpVal(i), SexpVal(j), rs(run1(qSlice, s, i, j)))
			}
		}
		needles := []string{"", "a", "b", "é", "€", "\U0001f600", "́", "ab", "aa", "aé", "\xff", "\xa9", "\n"}
		rs2 := []rune(s)
		if len(rs2) > 0 {
			i := r.Intn(len(rs2))
			j := i + 1 + r.Intn(len(rs2)-i)
			needles = append(needles, string(rs2[i:j]), string(rs2[:1]), string(rs2[len(rs2)-1:]))
		}
		for _, x := range needles {
			c.Emit("(indices %s %s %s)", SexpVal(s), SexpVal(x), rs(run1(qIndices, s, x)))
			c.Emit("(index %s %s %s)", SexpVal(s), SexpVal(x), rs(run1(qIndex, s, x)))
			c.Emit("(rindex %s %s %s)", SexpVal(s), SexpVal(x), rs(run1(qRindex, s, x)))
		}
		c.Count("positions-subject")
	}
	// match: subjects x regexes x flags (sampled in the quick tier)
	regexes := append([]string{}, fixedRegexes...)
	for i := 0; i < c.N/4+20; i++ {
		regexes = append(regexes, randRegex(r, 3))
	}
	perSubject := 10
	if c.Tier == "thorough" {
		perSubject = 24
	}
	for _, s := range subjects {
		for k := 0; k < perSubject; k++ {
			re := regexes[r.Intn(len(regexes))]
			flags := flagSets[r.Intn(len(flagSets))]
			pattern, global, ok := translate(re, flags)
			if !ok {
				continue
			}
			g := goRegexp(pattern)
			if g == nil {
				c.Count("match-regex-rejected")
				continue
			}
			n := 1
			if global {
				n = -1
			}
			xs := g.FindAllStringSubmatchIndex(s, n)
			xsAny := make([]any, len(xs))
			for i, x := range xs {
				xsAny[i] = intsAny(x)
			}
			names := g.SubexpNames()
			namesAny := make([]any, len(names))
			for i, nm := range names {
				namesAny[i] = nm
			}
			impl := run1(qMatch, s, re, flags)
			c.Emit("(match %s %s %s %s %s %s)", SexpVal(re), SexpVal(flags), SexpVal(s), SexpVal(namesAny), SexpVal(xsAny), rs(impl))
			c.Count("match")
			// the jq-defined reductions, judged through their Gallina transcriptions: splits always matches
			// globally; sub replaces the first match, gsub all of them
			all := g.FindAllStringSubmatchIndex(s, -1)
			allAny := make([]any, len(all))
			for i, x := range all {
				allAny[i] = intsAny(x[:2])
			}
			firstAny := allAny
			if len(firstAny) > 1 {
				firstAny = firstAny[:1]
			}
			c.Emit("(splits %s %s %s %s %s)", SexpVal(re), SexpVal(flags), SexpVal(s), SexpVal(allAny), rs(run1(qSplits, s, re, flags)))
			c.Emit("(gsubid %s %s %s %s %s)", SexpVal(re), SexpVal(flags), SexpVal(s), SexpVal(allAny), rs(run1(qGsubId, s, re, flags)))
			subXs := firstAny
			if global {
				subXs = allAny
			}
			c.Emit("(gsubid %s %s %s %s %s)", SexpVal(re), SexpVal(flags), SexpVal(s), SexpVal(subXs), rs(run1(qSubId, s, re, flags)))
			c.Count("splits/sub/gsub")
			// test / capture / scan / split/2 through their transcriptions
			fullAny := make([]any, len(all))
			for i, x := range all {
				fullAny[i] = intsAny(x)
			}
			first := g.FindAllStringSubmatchIndex(s, 1)
			firstFull := make([]any, len(first))
			for i, x := range first {
				firstFull[i] = intsAny(x)
			}
			c.Emit("(test %s %s %s %s %s %s %s)", SexpVal(re), SexpVal(flags), SexpVal(s), SexpVal(g.MatchString(s)), SexpVal(firstFull), SexpVal(fullAny), rs(run1(qTest, s, re, flags)))
			c.Emit("(capture %s %s %s %s %s %s)", SexpVal(re), SexpVal(flags), SexpVal(s), SexpVal(namesAny), SexpVal(xsAny), rs(run1(qCapture, s, re, flags)))
			c.Emit("(scan %s %s %s %s %s)", SexpVal(re), SexpVal(flags), SexpVal(s), SexpVal(fullAny), rs(run1(qScan, s, re, flags)))
			c.Emit("(split2 %s %s %s %s %s)", SexpVal(re), SexpVal(flags), SexpVal(s), SexpVal(allAny), rs(run1(qSplit2, s, re, flags)))
			c.Count("test/capture/scan/split2")
		}
	}
}

// ---------------------------------------------------------------------------------------------
// stream regex: the property's statements on the implementation alone

type oracleRunner struct {
	c         *Ctx
	nfail     int
	evals     int
	perOracle map[string]int
}

func (o *oracleRunner) fail(name, subject, re string, flags any, detail string) {
	o.failCase(name, caseText(subject, re, flags), detail)
}

// at most 6 failing inputs are recorded per oracle, so that one broken oracle does not hide another
func (o *oracleRunner) failCase(name, text, detail string) {
	o.nfail++
	if o.perOracle == nil {
		o.perOracle = map[string]int{}
	}
	if o.perOracle[name]++; o.perOracle[name] <= 6 {
		o.c.Violation("oracle=%s %s :: %s", name, text, detail)
	}
}

func strsOf(v []any) ([]string, bool) {
	out := make([]string, len(v))
	for i, x := range v {
		s, ok := x.(string)
		if !ok {
			return nil, false
		}
		out[i] = s
	}
	return out, true
}

func plusG(flags any) any {
	if flags == nil {
		return "g"
	}
	return flags.(string) + "g"
}

func (o *oracleRunner) oneCase(s, re string, flags any) {
	c := o.c
	qMatch := compile("[match($re; $flags)]", "$re", "$flags")
	qTest := compile("test($re; $flags)", "$re", "$flags")
	qSliceOK := compile(`. as $s | [match($re; $flags) | ., .captures[] | select(.offset >= 0 or .string != null) |
		[.offset, .length, .string, $s[.offset:.offset+.length]]]`, "$re", "$flags")
	qNonPart := compile(`[match($re; $flags) | .captures[] | select(.string == null) | [.offset, .length]]`, "$re", "$flags")
	qSplits := compile("[splits($re; $flags)]", "$re", "$flags")
	qSplit2 := compile("split($re; $flags)", "$re", "$flags")
	qGsubId := compile(`gsub("(?<zz>" + $re + ")"; .zz; $flags)`, "$re", "$flags")
	qSubId := compile(`sub("(?<zz>" + $re + ")"; .zz; $flags)`, "$re", "$flags")
	qCapture := compile("[capture($re; $flags)]", "$re", "$flags")
	qScan := compile("[scan($re; $flags)]", "$re", "$flags")
	qGsubX := compile(`gsub($re; "<" + (.string? // "") + ">"; $flags)`, "$re", "$flags")
	_ = qGsubX

	o.evals++
	c.Emit("(case %s)", caseText(s, re, flags))
	panicLog = panicLog[:0]
	defer func() {
		if len(panicLog) > 0 {
			o.fail("no-panic", s, re, flags, "the implementation panicked: "+panicLog[0])
		}
	}()
	ms, err := runAll(qMatch, s, re, flags)
	if _, isP := err.(panicError); isP {
		return
	}
	if _, isT := err.(timeoutError); isT {
		o.fail("terminates:match", s, re, flags, "match did not finish within the timeout")
		return
	}
	if err != nil {
		// the regex or the flags are rejected: every builtin must reject them too (never hang)
		c.Count("rejected")
		for name, q := range map[string]*gojq.Code{"test": qTest, "splits": qSplits, "gsub": qGsubId, "scan": qScan, "capture": qCapture} {
			if _, e := runAll(q, s, re, flags); e == nil {
				// wrapping in (?<zz>…) can legitimately fail differently, but a success means the builtins disagree
				if name != "gsub" {
					o.fail("rejected-consistently:"+name, s, re, flags, "match rejects the regex but "+name+" accepts it")
				}
			} else if _, isT := e.(timeoutError); isT {
				o.fail("terminates:"+name, s, re, flags, name+" did not finish within the timeout")
			}
		}
		return
	}
	matches, _ := ms[0].([]any)
	gmatchesV := run1(qMatch, s, re, plusG(flags))
	gmatches, _ := gmatchesV.([]any)
	c.Count("accepted")
	// test holds iff a match exists
	if t := run1(qTest, s, re, flags); t != (len(matches) > 0) {
		o.fail("test-iff-match", s, re, flags, fmt.Sprintf("test=%s, %d matches", rs(t), len(matches)))
	}
	// slicing the subject by a reported (offset, length) returns the reported string
	if rows, ok := run1(qSliceOK, s, re, flags).([]any); ok {
		for _, row := range rows {
			t := row.([]any)
			if t[2] != t[3] {
				o.fail("match-slice", s, re, flags, fmt.Sprintf("offset=%v length=%v string=%s but slice=%s", t[0], t[1], rs(t[2]), rs(t[3])))
				break
			}
		}
	} else {
		o.fail("match-slice", s, re, flags, "could not evaluate")
	}
	if rows, ok := run1(qNonPart, s, re, flags).([]any); ok {
		for _, row := range rows {
			t := row.([]any)
			if t[0] != -1 || t[1] != 0 {
				o.fail("non-participating-group", s, re, flags, fmt.Sprintf("offset=%v length=%v", t[0], t[1]))
				break
			}
		}
	}
	// the pieces of splits interleaved with the global matches rebuild the subject
	pv := run1(qSplits, s, re, flags)
	if _, isT := pv.(timeoutError); isT {
		o.fail("terminates:splits", s, re, flags, "splits did not finish within the timeout")
	} else if pieces, ok := pv.([]any); ok {
		ps, ok1 := strsOf(pieces)
		if !ok1 || len(ps) != len(gmatches)+1 {
			o.fail("splits-rebuild", s, re, flags, fmt.Sprintf("%d pieces %s for %d matches", len(pieces), rs(pv), len(gmatches)))
		} else {
			var sb strings.Builder
			for i, p := range ps {
				sb.WriteString(p)
				if i < len(gmatches) {
					m, _ := gmatches[i].(map[string]any)
					str, _ := m["string"].(string)
					sb.WriteString(str)
				}
			}
			if sb.String() != s {
				o.fail("splits-rebuild", s, re, flags, "pieces "+rs(pv)+" and matches rebuild "+SexpVal(sb.String()))
			}
		}
		if sp := run1(qSplit2, s, re, flags); rs(sp) != rs(pv) {
			o.fail("split/2==[splits]", s, re, flags, "split/2="+rs(sp)+" splits="+rs(pv))
		}
	} else {
		o.fail("splits-rebuild", s, re, flags, "splits failed: "+rs(pv))
	}
	// replacing every match by itself returns the subject (a named group around the whole regex)
	for name, q := range map[string]*gojq.Code{"gsub-identity": qGsubId, "sub-identity": qSubId} {
		out := run1(q, s, re, flags)
		if _, isT := out.(timeoutError); isT {
			o.fail("terminates:"+name, s, re, flags, name+" did not finish within the timeout")
		} else if e, isErr := out.(error); isErr {
			// wrapping may produce an invalid regex only for duplicate group names; ours is unique
			o.fail(name, s, re, flags, "error: "+e.Error())
		} else if out != s {
			o.fail(name, s, re, flags, "got "+rs(out))
		}
	}
	// named captures surface: the names of the regex's groups (Go's regexp.SubexpNames, independent of match's own
	// output) must label the captures of EVERY match in order — also for groups that did not participate — and capture must
	// have exactly the named groups as keys (a non-participating named group is null, not absent)
	if pattern, _, ok := translate(re, flags); ok {
		if g := goRegexp(pattern); g != nil {
			names := g.SubexpNames()[1:]
			var named []string
			for _, nm := range names {
				if nm != "" {
					named = append(named, nm)
				}
			}
			for _, m := range matches {
				caps, _ := m.(map[string]any)["captures"].([]any)
				if len(caps) != len(names) {
					o.fail("capture-names", s, re, flags, fmt.Sprintf("%d captures for %d groups", len(caps), len(names)))
					break
				}
				bad := false
				for i, cp := range caps {
					nm, _ := cp.(map[string]any)["name"].(string)
					if nm != names[i] {
						o.fail("capture-names", s, re, flags, fmt.Sprintf("capture %d is named %q, the group is named %q", i, nm, names[i]))
						bad = true
						break
					}
				}
				if bad {
					break
				}
			}
			if got, isArr := run1(qCapture, s, re, flags).([]any); isArr {
				for _, obj := range got {
					om, _ := obj.(map[string]any)
					uniq := map[string]bool{}
					for _, nm := range named {
						uniq[nm] = true
					}
					if len(om) != len(uniq) {
						o.fail("capture-names", s, re, flags, fmt.Sprintf("capture has %d keys, the regex has %d named groups", len(om), len(uniq)))
						break
					}
					for nm := range uniq {
						if _, ok := om[nm]; !ok {
							o.fail("capture-names", s, re, flags, fmt.Sprintf("capture lacks the named group %q", nm))
							break
						}
					}
				}
			}
		}
	}
	wantCap := make([]any, 0, len(matches))
	for _, m := range matches {
		obj := map[string]any{}
		for _, cp := range m.(map[string]any)["captures"].([]any) {
			cm := cp.(map[string]any)
			if nm, ok := cm["name"].(string); ok {
				obj[nm] = cm["string"]
			}
		}
		wantCap = append(wantCap, obj)
	}
	if got := run1(qCapture, s, re, flags); rs(got) != SexpVal(wantCap) {
		o.fail("capture-named", s, re, flags, "capture="+rs(got)+" expected "+SexpVal(wantCap))
	}
	wantScan := make([]any, 0, len(gmatches))
	for _, m := range gmatches {
		mm := m.(map[string]any)
		caps := mm["captures"].([]any)
		if len(caps) == 0 {
			wantScan = append(wantScan, mm["string"])
		} else {
			row := make([]any, len(caps))
			for i, cp := range caps {
				row[i] = cp.(map[string]any)["string"]
			}
			wantScan = append(wantScan, row)
		}
	}
	if got := run1(qScan, s, re, flags); rs(got) != SexpVal(wantScan) {
		o.fail("scan-projection", s, re, flags, "scan="+rs(got)+" expected "+SexpVal(wantScan))
	}
}

// positions on the implementation alone: length == explode|length, .[i:j] == explode|.[i:j]|implode,
// every reported index is where slicing finds the needle
func (o *oracleRunner) positions(s string, r *Rng, extra ...string) {
	q := compile(`. as $s | (length == (explode | length)) and
		all(range(-4; 6) as $i | range(-4; 6) as $j | [$i, $j]; . as [$i, $j] | ($s[$i:$j] | explode) == ($s | explode | .[$i:$j])) and
		all(range(-4; 6); . as $i | ($s[$i] as $c | if $c == null then ($s | explode | .[$i]) == null else ($c | explode) == [$s | explode | .[$i]] end))`)
	o.evals++
	if out := run1(q, s); out != true {
		o.failCase("positions", "subject="+Hexs([]byte(s)), "length/slice/index disagree with explode: "+rs(out))
	}
	qi := compile(`. as $s | all(indices($x)[]; . as $i | $s[$i:$i + ($x | length)] == $x) and
		(index($x) == (indices($x) | first)) and (rindex($x) == (indices($x) | last))`, "$x")
	rs2 := []rune(s)
	needles := append([]string{"a", "é", "€", "́", "ab", "\U0001f600"}, extra...)
	if len(rs2) > 0 {
		i := r.Intn(len(rs2))
		j := i + 1 + r.Intn(len(rs2)-i)
		needles = append(needles, string(rs2[i:j]))
	}
	for _, x := range needles {
		o.evals++
		if out := run1(qi, s, x); out != true {
			o.failCase("indices-slice", "subject="+Hexs([]byte(s))+" needle="+Hexs([]byte(x)), "indices/index/rindex disagree with slicing: "+rs(out))
		}
	}
}

func runRegex(c *Ctx) {
	o := &oracleRunner{c: c}
	r := c.Rng
	defer func() {
		c.Stats["oracle_cases"] = o.evals
		c.Stats["oracle_failures"] = o.nfail
	}()
	for _, a := range c.Args {
		if path, ok := strings.CutPrefix(a, "cases="); ok {
			data, err := os.ReadFile(path)
			if err != nil {
				panic(err)
			}
			for _, line := range strings.Split(string(data), "\n") {
				var sub, re, fl, needle string
				for _, f := range strings.Fields(line) {
					if v, ok := strings.CutPrefix(f, "subject="); ok {
						sub = v
					} else if v, ok := strings.CutPrefix(f, "re="); ok {
						re = v
					} else if v, ok := strings.CutPrefix(f, "flags="); ok {
						fl = v
					} else if v, ok := strings.CutPrefix(f, "needle="); ok {
						needle = v
					}
				}
				if sub == "" {
					continue
				}
				unhex := func(t string) string {
					if t == "-" {
						return ""
					}
					b, _ := hex.DecodeString(t)
					return string(b)
				}
				var flags any
				if fl != "null" && fl != "" {
					flags = unhex(fl)
				}
				if re != "" {
					o.oneCase(unhex(sub), unhex(re), flags)
				}
				if needle != "" {
					o.positions(unhex(sub), r, unhex(needle))
				} else {
					o.positions(unhex(sub), r)
				}
			}
			return
		}
	}
	maxExh := 3
	if c.Tier == "thorough" {
		maxExh = 4
	}
	subjects := subjectsUpTo(maxExh)
	for i := 0; i < c.N; i++ {
		subjects = append(subjects, randSubject(r, 12))
	}
	regexes := append([]string{}, fixedRegexes...)
	for i := 0; i < c.N/4+20; i++ {
		regexes = append(regexes, randRegex(r, 3))
	}
	perSubject := 6
	if c.Tier == "thorough" {
		perSubject = 40
	}
	for _, s := range subjects {
		o.positions(s, r)
		for k := 0; k < perSubject; k++ {
			o.oneCase(s, regexes[r.Intn(len(regexes))], flagSets[r.Intn(len(flagSets))])
		}
	}
	// every fixed regex x every flag set on a few subjects that exercise multi-byte prefixes and empty matches
	for _, s := range []string{"", "a", "aé€\U0001f600b", "éaáb\naA", "€€a", "\U0001f600ab\U0001f600", "a\nb", "ááa"} {
		for _, re := range fixedRegexes {
			for _, fl := range flagSets {
				o.oneCase(s, re, fl)
			}
		}
	}
}
