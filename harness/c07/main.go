// C07 harness: runs every program under a context whose Done() closes at the k-th poll, for every k,
// and records the (poll count, result) sequence of Iter.Next including 3 extra calls after the end.
// One line per program:
//
//	(c07 <prog-hex> <input-hex> <npolls> (trace (<idx> <res>)...) (runs (<k> (<polls> <res>)...)...))
//
// trace = what the UNCANCELLED run returns, keyed by the index of the instruction (= poll) that returned it;
// <res> = (v <hex>) | (e <hex>) | ctx | done | panic.
// The extracted model (coq/c07) is instantiated with the trace as its step oracle and predicts every run.
// Implementation-only oracles (reported as violations): no panic on any Next call, a hung loop that
// never polls the context, (with build tag gojq_debug) instruction fetches == polls, agreement of the
// context-free run with the trace.
package main

import (
	"context"
	"encoding/json"
	"fmt"
	"os"
	"strings"
	"time"
	. "verifharness/hlib"

	"github.com/itchyny/gojq"
)

func main() { Register("c07", runC07); Register("c07vm", runC07vm); Main() }

// ---- counting context ----------------------------------------------------------------------

var closedCh = func() chan struct{} { c := make(chan struct{}); close(c); return c }()

type countCtx struct {
	n, k      int // n = Done() calls so far; Done() is closed from call number k on (k < 0: never)
	open      chan struct{}
	cancelled bool
}

func newCountCtx(k int) *countCtx { return &countCtx{k: k, open: make(chan struct{})} }

func (c *countCtx) Done() <-chan struct{} {
	i := c.n
	c.n++
	if c.k >= 0 && i >= c.k {
		c.cancelled = true
		return closedCh
	}
	return c.open
}
func (c *countCtx) Err() error {
	if c.cancelled {
		return context.Canceled
	}
	return nil
}
func (c *countCtx) Deadline() (time.Time, bool) { return time.Time{}, false }
func (c *countCtx) Value(any) any               { return nil }

// ---- native iterators given to the compiler -------------------------------------------------

type natIter struct{ i, errAt int }

func (it *natIter) Next() (any, bool) {
	v := it.i
	it.i++
	if v == it.errAt {
		return fmt.Errorf("nat error at %d", v), true
	}
	return v, true
}

func compile(src string) (*gojq.Code, error) {
	q, err := gojq.Parse(src)
	if err != nil {
		return nil, err
	}
	return gojq.Compile(q,
		gojq.WithVariables([]string{"$v"}),
		gojq.WithInputIter(gojq.NewIter[any](1, []any{2, 3}, map[string]any{"a": 4}, 5)),
		gojq.WithIterFunction("nat", 0, 0, func(any, []any) gojq.Iter { return &natIter{errAt: -1} }),
		gojq.WithIterFunction("naterr", 1, 1, func(_ any, xs []any) gojq.Iter {
			n, _ := xs[0].(int)
			return &natIter{errAt: n}
		}),
		gojq.WithFunction("boom", 0, 0, func(any, []any) any { return fmt.Errorf("boom") }),
	)
}

// ---- one run ---------------------------------------------------------------------------------

type obs struct {
	polls int
	res   string
	fetch int
}

const extraCalls = 3

// a Next call that neither returns nor polls; the debug trace (fetch counting) formats the whole stack at every instruction
var hangTimeout = map[bool]time.Duration{false: 10 * time.Second, true: 90 * time.Second}[fetchEnabled]

func resOf(v any, ok bool, cc *countCtx) string {
	if !ok {
		return "done"
	}
	if e, isErr := v.(error); isErr {
		if cc != nil && e == context.Canceled {
			return "ctx"
		}
		return "(e " + Hexs([]byte(e.Error())) + ")"
	}
	return "(v " + Hexs([]byte(SexpVal(v))) + ")"
}

// runOnce runs src on input; k = cancellation poll (k < 0 and !useCtx: context-free Run).
// It calls Next until (nil,false) or the context error, then extraCalls more; at most maxCalls.
func runOnce(src string, input any, useCtx bool, k int, maxCalls int) (out []obs, npolls int) {
	code, err := compile(src)
	if err != nil {
		return []obs{{0, "(compile " + Hexs([]byte(err.Error())) + ")", 0}}, 0
	}
	var cc *countCtx
	var it gojq.Iter
	if useCtx {
		cc = newCountCtx(k)
		it = code.RunWithContext(cc, input, "V")
	} else {
		it = code.Run(input, "V")
	}
	fetchReset()
	extra := -1
	for calls := 0; calls < maxCalls; calls++ {
		var r string
		func() {
			defer func() {
				if p := recover(); p != nil {
					r = "panic"
				}
			}()
			v, ok := it.Next()
			r = resOf(v, ok, cc)
		}()
		p := 0
		if cc != nil {
			p = cc.n
		}
		out = append(out, obs{p, r, fetchCount()})
		if r == "panic" {
			break
		}
		if extra < 0 && (r == "done" || r == "ctx") {
			extra = extraCalls
		}
		if extra >= 0 {
			if extra == 0 {
				break
			}
			extra--
		}
	}
	if cc != nil {
		npolls = cc.n
	}
	return
}

func fmtObs(os []obs) string {
	var sb strings.Builder
	for _, o := range os {
		fmt.Fprintf(&sb, " (%d %s)", o.polls, o.res)
	}
	return sb.String()
}

// ---- programs --------------------------------------------------------------------------------

type prog struct{ src, input string }

func fixedPrograms() []prog {
	big := `{"a":[1,{"b":[2,3]},[4,[5]]],"c":{"d":null,"e":"x"}}`
	ps := []prog{
		// formerly panicking on the Next after the final false (fix 87fc87e)
		{".[]", "[]"}, {"{}|.[]", "null"}, {"first(.[])", "[]"}, {"limit(1;.[])", "[[1]]"}, {"limit(1;.[])", "[]"},
		{"label $f|1,break $f", "null"}, {"path(.[])", "[]"}, {"first(empty)", "null"}, {".[]?", "1"},
		{"isempty(.[])", "[]"}, {"label $f | .[] | break $f", "[1]"}, {"[limit(3;.[])]", "[1,2,3,4]"},
		// plain
		{".", "1"}, {"empty", "null"}, {"1,2,3", "null"}, {".[]", "[1,2,3]"}, {".[] | .+1", "[1,2,3]"},
		{"$v", "null"}, {".a.b.c", `{"a":{"b":{"c":7}}}`}, {"[.[]|.*2]", "[1,2,3]"}, {"{a:.[]}", "[1,2]"},
		{"{(.[]|tostring):1}", "[1,2]"}, {`"x\(.[])y\(.[])"`, "[1,2]"}, {".[1:]", "[1,2,3]"}, {"..", big},
		{"[..]|length", big}, {"map(select(.>1))", "[1,2,3]"}, {"to_entries", `{"a":1,"b":2}`},
		{"sort_by(-.)", "[3,1,2]"}, {"group_by(.%2)", "[1,2,3,4]"}, {"[splits(\", \")]", `"a, b, c"`},
		{`splits("a")`, `"banana"`}, {`[match("a";"g").offset]`, `"banana"`}, {`test("a")`, `"banana"`},
		{"tojson|fromjson", big}, {"tostream", `{"a":[1,2]}`}, {"fromstream(tostream)", `{"a":[1,2]}`},
		{"add", "[1,2,3]"}, {"any,all", "[true,false]"}, {"flatten", "[1,[2,[3]]]"}, {"combinations", "[[1,2],[3,4]]"},
		{"walk(if type==\"number\" then .+1 else . end)", "[1,[2]]"}, {"@base64,@json,@html", `"<a>"`},
		{"getpath([\"a\",0])", big}, {"input", "null"}, {"[inputs]", "null"}, {"inputs", "null"}, {"first(inputs)", "null"},
		{"input,input,input,input,input", "null"}, {"$__loc__", "null"}, {"ltrimstr(\"a\")", `"ab"`}, {"indices(1)", "[0,1,2,1]"},
		// errors mid-stream; the iterator goes on after an error value
		{".[] | error", "[0,1]"}, {"error", "1"}, {".a", "1"}, {".[]", "1"}, {"{(1):2}", "null"}, {"1,error(\"x\"),2", "null"},
		{".[] | if .==2 then error(\"two\") else . end", "[1,2,3]"}, {"(1,2,3) | (., error)", "null"},
		{".[] | .a", `[{"a":1},2,{"a":3}]`}, {"limit(-1;1)", "null"}, {"path(1)", "null"}, {"path(.a|tostring)", `{"a":1}`},
		{"boom", "null"}, {"1,boom,2", "null"}, {".[]|boom", "[1,2]"}, {"naterr(2)", "null"}, {"limit(5;naterr(2))", "null"},
		{"try naterr(1) catch .", "null"}, {". as [$a] | $a", `{"a":1}`}, {". as {a:$a} | $a", "[1]"}, {"input|input|input|input|input|input", "null"},
		{"halt_error", `"bye"`}, {"1,halt,2", "null"}, {"(1,2)|halt_error", "null"}, {"try error(\"x\") catch error(\"y\")", "null"},
		{"error(null)", "null"}, {"try error(null) catch .", "null"}, {".[] as [$a] | $a", "[[1],2,[3]]"}, {"implode", "[1114112]"},
		{"reduce .[] as $x (0; . + $x | if . > 2 then error(\"big\") else . end)", "[1,2,3]"}, {"[.[] | tonumber?]", `["1","x","2"]`},
		{"tonumber", `"x"`}, {".[] | tonumber", `["1","x","2"]`}, {"keys", "1"}, {"has(0)", "{}"}, {"@base32d", `"?"`}, {"ascii", "1000"},
		// try/catch, alternative, optional
		{"try error(\"x\") catch .", "null"}, {"try (1,error(\"x\"),3) catch .", "null"}, {".[] | try error catch .", "[1,2]"},
		{"[.[] | (.a)?]", `[{"a":1},2]`}, {".a // 5", `{"a":null}`}, {"(.[] | select(.>5)) // 0", "[1,2]"}, {"(false,null,1,2) // 3", "null"},
		{"first(.[] | select(. > 1))", "[1,2,3]"}, {"try (try error(\"x\") catch error(\"y\")) catch .", "null"}, {"(error(\"x\"))? // 1", "null"},
		{". as [$a] ?// $a | $a", "[1]"}, {".[] as [$a] ?// $a | $a", "[[1],2]"}, {"error(\"x\") ?", "null"},
		// label/break, limit, first, until, while, repeat, recurse, range
		{"label $out | 1, 2, break $out, 3", "null"}, {"label $a | label $b | 1, break $a, 2", "null"}, {"[label $a | (1, break $a), 2]", "null"},
		{"limit(3; repeat(1))", "null"}, {"first(repeat(1))", "null"}, {"[limit(5; range(1e9))]", "null"}, {"until(. > 20; . * 2)", "1"},
		{"[while(. < 20; . * 2)]", "1"}, {"[recurse(if . < 5 then .+1 else empty end)]", "0"}, {"recurse", big}, {"[recurse(.[]?; . != 3)]", "[1,[2,3]]"},
		{"range(5)", "null"}, {"range(0;10;3)", "null"}, {"range(5;0;-2)", "null"}, {"[range(0,1;3,4)]", "null"}, {"range(3) as $x | range($x)", "null"},
		{"last(range(10))", "null"}, {"nth(3; range(10))", "null"}, {"isempty(range(3))", "null"}, {"[limit(3;nat)]", "null"}, {"first(nat|select(.>3))", "null"},
		{"skip(2; range(5))", "null"}, {"limit(0; 1,2)", "null"}, {"[.[] | until(. > 3; . + 1)]", "[0,5]"}, {"any(range(10); . > 3)", "null"}, {"all(range(10); . < 3)", "null"},
		// reduce/foreach
		{"reduce .[] as $x (0; . + $x)", "[1,2,3,4]"}, {"reduce range(20) as $x ([]; . + [$x])", "null"}, {"foreach .[] as $x (0; . + $x)", "[1,2,3]"},
		{"foreach .[] as $x (0; . + $x; [$x, .])", "[1,2,3]"}, {"reduce empty as $x (0; .)", "null"}, {"reduce .[] as [$a,$b] (0; . + $a * $b)", "[[1,2],[3,4]]"},
		{"foreach range(5) as $x (0; . + $x; select(. % 2 == 0))", "null"}, {"reduce (1,2) as $x (0; (. + $x), 10)", "null"}, {"foreach (1,2) as $x (0; empty; .)", "null"},
		// paths and updates
		{"path(..)", big}, {"[paths]", big}, {"path(.a[].b?)", big}, {"path(.. | select(type==\"number\"))", big}, {".a[1].b[0] = 9", big},
		{".. |= (if type==\"number\" then .+1 else . end)", big}, {".[] |= .+1", "[1,2,3]"}, {".[] += 1", "[1,2,3]"}, {"del(.[0,2])", "[1,2,3,4]"}, {"del(..|select(. == 2)?)", "[1,2,[2,3]]"},
		{"to_entries|from_entries", `{"a":1}`}, {"with_entries(.value += 1)", `{"a":1,"b":2}`}, {"(.a,.b) = (1,2)", "{}"}, {".[] |= empty", "[1,2,3]"}, {"map_values(empty)", "[1,2]"},
		{"paths(type == \"number\")", big}, {"leaf_paths", big}, {"[.[] | getpath([\"a\"])?]", `[{"a":1},1]`}, {"setpath([\"a\",\"b\"]; 1)", "null"}, {"delpaths([[\"a\"]])", `{"a":1,"b":2}`},
		{"limit(3; .[] |= (.,.))", "[1,2]"}, {"pick(.a)", `{"a":1,"b":2}`}, {".a |= (.,.)", `{"a":1}`}, {"path(first(.a,.b))", "{}"}, {"path(limit(2; .[]))", "[1,2,3]"},
		// user functions, recursion, closures
		{"def f: .+1; f|f", "1"}, {"def f(g): g|g; f(.+1)", "1"}, {"def f($a; $b): $a+$b; f(1,2; 10,20)", "null"}, {"def fac: if . <= 1 then 1 else . * (. - 1 | fac) end; fac", "6"},
		{"def f: if . < 30 then .+1|f else . end; f", "0"}, {"def f: def g: .+1; g|g; f", "0"}, {"def f(x): x as $v | $v, $v; f(1,2)", "null"}, {"def r: if . > 0 then .-1|r else \"z\" end; [.[]|r]", "[3,0,2]"},
		{"def f: reduce .[] as $x (0; . + $x); f", "[1,2]"}, {"[.[] as $x | $x * 2] | add", "[1,2,3]"}, {"def e: error(\"e\"); try e catch .", "null"}, {"def f: (1,2) as $x | $x; [f,f]", "null"},
		{"def ack(m;n): if m == 0 then n+1 elif n == 0 then ack(m-1;1) else ack(m-1;ack(m;n-1)) end; ack(2;2)", "null"}, {"def z(f;g): [f,g]; z(.[0];.[1])", "[1,2]"}, {"def gen: 1, (2|gen2); def gen2: 3; gen", "null"},
		// infinite (truncated at the poll cap)
		{"def f: f; f", "null"}, {"def f: f; f, f", "null"}, {"repeat(1)", "null"}, {"repeat(empty)", "null"}, {"repeat(.+1)", "0"}, {"range(infinite)", "null"}, {"range(1e9)", "null"},
		{"range(1e9)|select(false)", "null"}, {"[range(1e9)]", "null"}, {"until(false; .+1)", "0"}, {"while(true; .+1)", "0"}, {"recurse(.+1)", "0"}, {"recurse(.+1; true)", "0"}, {"[repeat(1)]", "null"},
		{"last(repeat(1))", "null"}, {"reduce repeat(1) as $x (0; .+$x)", "null"}, {"foreach repeat(1) as $x (0; .+$x)", "null"}, {"foreach repeat(1) as $x (0; .+$x; empty)", "null"}, {"limit(1e9; repeat(1))", "null"},
		{"first(repeat(empty))", "null"}, {"nat", "null"}, {"nat|select(false)", "null"}, {"[nat]", "null"}, {"last(nat)", "null"}, {"path(repeat(.a))", "null"}, {"path(recurse(.[0]))", "null"}, {"label $l | repeat(1)", "null"},
		{"def f: 1, f; f", "null"}, {"def f: (f|.), 1; f", "null"}, {"def f: def g: f; g; f", "null"}, {"def f: try f catch .; f", "null"}, {"def f(x): f(x); f(1)", "null"}, {"def f($x): f($x+1); f(1)", "null"},
		{"def f: if true then f else . end; f", "null"}, {"def f: . as $x | f; f", "null"}, {"def f: .+1 | f; f", "0"}, {"def f: [.] | f; f", "0"}, {"def f: f | .; f", "null"}, {"def f: g; def g: f; f", "null"},
		{"try repeat(error) catch .", "1"}, {"repeat(try error catch .)", "1"}, {".. |= repeat(1)", "[1]"}, {"limit(3; repeat(1)) , repeat(2)", "null"}, {"first(range(1e9)), range(1e9)", "null"},
		{"[.[] | range(1e9)] ", "[1]"}, {"range(1e9) as $x | range(1e9) | [$x, .]", "null"}, {"splits(\"a\") | repeat(.)", `"bab"`}, {"inputs | repeat(.)", "null"}, {"repeat(input)", "null"},
		{"range(0;1e9;1)", "null"}, {"range(1e9;0;-1)", "null"}, {"range(0;infinite;0.5)", "null"}, {"range(0;1;0)", "null"}, {"[range(0;1;0)]", "null"}, {"limit(3;range(0;1;0))", "null"},
	}
	return ps
}

// generated programs: generator x wrapper (x wrapper), so that every seed covers other combinations
func genPrograms(r *Rng, n int) []prog {
	gens := []string{"range(3)", ".[]", "(1,2)", "empty", "error(\"x\")", "repeat(1)", "recurse", "range(1e9)", "nat", "naterr(1)", "inputs",
		"(.[]|select(.>1))", "limit(2;repeat(.))", "range(2;9;3)", "(1,error(\"m\"),3)", "first(range(5))", "[.[]]", "path(..)", "..", "boom",
		"def f: 1, f; f", "def f: if . < 3 then .+1|f else . end; 0|f", "until(.>4;.+1)", "while(.<3;.+1)", "(.[]?)", "(.[0] // 7)", "label $z | (1, break $z, 2)",
		"splits(\"b\")", "$v", "(.[] as $q | $q, $q)"}
	wraps := []string{"%s", "limit(2; %s)", "first(%s)", "[%s]", "try (%s) catch .", "(%s) | select(. != 1)", "label $l | (%s) | if . == 2 then break $l else . end",
		"reduce (%s) as $x (0; . + 1)", "foreach (%s) as $x (0; . + 1)", "foreach (%s) as $x (0; . + 1; [$x, .])", "path(%s)", "(%s) as $x | $x", "(%s), (%s)", "(%s) // 1",
		"[limit(3; %s)] | .[]", "isempty(%s)", "last(%s)", "[(%s)?]", "(%s) | tostring", "{a: (%s)}", ". as $d | (%s) | [., $d] | length", "(%s) |= .", "def w: %s; w, w",
		"try ((%s) | error) catch .", "(%s) | error", "any(%s; . == 2)", "nth(1; %s)", "skip(1; %s)", "[.[] | (%s)?] | length", "if (%s) then 1 else 2 end", "(%s) as [$a] ?// $a | $a",
		"label $o | foreach (%s) as $i (0; . + 1; if . > 2 then ., break $o else . end)", "(%s) | (., .)", "limit(3; (%s) | repeat(.))", "first((%s) | select(. == 2))"}
	inputs := []string{"[1,2,3]", "null", `"abc"`, `{"a":[1,2],"b":2}`, "[]", "[[1],[2,[3]]]", "0"}
	fill := func(w, g string) string { return strings.ReplaceAll(w, "%s", g) }
	var ps []prog
	for i := 0; i < n; i++ {
		g := gens[r.Intn(len(gens))]
		src := fill(wraps[r.Intn(len(wraps))], g)
		if r.Chance(1, 2) {
			src = fill(wraps[r.Intn(len(wraps))], src)
		}
		if r.Chance(1, 6) {
			src = fill(wraps[r.Intn(len(wraps))], src)
		}
		ps = append(ps, prog{src, inputs[r.Intn(len(inputs))]})
	}
	return ps
}

// ---- the stream ------------------------------------------------------------------------------

func runC07(c *Ctx) {
	capPolls := 160 // M: the uncancelled recording is cut at this many polls (infinite programs)
	ngen := c.N
	if c.Tier != "quick" {
		capPolls = 400
	}
	var ps []prog
	if len(c.Args) > 0 { // replay: prog-hex:input-hex pairs are not needed, plain "src\tinput"
		for _, a := range c.Args {
			f := strings.SplitN(a, "\t", 2)
			if len(f) == 2 {
				ps = append(ps, prog{f[0], f[1]})
			}
		}
	} else {
		// programs that may hang a broken interpreter (the infinite group, "def f: f; f" onwards) go last
		fx := fixedPrograms()
		cut := len(fx)
		for i, p := range fx {
			if p.src == "def f: f; f" {
				cut = i
				break
			}
		}
		ps = append(ps, fx[:cut]...)
		// error-raising instruction kinds x positions: every tier runs all of them through the no-panic oracle
		// (nopanicBlock); a seed-dependent sample (thorough: all) also goes through every cancellation point
		ep := errorPrograms()
		stride := 9
		if c.Tier != "quick" {
			stride = 1
		}
		for i := int(c.Seed % uint64(stride)); i < len(ep); i += stride {
			ps = append(ps, ep[i])
		}
		ps = append(append(ps, genPrograms(c.Rng, ngen)...), fx[cut:]...)
	}
	if !fetchEnabled {
		if len(c.Args) == 0 {
			nopanicBlock(c)
			sp := stdctxPrograms()
			if c.Tier == "quick" { // a seed-dependent third of the programs; all context kinds and modes
				var q []prog
				for i, p := range sp {
					if i < 3 || (i+int(c.Seed))%3 == 0 {
						q = append(q, p)
					}
				}
				sp = q
			}
			stdctxBlock(c, sp)
		} else {
			stdctxBlock(c, ps)
		}
	}
	seen := map[string]bool{}
	type result struct {
		lines []string
		viols []string
		kinds []string
	}
	for _, p := range ps {
		key := p.src + "\t" + p.input
		if seen[key] {
			continue
		}
		seen[key] = true
		var input any
		if err := json.Unmarshal([]byte(p.input), &input); err != nil {
			panic(err)
		}
		input = normalize(input)
		ch := make(chan result, 1)
		go func() { ch <- onProgram(p, input, capPolls) }()
		select {
		case r := <-ch:
			for _, l := range r.lines {
				c.Emit("%s", l)
			}
			for _, v := range r.viols {
				c.Violation("%s", v)
			}
			for _, k := range r.kinds {
				c.Count(k)
			}
		case <-time.After(hangTimeout):
			// a Next call that neither returns nor polls the context: the loop avoids the poll
			c.Violation("hang\t%s\t%s\t-1\tNext did not return within %v under a context cancelled at poll <= %d (a loop that does not poll ctx.Done())", p.src, p.input, hangTimeout, capPolls)
			c.Count("hang")
			finishEarly(c)
			return
		}
	}
	c.Stats["poll_cap"] = capPolls
	c.Stats["fetch_counting"] = fetchEnabled
}

func finishEarly(c *Ctx) {
	c.Out.Flush()
	c.Stats["lines"] = c.Nlines
	c.Stats["distribution"] = c.Dist
	c.Stats["impl_violations"] = c.Viol
	c.Stats["aborted"] = "hang"
	for i, a := range os.Args {
		if a == "-stats" && i+1 < len(os.Args) {
			b, _ := json.MarshalIndent(c.Stats, "", " ")
			os.WriteFile(os.Args[i+1], b, 0o644)
		}
	}
	os.Exit(0)
}

func parseInput(src string) any {
	var input any
	if err := json.Unmarshal([]byte(src), &input); err != nil {
		panic(err)
	}
	return normalize(input)
}

// json.Unmarshal gives float64 numbers; gojq wants int where integral
func normalize(v any) any {
	switch v := v.(type) {
	case float64:
		if v == float64(int(v)) {
			return int(v)
		}
		return v
	case []any:
		for i := range v {
			v[i] = normalize(v[i])
		}
		return v
	case map[string]any:
		for k := range v {
			v[k] = normalize(v[k])
		}
		return v
	}
	return v
}

func onProgram(p prog, input any, capPolls int) (res struct {
	lines []string
	viols []string
	kinds []string
}) {
	viol := func(kind string, k int, format string, a ...any) {
		res.viols = append(res.viols, fmt.Sprintf("%s\t%s\t%s\t%d\t%s", kind, p.src, p.input, k, fmt.Sprintf(format, a...)))
	}
	maxCalls := capPolls + 10
	// the uncancelled run, cut at capPolls polls
	rec, npolls := runOnce(p.src, cloneVal(input), true, capPolls, maxCalls)
	if len(rec) == 1 && strings.HasPrefix(rec[0].res, "(compile") {
		res.kinds = append(res.kinds, "compile-error")
		return
	}
	truncated := false
	var trace strings.Builder
	prev := 0
	nvals := 0
	for _, o := range rec {
		if o.res == "ctx" {
			truncated = true
			break
		}
		if o.res == "panic" {
			viol("panic", -1, "Next panicked in the uncancelled run (call results so far:%s)", fmtObs(rec))
			break
		}
		if o.polls > prev { // returned by the instruction fetched at poll index o.polls-1
			fmt.Fprintf(&trace, " (%d %s)", o.polls-1, o.res)
			if o.res != "done" {
				nvals++
			}
		} else if o.res != "done" {
			viol("nopoll", -1, "Next returned %s without polling the context", o.res)
		}
		prev = o.polls
	}
	if fetchEnabled {
		for _, o := range rec {
			if o.fetch != o.polls {
				viol("fetch", -1, "after a Next call: %d instruction fetches but %d polls of ctx.Done() (an instruction was executed without a poll)", o.fetch, o.polls)
				break
			}
		}
	}
	limit := npolls // finite: k = 0..npolls (k = npolls: never reached)
	if truncated {
		limit = capPolls - 1
		res.kinds = append(res.kinds, "infinite-or-long")
	} else {
		res.kinds = append(res.kinds, "finite")
	}
	if nvals > 0 {
		res.kinds = append(res.kinds, "emits")
	}
	if strings.Contains(trace.String(), "(e ") {
		res.kinds = append(res.kinds, "error-midstream")
	}
	// the runs of one program are spread over several lines (each repeats the trace) to bound the line length
	var runs strings.Builder
	flush := func() {
		if runs.Len() > 0 {
			res.lines = append(res.lines, fmt.Sprintf("(c07 %s %s %d (trace%s) (runs%s))", Hexs([]byte(p.src)), Hexs([]byte(p.input)), npolls, trace.String(), runs.String()))
			runs.Reset()
		}
	}
	for k := 0; k <= limit; k++ {
		if fetchEnabled && k%8 != 3 && k != 0 && k != limit {
			// fetch-counting binary (slow: the debug trace formats the stack at every instruction): a sample
			// of the cancellation points; its lines are not judged by the model, only its oracles count
			continue
		}
		out, _ := runOnce(p.src, cloneVal(input), true, k, maxCalls)
		fmt.Fprintf(&runs, " (%d%s)", k, fmtObs(out))
		if runs.Len() > 60000 {
			flush()
		}
		for i, o := range out {
			if o.res == "panic" {
				viol("panic", k, "Next call %d panicked under cancellation at poll %d", i, k)
			}
			if fetchEnabled && o.fetch != o.polls {
				viol("fetch", k, "after Next call %d: %d instruction fetches but %d polls", i, o.fetch, o.polls)
				break
			}
		}
	}
	// context-free run (plain Run): same results as the trace, no panic on the extra calls
	if !truncated {
		out, _ := runOnce(p.src, cloneVal(input), false, -1, maxCalls)
		var a, b []string
		for _, o := range out {
			a = append(a, o.res)
		}
		for _, o := range rec {
			b = append(b, o.res)
		}
		if strings.Join(a, " ") != strings.Join(b, " ") {
			viol("noctx", -1, "Run without a context returns [%s], with an uncancelled context [%s]", strings.Join(a, " "), strings.Join(b, " "))
		}
	}
	flush()
	return
}

func cloneVal(v any) any {
	switch v := v.(type) {
	case []any:
		w := make([]any, len(v))
		for i := range v {
			w[i] = cloneVal(v[i])
		}
		return w
	case map[string]any:
		w := make(map[string]any, len(v))
		for k := range v {
			w[k] = cloneVal(v[k])
		}
		return w
	}
	return v
}
