//go:build !gojq_debug

package main

const fetchEnabled = false

func fetchReset()     {}
func fetchCount() int { return 0 }

func fetchRecord(bool)   {}
func fetchPcs() []string { return nil }
