//go:build gojq_debug

package main

import (
	"bytes"

	"github.com/itchyny/gojq"
)

// With the build tags "verif gojq_debug" the interpreter's own per-instruction trace (debug.go:
// env.debugState, first statement of the loop body) is sent to a writer that counts its lines:
// an instruction-fetch counter that does not depend on ctx.Done().
const fetchEnabled = true

type fetchWriter struct {
	n   int
	pcs []string // "(pc bt)" of every fetch since the last reset, when recording
	rec bool
}

// debugState lines are "\t<pc>\t..."; debugForks lines are "\t-\t..."; debugCodes is printed inside
// RunWithContext, before fetchReset.
func (w *fetchWriter) Write(b []byte) (int, error) {
	if len(b) > 1 && b[0] == '\t' && b[1] >= '0' && b[1] <= '9' {
		w.n++
		if w.rec {
			f := bytes.SplitN(b[1:], []byte{'\t'}, 3)
			if len(f) >= 2 {
				bt := "0"
				if bytes.Contains(f[1], []byte(" <backtrack>")) {
					bt = "1"
				}
				w.pcs = append(w.pcs, "("+string(f[0])+" "+bt+")")
			}
		}
	}
	return len(b), nil
}

var fw = &fetchWriter{}

func init()           { gojq.VerifCountInstructions(fw) }
func fetchReset()     { fw.n = 0 }
func fetchCount() int { return fw.n }

func fetchRecord(on bool) { fw.rec, fw.pcs = on, nil }
func fetchPcs() []string  { return fw.pcs }
