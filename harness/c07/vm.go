package main

import (
	"context"
	"encoding/json"
	"fmt"
	"strings"
	. "verifharness/hlib"

	"github.com/itchyny/gojq"
)

// Stream "c07vm" (fetch-tracing binary): fragment-F programs whose concrete VM model exists in coq/c01vm.
// The model side instantiates the abstract machine of coq/c07 with c01vm's step (coq/c07/VMLink.v).
type vmprog struct{ jq, ast string }

func vmprogs() []vmprog {
	inc := "(binop add id (c (i 1)))"
	gt3 := "(binop gt id (c (i 3)))"
	a := "(s 61)"
	return []vmprog{
		{".", "id"}, {"empty", "empty"}, {"1, 2", "(comma (c (i 1)) (c (i 2)))"}, {".[]", "(iter id)"},
		{".[] | . + 1", "(pipe (iter id) " + inc + ")"},
		{"reduce .[] as $x (0; . + 1)", "(reduce (iter id) 0 (c (i 0)) " + inc + ")"},
		{"foreach .[] as $x (0; . + 1)", "(foreach (iter id) 0 (c (i 0)) " + inc + ")"},
		{"foreach .[] as $x (0; . + 1; [$x, .])", "(foreach (iter id) 0 (c (i 0)) " + inc + " (arr (comma (var 0) id)))"},
		{"[.[] | . + 1]", "(arr (pipe (iter id) " + inc + "))"},
		{".[] | (., 1)", "(pipe (iter id) (comma id (c (i 1))))"},
		{".[] | if . then 1 else . end", "(pipe (iter id) (if id (c (i 1)) id))"},
		{"label $out | .[] | if . > 3 then break $out else . end", "(label 0 (pipe (iter id) (if " + gt3 + " (break 0) id)))"},
		{"label $out | foreach .[] as $x (0; . + 1; if . > 3 then (., break $out) else . end)",
			"(label 0 (foreach (iter id) 0 (c (i 0)) " + inc + " (if " + gt3 + " (comma id (break 0)) id)))"},
		{"label $out | .[] | (., break $out)", "(label 0 (pipe (iter id) (comma id (break 0))))"},
		{"[.[] | .[]]", "(arr (pipe (iter id) (iter id)))"},
		{".[] as $x | $x", "(bind (iter id) 0 (var 0))"},
		{"[.[] | try error catch .]", "(arr (pipe (iter id) (try (call0 error) id)))"},
		{".[] | try error catch .", "(pipe (iter id) (try (call0 error) id))"},
		{".[] | .a // 0", "(pipe (iter id) (alt (index id " + a + ") (c (i 0))))"},
		{".[] | (.a)?", "(pipe (iter id) (try (index id " + a + ")))"},
		{".[] | .a", "(pipe (iter id) (index id " + a + "))"},
		{".[] | error", "(pipe (iter id) (call0 error))"},
		{"(.[] | . + 1), length", "(comma (pipe (iter id) " + inc + ") (call0 length))"},
		{".[] | if . > 3 then empty elif . then (., 1) else 2 end",
			"(pipe (iter id) (if " + gt3 + " empty (if id (comma id (c (i 1))) (c (i 2)))))"},
	}
}

func vmInputs() []any {
	return []any{
		[]any{}, []any{1}, []any{1, 2, 3}, []any{5, nil, 2, false, 7}, nil, 3,
		[]any{[]any{1, 2}, []any{3}}, []any{map[string]any{"a": 2}, map[string]any{"a": nil}, map[string]any{}},
		[]any{1, "x", 2}, map[string]any{"a": 1, "b": 2},
	}
}

func vmRes(v any, ok bool) string {
	if !ok {
		return "done"
	}
	if e, isErr := v.(error); isErr {
		if e == context.Canceled {
			return "ctx"
		}
		return "e"
	}
	return "(v " + SexpVal(v) + ")"
}

// one run under cancellation at poll k (k < 0: never); stops right after the first error value
func vmRun(code *gojq.Code, input any, k int, record bool) (obs []string, npolls int) {
	cc := newCountCtx(k)
	it := code.RunWithContext(cc, input)
	fetchReset()
	fetchRecord(record)
	extra := -1
	for calls := 0; calls < 5000; calls++ {
		var r string
		func() {
			defer func() {
				if p := recover(); p != nil {
					r = "panic"
				}
			}()
			v, ok := it.Next()
			r = vmRes(v, ok)
		}()
		obs = append(obs, fmt.Sprintf("(%d %s)", cc.n, r))
		if r == "panic" || r == "e" {
			break
		}
		if extra < 0 && (r == "done" || r == "ctx") {
			extra = extraCalls
		}
		if extra >= 0 {
			if extra == 0 {
				break
			}
			extra--
		}
	}
	return obs, cc.n
}

func runC07vm(c *Ctx) {
	if !fetchEnabled {
		c.Violation("c07vm needs the binary built with -tags \"verif gojq_debug\"")
		return
	}
	for _, p := range vmprogs() {
		q, err := gojq.Parse(p.jq)
		if err != nil {
			panic(err)
		}
		code, err := gojq.Compile(q)
		if err != nil {
			panic(err)
		}
		for _, in := range vmInputs() {
			b, _ := json.Marshal(in)
			var v any
			json.Unmarshal(b, &v)
			v = normalize(v)
			obs, npolls := vmRun(code, cloneVal(v), -1, true)
			pcs := append([]string(nil), fetchPcs()...)
			fetchRecord(false)
			var runs strings.Builder
			fmt.Fprintf(&runs, "(none %s)", strings.Join(obs, " "))
			for k := 0; k <= npolls; k++ {
				o, _ := vmRun(code, cloneVal(v), k, false)
				fmt.Fprintf(&runs, " (%d %s)", k, strings.Join(o, " "))
			}
			c.Count("c07vm")
			c.Emit("(c07vm %s %s (pcs %s) (runs %s))", p.ast, SexpVal(v), strings.Join(pcs, " "), runs.String())
		}
	}
}
