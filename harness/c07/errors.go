package main

import (
	"context"
	"errors"
	"fmt"
	"strings"
	"time"
	. "verifharness/hlib"
)

// ---- (A) every error-raising instruction kind, forward and after backtracking ------------------

// error-raising expressions (input-independent unless they mention `.` on the given input [1,"a",[2],{"a":3}])
func errorExprs() []string {
	return []string{
		// opindex / opindexarray on the wrong type
		"(1 | .a)", "(\"s\" | .[0])", "({} | .[0])", "([1] | .a)", "(true | .[\"a\"])", "(. as [$p] | $p | .a)", "({a:1} | . as [$p] | $p)",
		// opiter on scalars and null
		"(1 | .[])", "(\"s\" | .[])", "(null | .[])", "(true | .[])", "(.[0] | .[])",
		// invalid paths: iteration / index / slice / getpath on CONSTRUCTED arrays and objects, empty and non-empty
		"path([1,2] | .[])", "path({a:1} | .[])", "path([] | .[])", "path({} | .[])", "path(sort | .[])", "path(map(.) | .[])",
		"path(to_entries | .[])", "path([.[]] | .[])", "path({a:.} | .[])", "path([1,2] | .[0])", "path({a:1} | .a)", "path([1,2] | .[0:1])",
		"path([1,2] | getpath([0]))", "path({a:1} | getpath([\"a\"]))", "path([.[]] | .[1])", "path({a:.} | .a)", "path(tojson | .[0]?)",
		"path(.[2] | map(.) | .[])", "path(.[3] | with_entries(.) | .[])", "path([[1]] | .[] | .[])", "path([1,2] | .[]?)", "path({a:[1]} | .a[])",
		"[paths(..)]", "path(.. | [.] | .[])", "path(first([1,2]) | .[])", "path(if . then [3,4] else . end | .[])",
		// path end errors
		"path(1)", "path(first(1,2))", "path(.[0] | tostring)", "path(. + [])", "path(.[] | 1)", "path(length)",
		// opobject with a non-string key
		"{(1): 2}", "{(null): 1}", "{(.[]): 1}", "{a: 1, (true): 2}", "{(.[1], .[0]): 1}",
		// native function errors
		"(1 + \"a\")", "(\"x\" | tonumber)", "(1 / 0)", "(1 % 0)", "({} | has(0))", "(null | implode)", "(1 | ltrimstr(\"a\") | test(1))", "(\"a\" | test(\"(\"))",
		"(1 | splits(\"a\"))", "(\"{\" | fromjson)", "({} | keys | .[0] | ascii_downcase)", "([1] | join(\",\") | @base32d | explode | implode | tonumber)",
		"([] | min_by(error))", "(\"a\" * -1 | length | error)", "(range(1; \"a\"))", "limit(-1; 1)", "([1,2] | .[\"a\"])", "(input | input | input | input | input | input)",
		"(1 | tojson | fromjson | .a)", "([1] | flatten(-1))", "({} | to_entries | from_entries | .a.b.c | .[0] | error)", "(\"abc\" | .[0:1] | .x)",
		// error/0, error/1 with all payload kinds
		"error", "error(null)", "error(\"x\")", "error({a:1})", "error([1])", "(.[] | error)", "(.[3] | error)", "boom", "naterr(0)", "naterr(1)",
		// break / label
		"(label $l | (1, break $l, 2))", "(label $a | label $b | (1, break $a))", "(label $l | error)", "(label $l | .[] | if . == \"a\" then break $l else error end)",
		// destructuring alternatives exhausted
		"(. as [$a] ?// {a: $a} | $a | .x)", "(1 | . as [$a] ?// {a: $a} | $a)", "(.[] as [$a] ?// $a | $a | error)", "(. as {a: $a} ?// [$a] | $a | error)",
		// update errors
		"(.a = 1)", "(1 | .[0] = 1)", "(.[] |= error)", "(.[3].a |= error)", "((.[0], .[1]) = error)", "del(.a)", "(.[0] |= .a)", "(.[3] | to_entries | .[0] |= error)",
		"(.. |= error)", "limit(1; .[] |= error)", "setpath(1; 1)", "delpaths(1)", "getpath(1)", "(.[2][0] += \"a\")", "(.[3] |= with_entries(error))", "(.[1] |= (., error))",
		"(.[0] |= empty | error)", "paths(error)", "([.[] | tostring] | .[0] |= tonumber | .[1] |= tonumber)", "(reduce .[] as $x (0; . + $x))", "(foreach .[] as $x (0; . + $x))",
	}
}

// positions: forward, after backtracking, under try / alt / label / reduce / foreach / path / binding / array
func errorWrappers() []string {
	return []string{
		"%s", "%s, 1", "1, %s", "(1, 2) | %s", "(empty, %s)", "first(%s, 1)", "((%s)?, 1)", "try %s catch .", "try (%s | 1) catch (., 2)",
		"[limit(3; %s, %s)]", "label $w | (%s, break $w)", "reduce (%s) as $x (0; .)", "foreach (%s, 1) as $x (0; .; .)", "path(%s)",
		"(%s) as $x | $x", "(%s) // 1", "[%s] | length", "[(%s)?]", ".[] | %s", "(%s) | error", "(.[] | %s), 5", "[.[] | try %s catch 7]",
		"%s | ., .", "isempty(%s)", "(%s) ?// 1", "def w: %s; (w, w)", "{a: (%s)}", "(%s) as [$u] ?// $u | $u",
	}
}

const errorInput = `[1,"a",[2],{"a":3}]`

func errorPrograms() []prog {
	var ps []prog
	for _, e := range errorExprs() {
		for _, w := range errorWrappers() {
			ps = append(ps, prog{strings.ReplaceAll(w, "%s", e), errorInput})
		}
	}
	return ps
}

// nopanicBlock: every error program, uncancelled, with and without a context: Next is called after EVERY
// emitted error until (nil,false), then extraCalls more.  Only the no-panic and absorbing oracles are evaluated
// (cheap: no per-k runs, no lines).
func nopanicBlock(c *Ctx) {
	for _, p := range errorPrograms() {
		input := parseInput(p.input)
		for _, useCtx := range []bool{false, true} {
			out, _ := runOnce(p.src, cloneVal(input), useCtx, -1, 400)
			if len(out) == 1 && strings.HasPrefix(out[0].res, "(compile") {
				c.Count("errprog-compile-error")
				break
			}
			c.Count("errprog-run")
			sawDone := false
			for i, o := range out {
				if o.res == "panic" {
					c.Violation("panic\t%s\t%s\t-1\tNext call %d panicked (results so far:%s)", p.src, p.input, i, fmtObs(out))
					break
				}
				if sawDone && o.res != "done" {
					c.Violation("notabsorbing\t%s\t%s\t-1\tNext returned %s after (nil,false) (results:%s)", p.src, p.input, o.res, fmtObs(out))
					break
				}
				if o.res == "done" {
					sawDone = true
				}
			}
		}
	}
}

// ---- (B) standard-library contexts --------------------------------------------------------------

type stdctxKind struct {
	name string
	// mk returns the context, a function that cancels it now (nil: it expires by itself), and the expected error
	mk func() (ctx context.Context, cancelNow func(), cleanup func(), want error)
}

var errCause = errors.New("custom cause")

func stdctxKinds() []stdctxKind {
	return []stdctxKind{
		{"WithCancel", func() (context.Context, func(), func(), error) {
			ctx, cancel := context.WithCancel(context.Background())
			return ctx, cancel, cancel, context.Canceled
		}},
		{"WithCancelCause", func() (context.Context, func(), func(), error) {
			ctx, cancel := context.WithCancelCause(context.Background())
			return ctx, func() { cancel(errCause) }, func() { cancel(nil) }, context.Canceled
		}},
		{"WithTimeout", func() (context.Context, func(), func(), error) {
			ctx, cancel := context.WithTimeout(context.Background(), 15*time.Millisecond)
			return ctx, nil, cancel, context.DeadlineExceeded
		}},
		{"WithDeadline", func() (context.Context, func(), func(), error) {
			ctx, cancel := context.WithDeadline(context.Background(), time.Now().Add(15*time.Millisecond))
			return ctx, nil, cancel, context.DeadlineExceeded
		}},
		{"WithTimeoutCause", func() (context.Context, func(), func(), error) {
			ctx, cancel := context.WithTimeoutCause(context.Background(), 15*time.Millisecond, errCause)
			return ctx, nil, cancel, context.DeadlineExceeded
		}},
		{"WithDeadlineCause", func() (context.Context, func(), func(), error) {
			ctx, cancel := context.WithDeadlineCause(context.Background(), time.Now().Add(15*time.Millisecond), errCause)
			return ctx, nil, cancel, context.DeadlineExceeded
		}},
		{"child-of-WithCancelCause", func() (context.Context, func(), func(), error) {
			parent, pcancel := context.WithCancelCause(context.Background())
			ctx, cancel := context.WithCancel(parent)
			return ctx, func() { pcancel(errCause) }, func() { cancel(); pcancel(nil) }, context.Canceled
		}},
		{"WithValue-child-of-WithTimeoutCause", func() (context.Context, func(), func(), error) {
			parent, pcancel := context.WithTimeoutCause(context.Background(), 15*time.Millisecond, errCause)
			return context.WithValue(parent, "k", 1), nil, pcancel, context.DeadlineExceeded
		}},
		{"WithTimeout-cancelled-early", func() (context.Context, func(), func(), error) {
			ctx, cancel := context.WithTimeout(context.Background(), time.Hour)
			return ctx, cancel, cancel, context.Canceled
		}},
		{"WithoutCancel-then-WithCancelCause", func() (context.Context, func(), func(), error) {
			ctx, cancel := context.WithCancelCause(context.WithoutCancel(context.Background()))
			return ctx, func() { cancel(errCause) }, func() { cancel(nil) }, context.Canceled
		}},
	}
}

// how the cancellation happens relative to the Next calls
var stdctxModes = []string{"before-run", "between-calls", "timer-during-next"}

func stdctxPrograms() []prog {
	return []prog{
		{"def f: f; f", "null"}, {"repeat(empty)", "null"}, {"range(1e9) | select(false)", "null"}, {"range(1e9)", "null"}, {"repeat(1)", "null"},
		{"last(range(1e9))", "null"}, {"reduce range(1e9) as $x (0; . + $x)", "null"}, {"[range(1e9)] | length", "null"}, {"nat | select(false)", "null"},
		{"path(repeat(.a))", "null"}, {"label $l | repeat(1)", "null"}, {"repeat(try error catch .)", "1"},
	}
}

// programs that keep returning values (cancellation between two Next calls is possible)
func emitsValues(src string) bool {
	switch src {
	case "range(1e9)", "repeat(1)", "path(repeat(.a))", "label $l | repeat(1)", "repeat(try error catch .)":
		return true
	}
	return false
}

func stdctxOne(c *Ctx, p prog, kd stdctxKind, mode string) {
	viol := func(format string, a ...any) {
		c.Violation("stdctx:%s:%s\t%s\t%s\t-1\t%s", kd.name, mode, p.src, p.input, fmt.Sprintf(format, a...))
	}
	code, err := compile(p.src)
	if err != nil {
		return
	}
	ctx, cancelNow, cleanup, want := kd.mk()
	defer cleanup()
	if mode == "before-run" {
		if cancelNow != nil {
			cancelNow()
		} else {
			<-ctx.Done()
		}
	}
	it := code.RunWithContext(ctx, parseInput(p.input), "V")
	type res struct {
		v  any
		ok bool
		pn any
	}
	next := func() (res, bool) {
		ch := make(chan res, 1)
		go func() {
			defer func() {
				if pn := recover(); pn != nil {
					ch <- res{pn: pn}
				}
			}()
			v, ok := it.Next()
			ch <- res{v: v, ok: ok}
		}()
		select {
		case r := <-ch:
			return r, true
		case <-time.After(10 * time.Second):
			return res{}, false
		}
	}
	if mode == "timer-during-next" && cancelNow != nil {
		t := time.AfterFunc(10*time.Millisecond, cancelNow)
		defer t.Stop()
	}
	ncalls := 0
	for {
		if mode == "between-calls" && ncalls == 2 {
			if cancelNow != nil {
				cancelNow()
			} else {
				<-ctx.Done()
			}
		}
		r, returned := next()
		ncalls++
		if !returned {
			viol("Next did not return within 10s although the context is done (ctx.Err() = %v)", ctx.Err())
			finishEarly(c)
			return
		}
		if r.pn != nil {
			viol("Next panicked: %v", r.pn)
			return
		}
		if !r.ok {
			if ctx.Err() != nil && ncalls <= 3 && mode != "timer-during-next" {
				// finished before it noticed? only possible for finite programs; ours are not
				viol("Next returned (nil,false) without reporting the context's error")
			}
			return
		}
		e, isErr := r.v.(error)
		if !isErr {
			if ncalls > 2000000 {
				viol("2000000 values without noticing the cancellation")
				return
			}
			continue
		}
		if ctx.Err() == nil {
			continue // an error value of the program itself (try repeat(error)): go on
		}
		if !(errors.Is(e, context.Canceled) || errors.Is(e, context.DeadlineExceeded)) {
			if mode != "timer-during-next" && !(mode == "between-calls" && ncalls <= 2) {
				viol("after the context was done Next returned the error %q, not the context's error %q", e.Error(), ctx.Err().Error())
				return
			}
			continue
		}
		// the context's error: must be exactly ctx.Err()
		if e != ctx.Err() || e != want {
			viol("Next returned %q (%T) but ctx.Err() is %q; the cause is %v", e.Error(), e, ctx.Err().Error(), context.Cause(ctx))
			return
		}
		for i := 0; i < extraCalls; i++ {
			r, returned := next()
			if !returned || r.pn != nil || r.ok {
				viol("after the context error, extra Next call %d: returned=%v panic=%v ok=%v value=%v (want (nil,false))", i, returned, r.pn, r.ok, r.v)
				return
			}
		}
		c.Count("stdctx-ok")
		return
	}
}

func stdctxBlock(c *Ctx, ps []prog) {
	for _, p := range ps {
		for _, kd := range stdctxKinds() {
			for _, mode := range stdctxModes {
				if mode == "timer-during-next" && strings.Contains(kd.name, "early") {
					continue
				}
				if mode == "between-calls" && !emitsValues(p.src) {
					continue
				}
				stdctxOne(c, p, kd, mode)
			}
		}
	}
}
