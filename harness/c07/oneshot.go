// C07 harness, stream "c07oneshot": the ONE-SHOT iterators of Code.RunWithContext (wrong number of variable values) and
// Query.RunWithContext / Query.Run (compile error).  Each is driven until (nil,false) and 3 more Next calls, without a
// context, under a counting context that is never cancelled, under one cancelled from its first poll, and under a
// standard-library context cancelled before the call.  Lines (format: coq/c07/Run.v, "oneshot"):
//
//	(oneshot code (vars <hexname>...) <nvalues> <k|none> (obs (<polls> <r>)...))
//	(oneshot query <hex compile error> <k|none> (obs (<polls> <r>)...))
//
// Implementation-only oracles: no panic; the error value is NOT the context's error.
package main

import (
	"context"
	"fmt"
	"strings"
	. "verifharness/hlib"

	"github.com/itchyny/gojq"
)

func init() { Register("c07oneshot", runOneShot) }

func osRes(v any, ok bool, compileErr string) string {
	if !ok {
		return "done"
	}
	e, isErr := v.(error)
	if !isErr {
		return "other"
	}
	if e == context.Canceled || e == context.DeadlineExceeded {
		return "ctx"
	}
	switch fmt.Sprintf("%T", e) {
	case "*gojq.tooManyVariableValuesError":
		return "toomany"
	case "*gojq.expectedVariableError":
		msg := e.Error()
		if i := strings.LastIndex(msg, "$"); i >= 0 {
			return "(expected " + Hexs([]byte(msg[i:])) + ")"
		}
		return "other"
	}
	if compileErr != "" && e.Error() == compileErr {
		return "(cerr " + Hexs([]byte(compileErr)) + ")"
	}
	return "other"
}

// drive calls Next until (nil,false) / ctx, then 3 more times
func drive(c *Ctx, what string, it gojq.Iter, cc *countCtx, compileErr string) string {
	var b strings.Builder
	b.WriteString("(obs")
	extra := -1
	for calls := 0; calls < 12; calls++ {
		var r string
		func() {
			defer func() {
				if p := recover(); p != nil {
					r = "panic"
					c.Violation("panic oneshot %s: %v", what, p)
				}
			}()
			v, ok := it.Next()
			r = osRes(v, ok, compileErr)
		}()
		p := 0
		if cc != nil {
			p = cc.n
		}
		fmt.Fprintf(&b, " (%d %s)", p, r)
		if r == "panic" {
			break
		}
		if extra < 0 && (r == "done" || r == "ctx") {
			extra = extraCalls
		}
		if extra >= 0 {
			if extra == 0 {
				break
			}
			extra--
		}
	}
	b.WriteString(")")
	return b.String()
}

func runOneShot(c *Ctx) {
	r := c.Rng
	varsets := [][]string{{}, {"$a"}, {"$a", "$b"}, {"$x", "$y", "$z"}, {"$a", "$a"}, {"$v1", "$v2", "$v3", "$v4", "$v5"}}
	queries := []string{".", "1, 2", "empty", "error", "def f: f; f", "range(infinite)", ".[]", "[., 1]"}
	for i := 0; i < 12; i++ { // a few random variable lists
		n := r.Intn(8)
		var vs []string
		for j := 0; j < n; j++ {
			vs = append(vs, fmt.Sprintf("$r%d", r.Intn(5)))
		}
		varsets = append(varsets, vs)
	}
	modes := []string{"bg", "none", "0", "std"}
	for _, vs := range varsets {
		for qi, src := range queries {
			if len(vs) > 0 && qi > 3 && !(c.Tier == "thorough") {
				continue
			}
			q, err := gojq.Parse(src)
			if err != nil {
				c.Violation("oneshot: cannot parse %q", src)
				continue
			}
			code, err := gojq.Compile(q, gojq.WithVariables(vs))
			if err != nil {
				c.Violation("oneshot: cannot compile %q with %v: %v", src, vs, err)
				continue
			}
			var vh []string
			for _, v := range vs {
				vh = append(vh, Hexs([]byte(v)))
			}
			for nv := 0; nv <= len(vs)+2; nv++ {
				values := make([]any, nv)
				for j := range values {
					values[j] = j
				}
				for _, m := range modes {
					if nv == len(vs) && m != "0" && m != "std" {
						continue // right count, live context: the machine runs (main stream)
					}
					var it gojq.Iter
					var cc *countCtx
					k := m
					switch m {
					case "bg":
						it, k = code.Run([]any{1, 2}, values...), "none"
					case "none":
						cc = newCountCtx(-1)
						it = code.RunWithContext(cc, []any{1, 2}, values...)
					case "0":
						cc = newCountCtx(0)
						it = code.RunWithContext(cc, []any{1, 2}, values...)
					default:
						ctx, cancel := context.WithCancel(context.Background())
						cancel()
						it, k = code.RunWithContext(ctx, []any{1, 2}, values...), "0"
					}
					what := fmt.Sprintf("code vars=%v nvalues=%d ctx=%s prog=%s", vs, nv, m, src)
					obs := drive(c, what, it, cc, "")
					if m == "std" {
						if nv == len(vs) {
							continue // poll counts of a standard context are not observable: covered by the stdctx block
						}
					}
					if nv != len(vs) && strings.Contains(obs, "ctx") {
						c.Violation("oneshot-ctx %s: a wrong variable count returned the context's error", what)
					}
					c.Emit("(oneshot code (vars%s) %d %s %s)", prefixAll(vh), nv, k, obs)
					c.Count("oneshot-code:" + m)
				}
			}
		}
	}
	// Query.Run / Query.RunWithContext on queries that do not compile
	bad := []string{"nosuchfunc", "$nosuchvar", "break $x", ". as [$a] | $b", "f(1)", `include "nosuchmodule"; .`, "1 as $x | $y", "def f(g): g; f", `import "x" as x; .`,
		"$__prog_args", "reduce . as $x (0; $y)", "label $a | break $b", "input_filename", "debug(1;2;3)", "@nosuchformat"}
	for _, src := range bad {
		q, err := gojq.Parse(src)
		if err != nil {
			continue
		}
		_, cerr := gojq.Compile(q)
		if cerr == nil {
			c.Count("oneshot-query:compiles")
			continue
		}
		for _, m := range modes {
			var it gojq.Iter
			var cc *countCtx
			k := m
			switch m {
			case "bg":
				it, k = q.Run(nil), "none"
			case "none":
				cc = newCountCtx(-1)
				it = q.RunWithContext(cc, nil)
			case "0":
				cc = newCountCtx(0)
				it = q.RunWithContext(cc, nil)
			default:
				ctx, cancel := context.WithCancel(context.Background())
				cancel()
				it, k = q.RunWithContext(ctx, nil), "0"
			}
			what := fmt.Sprintf("query ctx=%s prog=%s", m, src)
			obs := drive(c, what, it, cc, cerr.Error())
			if strings.Contains(obs, "ctx") {
				c.Violation("oneshot-ctx %s: a compile error through Query.RunWithContext returned the context's error", what)
			}
			c.Emit("(oneshot query %s %s %s)", Hexs([]byte(cerr.Error())), k, obs)
			c.Count("oneshot-query:" + m)
		}
	}
}

func prefixAll(xs []string) string {
	var b strings.Builder
	for _, x := range xs {
		b.WriteByte(' ')
		b.WriteString(x)
	}
	return b.String()
}
