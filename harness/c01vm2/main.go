// C01vm harness: generates programs of fragment F (bounded-exhaustive + random), prints them as jq
// text, compiles them with the implementation and emits
//
//	(code <ast> (<instr>...))                      the implementation's instruction list (VerifDumpCode)
//	(run <ast> <input> (<output>...) <ending>)     what Parse -> Compile -> Run -> Next* did
//
// The extracted model (coq/c01vm/Run.v) judges every line.
package main

import (
	"fmt"
	"sort"
	"strings"
	. "verifharness/hlib"

	"github.com/itchyny/gojq"
)

func main() { Register("c01vm", runC01vm); Main() }

var idQ = &Q{K: "id"}

// ---- AST of fragment F ----
type Q struct {
	K       string  // id c pipe comma empty iter index if alt try arr reduce foreach label break bind var call0 binop
	A, B, C *Q      // sub-queries (meaning depends on K)
	D       *Q      // foreach extract / reduce update
	V       any     // constant / index key
	N       int     // variable or label name
	F       string  // native name (call0: error|length ; binop: add ...)
	SA, SB  *Q      // binop operands (restricted kinds: id c index iter empty call0)
	Ps      []Param // def: formal parameters
	Args    []*Q    // callf: actual parameters
	NoElse  bool    // if: written without an else clause (e.Else == nil in query.go); C is then `.`
	Ents    []Ent   // obj: the entries of an object construction
	Pat     *Pat    // bindp: the destructuring pattern (A = source, B = body)
	Parts   []SPart // str: an interpolated string "lit\(q)lit..." (F = "" | "@text" | "@json")
}

// a part of an interpolated string: a literal segment or an interpolated query
type SPart struct {
	Lit string
	Q   *Q
}

// the formats whose natives are modelled (formatToFunc): the call0 name of the native, and back
var formatFn = map[string]string{"@html": "tohtml", "@uri": "touri", "@csv": "tocsv", "@tsv": "totsv", "@sh": "tosh", "@base64": "tobase64"}
var fnFormat = map[string]string{"tohtml": "@html", "touri": "@uri", "tocsv": "@csv", "totsv": "@tsv", "tosh": "@sh", "tobase64": "@base64"}
var formatNames = []string{"@html", "@uri", "@csv", "@tsv", "@sh", "@base64"}

// compileString: "a\(q)b" is "a" + (q | tostring) + "b" (left-nested +; tojson with @json)
func (q *Q) strDesugar() *Q {
	f := "tostring"
	if q.F == "@json" {
		f = "tojson"
	} else if g, ok := formatFn[q.F]; ok {
		f = g // @html "..\(q).." applies _tohtml to every interpolated value (compileFormat -> compileString(str, f))
	}
	var t *Q
	for _, p := range q.Parts {
		var e *Q
		if p.Q == nil {
			e = &Q{K: "c", V: p.Lit}
		} else {
			e = &Q{K: "pipe", A: p.Q, B: &Q{K: "call0", F: f}}
		}
		if t == nil {
			t = e
		} else {
			t = &Q{K: "binop", F: "add", SA: t, SB: e}
		}
	}
	return t
}

// a destructuring pattern.  K: "v" $vN ; "a" [p, ...] ; "o" {entries}
type Pat struct {
	K     string
	N     int
	Elems []*Pat
	Ents  []PEnt
}

// an entry of an object pattern.  Kind: "k" `key: P` / `"key": P` ; "var" `$vN` (= "vN": $vN) ; "kv" `$vN: P`
type PEnt struct {
	Kind string
	Key  string
	N    int
	P    *Pat
}

func (p *Pat) sexp() string {
	switch p.K {
	case "v":
		return fmt.Sprintf("(pv %d)", p.N)
	case "a":
		s := "(pa"
		for _, e := range p.Elems {
			s += " " + e.sexp()
		}
		return s + ")"
	case "o":
		s := "(po"
		for _, e := range p.Ents {
			switch e.Kind {
			case "k":
				s += " (k " + Hexs([]byte(e.Key)) + " " + e.P.sexp() + ")"
			case "var":
				s += fmt.Sprintf(" (k %s (pv %d))", Hexs([]byte(fmt.Sprintf("v%d", e.N))), e.N)
			case "kv":
				s += fmt.Sprintf(" (kv %s %d %s)", Hexs([]byte(fmt.Sprintf("v%d", e.N))), e.N, e.P.sexp())
			}
		}
		return s + ")"
	}
	panic(p.K)
}

func (p *Pat) text(r *Rng) string {
	switch p.K {
	case "v":
		return fmt.Sprintf("$v%d", p.N)
	case "a":
		xs := make([]string, len(p.Elems))
		for i, e := range p.Elems {
			xs[i] = e.text(r)
		}
		return "[" + strings.Join(xs, ", ") + "]"
	case "o":
		xs := make([]string, len(p.Ents))
		for i, e := range p.Ents {
			switch e.Kind {
			case "k":
				key := e.Key
				if r.Chance(1, 2) {
					key = `"` + key + `"`
				}
				xs[i] = key + ": " + e.P.text(r)
			case "var":
				xs[i] = fmt.Sprintf("$v%d", e.N)
			case "kv":
				xs[i] = fmt.Sprintf("$v%d: %s", e.N, e.P.text(r))
			}
		}
		return "{" + strings.Join(xs, ", ") + "}"
	}
	panic(p.K)
}

// reduce / foreach: `as $vN` (Pat == nil) or `as PATTERN` (a destructuring pattern that is not a plain variable)
var foldPatCount int // statistics: reduce / foreach nodes with a destructuring pattern printed so far

func (q *Q) foldPatSexp() string {
	if q.Pat == nil {
		return fmt.Sprint(q.N)
	}
	foldPatCount++
	return q.Pat.sexp()
}
func (q *Q) foldPatText(r *Rng) string {
	if q.Pat == nil {
		return fmt.Sprintf("$v%d", q.N)
	}
	return q.Pat.text(r)
}

// the variables a pattern binds
func (p *Pat) vars() []int {
	switch p.K {
	case "v":
		return []int{p.N}
	case "a":
		var out []int
		for _, e := range p.Elems {
			out = append(out, e.vars()...)
		}
		return out
	}
	var out []int
	for _, e := range p.Ents {
		if e.Kind != "k" {
			out = append(out, e.N)
		}
		if e.P != nil {
			out = append(out, e.P.vars()...)
		}
	}
	return out
}

// a random pattern with distinct variables (numbered from *next on); top: not a plain variable
func randPat(r *Rng, depth int, next *int, top bool) *Pat {
	fresh := func() int { n := *next; *next++; return n }
	if !top && (depth <= 0 || r.Chance(1, 2)) {
		return &Pat{K: "v", N: fresh()}
	}
	if r.Chance(1, 2) {
		p := &Pat{K: "a"}
		for i := 1 + r.Intn(3); i > 0; i-- {
			p.Elems = append(p.Elems, randPat(r, depth-1, next, false))
		}
		return p
	}
	p := &Pat{K: "o"}
	for i := 1 + r.Intn(3); i > 0; i-- {
		switch r.Intn(4) {
		case 0:
			p.Ents = append(p.Ents, PEnt{Kind: "var", N: fresh()})
		case 1:
			n := fresh()
			p.Ents = append(p.Ents, PEnt{Kind: "kv", N: n, P: randPat(r, depth-1, next, false)})
		default:
			p.Ents = append(p.Ents, PEnt{Kind: "k", Key: objKeys[r.Intn(len(objKeys))], P: randPat(r, depth-1, next, false)})
		}
	}
	return p
}

// sources worth destructuring
var destructPool = []any{[]any{1, 2}, []any{[]any{1, 2}, map[string]any{"a": 3}}, map[string]any{"a": []any{1, 2}, "b": map[string]any{"a": nil}},
	map[string]any{"a": 1, "v10": 2, "v11": []any{3}}, []any{nil, map[string]any{"b": 1}}, "a", 1, nil}

// an entry of {...}.  Kind: "k" `a: V` / `"a": V` ; "short" `a` / `"a"` (= a: .a) ; "var" `$vN` (= "vN": $vN) ;
// "q" `(KQ): V` ; "varkey" `$vN: V` (the key is the VALUE of $vN, compiled like ($vN): V)
type Ent struct {
	Kind string
	Key  string
	N    int
	KQ   *Q
	V    *Q
}

func (e Ent) sexp() string {
	switch e.Kind {
	case "k":
		return "(k " + Hexs([]byte(e.Key)) + " " + e.V.Sexp() + ")"
	case "short":
		return "(k " + Hexs([]byte(e.Key)) + " (index id " + valSexp(e.Key) + "))"
	case "var":
		return fmt.Sprintf("(k %s (var %d))", Hexs([]byte(fmt.Sprintf("v%d", e.N))), e.N)
	case "q":
		return "(q " + e.KQ.Sexp() + " " + e.V.Sexp() + ")"
	case "varkey":
		return fmt.Sprintf("(q (var %d) %s)", e.N, e.V.Sexp())
	case "strkey": // "a\(q)": V  -- compileString(key) is the desugared concatenation, compiled like a key query
		return "(q " + e.KQ.Sexp() + " " + e.V.Sexp() + ")"
	}
	panic(e.Kind)
}

func (e Ent) text(r *Rng) string {
	key := e.Key
	if e.Kind == "k" || e.Kind == "short" {
		if r.Chance(1, 2) {
			key = `"` + key + `"`
		}
	}
	switch e.Kind {
	case "k":
		return key + ": " + e.V.P(r)
	case "short":
		return key
	case "var":
		return fmt.Sprintf("$v%d", e.N)
	case "q":
		return "(" + e.KQ.T(r) + "): " + e.V.P(r)
	case "varkey":
		return fmt.Sprintf("$v%d: %s", e.N, e.V.P(r))
	case "strkey":
		return e.KQ.T(r) + ": " + e.V.P(r)
	}
	panic(e.Kind)
}

// value parameters (def f($x): ...) are generated when this switch is on (covered by Compile.comp and the theorem)
var genPV = true

// a formal parameter: a filter (def f(g): named f<N>) or a value (def f($x): named $v<N>)
type Param struct {
	Val bool
	N   int
}

func valSexp(v any) string { return SexpVal(v) }

func valJq(v any) string {
	switch v := v.(type) {
	case nil:
		return "null"
	case bool:
		if v {
			return "true"
		}
		return "false"
	case int:
		return fmt.Sprint(v)
	case string:
		return `"` + v + `"`
	case []any:
		xs := make([]string, len(v))
		for i, x := range v {
			xs[i] = valJq(x)
		}
		return "[" + strings.Join(xs, ",") + "]"
	case map[string]any:
		keys := make([]string, 0, len(v))
		for k := range v {
			keys = append(keys, k)
		}
		sort.Strings(keys)
		xs := make([]string, len(keys))
		for i, k := range keys {
			xs[i] = `"` + k + `":` + valJq(v[k])
		}
		return "{" + strings.Join(xs, ",") + "}"
	}
	panic(v)
}

func (q *Q) Sexp() string {
	switch q.K {
	case "id", "empty":
		return q.K
	case "c":
		return "(c " + valSexp(q.V) + ")"
	case "pipe", "comma", "alt":
		return "(" + q.K + " " + q.A.Sexp() + " " + q.B.Sexp() + ")"
	case "iter", "arr":
		return "(" + q.K + " " + q.A.Sexp() + ")"
	case "index":
		return "(index " + q.A.Sexp() + " " + valSexp(q.V) + ")"
	case "if":
		if q.NoElse {
			return "(ifn " + q.A.Sexp() + " " + q.B.Sexp() + ")"
		}
		return "(if " + q.A.Sexp() + " " + q.B.Sexp() + " " + q.C.Sexp() + ")"
	case "try":
		if q.B != nil {
			return "(try " + q.A.Sexp() + " " + q.B.Sexp() + ")"
		}
		return "(try " + q.A.Sexp() + ")"
	case "reduce":
		return fmt.Sprintf("(reduce %s %s %s %s)", q.A.Sexp(), q.foldPatSexp(), q.B.Sexp(), q.C.Sexp())
	case "foreach":
		if q.D != nil {
			return fmt.Sprintf("(foreach %s %s %s %s %s)", q.A.Sexp(), q.foldPatSexp(), q.B.Sexp(), q.C.Sexp(), q.D.Sexp())
		}
		return fmt.Sprintf("(foreach %s %s %s %s)", q.A.Sexp(), q.foldPatSexp(), q.B.Sexp(), q.C.Sexp())
	case "label":
		return fmt.Sprintf("(label %d %s)", q.N, q.A.Sexp())
	case "break":
		return fmt.Sprintf("(break %d)", q.N)
	case "bind":
		return fmt.Sprintf("(bind %s %d %s)", q.A.Sexp(), q.N, q.B.Sexp())
	case "str":
		return q.strDesugar().Sexp()
	case "indexq":
		return "(indexq " + q.A.Sexp() + " " + q.B.Sexp() + ")"
	case "slice":
		bd := func(b *Q) string {
			if b == nil {
				return "(c null)"
			}
			return b.Sexp()
		}
		return "(slice " + q.A.Sexp() + " " + bd(q.B) + " " + bd(q.C) + ")"
	case "bindp":
		return "(bindp " + q.A.Sexp() + " " + q.Pat.sexp() + " " + q.B.Sexp() + ")"
	case "var":
		return fmt.Sprintf("(var %d)", q.N)
	case "call0":
		return "(call0 " + q.F + ")"
	case "call1": // a native with one argument: error(A)
		return "(call1 " + q.F + " " + q.A.Sexp() + ")"
	case "binop":
		return "(binop " + q.F + " " + q.SA.Sexp() + " " + q.SB.Sexp() + ")"
	case "def":
		if len(q.Ps) == 0 {
			return fmt.Sprintf("(def %d %s %s)", q.N, q.A.Sexp(), q.B.Sexp())
		}
		ps := make([]string, len(q.Ps))
		for i, p := range q.Ps {
			if p.Val {
				ps[i] = fmt.Sprintf("(pv %d)", p.N)
			} else {
				ps[i] = fmt.Sprintf("(pf %d)", p.N)
			}
		}
		return fmt.Sprintf("(defp %d (%s) %s %s)", q.N, strings.Join(ps, " "), q.A.Sexp(), q.B.Sexp())
	case "obj":
		s := "(obj"
		for _, e := range q.Ents {
			s += " " + e.sexp()
		}
		return s + ")"
	case "callf":
		if name, ok := builtinNames[q.N]; ok {
			builtinUsed[bkey(name, len(q.Args))] = true
		}
		s := fmt.Sprintf("(callf %d", q.N)
		for _, a := range q.Args {
			s += " " + a.Sexp()
		}
		return s + ")"
	}
	panic(q.K)
}

func (q *Q) sargSexp() string {
	switch q.K {
	case "id", "empty", "iter":
		return q.K
	case "c":
		return "(c " + valSexp(q.V) + ")"
	case "index":
		return "(index " + valSexp(q.V) + ")"
	case "call0":
		return "(call0 " + q.F + ")"
	}
	panic(q.K)
}

func keyJq(v any) string {
	if s, ok := v.(string); ok {
		return `["` + s + `"]`
	}
	if m, ok := v.(map[string]any); ok { // a slice with literal / absent bounds: the key {"start": s, "end": e}
		b := func(x any) string {
			if x == nil {
				return ""
			}
			return fmt.Sprint(x)
		}
		return "[" + b(m["start"]) + ":" + b(m["end"]) + "]"
	}
	return fmt.Sprintf("[%d]", v)
}

func (q *Q) sargJq() string {
	switch q.K {
	case "id":
		return "."
	case "empty":
		return "empty"
	case "iter":
		return ".[]"
	case "c":
		if n, ok := q.V.(int); ok && n < 0 {
			return "(" + valJq(q.V) + ")"
		}
		return valJq(q.V)
	case "index":
		return "." + keyJq(q.V)
	case "call0":
		return q.F
	}
	panic(q.K)
}

var opSym = map[string]string{"add": "+", "sub": "-", "eq": "==", "ne": "!=", "lt": "<", "le": "<=", "gt": ">", "ge": ">="}

// P prints q as a term (parenthesised unless atomic); T prints it as a query.
func (q *Q) P(r *Rng) string {
	switch q.K {
	case "id":
		return "."
	case "c":
		if n, ok := q.V.(int); ok && n < 0 {
			return "(" + valJq(q.V) + ")"
		}
		return valJq(q.V)
	case "empty", "var", "call0", "call1", "break", "arr", "callf", "obj", "str":
		return q.T(r)
	case "iter", "index", "indexq", "slice":
		if q.A.K == "id" {
			return q.T(r)
		}
	}
	return "(" + q.T(r) + ")"
}

func (q *Q) T(r *Rng) string {
	switch q.K {
	case "id":
		return "."
	case "c":
		return valJq(q.V)
	case "empty":
		return "empty"
	case "pipe":
		if q.A.K == "index" && q.A.A.K == "id" && q.B.K == "try" && q.B.B == nil && q.B.A.A != nil && q.B.A.A.K == "id" &&
			(q.B.A.K == "iter" || q.B.A.K == "index") && r.Chance(1, 2) {
			// .a.b?  is  .a | try .b  (compileTermSuffix peels the last suffix off the term)
			suffix := "[]"
			if q.B.A.K == "index" {
				suffix = keyJq(q.B.A.V)
			}
			return "." + keyJq(q.A.V) + suffix + "?"
		}
		return q.A.P(r) + " | " + q.B.P(r)
	case "comma":
		return q.A.P(r) + " , " + q.B.P(r)
	case "alt":
		return q.A.P(r) + " // " + q.B.P(r)
	case "iter":
		if q.A.K == "id" {
			return ".[]"
		}
		return "(" + q.A.T(r) + ")[]"
	case "index":
		if q.A.K == "id" {
			if s, ok := q.V.(string); ok && r.Chance(1, 2) {
				return "." + s
			}
			return "." + keyJq(q.V)
		}
		return "(" + q.A.T(r) + ")" + keyJq(q.V)
	case "indexq":
		t := "."
		if q.A.K != "id" {
			t = "(" + q.A.T(r) + ")"
		}
		if q.B.K == "str" && q.B.F == "" && r.Chance(1, 2) { // ."a\(q)"  (Index.Str with interpolation)
			if t == "." {
				return "." + q.B.T(r)
			}
			return t + "." + q.B.T(r)
		}
		return t + "[" + q.B.T(r) + "]"
	case "slice":
		t := "."
		if q.A.K != "id" {
			t = "(" + q.A.T(r) + ")"
		}
		bd := func(b *Q) string {
			if b == nil {
				return ""
			}
			return b.P(r)
		}
		return t + "[" + bd(q.B) + ":" + bd(q.C) + "]"
	case "if":
		s := "if " + q.A.P(r) + " then " + q.B.P(r)
		e, noelse := q.C, q.NoElse
		for !noelse && e.K == "if" && r.Chance(1, 2) {
			s += " elif " + e.A.P(r) + " then " + e.B.P(r)
			e, noelse = e.C, e.NoElse
		}
		if noelse { // no else clause (also at the end of an elif chain): the value passes through
			return s + " end"
		}
		return s + " else " + e.P(r) + " end"
	case "try":
		if q.B != nil {
			return "try " + q.A.P(r) + " catch " + q.B.P(r)
		}
		// the optional suffix on every term form: X? is try X (compileTermSuffix); terms are written without
		// parentheses ([q]?, {..}?, $v?, "a\(q)"?, f(a)?, .a?, .[]?, .[a:b]?, reduce ..?, foreach ..?, if .. end?)
		switch r.Intn(3) {
		case 0:
			return "(" + q.A.T(r) + ")?"
		case 1:
			switch q.A.K {
			case "reduce", "foreach", "if":
				return q.A.T(r) + "?"
			}
			return q.A.P(r) + "?"
		}
		return "try " + q.A.P(r)
	case "arr":
		return "[" + q.A.T(r) + "]"
	case "reduce":
		return fmt.Sprintf("reduce %s as %s (%s; %s)", q.A.P(r), q.foldPatText(r), q.B.T(r), q.C.T(r))
	case "foreach":
		if q.D != nil {
			return fmt.Sprintf("foreach %s as %s (%s; %s; %s)", q.A.P(r), q.foldPatText(r), q.B.T(r), q.C.T(r), q.D.T(r))
		}
		return fmt.Sprintf("foreach %s as %s (%s; %s)", q.A.P(r), q.foldPatText(r), q.B.T(r), q.C.T(r))
	case "label":
		return fmt.Sprintf("label $l%d | %s", q.N, q.A.P(r))
	case "break":
		return fmt.Sprintf("break $l%d", q.N)
	case "bind":
		return fmt.Sprintf("%s as $v%d | %s", q.A.P(r), q.N, q.B.P(r))
	case "str":
		t := q.F
		if t != "" {
			t += " "
		}
		t += `"`
		for _, p := range q.Parts {
			if p.Q == nil {
				t += p.Lit
			} else {
				t += `\(` + p.Q.T(r) + ")"
			}
		}
		return t + `"`
	case "bindp":
		return q.A.P(r) + " as " + q.Pat.text(r) + " | " + q.B.P(r)
	case "var":
		return fmt.Sprintf("$v%d", q.N)
	case "call0":
		if f, ok := fnFormat[q.F]; ok {
			return f // a format without a string: compileFormat(format, nil) = the call of its native
		}
		return q.F
	case "call1":
		return q.F + "(" + q.A.T(r) + ")"
	case "binop":
		return q.SA.P(r) + " " + opSym[q.F] + " " + q.SB.P(r)
	case "def":
		if len(q.Ps) == 0 {
			return fmt.Sprintf("def %s: %s; %s", fname(q.N), q.A.T(r), q.B.T(r))
		}
		ps := make([]string, len(q.Ps))
		for i, p := range q.Ps {
			if p.Val {
				ps[i] = fmt.Sprintf("$v%d", p.N)
			} else {
				ps[i] = fname(p.N)
			}
		}
		return fmt.Sprintf("def %s(%s): %s; %s", fname(q.N), strings.Join(ps, "; "), q.A.T(r), q.B.T(r))
	case "obj":
		es := make([]string, len(q.Ents))
		for i, e := range q.Ents {
			es[i] = e.text(r)
		}
		return "{" + strings.Join(es, ", ") + "}"
	case "callf":
		if len(q.Args) == 0 {
			if builtinNames[q.N] == "recurse" && r.Chance(1, 2) {
				return ".." // `..` is the call recurse/0 (parser.go.y)
			}
			return fname(q.N)
		}
		as := make([]string, len(q.Args))
		for i, a := range q.Args {
			as[i] = a.T(r)
		}
		return fmt.Sprintf("%s(%s)", fname(q.N), strings.Join(as, "; "))
	}
	panic(q.K)
}

// msgfree: no construct that can raise an error whose message text would become data in a handler
func (q *Q) msgfree() bool {
	if q == nil {
		return true
	}
	switch q.K {
	case "iter", "index", "binop", "bindp", "str", "indexq", "slice":
		return false
	case "call0":
		return q.F == "error"
	case "reduce", "foreach":
		if q.Pat != nil { // a source value the pattern does not match raises an error with a message
			return false
		}
	case "callf":
		return false
	case "obj":
		for _, e := range q.Ents {
			if e.Kind == "q" || e.Kind == "varkey" || e.Kind == "short" || e.Kind == "strkey" || !e.V.msgfree() {
				return false
			}
		}
		return true
	}
	for _, a := range q.Args {
		if !a.msgfree() {
			return false
		}
	}
	return q.A.msgfree() && q.B.msgfree() && q.C.msgfree() && q.D.msgfree() && q.SA.msgfree() && q.SB.msgfree()
}

// ---- generation ----
type fsig struct{ id, argc int }
type scope struct {
	vars, lbls []int
	funcs      []fsig
}

func (s scope) withVar(n int) scope {
	return scope{append(append([]int{}, s.vars...), n), s.lbls, s.funcs}
}
func (s scope) withLbl(n int) scope {
	return scope{s.vars, append(append([]int{}, s.lbls...), n), s.funcs}
}
func (s scope) withFunc(n, argc int) scope {
	return scope{s.vars, s.lbls, append(append([]fsig{}, s.funcs...), fsig{n, argc})}
}

// the scope of a function body or of a closure passed to a user-defined function: the variables and functions
// visible there, no label (the model excludes a break out of a function body or such a closure)
func (s scope) body() scope { return scope{s.vars, nil, s.funcs} }

var constPool = []any{nil, true, false, 0, 1, 2, -1, "a", "b", []any{}, map[string]any{},
	[]any{1, 2}, []any{nil, 3}, []any{[]any{1}, "a"}, map[string]any{"a": 1}, map[string]any{"a": []any{1, 2}, "b": nil}}
var simpleConsts = []any{nil, true, false, 0, 1, 2, -1, "a", []any{}, map[string]any{}}
var keyPool = []any{0, 1, -1, "a", "b"}
var binops = []string{"add", "sub", "eq", "ne", "lt", "le", "gt", "ge"}

func leaves(s scope, small bool) []*Q {
	var out []*Q
	out = append(out, &Q{K: "id"}, &Q{K: "empty"}, &Q{K: "call0", F: "error"})
	cs := constPool
	if small {
		cs = []any{nil, 1, []any{1, 2}}
	}
	for _, c := range cs {
		out = append(out, &Q{K: "c", V: c})
	}
	for _, v := range s.vars {
		out = append(out, &Q{K: "var", N: v})
	}
	for _, l := range s.lbls {
		out = append(out, &Q{K: "break", N: l})
	}
	for _, f := range s.funcs {
		if f.argc == 0 {
			out = append(out, &Q{K: "callf", N: f.id})
		}
	}
	if small {
		out = append(out, &Q{K: "binop", F: "add", SA: &Q{K: "id"}, SB: &Q{K: "c", V: 1}},
			&Q{K: "binop", F: "sub", SA: &Q{K: "iter", A: idQ}, SB: &Q{K: "index", A: idQ, V: 0}},
			&Q{K: "binop", F: "lt", SA: &Q{K: "index", A: idQ, V: 0}, SB: &Q{K: "iter", A: idQ}})
	} else {
		out = append(out, &Q{K: "call0", F: "length"}, &Q{K: "call0", F: "keys"}, &Q{K: "call0", F: "type"},
			&Q{K: "call0", F: []string{"tohtml", "touri", "tocsv", "totsv", "tosh", "tobase64"}[len(s.vars)%6]})
	}
	return out
}

func randSarg(r *Rng) *Q {
	switch r.Intn(8) {
	case 0, 1:
		return &Q{K: "id"}
	case 2, 3:
		return &Q{K: "c", V: simpleConsts[r.Intn(len(simpleConsts))]}
	case 4:
		return &Q{K: "index", A: idQ, V: keyPool[r.Intn(len(keyPool))]}
	case 5:
		return &Q{K: "iter", A: idQ}
	case 6:
		if r.Chance(1, 2) {
			return &Q{K: "empty"}
		}
		return &Q{K: "call0", F: "length"}
	default:
		if r.Chance(1, 3) {
			return &Q{K: "call0", F: "error"}
		}
		return &Q{K: "index", A: idQ, V: keyPool[r.Intn(len(keyPool))]}
	}
}

// handler for a body that may raise message errors: its input must not be observable
func guardHandler(body, h *Q, s scope, r *Rng) *Q {
	if h == nil || body.msgfree() {
		return h
	}
	var c *Q
	if len(s.vars) > 0 && r.Chance(1, 2) {
		c = &Q{K: "var", N: s.vars[r.Intn(len(s.vars))]}
	} else {
		c = &Q{K: "c", V: constPool[r.Intn(len(constPool))]}
	}
	return &Q{K: "pipe", A: c, B: h}
}

// all ASTs with exactly n nodes (small leaf set)
func enum(n int, s scope, r *Rng) []*Q {
	if n == 1 {
		return leaves(s, true)
	}
	var out []*Q
	for _, a := range enum(n-1, s, r) {
		out = append(out, &Q{K: "iter", A: a}, &Q{K: "index", A: a, V: 0}, &Q{K: "index", A: a, V: "a"},
			&Q{K: "try", A: a}, &Q{K: "arr", A: a})
		out = append(out, &Q{K: "str", Parts: []SPart{{Lit: "a"}, {Q: a}}})
		out = append(out, &Q{K: "index", A: a, V: map[string]any{"start": 1, "end": nil}})
		if !(a.K == "c" && a.V == nil) && !litKey(a) {
			out = append(out, &Q{K: "slice", A: &Q{K: "id"}, B: nil, C: a})
		}
		out = append(out, &Q{K: "obj", Ents: []Ent{{Kind: "k", Key: "a", V: a}}},
			&Q{K: "obj", Ents: []Ent{{Kind: "q", KQ: a, V: &Q{K: "c", V: 1}}, {Kind: "short", Key: "b"}}})
	}
	for _, a := range enum(n-1, s.withLbl(0), r) {
		out = append(out, &Q{K: "label", N: 0, A: a})
	}
	for i := 1; i <= n-2; i++ {
		as := enum(i, s, r)
		bs := enum(n-1-i, s, r)
		for _, a := range as {
			for _, b := range bs {
				out = append(out, &Q{K: "pipe", A: a, B: b}, &Q{K: "comma", A: a, B: b}, &Q{K: "alt", A: a, B: b})
				out = append(out, &Q{K: "try", A: a, B: guardHandler(a, b, s, r)})
				out = append(out, &Q{K: "binop", F: binops[(len(out)/7)%len(binops)], SA: a, SB: b})
				if (len(out)/5)%4 == 2 {
					if !litKey(b) {
						out = append(out, &Q{K: "indexq", A: a, B: b})
					}
					if !(litKey(a) && litKey(b)) && !(a.K == "c" && a.V == nil) && !(b.K == "c" && b.V == nil) {
						out = append(out, &Q{K: "slice", A: &Q{K: "id"}, B: a, C: b})
					}
				}
				if (len(out)/5)%4 == 3 {
					out = append(out, &Q{K: "str", F: []string{"", "@json"}[(len(out)/20)%2], Parts: []SPart{{Q: a}, {Lit: "b"}, {Q: b}}})
				}
				if (len(out)/5)%3 == 0 {
					out = append(out, &Q{K: "obj", Ents: []Ent{{Kind: "q", KQ: a, V: b}}})
				} else if (len(out)/5)%3 == 1 {
					out = append(out, &Q{K: "obj", Ents: []Ent{{Kind: "k", Key: "a", V: a}, {Kind: "k", Key: "b", V: b}}})
				}
			}
			for _, b := range enum(n-1-i, s.withVar(0), r) {
				out = append(out, &Q{K: "bind", A: a, N: 0, B: b})
				var pat *Pat
				switch (len(out) / 3) % 4 {
				case 0:
					pat = &Pat{K: "a", Elems: []*Pat{{K: "v", N: 0}}}
				case 1:
					pat = &Pat{K: "o", Ents: []PEnt{{Kind: "k", Key: "a", P: &Pat{K: "v", N: 0}}}}
				case 2:
					pat = &Pat{K: "a", Elems: []*Pat{{K: "v", N: 1}, {K: "a", Elems: []*Pat{{K: "v", N: 0}}}}}
				default:
					pat = &Pat{K: "o", Ents: []PEnt{{Kind: "kv", N: 0, P: &Pat{K: "a", Elems: []*Pat{{K: "v", N: 1}}}}}}
				}
				out = append(out, &Q{K: "bindp", A: a, Pat: pat, B: b})
			}
		}
	}
	for i := 1; i <= n-3; i++ {
		for j := 1; i+j <= n-2; j++ {
			k := n - 1 - i - j
			as, bs, cs := enum(i, s, r), enum(j, s, r), enum(k, s, r)
			cvs := enum(k, s.withVar(0), r)
			for _, a := range as {
				for _, b := range bs {
					for _, c := range cs {
						out = append(out, &Q{K: "if", A: a, B: b, C: c})
						if c.K == "id" {
							out = append(out, &Q{K: "if", A: a, B: b, C: c, NoElse: true})
						}
					}
					for _, c := range cvs {
						out = append(out, &Q{K: "reduce", A: a, N: 0, B: b, C: c}, &Q{K: "foreach", A: a, N: 0, B: b, C: c})
						// destructuring patterns in reduce / foreach (a failing pattern raises inside the fold)
						switch (len(out) / 2) % 6 {
						case 0:
							out = append(out, &Q{K: "reduce", A: a, Pat: &Pat{K: "a", Elems: []*Pat{{K: "v", N: 0}}}, B: b, C: c})
						case 2:
							out = append(out, &Q{K: "foreach", A: a, Pat: &Pat{K: "o", Ents: []PEnt{{Kind: "k", Key: "a", P: &Pat{K: "v", N: 0}}}}, B: b, C: c})
						case 4:
							out = append(out, &Q{K: "foreach", A: a, Pat: &Pat{K: "a", Elems: []*Pat{{K: "v", N: 1}, {K: "v", N: 0}}}, B: b, C: c, D: &Q{K: "var", N: 1}})
						}
					}
				}
			}
		}
	}
	return out
}

// shapes near the precondition of compileArray's constant folding: commas and pipes of constants and identities
func randCP(r *Rng, depth int) *Q {
	if depth <= 0 || r.Chance(1, 3) {
		switch r.Intn(6) {
		case 0:
			return &Q{K: "id"}
		case 1:
			return &Q{K: "arr", A: randCP(r, depth-1)}
		default:
			return &Q{K: "c", V: simpleConsts[r.Intn(len(simpleConsts))]}
		}
	}
	if r.Chance(2, 3) {
		return &Q{K: "comma", A: randCP(r, depth-1), B: randCP(r, depth-1)}
	}
	return &Q{K: "pipe", A: randCP(r, depth-1), B: randCP(r, depth-1)}
}

// a left-nested comma of constants (which compileArray folds) with one or two near-miss edits that keep the
// opcode shape (fork^l (const jump)^(l-1) const) or almost keep it
func nearFold(r *Rng) *Q {
	n := 1 + r.Intn(4)
	var t *Q
	for i := 0; i < n; i++ {
		c := &Q{K: "c", V: simpleConsts[r.Intn(len(simpleConsts))]}
		if t == nil {
			t = c
		} else {
			t = &Q{K: "comma", A: t, B: c}
		}
	}
	var edit func(q *Q) *Q
	edit = func(q *Q) *Q {
		switch q.K {
		case "comma":
			switch r.Intn(5) {
			case 0: // (A, .) | B : same opcodes as A, B but different targets
				return &Q{K: "pipe", A: &Q{K: "comma", A: q.A, B: &Q{K: "id"}}, B: q.B}
			case 1:
				return &Q{K: "comma", A: edit(q.A), B: q.B}
			case 2:
				return &Q{K: "comma", A: q.A, B: edit(q.B)}
			case 3: // right nesting
				if q.A.K == "comma" {
					return &Q{K: "comma", A: q.A.A, B: &Q{K: "comma", A: q.A.B, B: q.B}}
				}
				return &Q{K: "pipe", A: q, B: &Q{K: "id"}}
			default:
				return &Q{K: "pipe", A: &Q{K: "id"}, B: q}
			}
		case "c":
			switch r.Intn(4) {
			case 0:
				return &Q{K: "pipe", A: q, B: &Q{K: "id"}}
			case 1:
				return &Q{K: "id"}
			case 2:
				return &Q{K: "arr", A: q}
			default:
				return &Q{K: "pipe", A: &Q{K: "comma", A: q, B: &Q{K: "id"}}, B: &Q{K: "c", V: simpleConsts[r.Intn(len(simpleConsts))]}}
			}
		}
		return q
	}
	for k := r.Intn(3); k > 0; k-- {
		t = edit(t)
	}
	return &Q{K: "arr", A: t}
}

// reduce / foreach with a destructuring pattern: a source (often yielding values of the shapes the patterns select
// from), the pattern (distinct variables) and the scope of the update / extract
func randFoldPat(r *Rng, budget int, s scope) (*Q, *Pat, scope) {
	next := []int{0, 10}[r.Intn(2)]
	pat := randPat(r, 2, &next, true)
	bs := s
	for _, v := range pat.vars() {
		bs = bs.withVar(v)
	}
	pool := func() any { return destructPool[r.Intn(len(destructPool))] }
	var src *Q
	switch r.Intn(5) {
	case 0:
		src = &Q{K: "c", V: pool()}
	case 1:
		src = &Q{K: "comma", A: &Q{K: "c", V: pool()}, B: randQ(r, budget, s)}
	case 2:
		src = &Q{K: "iter", A: &Q{K: "c", V: []any{pool(), pool()}}}
	case 3:
		src = &Q{K: "comma", A: &Q{K: "c", V: pool()}, B: &Q{K: "c", V: pool()}}
	default:
		src = randQ(r, budget, s)
	}
	return src, pat, bs
}

func randQ(r *Rng, budget int, s scope) *Q {
	if budget <= 1 || r.Chance(1, 6) {
		ls := leaves(s, false)
		if r.Chance(1, 5) {
			return &Q{K: "binop", F: binops[r.Intn(len(binops))], SA: randSarg(r), SB: randSarg(r)}
		}
		return ls[r.Intn(len(ls))]
	}
	b := budget - 1
	split := func() (int, int) { x := 1 + r.Intn(max(1, b-1)); return x, max(1, b-x) }
	if len(s.funcs) < 4 && r.Chance(1, 8) {
		// a non-recursive definition: the body sees the earlier functions, the variables and its parameters, not itself
		x, y := split()
		n := len(s.funcs)
		var ps []Param
		bs := s.body()
		if r.Chance(1, 2) {
			for i := 1 + r.Intn(2); i > 0; i-- {
				if genPV && r.Chance(1, 3) {
					p := Param{true, 5 + len(ps)}
					ps = append(ps, p)
					bs = bs.withVar(p.N)
				} else {
					p := Param{false, 20 + 3*n + len(ps)}
					ps = append(ps, p)
					bs = bs.withFunc(p.N, 0)
				}
			}
		}
		return &Q{K: "def", N: n, Ps: ps, A: randQ(r, x, bs), B: randQ(r, y, s.withFunc(n, len(ps)))}
	}
	if r.Chance(1, 6) {
		var cands []fsig
		for _, f := range s.funcs {
			if f.argc > 0 {
				cands = append(cands, f)
			}
		}
		if len(cands) > 0 {
			f := cands[r.Intn(len(cands))]
			q := &Q{K: "callf", N: f.id}
			for i := 0; i < f.argc; i++ {
				q.Args = append(q.Args, randQ(r, 1+r.Intn(max(1, b/f.argc)), s.body()))
			}
			return q
		}
	}
	if r.Chance(1, 25) {
		// error(a): a native with one argument; the payload is the output of a (a ValueError, compared exactly)
		return &Q{K: "call1", F: "error", A: randQ(r, max(1, b-1), s)}
	}
	if r.Chance(1, 9) {
		return randObj(r, b, s)
	}
	if r.Chance(1, 14) {
		return randStr(r, b, s)
	}
	if r.Chance(1, 10) {
		return randIndexing(r, b, s)
	}
	if r.Chance(1, 9) {
		x, y := split()
		next := []int{0, 10}[r.Intn(2)] // from 0: the pattern shadows variables of enclosing bindings (fresh slots)
		pat := randPat(r, 2, &next, true)
		bs := s
		for _, v := range pat.vars() {
			bs = bs.withVar(v)
		}
		var src *Q
		switch r.Intn(4) {
		case 0:
			src = &Q{K: "c", V: destructPool[r.Intn(len(destructPool))]}
		case 1:
			src = &Q{K: "comma", A: &Q{K: "c", V: destructPool[r.Intn(len(destructPool))]}, B: randQ(r, x, s)}
		default:
			src = randQ(r, x, s)
		}
		return &Q{K: "bindp", A: src, Pat: pat, B: randQ(r, y, bs)}
	}
	switch r.Intn(20) {
	case 17, 18, 19:
		x, y := split()
		var a, bq *Q
		if r.Chance(1, 3) {
			a = randSarg(r)
		} else {
			a = randQ(r, x, s)
		}
		if r.Chance(1, 3) {
			bq = randSarg(r)
		} else {
			bq = randQ(r, y, s)
		}
		return &Q{K: "binop", F: binops[r.Intn(len(binops))], SA: a, SB: bq}
	case 0, 1:
		x, y := split()
		if r.Chance(1, 8) {
			var tb *Q
			if r.Chance(1, 2) {
				tb = &Q{K: "iter", A: idQ}
			} else {
				tb = &Q{K: "index", A: idQ, V: keyPool[r.Intn(len(keyPool))]}
			}
			return &Q{K: "pipe", A: &Q{K: "index", A: idQ, V: keyPool[r.Intn(len(keyPool))]}, B: &Q{K: "try", A: tb}}
		}
		return &Q{K: "pipe", A: randQ(r, x, s), B: randQ(r, y, s)}
	case 2, 3:
		x, y := split()
		return &Q{K: "comma", A: randQ(r, x, s), B: randQ(r, y, s)}
	case 4:
		return &Q{K: "iter", A: randQ(r, b, s)}
	case 5:
		return &Q{K: "index", A: randQ(r, b, s), V: keyPool[r.Intn(len(keyPool))]}
	case 6:
		x, y := split()
		y1 := 1 + r.Intn(max(1, y))
		if r.Chance(1, 4) {
			return &Q{K: "if", A: randQ(r, x, s), B: randQ(r, y, s), C: &Q{K: "id"}, NoElse: true}
		}
		return &Q{K: "if", A: randQ(r, x, s), B: randQ(r, y1, s), C: randQ(r, max(1, y-y1), s)}
	case 7:
		x, y := split()
		return &Q{K: "alt", A: randQ(r, x, s), B: randQ(r, y, s)}
	case 8, 9:
		x, y := split()
		a := randQ(r, x, s)
		if r.Chance(1, 3) {
			return &Q{K: "try", A: randQ(r, b, s)}
		}
		return &Q{K: "try", A: a, B: guardHandler(a, randQ(r, y, s), s, r)}
	case 10:
		return &Q{K: "arr", A: randQ(r, b, s)}
	case 11:
		x, y := split()
		y1 := 1 + r.Intn(max(1, y))
		n := r.Intn(2)
		if r.Chance(1, 3) {
			src, pat, bs := randFoldPat(r, x, s)
			return &Q{K: "reduce", A: src, Pat: pat, B: randQ(r, y1, s), C: randQ(r, max(1, y-y1), bs)}
		}
		return &Q{K: "reduce", A: randQ(r, x, s), N: n, B: randQ(r, y1, s), C: randQ(r, max(1, y-y1), s.withVar(n))}
	case 12:
		x, y := split()
		y1 := 1 + r.Intn(max(1, y))
		n := r.Intn(2)
		if r.Chance(1, 3) {
			src, pat, bs := randFoldPat(r, x, s)
			q := &Q{K: "foreach", A: src, Pat: pat, B: randQ(r, y1, s), C: randQ(r, max(1, y-y1), bs)}
			if r.Chance(1, 2) {
				q.D = randQ(r, 1+r.Intn(3), bs)
			}
			return q
		}
		q := &Q{K: "foreach", A: randQ(r, x, s), N: n, B: randQ(r, y1, s), C: randQ(r, max(1, y-y1), s.withVar(n))}
		if r.Chance(1, 2) {
			q.D = randQ(r, 1+r.Intn(3), s.withVar(n))
		}
		return q
	case 13, 14:
		n := r.Intn(2)
		return &Q{K: "label", N: n, A: randQ(r, b, s.withLbl(n))}
	default:
		x, y := split()
		n := r.Intn(2)
		return &Q{K: "bind", A: randQ(r, x, s), N: n, B: randQ(r, y, s.withVar(n))}
	}
}

var objKeys = []string{"a", "b", "c"}

// a key query: mostly string-valued (constants, generators of strings, a variable, .[k]), sometimes arbitrary
func randKeyQ(r *Rng, budget int, s scope) *Q {
	str := func() *Q { return &Q{K: "c", V: objKeys[r.Intn(len(objKeys))]} }
	switch r.Intn(8) {
	case 0, 1:
		return str()
	case 2:
		return &Q{K: "comma", A: str(), B: str()}
	case 3:
		return &Q{K: "comma", A: str(), B: randQ(r, max(1, budget-2), s)}
	case 4:
		return &Q{K: "index", A: idQ, V: keyPool[r.Intn(len(keyPool))]}
	case 5:
		if len(s.vars) > 0 {
			return &Q{K: "var", N: s.vars[r.Intn(len(s.vars))]}
		}
		return &Q{K: "pipe", A: str(), B: &Q{K: "id"}}
	case 6:
		return &Q{K: "try", A: randQ(r, max(1, budget-1), s), B: str()}
	default:
		return randQ(r, budget, s)
	}
}

// an object construction: 1..3 entries of all the forms of compileObjectKeyVal
func randObj(r *Rng, budget int, s scope) *Q {
	n := 1 + r.Intn(3)
	q := &Q{K: "obj"}
	per := max(1, budget/(2*n))
	for i := 0; i < n; i++ {
		key := objKeys[r.Intn(len(objKeys))]
		val := func() *Q {
			if r.Chance(1, 4) {
				return &Q{K: "c", V: simpleConsts[r.Intn(len(simpleConsts))]}
			}
			return randQ(r, 1+r.Intn(per), s)
		}
		switch r.Intn(9) {
		case 0, 1, 2:
			q.Ents = append(q.Ents, Ent{Kind: "k", Key: key, V: val()})
		case 3:
			q.Ents = append(q.Ents, Ent{Kind: "short", Key: key})
		case 4:
			if len(s.vars) > 0 {
				q.Ents = append(q.Ents, Ent{Kind: "var", N: s.vars[r.Intn(len(s.vars))]})
			} else {
				q.Ents = append(q.Ents, Ent{Kind: "short", Key: key})
			}
		case 5:
			if len(s.vars) > 0 {
				q.Ents = append(q.Ents, Ent{Kind: "varkey", N: s.vars[r.Intn(len(s.vars))], V: val()})
			} else {
				q.Ents = append(q.Ents, Ent{Kind: "k", Key: key, V: val()})
			}
		case 6:
			k := randStr(r, per, s)
			k.F = ""
			q.Ents = append(q.Ents, Ent{Kind: "strkey", KQ: k, V: val()})
		default:
			q.Ents = append(q.Ents, Ent{Kind: "q", KQ: randKeyQ(r, 1+r.Intn(per), s), V: val()})
		}
	}
	return q
}

// is q printed as a literal number / string (Index.toIndexKey then makes the index a constant)?
func litKey(q *Q) bool {
	if q == nil {
		return true
	}
	if q.K != "c" {
		return false
	}
	switch q.V.(type) {
	case int, string:
		return true
	}
	return false
}

// an index / a slice bound: numbers, generators of numbers, length, a variable, .[k], sometimes anything
func randBound(r *Rng, budget int, s scope) *Q {
	num := func() *Q { return &Q{K: "c", V: []any{0, 1, 2, -1, -2, 3}[r.Intn(6)]} }
	switch r.Intn(9) {
	case 0, 1:
		return num()
	case 2:
		return &Q{K: "comma", A: num(), B: num()}
	case 3:
		return &Q{K: "call0", F: "length"}
	case 4:
		return &Q{K: "index", A: idQ, V: keyPool[r.Intn(len(keyPool))]}
	case 5:
		if len(s.vars) > 0 {
			return &Q{K: "var", N: s.vars[r.Intn(len(s.vars))]}
		}
		return &Q{K: "comma", A: num(), B: &Q{K: "c", V: "a"}}
	case 6:
		return &Q{K: "c", V: constPool[r.Intn(len(constPool))]}
	case 7:
		return &Q{K: "binop", F: "sub", SA: &Q{K: "call0", F: "length"}, SB: num()}
	default:
		// (a definition in front of a literal index is dropped by Query.toIndexKey: not generated)
		q := randQ(r, budget, s)
		if q.K == "def" {
			q = &Q{K: "pipe", A: &Q{K: "id"}, B: q}
		}
		return q
	}
}

// t[q] with a computed index, t[a:b] with computed bounds, or a slice with literal / absent bounds (a constant key)
func randIndexing(r *Rng, budget int, s scope) *Q {
	t := &Q{K: "id"}
	if r.Chance(1, 2) {
		t = randQ(r, max(1, budget/2), s)
	}
	per := max(1, budget/3)
	if r.Chance(1, 8) {
		k := randStr(r, per, s)
		k.F = ""
		return &Q{K: "indexq", A: t, B: k}
	}
	if r.Chance(1, 3) {
		idx := randBound(r, per, s)
		if litKey(idx) {
			return &Q{K: "index", A: t, V: idx.V}
		}
		return &Q{K: "indexq", A: t, B: idx}
	}
	var a, b *Q
	if r.Chance(3, 4) {
		a = randBound(r, per, s)
	}
	if a == nil || r.Chance(3, 4) {
		b = randBound(r, per, s)
	}
	if a != nil && a.K == "c" && a.V == nil {
		a = nil // an explicit null bound is never printed: (c null) stands for an absent bound
	}
	if b != nil && b.K == "c" && b.V == nil {
		b = nil
	}
	if a == nil && b == nil {
		b = &Q{K: "c", V: 1}
	}
	if litKey(a) && litKey(b) {
		var sv, ev any
		if a != nil {
			sv = a.V
		}
		if b != nil {
			ev = b.V
		}
		if _, ok := sv.(string); ok {
			sv = 0
		}
		if _, ok := ev.(string); ok {
			ev = 1
		}
		return &Q{K: "index", A: t, V: map[string]any{"start": sv, "end": ev}}
	}
	return &Q{K: "slice", A: t, B: a, C: b}
}

// an interpolated string: literal segments and 1..3 interpolated queries, optionally with @text / @json
func randStr(r *Rng, budget int, s scope) *Q {
	q := &Q{K: "str", F: []string{"", "", "@text", "@json"}[r.Intn(4)]}
	if r.Chance(1, 3) {
		q.F = formatNames[r.Intn(len(formatNames))]
	}
	n := 1 + r.Intn(3)
	lits := []string{"a", "b", "xy", " "}
	if r.Chance(1, 2) {
		q.Parts = append(q.Parts, SPart{Lit: lits[r.Intn(len(lits))]})
	}
	for i := 0; i < n; i++ {
		var e *Q
		switch r.Intn(4) {
		case 0:
			e = &Q{K: "comma", A: &Q{K: "c", V: 1}, B: &Q{K: "c", V: "s"}}
		case 1:
			e = &Q{K: "id"}
		case 2:
			// values the formats escape / join: strings with special characters, arrays of scalars
			e = &Q{K: "c", V: []any{"a<b&'c'>", []any{1, "x y", nil, true, "it's"}, []any{"a b,c", -2}, "a+b/c~", []any{[]any{1}}}[r.Intn(5)]}
		default:
			e = randQ(r, 1+r.Intn(max(1, budget/n)), s)
		}
		q.Parts = append(q.Parts, SPart{Q: e})
		if i < n-1 && r.Chance(1, 2) || i == n-1 && r.Chance(1, 2) {
			q.Parts = append(q.Parts, SPart{Lit: lits[r.Intn(len(lits))]})
		}
	}
	return q
}

// shapes near the precondition of compileObject's constant folding (every entry  push k; load v; const c)
func nearFoldObj(r *Rng) *Q {
	n := 1 + r.Intn(3)
	q := &Q{K: "obj"}
	cst := func() *Q {
		switch r.Intn(6) {
		case 0:
			return &Q{K: "arr", A: randCP(r, 2)}
		case 1:
			return &Q{K: "c", V: constPool[r.Intn(len(constPool))]}
		case 2:
			return &Q{K: "obj", Ents: []Ent{{Kind: "k", Key: "a", V: &Q{K: "c", V: 1}}}}
		default:
			return &Q{K: "c", V: simpleConsts[r.Intn(len(simpleConsts))]}
		}
	}
	for i := 0; i < n; i++ {
		q.Ents = append(q.Ents, Ent{Kind: "k", Key: objKeys[r.Intn(len(objKeys))], V: cst()})
	}
	for k := r.Intn(3); k > 0; k-- {
		i := r.Intn(n)
		e := q.Ents[i]
		if e.Kind != "k" {
			continue
		}
		switch r.Intn(8) {
		case 0:
			e.V = &Q{K: "pipe", A: e.V, B: &Q{K: "id"}}
		case 1:
			e.V = &Q{K: "pipe", A: &Q{K: "id"}, B: e.V}
		case 2:
			e.V = &Q{K: "id"} // push k; load v  (2 instructions)
		case 3:
			e.V = &Q{K: "pipe", A: e.V, B: cst()} // push k; load v; const; const
		case 4:
			e = Ent{Kind: "short", Key: e.Key}
		case 5:
			e = Ent{Kind: "q", KQ: &Q{K: "c", V: e.Key}, V: e.V} // load v; const k; load v; const c
		case 6:
			e.V = &Q{K: "comma", A: e.V, B: cst()}
		default:
			e.V = &Q{K: "pipe", A: &Q{K: "comma", A: e.V, B: &Q{K: "id"}}, B: cst()}
		}
		q.Ents[i] = e
	}
	return q
}

// terminating recursive definitions (the recursion is guarded by `. < k`, which fails for strings, arrays and
// objects and after at most k+1 increments otherwise; `. + 1` on a boolean raises)
func recProg(r *Rng) *Q {
	id := func() *Q { return &Q{K: "id"} }
	c := func(v any) *Q { return &Q{K: "c", V: v} }
	bin := func(f string, a, b *Q) *Q { return &Q{K: "binop", F: f, SA: a, SB: b} }
	pipe := func(a, b *Q) *Q { return &Q{K: "pipe", A: a, B: b} }
	k := 1 + r.Intn(3)
	call := &Q{K: "callf", N: 0}
	step := pipe(bin("add", id(), c(1)), call)
	guard := bin("lt", id(), c(k))
	var body *Q
	switch r.Intn(11) {
	case 10: // the call is followed by a pipe into a query that only defines a function: still a tail call for the scan
		body = &Q{K: "if", A: guard, B: pipe(step, &Q{K: "def", N: 3, A: c(7), B: id()}), C: id()}
	case 9: // ... or by a pipe into `.`, with the call in the left branch of a comma
		body = &Q{K: "if", A: guard, B: pipe(&Q{K: "comma", A: step, B: c(k)}, id()), C: &Q{K: "empty"}}
	case 8: // tail call in a function whose scope has no variable: optimizeTailRec turns it into a jump
		body = &Q{K: "if", A: &Q{K: "index", A: id(), V: 0}, B: pipe(&Q{K: "index", A: id(), V: 1}, call), C: id()}
	case 0: // tail call, a variable of the operator in the function scope: opcallrec
		body = &Q{K: "if", A: guard, B: step, C: id(), NoElse: r.Chance(1, 2)}
	case 1: // tail call, a variable in the function scope: opcallrec
		v := &Q{K: "var", N: 0}
		body = &Q{K: "bind", A: id(), N: 0, B: &Q{K: "if", A: bin("lt", v, c(k)), B: pipe(bin("add", v, c(1)), call), C: v}}
	case 2: // generator recursion, the call is not last
		body = &Q{K: "if", A: guard, B: &Q{K: "comma", A: step, B: id()}, C: id()}
	case 3: // the call is last after a comma
		body = &Q{K: "if", A: guard, B: &Q{K: "comma", A: id(), B: step}, C: &Q{K: "empty"}}
	case 4: // the call inside an operand closure
		body = &Q{K: "if", A: guard, B: bin("add", c(10), step), C: c(0)}
	case 5: // tail call below try: not a tail call
		body = &Q{K: "if", A: guard, B: &Q{K: "try", A: step, B: c("h")}, C: &Q{K: "call0", F: "error"}}
	case 6: // a random body around the recursion
		body = &Q{K: "if", A: guard, B: pipe(step, randQ(r, 1+r.Intn(4), scope{})), C: randQ(r, 1+r.Intn(4), scope{})}
	default: // tail call in both branches of a nested if
		body = &Q{K: "if", A: guard, B: &Q{K: "if", A: bin("lt", id(), c(1)), B: step, C: pipe(bin("add", id(), c(2)), call)}, C: id()}
	}
	var rest *Q
	switch r.Intn(4) {
	case 0:
		rest = call
	case 1:
		rest = pipe(randQ(r, 1+r.Intn(3), scope{}), call)
	case 2:
		rest = &Q{K: "arr", A: pipe(&Q{K: "comma", A: c(0), B: id()}, call)}
	default:
		rest = bin("add", call, pipe(c(1), call))
	}
	if r.Chance(1, 4) {
		// recursion through a function with a filter or a value parameter
		g := &Q{K: "callf", N: 20}
		rec := &Q{K: "callf", N: 0, Args: []*Q{g}}
		ps := []Param{{false, 20}}
		var arg *Q
		switch r.Intn(4) {
		case 0:
			body = &Q{K: "if", A: guard, B: pipe(bin("add", id(), c(1)), rec), C: g}
			arg = bin("add", id(), c(10))
		case 1:
			body = &Q{K: "if", A: guard, B: &Q{K: "comma", A: g, B: pipe(bin("add", id(), c(1)), rec)}, C: &Q{K: "empty"}}
			arg = &Q{K: "comma", A: id(), B: c("a")}
		case 2: // the argument closure of the recursive call captures a variable of the current activation
			v := &Q{K: "var", N: 0}
			rec2 := &Q{K: "callf", N: 0, Args: []*Q{&Q{K: "comma", A: g, B: v}}}
			body = &Q{K: "bind", A: id(), N: 0, B: &Q{K: "if", A: bin("lt", v, c(k)), B: pipe(bin("add", v, c(1)), rec2), C: g}}
			arg = c(0)
		default: // a value parameter (only when the model's comp covers them), else a closure over a closure
			if !genPV {
				rec4 := &Q{K: "callf", N: 0, Args: []*Q{bin("add", g, c(1))}}
				body = &Q{K: "if", A: guard, B: pipe(bin("add", id(), c(1)), rec4), C: &Q{K: "arr", A: g}}
				arg = &Q{K: "comma", A: c(0), B: id()}
				break
			}
			ps = []Param{{true, 5}}
			v := &Q{K: "var", N: 5}
			rec3 := &Q{K: "callf", N: 0, Args: []*Q{bin("add", v, c(1))}}
			body = &Q{K: "if", A: bin("lt", v, c(k)), B: &Q{K: "comma", A: v, B: rec3}, C: bin("add", id(), v)}
			arg = &Q{K: "comma", A: c(0), B: c(2)}
		}
		return &Q{K: "def", N: 0, Ps: ps, A: body, B: &Q{K: "callf", N: 0, Args: []*Q{arg}}}
	}
	q := &Q{K: "def", N: 0, A: body, B: rest}
	if r.Chance(1, 3) { // a second function that calls the first
		q = &Q{K: "def", N: 0, A: body, B: &Q{K: "def", N: 1, A: pipe(call, bin("add", id(), c(100))), B: &Q{K: "comma", A: &Q{K: "callf", N: 1}, B: rest}}}
	}
	return q
}

var inputs = []any{nil, true, 0, 1, "a", []any{}, []any{1, 2}, []any{nil, false, 3}, []any{[]any{1, 2}, []any{3}},
	map[string]any{"a": 1}, map[string]any{"a": []any{1, nil}, "b": 2}, []any{map[string]any{"a": 2}, 0}}

func instrSexp(in gojq.VerifInstr) string {
	switch in.Kind {
	case "none":
		return in.Op
	case "int":
		return fmt.Sprintf("(%s %d)", in.Op, in.N)
	case "var":
		return fmt.Sprintf("(%s %d %d)", in.Op, in.Var[0], in.Var[1])
	case "scope":
		return fmt.Sprintf("(%s %d %d %d)", in.Op, in.Scope[0], in.Scope[1], in.Scope[2])
	case "native":
		return fmt.Sprintf("(%s %s %d)", in.Op, in.Name, in.Argc)
	case "value":
		return fmt.Sprintf("(%s %s)", in.Op, SexpVal(in.V))
	}
	return "(unknown)"
}

func runOne(c *Ctx, code *gojq.Code, q *Q, in any) { runOneTag(c, "run", code, q, in) }

func runOneTag(c *Ctx, tag string, code *gojq.Code, q *Q, in any) {
	it := code.Run(in)
	var outs []string
	ending := "end"
	for n := 0; ; n++ {
		v, ok := it.Next()
		if !ok {
			break
		}
		if err, ok := v.(error); ok {
			if ve, ok := err.(gojq.ValueError); ok {
				ending = "(val " + SexpVal(ve.Value()) + ")"
			} else {
				ending = "msg"
			}
			break
		}
		outs = append(outs, SexpVal(v))
		if n > 100000 {
			ending = "toolong"
			break
		}
	}
	c.Emit("(%s %s %s (%s) %s)", tag, q.Sexp(), SexpVal(in), strings.Join(outs, " "), ending)
}

// wrappers that make a value left below the top of the stack observable (used by the focused search
// after an instruction-list mismatch: a stack-discipline fault of P shows as a wrong output of C[P])
func wrappers(q *Q) []*Q {
	id := func() *Q { return &Q{K: "id"} }
	return []*Q{
		{K: "if", A: q, B: id(), C: id()},
		{K: "bind", A: q, N: 7, B: id()},
		{K: "reduce", A: q, N: 7, B: id(), C: id()},
		{K: "foreach", A: q, N: 7, B: id(), C: id()},
		{K: "pipe", A: &Q{K: "arr", A: q}, B: &Q{K: "iter", A: id()}},
		{K: "alt", A: q, B: id()},
	}
}

var wrapOrdinals = map[int]bool{}
var ordinal int

func doProgram(c *Ctx, q *Q, r *Rng, ninputs int, seen map[string]bool) {
	src := q.T(r)
	key := q.Sexp()
	if seen[key] {
		return
	}
	seen[key] = true
	ordinal++
	if len(wrapOrdinals) > 0 {
		if !wrapOrdinals[ordinal] {
			// keep the generator's random stream identical to the original run
			for i := 0; i < ninputs && ninputs < len(inputs); i++ {
				r.Intn(len(inputs))
			}
			return
		}
		for i := 0; i < ninputs && ninputs < len(inputs); i++ {
			r.Intn(len(inputs))
		}
		rr := NewRng(uint64(ordinal))
		for _, w := range append(wrappers(q), q) {
			wsrc := w.T(rr)
			pq, err := gojq.Parse(wsrc)
			if err != nil {
				continue
			}
			code, err := gojq.Compile(pq)
			if err != nil {
				continue
			}
			for _, in := range inputs {
				runOne(c, code, w, in)
			}
		}
		return
	}
	pq, err := gojq.Parse(src)
	if err != nil {
		c.Violation("generated program does not parse: %s: %v", src, err)
		return
	}
	code, err := gojq.Compile(pq)
	if err != nil {
		c.Violation("generated program does not compile: %s: %v", src, err)
		return
	}
	ins := gojq.VerifDumpCode(code)
	xs := make([]string, len(ins))
	for i, in := range ins {
		xs[i] = instrSexp(in)
	}
	c.Emit("(code %s (%s))", key, strings.Join(xs, " "))
	c.Count("programs")
	c.Count("kind:" + q.K)
	if n0 := foldPatCount; q.Sexp() != "" && foldPatCount > n0 {
		c.Count("with:fold-pattern") // a reduce / foreach with a destructuring pattern somewhere in the program
	}
	if ninputs >= len(inputs) {
		for _, in := range inputs {
			runOne(c, code, q, in)
		}
	} else {
		for i := 0; i < ninputs; i++ {
			runOne(c, code, q, inputs[r.Intn(len(inputs))])
		}
	}
}

func runC01vm(c *Ctx) {
	seen := map[string]bool{}
	r := c.Rng
	// focused search: arguments wrap:<ordinal> select programs (by generation order) to re-run inside wrappers
	for _, a := range c.Args {
		var k int
		if _, err := fmt.Sscanf(a, "wrap:%d", &k); err == nil {
			wrapOrdinals[k] = true
		}
	}
	// explicit programs given as arguments are not supported (ASTs are regenerated from the seed)
	maxExh, sample5 := 3, 2000
	if c.Tier != "quick" {
		maxExh, sample5 = 4, 60000
	}
	for n := 1; n <= maxExh; n++ {
		for _, q := range enum(n, scope{}, r) {
			doProgram(c, q, r, len(inputs), seen)
		}
	}
	next := enum(maxExh+1, scope{}, r)
	for i := 0; i < sample5 && len(next) > 0; i++ {
		doProgram(c, next[r.Intn(len(next))], r, 3, seen)
	}
	for i := 0; i < c.N/8; i++ {
		q := &Q{K: "arr", A: randCP(r, 1+r.Intn(4))}
		if r.Chance(1, 2) {
			q = nearFold(r)
		}
		if r.Chance(1, 3) {
			q = nearFoldObj(r)
		}
		if r.Chance(1, 3) {
			q = &Q{K: "pipe", A: q, B: &Q{K: "iter", A: &Q{K: "id"}}}
		}
		doProgram(c, q, r, 2, seen)
	}
	for i := 0; i < c.N/10; i++ {
		doProgram(c, recProg(r), r, len(inputs), seen)
	}
	for i := 0; i < c.N; i++ {
		budget := 3 + r.Intn(22)
		if r.Chance(1, 10) {
			budget = 30 + r.Intn(30)
		}
		doProgram(c, randQ(r, budget, scope{}), r, 4, seen)
	}
	// programs that call builtins written in jq (builtins.go); last, so that the streams above keep their ordinals
	if len(wrapOrdinals) == 0 {
		for i := 0; i < c.N/10; i++ {
			doBuiltinProgram(c, randBuiltinProg(r), r, seen)
		}
	}
	c.Stats["programs"] = len(seen)
}
