// Builtins written in jq (builtin.jq), tied to the VM theorem: compiler.go compiles the definition of such a builtin
// on first use as an ordinary function definition (compileFunc -> compileFuncDef(fd, builtin = true) -> opcall pc), so
// "the program with the needed definitions of builtin.jq written in front of it" is a program of the fragment.
//
// For a generated program P that calls builtins (by their real names) the harness emits
//
//	(code <ast P'> ...), (run <ast P'> <input> ...)   P' = the definitions (transcribed below, alpha-renamed) ; P  -- as for any program
//	(runb <ast P'> <input> (<output>...) <ending>)     what the implementation did on P ITSELF (builtins compiled on
//	                                                   demand from builtin.jq), judged against den(P')
//
// and checks (reported as a generator violation) that P' compiles to the same instruction list as
// "<text of the definitions as parsed from /repo/builtin.jq> P": the transcription below IS builtin.jq up to the
// names of parameters / variables / labels.
package main

import (
	"fmt"
	"os"
	"path/filepath"
	"strings"
	. "verifharness/hlib"

	"github.com/itchyny/gojq"
)

const builtinBase = 1000 // function names >= builtinBase are builtins (printed by their real name)

type bdef struct {
	name  string
	arity int
	ps    []Param
	body  *Q
	deps  []string // "name/arity" of the builtins the body calls
}

var builtinIDs = map[string]int{}   // name -> numeric function name (shared by all arities of a name)
var builtinNames = map[int]string{} // numeric function name -> name
var builtinDefs []*bdef             // in an order in which every definition follows the ones it depends on
var builtinUsed = map[string]bool{} // filled by Sexp(): the builtins "name/arity" called by the printed query

func bid(name string) int {
	if id, ok := builtinIDs[name]; ok {
		return id
	}
	id := builtinBase + len(builtinIDs)
	builtinIDs[name] = id
	builtinNames[id] = name
	return id
}

// the name of function / filter parameter n in program text
func fname(n int) string {
	if s, ok := builtinNames[n]; ok {
		return s
	}
	return fmt.Sprintf("f%d", n)
}

func bcall(name string, args ...*Q) *Q { return &Q{K: "callf", N: bid(name), Args: args} }

func init() {
	id := func() *Q { return &Q{K: "id"} }
	c := func(v any) *Q { return &Q{K: "c", V: v} }
	pipe := func(a, b *Q) *Q { return &Q{K: "pipe", A: a, B: b} }
	comma := func(a, b *Q) *Q { return &Q{K: "comma", A: a, B: b} }
	bin := func(f string, a, b *Q) *Q { return &Q{K: "binop", F: f, SA: a, SB: b} }
	ite := func(a, b, e *Q) *Q { return &Q{K: "if", A: a, B: b, C: e} }
	iter := func(a *Q) *Q { return &Q{K: "iter", A: a} }
	idx := func(v any) *Q { return &Q{K: "index", A: id(), V: v} }
	// parameters, variables, labels and inner functions of the definitions: names 900.. (not used by the generators)
	f, g := func() *Q { return &Q{K: "callf", N: 900} }, func() *Q { return &Q{K: "callf", N: 901} }
	inner := func() *Q { return &Q{K: "callf", N: 905} }
	pf := func(ns ...int) []Param {
		var ps []Param
		for _, n := range ns {
			ps = append(ps, Param{N: n})
		}
		return ps
	}
	add := func(name string, ps []Param, body *Q, deps ...string) {
		bid(name)
		builtinDefs = append(builtinDefs, &bdef{name: name, arity: len(ps), ps: ps, body: body, deps: deps})
	}
	// def map(f): [.[] | f];
	add("map", pf(900), &Q{K: "arr", A: pipe(iter(id()), f())})
	// def not: if . then false else true end;
	add("not", nil, ite(id(), c(false), c(true)))
	// def select(f): if f then . else empty end;
	add("select", pf(900), ite(f(), id(), &Q{K: "empty"}))
	// def recurse(f): def r: ., (f | r); r;
	add("recurse", pf(900), &Q{K: "def", N: 905, A: comma(id(), pipe(f(), inner())), B: inner()})
	// def recurse: recurse(.[]?);
	add("recurse", nil, bcall("recurse", &Q{K: "try", A: iter(id())}), "recurse/1")
	// def recurse(f; cond): def r: ., (f | select(cond) | r); r;
	add("recurse", pf(900, 901), &Q{K: "def", N: 905, A: comma(id(), pipe(f(), pipe(bcall("select", g()), inner()))), B: inner()}, "select/1")
	// def while(cond; update): def _while: if cond then ., (update | _while) else empty end; _while;
	add("while", pf(900, 901), &Q{K: "def", N: 905, A: ite(f(), comma(id(), pipe(g(), inner())), &Q{K: "empty"}), B: inner()})
	// def until(cond; next): def _until: if cond then . else next | _until end; _until;
	add("until", pf(900, 901), &Q{K: "def", N: 905, A: ite(f(), id(), pipe(g(), inner())), B: inner()})
	// def values: select(. != null);  def nulls: select(. == null);
	add("values", nil, bcall("select", bin("ne", id(), c(nil))), "select/1")
	add("nulls", nil, bcall("select", bin("eq", id(), c(nil))), "select/1")
	// def first: .[0];  def last: .[-1];
	add("first", nil, idx(0))
	add("last", nil, idx(-1))
	// def first(g): label $out | g | ., break $out;
	add("first", pf(900), &Q{K: "label", N: 900, A: pipe(f(), comma(id(), &Q{K: "break", N: 900}))})
	// def isempty(g): label $out | (g | false, break $out), true;
	add("isempty", pf(900), &Q{K: "label", N: 900, A: comma(pipe(f(), comma(c(false), &Q{K: "break", N: 900})), c(true))})
	// def all(g; y): isempty(g | select(y | not));  def all(y): all(.[]; y);  def all: all(.);
	add("all", pf(900, 901), bcall("isempty", pipe(f(), bcall("select", pipe(g(), bcall("not"))))), "isempty/1", "select/1", "not/0")
	add("all", pf(900), bcall("all", iter(id()), f()), "all/2")
	add("all", nil, bcall("all", id()), "all/1")
	// def any(g; y): isempty(g | select(y)) | not;  def any(y): any(.[]; y);  def any: any(.);
	add("any", pf(900, 901), pipe(bcall("isempty", pipe(f(), bcall("select", g()))), bcall("not")), "isempty/1", "select/1", "not/0")
	add("any", pf(900), bcall("any", iter(id()), f()), "any/2")
	add("any", nil, bcall("any", id()), "any/1")
	// def nth($n): .[$n];
	add("nth", []Param{{Val: true, N: 900}}, &Q{K: "indexq", A: id(), B: &Q{K: "var", N: 900}})
	// def to_entries: [keys[] as $k | {key: $k, value: .[$k]}];
	add("to_entries", nil, &Q{K: "arr", A: &Q{K: "bind", A: iter(&Q{K: "call0", F: "keys"}), N: 900,
		B: &Q{K: "obj", Ents: []Ent{{Kind: "k", Key: "key", V: &Q{K: "var", N: 900}},
			{Kind: "k", Key: "value", V: &Q{K: "indexq", A: id(), B: &Q{K: "var", N: 900}}}}}}})
	// def arrays: select(type == "array"); ... objects booleans numbers strings
	for _, tn := range [][2]string{{"arrays", "array"}, {"objects", "object"}, {"booleans", "boolean"}, {"numbers", "number"}, {"strings", "string"}} {
		add(tn[0], nil, bcall("select", bin("eq", &Q{K: "call0", F: "type"}, c(tn[1]))), "select/1")
	}
	// def limit($n; g): if $n > 0 then label $out | foreach g as $item ($n; . - 1; $item, if . <= 0 then break $out else empty end)
	//                    elif $n == 0 then empty else error("limit doesn't support negative count") end;
	vn, item := func() *Q { return &Q{K: "var", N: 900} }, func() *Q { return &Q{K: "var", N: 902} }
	empty := func() *Q { return &Q{K: "empty"} }
	errc := func(msg string) *Q { return &Q{K: "call1", F: "error", A: c(msg)} }
	pvf := []Param{{Val: true, N: 900}, {N: 901}}
	add("limit", pvf, ite(bin("gt", vn(), c(0)),
		&Q{K: "label", N: 900, A: &Q{K: "foreach", A: g(), N: 902, B: vn(), C: bin("sub", id(), c(1)),
			D: comma(item(), ite(bin("le", id(), c(0)), &Q{K: "break", N: 900}, empty()))}},
		ite(bin("eq", vn(), c(0)), empty(), errc("limit doesn't support negative count"))))
	// def skip($n; g): if $n > 0 then foreach g as $item ($n; . - 1; if . < 0 then $item else empty end)
	//                   elif $n == 0 then g else error("skip doesn't support negative count") end;
	add("skip", pvf, ite(bin("gt", vn(), c(0)),
		&Q{K: "foreach", A: g(), N: 902, B: vn(), C: bin("sub", id(), c(1)), D: ite(bin("lt", id(), c(0)), item(), empty())},
		ite(bin("eq", vn(), c(0)), g(), errc("skip doesn't support negative count"))))
	// def nth($n; g): if $n >= 0 then first(skip($n; g)) else error("nth doesn't support negative index") end;
	add("nth", pvf, ite(bin("ge", vn(), c(0)), bcall("first", bcall("skip", vn(), g())), errc("nth doesn't support negative index")),
		"first/1", "skip/2")
	// def combinations: if length == 0 then [] else .[0][] as $x | [$x] + (.[1:] | combinations) end;
	add("combinations", nil, ite(bin("eq", &Q{K: "call0", F: "length"}, c(0)), c([]any{}),
		&Q{K: "bind", A: iter(idx(0)), N: 900, B: bin("add", &Q{K: "arr", A: &Q{K: "var", N: 900}},
			pipe(idx(map[string]any{"start": 1, "end": nil}), bcall("combinations")))}))
}

func bkey(name string, arity int) string { return fmt.Sprintf("%s/%d", name, arity) }

// the definitions P needs (dependencies included), in the order of builtinDefs
func neededBuiltins(used map[string]bool) []*bdef {
	need := map[string]bool{}
	var visit func(k string)
	byKey := map[string]*bdef{}
	for _, d := range builtinDefs {
		byKey[bkey(d.name, d.arity)] = d
	}
	visit = func(k string) {
		if need[k] {
			return
		}
		need[k] = true
		if d := byKey[k]; d != nil {
			for _, dep := range d.deps {
				visit(dep)
			}
		}
	}
	for k := range used {
		visit(k)
	}
	var out []*bdef
	for _, d := range builtinDefs {
		if need[bkey(d.name, d.arity)] {
			out = append(out, d)
		}
	}
	return out
}

// the definitions of /repo/builtin.jq as text (FuncDef.String() of the parsed file), by "name/arity"
var builtinSrc map[string]string

func loadBuiltinSrc() error {
	if builtinSrc != nil {
		return nil
	}
	repo := os.Getenv("VERIF_REPO")
	if repo == "" {
		repo = "/repo"
	}
	cnt, err := os.ReadFile(filepath.Join(repo, "builtin.jq"))
	if err != nil {
		return err
	}
	q, err := gojq.Parse(string(cnt) + " .")
	if err != nil {
		return err
	}
	builtinSrc = map[string]string{}
	for _, fd := range q.FuncDefs {
		builtinSrc[bkey(fd.Name, len(fd.Args))] = fd.String()
	}
	return nil
}

func dumpCode(code *gojq.Code) string {
	ins := gojq.VerifDumpCode(code)
	xs := make([]string, len(ins))
	for i, in := range ins {
		xs[i] = instrSexp(in)
	}
	return strings.Join(xs, " ")
}

func doBuiltinProgram(c *Ctx, p *Q, r *Rng, seen map[string]bool) {
	if err := loadBuiltinSrc(); err != nil {
		c.Violation("cannot read builtin.jq: %v", err)
		return
	}
	for k := range builtinUsed {
		delete(builtinUsed, k)
	}
	p.Sexp()
	used := map[string]bool{}
	for k := range builtinUsed {
		used[k] = true
	}
	if len(used) == 0 {
		return
	}
	defs := neededBuiltins(used)
	// P' = the definitions in front of P
	pp := p
	for i := len(defs) - 1; i >= 0; i-- {
		d := defs[i]
		pp = &Q{K: "def", N: bid(d.name), Ps: d.ps, A: d.body, B: pp}
	}
	key := pp.Sexp()
	if seen[key] {
		return
	}
	seen[key] = true
	ptext := p.T(r)
	mine, ref := "", ""
	for _, d := range defs {
		hd := &Q{K: "def", N: bid(d.name), Ps: d.ps, A: d.body, B: &Q{K: "id"}}
		t := hd.T(r)
		mine += strings.TrimSuffix(t, " .") + " "
		s, ok := builtinSrc[bkey(d.name, d.arity)]
		if !ok {
			c.Violation("builtin.jq has no definition %s", bkey(d.name, d.arity))
			return
		}
		ref += s + " "
	}
	compile := func(src string) *gojq.Code {
		pq, err := gojq.Parse(src)
		if err != nil {
			c.Violation("generated program does not parse: %s: %v", src, err)
			return nil
		}
		code, err := gojq.Compile(pq)
		if err != nil {
			c.Violation("generated program does not compile: %s: %v", src, err)
			return nil
		}
		return code
	}
	codeMine, codeRef, codeP := compile(mine+ptext), compile(ref+ptext), compile(ptext)
	if codeMine == nil || codeRef == nil || codeP == nil {
		return
	}
	dm := dumpCode(codeMine)
	if dr := dumpCode(codeRef); dm != dr {
		c.Violation("the transcribed builtin definitions do not compile like builtin.jq's: %s  VS  %s", mine+ptext, ref+ptext)
		return
	}
	c.Emit("(code %s (%s))", key, dm)
	c.Count("programs")
	c.Count("kind:builtins")
	for k := range used {
		c.Count("builtin:" + k)
	}
	for _, in := range inputs {
		runOneTag(c, "run", codeMine, pp, in)
		runOneTag(c, "runb", codeP, pp, in)
	}
}

// ---- programs that call builtins ----

func randBuiltinCall(r *Rng, s scope) *Q {
	id := func() *Q { return &Q{K: "id"} }
	c := func(v any) *Q { return &Q{K: "c", V: v} }
	bin := func(f string, a, b *Q) *Q { return &Q{K: "binop", F: f, SA: a, SB: b} }
	small := func() *Q { return randQ(r, 1+r.Intn(4), s.body()) }
	opt := func() *Q { return &Q{K: "try", A: &Q{K: "iter", A: id()}} }
	// a step that terminates on every input: numbers count up to 3, anything else stops (or raises)
	step := func() *Q {
		return &Q{K: "if", A: bin("lt", id(), c(3)), B: bin("add", id(), c(1)), C: &Q{K: "empty"}}
	}
	gens := func() *Q {
		switch r.Intn(4) {
		case 0:
			return opt()
		case 1:
			return &Q{K: "iter", A: id()}
		case 2:
			return bcall("recurse")
		}
		return small()
	}
	switch r.Intn(22) {
	case 20, 21:
		cnt := []*Q{c(1), c(2), c(3)}[r.Intn(3)]
		return bcall("limit", cnt, gens())
	case 0, 1:
		return bcall("map", small())
	case 2, 3:
		return bcall("select", small())
	case 4:
		return bcall("recurse")
	case 5:
		return bcall("recurse", []*Q{opt(), step(), {K: "iter", A: id()}}[r.Intn(3)])
	case 6:
		return bcall("recurse", []*Q{opt(), step()}[r.Intn(2)], small())
	case 7, 8:
		return bcall("first", gens())
	case 9:
		return bcall("isempty", gens())
	case 10:
		return bcall([]string{"all", "any"}[r.Intn(2)], gens(), small())
	case 11:
		return bcall([]string{"all", "any"}[r.Intn(2)], small())
	case 12:
		return bcall([]string{"all", "any"}[r.Intn(2)])
	case 13:
		return bcall("while", bin("lt", id(), c(3)), bin("add", id(), c(1)))
	case 14:
		return bcall("until", bin("ge", id(), c(3)), bin("add", id(), c(1)))
	case 15:
		return bcall([]string{"first", "last", "not"}[r.Intn(3)])
	case 16:
		return bcall([]string{"values", "nulls", "to_entries", "to_entries", "arrays", "objects", "booleans", "numbers", "strings"}[r.Intn(9)])
	case 17:
		return bcall("nth", []*Q{c(0), c(1), {K: "comma", A: c(1), B: c(0)}, small()}[r.Intn(4)])
	case 18:
		return bcall("combinations")
	case 19:
		cnt := []*Q{c(0), c(1), c(2), c(3), c(-1), small()}[r.Intn(6)]
		return bcall([]string{"limit", "limit", "skip", "nth"}[r.Intn(4)], cnt, gens())
	}
	return bcall("map", bcall("select", small()))
}

func randBuiltinProg(r *Rng) *Q {
	pipe := func(a, b *Q) *Q { return &Q{K: "pipe", A: a, B: b} }
	b := func(s scope) *Q { return randBuiltinCall(r, s) }
	switch r.Intn(8) {
	case 0:
		return &Q{K: "arr", A: b(scope{})}
	case 1:
		return pipe(randQ(r, 1+r.Intn(4), scope{}), b(scope{}))
	case 2:
		return pipe(b(scope{}), randQ(r, 1+r.Intn(4), scope{}))
	case 3:
		// the first use is inside a function body (the definition is compiled there), the second one outside
		x := b(scope{})
		y := &Q{K: "callf", N: x.N, Args: x.Args}
		if r.Chance(1, 2) {
			y = b(scope{})
		}
		return &Q{K: "def", N: 0, A: x, B: &Q{K: "comma", A: &Q{K: "callf", N: 0}, B: y}}
	case 4:
		return &Q{K: "comma", A: b(scope{}), B: b(scope{})}
	case 5:
		// an argument closure that captures a variable
		s := scope{}.withVar(0)
		return &Q{K: "bind", A: randQ(r, 1+r.Intn(3), scope{}), N: 0, B: b(s)}
	case 6:
		return &Q{K: "try", A: b(scope{}), B: &Q{K: "c", V: 9}}
	}
	return pipe(b(scope{}), b(scope{}))
}
