// AST transport for C09c: gojq.Query (exported fields of /repo/query.go) -> the s-expression read by
// coq/sem/AstDecode.v (copy of harness/sem/ast.go; the number VALUE, which is not part of Go's AST, is always
// printed as (i 0)), plus the module metadata (Query.Meta, Import.Meta: ConstObject) read by coq/c09/FullAst.v:
//
//	(prog <constobject|_> (<constobject|_> ...) <query>)
//	constterm = (o ((<hexkey> <hexkeystring> <constterm>) ...)) | (a (<constterm> ...)) | (n <hex>) | (s <hex>) | null | true | false
package main

import (
	"fmt"
	"strings"

	. "verifharness/hlib"

	"github.com/itchyny/gojq"
)

var opNames = map[gojq.Operator]string{
	gojq.OpPipe: "pipe", gojq.OpComma: "comma", gojq.OpAdd: "add", gojq.OpSub: "sub", gojq.OpMul: "mul",
	gojq.OpDiv: "div", gojq.OpMod: "mod", gojq.OpEq: "eq", gojq.OpNe: "ne", gojq.OpGt: "gt", gojq.OpLt: "lt",
	gojq.OpGe: "ge", gojq.OpLe: "le", gojq.OpAnd: "and", gojq.OpOr: "or", gojq.OpAlt: "alt",
	gojq.OpAssign: "assign", gojq.OpModify: "modify", gojq.OpUpdateAdd: "uadd", gojq.OpUpdateSub: "usub",
	gojq.OpUpdateMul: "umul", gojq.OpUpdateDiv: "udiv", gojq.OpUpdateMod: "umod", gojq.OpUpdateAlt: "ualt",
}

var opCoq = map[gojq.Operator]string{
	gojq.OpPipe: "OpPipe", gojq.OpComma: "OpComma", gojq.OpAdd: "OpAdd", gojq.OpSub: "OpSub", gojq.OpMul: "OpMul",
	gojq.OpDiv: "OpDiv", gojq.OpMod: "OpMod", gojq.OpEq: "OpEq", gojq.OpNe: "OpNe", gojq.OpGt: "OpGt", gojq.OpLt: "OpLt",
	gojq.OpGe: "OpGe", gojq.OpLe: "OpLe", gojq.OpAnd: "OpAnd", gojq.OpOr: "OpOr", gojq.OpAlt: "OpAlt",
	gojq.OpAssign: "OpAssign", gojq.OpModify: "OpModify", gojq.OpUpdateAdd: "OpUpdateAdd", gojq.OpUpdateSub: "OpUpdateSub",
	gojq.OpUpdateMul: "OpUpdateMul", gojq.OpUpdateDiv: "OpUpdateDiv", gojq.OpUpdateMod: "OpUpdateMod", gojq.OpUpdateAlt: "OpUpdateAlt",
}

// astEnc renders an AST in one of two concrete syntaxes.
type astEnc struct {
	coq bool
	sb  strings.Builder
}

func (e *astEnc) w(s string) { e.sb.WriteString(s) }

func (e *astEnc) bytes(s string) {
	if !e.coq {
		e.w(Hexs([]byte(s)))
		return
	}
	plain := true
	for i := 0; i < len(s); i++ {
		if s[i] < 32 || s[i] > 126 || s[i] == '"' {
			plain = false
		}
	}
	if plain {
		e.w(`(b "` + s + `")`)
		return
	}
	e.w("[")
	for i := 0; i < len(s); i++ {
		if i > 0 {
			e.w("; ")
		}
		fmt.Fprintf(&e.sb, "%d%%N", s[i])
	}
	e.w("]")
}

func (e *astEnc) boolean(b bool) {
	switch {
	case e.coq && b:
		e.w("true")
	case e.coq:
		e.w("false")
	case b:
		e.w("t")
	default:
		e.w("f")
	}
}

// list renders a sequence; f renders element i.
func (e *astEnc) list(n int, f func(i int)) {
	if e.coq {
		e.w("[")
		for i := 0; i < n; i++ {
			if i > 0 {
				e.w("; ")
			}
			f(i)
		}
		e.w("]")
		return
	}
	e.w("(")
	for i := 0; i < n; i++ {
		if i > 0 {
			e.w(" ")
		}
		f(i)
	}
	e.w(")")
}

func (e *astEnc) opt(present bool, f func()) {
	if !present {
		if e.coq {
			e.w("None")
		} else {
			e.w("_")
		}
		return
	}
	if e.coq {
		e.w("(Some ")
		f()
		e.w(")")
	} else {
		f()
	}
}

// node renders a constructor application: (tag a b c) / (Ctor a b c).
func (e *astEnc) node(sexpTag, coqCtor string, fields ...func()) {
	e.w("(")
	head := sexpTag
	if e.coq {
		head = coqCtor
	}
	e.w(head)
	first := head == ""
	for _, f := range fields {
		if !first {
			e.w(" ")
		}
		first = false
		f()
	}
	e.w(")")
}

func (e *astEnc) query(q *gojq.Query) {
	e.node("q", "Query",
		func() {
			e.list(len(q.Imports), func(i int) {
				im := q.Imports[i]
				e.node("", "Import", func() { e.bytes(im.ImportPath) }, func() { e.bytes(im.ImportAlias) }, func() { e.bytes(im.IncludePath) })
			})
		},
		func() { e.list(len(q.FuncDefs), func(i int) { e.funcdef(q.FuncDefs[i]) }) },
		func() { e.opt(q.Term != nil, func() { e.term(q.Term) }) },
		func() { e.opt(q.Left != nil, func() { e.query(q.Left) }) },
		func() {
			e.opt(q.Op != 0, func() {
				if e.coq {
					e.w(opCoq[q.Op])
				} else {
					e.w(opNames[q.Op])
				}
			})
		},
		func() { e.opt(q.Right != nil, func() { e.query(q.Right) }) },
		func() { e.list(len(q.Patterns), func(i int) { e.pattern(q.Patterns[i]) }) },
	)
}

func (e *astEnc) funcdef(fd *gojq.FuncDef) {
	e.node("", "FuncDef", func() { e.bytes(fd.Name) },
		func() { e.list(len(fd.Args), func(i int) { e.bytes(fd.Args[i]) }) },
		func() { e.query(fd.Body) })
}

func (e *astEnc) numval(text string) {
	if e.coq {
		e.w("(NInt 0)")
	} else {
		e.w("(i 0)")
	}
}

func (e *astEnc) term(t *gojq.Term) {
	sfx := func() { e.list(len(t.SuffixList), func(i int) { e.suffix(t.SuffixList[i]) }) }
	kind := func() {
		switch t.Type {
		case gojq.TermTypeIdentity:
			e.w(pick(e.coq, "TIdentity", "identity"))
		case gojq.TermTypeRecurse:
			e.w(pick(e.coq, "TRecurse", "recurse"))
		case gojq.TermTypeNull:
			e.w(pick(e.coq, "TNull", "null"))
		case gojq.TermTypeTrue:
			e.w(pick(e.coq, "TTrue", "true"))
		case gojq.TermTypeFalse:
			e.w(pick(e.coq, "TFalse", "false"))
		}
	}
	// in the s-expression the kind tag and payload are flattened into the term node
	payload := func(tag, ctor string, fields ...func()) {
		if e.coq {
			e.node("", "Term", func() { e.node("", ctor, fields...) }, sfx)
		} else {
			e.node(tag, "", append(fields, sfx)...)
		}
	}
	switch t.Type {
	case gojq.TermTypeIdentity, gojq.TermTypeRecurse, gojq.TermTypeNull, gojq.TermTypeTrue, gojq.TermTypeFalse:
		if e.coq {
			e.node("", "Term", kind, sfx)
		} else {
			e.w("(")
			kind()
			e.w(" ")
			sfx()
			e.w(")")
		}
	case gojq.TermTypeIndex:
		payload("index", "TIndex", func() { e.index(t.Index) })
	case gojq.TermTypeFunc:
		payload("func", "TFunc", func() {
			e.node("", "Func", func() { e.bytes(t.Func.Name) },
				func() { e.list(len(t.Func.Args), func(i int) { e.query(t.Func.Args[i]) }) })
		})
	case gojq.TermTypeObject:
		payload("object", "TObject", func() {
			e.list(len(t.Object.KeyVals), func(i int) {
				kv := t.Object.KeyVals[i]
				e.node("", "ObjectKeyVal", func() { e.bytes(kv.Key) },
					func() { e.opt(kv.KeyString != nil, func() { e.jstring(kv.KeyString) }) },
					func() { e.opt(kv.KeyQuery != nil, func() { e.query(kv.KeyQuery) }) },
					func() { e.opt(kv.Val != nil, func() { e.query(kv.Val) }) })
			})
		})
	case gojq.TermTypeArray:
		payload("array", "TArray", func() { e.opt(t.Array.Query != nil, func() { e.query(t.Array.Query) }) })
	case gojq.TermTypeNumber:
		payload("number", "TNumber", func() { e.bytes(t.Number) }, func() { e.numval(t.Number) })
	case gojq.TermTypeUnary:
		payload("unary", "TUnary", func() { e.w(pick(e.coq, opCoq[t.Unary.Op], opNames[t.Unary.Op])) }, func() { e.term(t.Unary.Term) })
	case gojq.TermTypeFormat:
		payload("format", "TFormat", func() { e.bytes(t.Format) }, func() { e.opt(t.Str != nil, func() { e.jstring(t.Str) }) })
	case gojq.TermTypeString:
		payload("string", "TString", func() { e.jstring(t.Str) })
	case gojq.TermTypeIf:
		payload("if", "TIf", func() { e.query(t.If.Cond) }, func() { e.query(t.If.Then) },
			func() {
				e.list(len(t.If.Elif), func(i int) {
					el := t.If.Elif[i]
					if e.coq {
						e.w("(")
						e.query(el.Cond)
						e.w(", ")
						e.query(el.Then)
						e.w(")")
					} else {
						e.node("", "", func() { e.query(el.Cond) }, func() { e.query(el.Then) })
					}
				})
			},
			func() { e.opt(t.If.Else != nil, func() { e.query(t.If.Else) }) })
	case gojq.TermTypeTry:
		payload("try", "TTry", func() { e.query(t.Try.Body) }, func() { e.opt(t.Try.Catch != nil, func() { e.query(t.Try.Catch) }) })
	case gojq.TermTypeReduce:
		payload("reduce", "TReduce", func() { e.query(t.Reduce.Query) }, func() { e.pattern(t.Reduce.Pattern) },
			func() { e.query(t.Reduce.Start) }, func() { e.query(t.Reduce.Update) })
	case gojq.TermTypeForeach:
		payload("foreach", "TForeach", func() { e.query(t.Foreach.Query) }, func() { e.pattern(t.Foreach.Pattern) },
			func() { e.query(t.Foreach.Start) }, func() { e.query(t.Foreach.Update) },
			func() { e.opt(t.Foreach.Extract != nil, func() { e.query(t.Foreach.Extract) }) })
	case gojq.TermTypeLabel:
		payload("label", "TLabel", func() { e.bytes(t.Label.Ident) }, func() { e.query(t.Label.Body) })
	case gojq.TermTypeBreak:
		payload("break", "TBreak", func() { e.bytes(t.Break) })
	case gojq.TermTypeQuery:
		payload("query", "TQuery", func() { e.query(t.Query) })
	default:
		panic(fmt.Sprintf("term type %d", t.Type))
	}
}

func pick(c bool, a, b string) string {
	if c {
		return a
	}
	return b
}

func (e *astEnc) index(x *gojq.Index) {
	e.node("", "Index", func() { e.bytes(x.Name) },
		func() { e.opt(x.Str != nil, func() { e.jstring(x.Str) }) },
		func() { e.opt(x.Start != nil, func() { e.query(x.Start) }) },
		func() { e.opt(x.End != nil, func() { e.query(x.End) }) },
		func() { e.boolean(x.IsSlice) })
}

func (e *astEnc) jstring(s *gojq.String) {
	e.node("", "JString", func() { e.bytes(s.Str) },
		func() {
			e.opt(s.Queries != nil, func() { e.list(len(s.Queries), func(i int) { e.query(s.Queries[i]) }) })
		})
}

func (e *astEnc) suffix(s *gojq.Suffix) {
	e.node("", "Suffix", func() { e.opt(s.Index != nil, func() { e.index(s.Index) }) },
		func() { e.boolean(s.Iter) }, func() { e.boolean(s.Optional) })
}

func (e *astEnc) pattern(p *gojq.Pattern) {
	e.node("", "Pattern", func() { e.bytes(p.Name) },
		func() { e.list(len(p.Array), func(i int) { e.pattern(p.Array[i]) }) },
		func() {
			e.list(len(p.Object), func(i int) {
				po := p.Object[i]
				e.node("", "PatternObject", func() { e.bytes(po.Key) },
					func() { e.opt(po.KeyString != nil, func() { e.jstring(po.KeyString) }) },
					func() { e.opt(po.KeyQuery != nil, func() { e.query(po.KeyQuery) }) },
					func() { e.opt(po.Val != nil, func() { e.pattern(po.Val) }) })
			})
		})
}

func sexpQuery(q *gojq.Query) string {
	e := &astEnc{}
	e.query(q)
	return e.sb.String()
}

func (e *astEnc) constTerm(c *gojq.ConstTerm) {
	switch {
	case c.Object != nil:
		e.constObject(c.Object)
	case c.Array != nil:
		e.w("(a ")
		e.list(len(c.Array.Elems), func(i int) { e.constTerm(c.Array.Elems[i]) })
		e.w(")")
	case c.Number != "":
		e.w("(n " + Hexs([]byte(c.Number)) + ")")
	case c.Null:
		e.w("null")
	case c.True:
		e.w("true")
	case c.False:
		e.w("false")
	default:
		e.w("(s " + Hexs([]byte(c.Str)) + ")")
	}
}

func (e *astEnc) constObject(o *gojq.ConstObject) {
	e.w("(o ")
	e.list(len(o.KeyVals), func(i int) {
		kv := o.KeyVals[i]
		e.w("(" + Hexs([]byte(kv.Key)) + " " + Hexs([]byte(kv.KeyString)) + " ")
		e.constTerm(kv.Val)
		e.w(")")
	})
	e.w(")")
}

// sexpProg renders what gojq.Parse returned, module metadata included.
func sexpProg(q *gojq.Query) string {
	e := &astEnc{}
	e.w("(prog ")
	e.opt(q.Meta != nil, func() { e.constObject(q.Meta) })
	e.w(" ")
	e.list(len(q.Imports), func(i int) {
		m := q.Imports[i].Meta
		e.opt(m != nil, func() { e.constObject(m) })
	})
	e.w(" ")
	e.query(q)
	e.w(")")
	return e.sb.String()
}
